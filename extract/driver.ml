(* driver.ml - untrusted glue around the extracted Coq definitions (flexv.ml).
   Reads one case file (S-expressions) and prints one result line per query.
   The verdict of a lock-step query is the value of the extracted, proved
   [check_view]; the search that proposes the relation is untrusted. *)
open Flexv

(* ---------- S-expressions ---------- *)
type sx = A of string | L of sx list

let parse_sx (s : string) : sx list =
  let n = String.length s in
  let pos = ref 0 in
  let rec skip () =
    if !pos < n then
      match s.[!pos] with
      | ' ' | '\n' | '\t' | '\r' -> incr pos; skip ()
      | ';' -> while !pos < n && s.[!pos] <> '\n' do incr pos done; skip ()
      | _ -> ()
  in
  let rec one () =
    skip ();
    if !pos >= n then failwith "eof";
    if s.[!pos] = '(' then begin
      incr pos;
      let items = ref [] in
      let rec loop () =
        skip ();
        if !pos >= n then failwith "unclosed";
        if s.[!pos] = ')' then incr pos
        else begin items := one () :: !items; loop () end
      in
      loop (); L (List.rev !items)
    end else begin
      let st = !pos in
      while !pos < n && (match s.[!pos] with ' ' | '\n' | '\t' | '\r' | '(' | ')' -> false | _ -> true) do incr pos done;
      A (String.sub s st (!pos - st))
    end
  in
  let res = ref [] in
  (try while true do skip (); if !pos >= n then raise Exit; res := one () :: !res done with Exit -> ());
  List.rev !res

(* ---------- numbers ---------- *)
let rec pos_of_int (i : int) : positive =
  if i <= 1 then XH else if i land 1 = 0 then XO (pos_of_int (i lsr 1)) else XI (pos_of_int (i lsr 1))
let n_of_int i : n = if i <= 0 then N0 else Npos (pos_of_int i)
let z_of_int i : z = if i = 0 then Z0 else if i > 0 then Zpos (pos_of_int i) else Zneg (pos_of_int (-i))
let rec nat_of_int i : nat = if i <= 0 then O else S (nat_of_int (i - 1))
let rec int_of_pos = function XH -> 1 | XO p -> 2 * int_of_pos p | XI p -> 2 * int_of_pos p + 1
let int_of_n = function N0 -> 0 | Npos p -> int_of_pos p
let int_of_z = function Z0 -> 0 | Zpos p -> int_of_pos p | Zneg p -> - (int_of_pos p)
let int_of_nat (x : nat) = let rec go acc = function O -> acc | S y -> go (acc + 1) y in go 0 x

let atom = function A s -> s | L _ -> failwith "atom expected"
let ai x = int_of_string (atom x)
let ab x = ai x <> 0
let items = function L l -> l | A _ -> failwith "list expected"
let field (name : string) (l : sx list) : sx list =
  let rec go = function
    | L (A k :: rest) :: _ when k = name -> rest
    | _ :: t -> go t
    | [] -> failwith ("missing field " ^ name)
  in go l
let field_opt name l = try Some (field name l) with Failure _ -> None

(* ---------- patterns ---------- *)
let citem_of = function
  | L [A "ch"; c] -> CChar (n_of_int (ai c))
  | L [A "rg"; lo; hi] -> CRange (n_of_int (ai lo), n_of_int (ai hi))
  | L [A "px"; neg; k] -> CPosix (ab neg, n_of_int (ai k))
  | _ -> failwith "citem"
let rec cexpr_of = function
  | L [A "set"; neg; L its] -> CSet (ab neg, List.map citem_of its)
  | L [A "diff"; a; b] -> CDiff (cexpr_of a, cexpr_of b)
  | L [A "union"; a; b] -> CUnion (cexpr_of a, cexpr_of b)
  | _ -> failwith "cexpr"
let rec pat_of = function
  | L [A "c"; c] -> PChar (n_of_int (ai c))
  | A "any" -> PAny
  | L [A "cls"; e] -> PCls (cexpr_of e)
  | L [A "str"; L bs] -> PStr (List.map (fun b -> n_of_int (ai b)) bs)
  | L [A "cat"; a; b] -> PCat (pat_of a, pat_of b)
  | L [A "alt"; a; b] -> PAlt (pat_of a, pat_of b)
  | L [A "star"; a] -> PStar (pat_of a)
  | L [A "plus"; a] -> PPlus (pat_of a)
  | L [A "opt"; a] -> POpt (pat_of a)
  | L [A "rep"; a; k] -> PRep (pat_of a, nat_of_int (ai k))
  | L [A "repmin"; a; k] -> PRepMin (pat_of a, nat_of_int (ai k))
  | L [A "reprange"; a; k; m] -> PRepRange (pat_of a, nat_of_int (ai k), nat_of_int (ai m))
  | L [A "flags"; a1; a2; a3; a4; p] -> PFlags (ab a1, ab a2, ab a3, ab a4, pat_of p)
  | _ -> failwith "pat"

let rule_of_sx (x : sx) : rule =
  let f = items x in
  let scs = match field "scs" f with
    | [A "none"] -> None
    | [L l] -> Some (List.map (fun v -> n_of_int (ai v)) l)
    | _ -> failwith "scs" in
  let trail = match field "trail" f with
    | [A "none"] -> None
    | [p] -> Some (pat_of p)
    | _ -> failwith "trail" in
  let fl = match field "fl" f with [i; s] -> { f_i = ab i; f_s = ab s } | _ -> failwith "fl" in
  { r_star = ab (List.hd (field "star" f)); r_scs = scs; r_bol = ab (List.hd (field "bol" f));
    r_head = pat_of (List.hd (field "head" f)); r_trail = trail; r_fl = fl }

let program_of (c : sx list) : program =
  { p_csize = n_of_int (ai (List.hd (field "csize" c)));
    p_excl = List.map (fun v -> n_of_int (ai v)) (items (List.hd (field "excl" c)));
    p_nsc = n_of_int (ai (List.hd (field "nsc" c)));
    p_rules = List.map rule_of_sx (items (List.hd (field "rules" c))) }

(* ---------- tables ---------- *)
let arr_of (x : sx) : arr = arr_of_list (List.map (fun v -> z_of_int (ai v)) (items x))
let rtab_of (t : sx list) : rtab =
  let p name = ai (List.hd (field name t)) in
  let pb name = p name <> 0 in
  let a name = arr_of (List.hd (field name t)) in
  let ao name = match field_opt name t with Some [x] -> Some (arr_of x) | _ -> None in
  let empty = arr_of_list [] in
  let tb = { c_accept = a "accept";
             c_ec = (match ao "ec" with Some x -> x | None -> empty);
             c_meta = (match ao "meta" with Some x -> x | None -> empty);
             c_base = a "base"; c_def = a "def"; c_nxt = a "nxt"; c_chk = a "chk";
             c_useecs = pb "useecs"; c_usemecs = pb "usemecs";
             c_lastdfa = z_of_int (p "lastdfa"); c_jambase = z_of_int (p "jambase");
             c_nul_ec = z_of_int (p "nul_ec"); c_interactive = pb "interactive"; c_bol = pb "bol" } in
  { r_c = tb; r_acclist = a "acclist" }

let view_of (t : sx list) : view * (unit -> string option) =
  let kind = atom (List.hd (field "kind" t)) in
  let p name = ai (List.hd (field name t)) in
  let pb name = p name <> 0 in
  let a name = arr_of (List.hd (field name t)) in
  let ao name = match field_opt name t with Some [x] -> Some (arr_of x) | _ -> None in
  let empty = arr_of_list [] in
  match kind with
  | "compressed" ->
    let tb = { c_accept = a "accept";
               c_ec = (match ao "ec" with Some x -> x | None -> empty);
               c_meta = (match ao "meta" with Some x -> x | None -> empty);
               c_base = a "base"; c_def = a "def"; c_nxt = a "nxt"; c_chk = a "chk";
               c_useecs = pb "useecs"; c_usemecs = pb "usemecs";
               c_lastdfa = z_of_int (p "lastdfa"); c_jambase = z_of_int (p "jambase");
               c_nul_ec = z_of_int (p "nul_ec"); c_interactive = pb "interactive"; c_bol = pb "bol" } in
    (cview tb, fun () -> None)
  | "full" ->
    let tb = { f_nxt = a "nxt"; f_rowlen = z_of_int (p "rowlen"); f_accept = a "accept";
               f_nultrans = ao "nultrans"; f_ec = ao "ec"; f_nul_ec = z_of_int (p "nul_ec");
               f_lastdfa = z_of_int (p "lastdfa"); f_bol = pb "bol" } in
    let wf () =
      let bad = ref None in
      for s = 1 to p "lastdfa" do
        if !bad = None && not (frow_ok tb (z_of_int 0) (z_of_int s)) then bad := Some (Printf.sprintf "row %d has a non-positive entry different from -%d" s s)
      done; !bad in
    (fview tb, wf)
  | "reject" -> (rview (rtab_of t), fun () -> None)
  | "fullspd" ->
    let tb = { s_verify = a "verify"; s_nxt = a "nxt"; s_starts = a "starts";
               s_ec = ao "ec"; s_nul_ec = z_of_int (p "nul_ec"); s_bol = pb "bol" } in
    (sview tb, fun () -> None)
  | k -> failwith ("table kind " ^ k)

(* ---------- untrusted search for a simulation relation ---------- *)
let ist_str = function Bad -> "Bad" | Jam -> "Jam" | St s -> string_of_int (int_of_z s)

exception Mismatch of int list * string
exception OutOfFuel

let search_gen (stepf : ist -> byte -> ist) (okf : sstate -> ist -> bool)
    (descr : sstate -> ist -> string) (al : byte list) (s0 : sstate) (i0 : ist) (fuel : int) :
  (sstate, ist) relmap * int =
  (* key -> (ist, list of spec states) *)
  let tbl : (int, ist * sstate list ref) Hashtbl.t = Hashtbl.create 997 in
  let key i = int_of_pos (ikey i) in
  let q = Queue.create () in
  let count = ref 0 in
  let add s i path =
    let k = key i in
    let cell = match Hashtbl.find_opt tbl k with
      | Some (_, c) -> c
      | None -> let c = ref [] in Hashtbl.add tbl k (i, c); c in
    if not (List.exists (fun s' -> seqb s s') !cell) then begin
      cell := s :: !cell; incr count;
      if !count > fuel then raise OutOfFuel;
      Queue.add (s, i, path) q
    end in
  add s0 i0 [];
  while not (Queue.is_empty q) do
    let (s, i, path) = Queue.pop q in
    if not (okf s i) then raise (Mismatch (List.rev path, descr s i));
    List.iter (fun b -> add (sstep s b) (stepf i b) (int_of_n b :: path)) al
  done;
  let m = Hashtbl.fold (fun k (i, c) acc -> PositiveMap.add (pos_of_int k) (i, !c) acc) tbl PositiveMap.empty in
  (m, !count)

let search (v : view) (al : byte list) (s0 : sstate) (i0 : ist) (fuel : int) =
  let descr s i =
    let sob = String.concat "," (List.map (fun x -> string_of_int (int_of_n x)) (sobs s)) in
    let iacc = match v.v_acc i with Some z -> string_of_int (int_of_z z) | None -> "undef" in
    Printf.sprintf "impl_state=%s impl_acc=%s impl_stop=%b spec_acc=[%s] spec_dead=%b"
      (ist_str i) iacc (v.v_stop i) sob (sdead al s) in
  search_gen v.v_step (ok v al) descr al s0 i0 fuel


(* the same search with keys that may be arbitrarily large positives (bit sets of NFA states) *)
let rec pos_key (p : positive) (b : Buffer.t) : unit =
  match p with XH -> Buffer.add_char b '1' | XO q -> Buffer.add_char b 'o'; pos_key q b | XI q -> Buffer.add_char b 'i'; pos_key q b

let search_big (stepf : ist -> byte -> ist) (okf : sstate -> ist -> bool)
    (descr : sstate -> ist -> string) (al : byte list) (s0 : sstate) (i0 : ist) (fuel : int) :
  (sstate, ist) relmap * int =
  let tbl : (string, ist * sstate list ref) Hashtbl.t = Hashtbl.create 997 in
  let key i = let b = Buffer.create 64 in pos_key (ikey i) b; Buffer.contents b in
  let q = Queue.create () in
  let count = ref 0 in
  let add s i path =
    let k = key i in
    let cell = match Hashtbl.find_opt tbl k with
      | Some (_, c) -> c
      | None -> let c = ref [] in Hashtbl.add tbl k (i, c); c in
    if not (List.exists (fun s' -> seqb s s') !cell) then begin
      cell := s :: !cell; incr count;
      if !count > fuel then raise OutOfFuel;
      Queue.add (s, i, path) q
    end in
  add s0 i0 [];
  while not (Queue.is_empty q) do
    let (s, i, path) = Queue.pop q in
    if not (okf s i) then raise (Mismatch (List.rev path, descr s i));
    List.iter (fun b -> add (sstep s b) (stepf i b) (int_of_n b :: path)) al
  done;
  let m = Hashtbl.fold (fun _ (i, c) acc -> PositiveMap.add (ikey i) (i, !c) acc) tbl PositiveMap.empty in
  (m, !count)

(* the NFA printed by flex -T: (nfa (start n) (nodes (sym t1 t2 acc) ...) (ccls (neg (bytes ...)) ...)) *)
let nfa_of (t : sx list) : nfa =
  let node_of = function
    | L [sym; t1; t2; acc] ->
      let v = ai sym in
      { n_sym = (if v = 257 then NEps else if v < 0 then NCcl (n_of_int (- v)) else NChr (n_of_int v));
        n_t1 = n_of_int (ai t1); n_t2 = n_of_int (ai t2); n_acc = n_of_int (ai acc) }
    | _ -> failwith "nfa node" in
  let ccl_of = function
    | L [neg; L bs] -> (ab neg, set_of (List.map (fun b -> n_of_int (ai b)) bs))
    | _ -> failwith "nfa ccl" in
  { n_nodes = List.map node_of (field "nodes" t);
    n_ccls = List.map ccl_of (field "ccls" t);
    n_start = n_of_int (ai (List.hd (field "start" t))) }

let policy_of = function
  | L [r; A "never"] -> (ai r, RejNever)
  | L [r; A "always"] -> (ai r, RejAlways)
  | L [r; A "lengt"; n] -> (ai r, RejLenGt (nat_of_int (ai n)))
  | L [r; A "first"; n] -> (ai r, RejFirst (nat_of_int (ai n)))
  | _ -> failwith "policy"

let adj_of (l : sx list) : n -> (bool * nat) option =
  let tbl = List.map (function
      | L [r; A "head"; k] -> (ai r, (true, nat_of_int (ai k)))
      | L [r; A "tail"; k] -> (ai r, (false, nat_of_int (ai k)))
      | _ -> failwith "adj") l in
  fun r -> List.assoc_opt (int_of_n r) tbl

let bytes_of (x : sx) : byte list = List.map (fun v -> n_of_int (ai v)) (items x)
let toks_str (l : (n * nat) list) =
  String.concat " " (List.map (fun (r, k) -> Printf.sprintf "%d:%d" (int_of_n r) (int_of_nat k)) l)

let () =
  let file = Sys.argv.(1) in
  let ic = open_in_bin file in
  let len = in_channel_length ic in
  let txt = really_input_string ic len in
  close_in ic;
  let top = parse_sx txt in
  let c = match top with [L (A "case" :: c)] -> c | _ -> failwith "case expected" in
  let prog = program_of c in
  let al = alphabet prog.p_csize in
  let views = List.filter_map (function L (A "tables" :: t) -> Some t | _ -> None) c in
  let rtabs = List.filter_map (fun t -> if atom (List.hd (field "kind" t)) = "reject"
                                then Some (atom (List.hd (field "name" t)), rtab_of t) else None) views in
  let views = List.map (fun t -> (atom (List.hd (field "name" t)), view_of t)) views in
  let queries = items (List.hd (field "queries" c)) in
  List.iter (fun q ->
      match q with
      | L [A "lockstep"; A vname; sc; bol; fuel] ->
        let (v, wf) = List.assoc vname views in
        let sc = ai sc and bol = ab bol in
        let s0 = spec_start prog (n_of_int sc) bol in
        let i0 = v.v_start (z_of_int (sc - 1)) bol in
        (try
           let (m, cnt) = search v al s0 i0 (ai fuel) in
           let verdict = check_view v al m s0 i0 in
           let wfm = wf () in
           (match wfm with
            | Some msg -> Printf.printf "lockstep %s %d %d WF-FAIL %s\n" vname sc (if bol then 1 else 0) msg
            | None ->
              Printf.printf "lockstep %s %d %d %s pairs=%d\n" vname sc (if bol then 1 else 0)
                (if verdict then "OK" else "CHECK-FAILED") cnt)
         with
         | Mismatch (path, info) ->
           Printf.printf "lockstep %s %d %d MISMATCH input=[%s] %s\n" vname sc (if bol then 1 else 0)
             (String.concat " " (List.map string_of_int path)) info
         | OutOfFuel ->
           Printf.printf "lockstep %s %d %d INCONCLUSIVE fuel\n" vname sc (if bol then 1 else 0))
      | L [A "nfacheck"; fuel] ->
        let nf = nfa_of (field "nfa" c) in
        let v = nview nf in
        let s0 = spec_start prog (n_of_int 1) false in
        let i0 = v.v_start Z0 false in
        let descr s i =
          let sob = String.concat "," (List.map (fun x -> string_of_int (int_of_n x)) (sobs s)) in
          let st = match i with
            | St z -> let x = Z.to_N z in
              Printf.sprintf "nfa_states={%s} nfa_first_rule=%d"
                (String.concat "," (List.map (fun q -> string_of_int (int_of_n q)) (members nf x))) (int_of_n (nacc nf x))
            | Jam -> "nfa_states={} nfa_first_rule=0"
            | Bad -> "nfa-simulation-undefined (malformed dump or closure not reached)" in
          Printf.sprintf "%s spec_rules=[%s] spec_dead=%b" st sob (sdead al s) in
        (try
           let (m, cnt) = search_big v.v_step (ok v al) descr al s0 i0 (ai fuel) in
           let verdict = check_view v al m s0 i0 in
           Printf.printf "nfacheck %s pairs=%d wf=%b\n" (if verdict then "OK" else "CHECK-FAILED") cnt (wf_nfa nf)
         with
         | Mismatch (path, info) ->
           Printf.printf "nfacheck MISMATCH input=[%s] %s\n" (String.concat " " (List.map string_of_int path)) info
         | OutOfFuel -> Printf.printf "nfacheck INCONCLUSIVE fuel\n")
      | L [A "eccheck"] ->
        let nf = nfa_of (field "nfa" c) in
        let d = field "dfa" c in
        let ecl = Array.of_list (List.map (fun v -> n_of_int (ai v)) (field "ec" d)) in
        let ec (b : byte) = let i = int_of_n b in if i < Array.length ecl then ecl.(i) else N0 in
        if ec_consistent nf ec al then Printf.printf "eccheck OK\n"
        else begin
          (* name a pair of bytes of one class that some node tells apart *)
          let bad = ref None in
          List.iter (fun nd ->
              List.iter (fun b ->
                  if !bad = None then begin
                    let r = ec_rep ec al b in
                    if sym_has nf nd.n_sym b <> sym_has nf nd.n_sym r then bad := Some (int_of_n b, int_of_n r)
                  end) al) nf.n_nodes;
          match !bad with
          | Some (b, r) -> Printf.printf "eccheck FAILED bytes=%d,%d share class %d but a transition of the NFA tells them apart\n" b r (int_of_n (ec (n_of_int b)))
          | None -> Printf.printf "eccheck FAILED\n"
        end
      | L [A "dfacheck"; fuel] ->
        let d = field "dfa" c in
        let width = ai (List.hd (field "width" d)) in
        let trans = List.fold_left (fun m x -> match x with
            | L [s; cc; t] -> PositiveMap.add (pos_of_int (ai s * width + ai cc + 1)) (z_of_int (ai t)) m
            | _ -> failwith "dfa trans") PositiveMap.empty (field "trans" d) in
        let acc = List.fold_left (fun m x -> match x with
            | L [s; k] -> PositiveMap.add (pos_of_int (ai s + 1)) (z_of_int (ai k)) m
            | _ -> failwith "dfa acc") PositiveMap.empty (field "acc" d) in
        let dd = { d_width = z_of_int width; d_trans = trans; d_acc = acc; d_ec = arr_of (L (field "ec" d)) } in
        let v = dview dd in
        let s0 = spec_start prog (n_of_int 1) false in
        let i0 = v.v_start Z0 false in
        let descr s i =
          let sob = String.concat "," (List.map (fun x -> string_of_int (int_of_n x)) (sobs s)) in
          let iacc = match v.v_acc i with Some z -> string_of_int (int_of_z z) | None -> "undef" in
          Printf.sprintf "dfa_state=%s dfa_acc=%s spec_rules=[%s] spec_dead=%b" (ist_str i) iacc sob (sdead al s) in
        (try
           let (m, cnt) = search_gen v.v_step (ok v al) descr al s0 i0 (ai fuel) in
           let verdict = check_view v al m s0 i0 in
           Printf.printf "dfacheck %s pairs=%d\n" (if verdict then "OK" else "CHECK-FAILED") cnt
         with
         | Mismatch (path, info) ->
           Printf.printf "dfacheck MISMATCH input=[%s] %s\n" (String.concat " " (List.map string_of_int path)) info
         | OutOfFuel -> Printf.printf "dfacheck INCONCLUSIVE fuel\n")
      | L [A "lockstep_r"; A vname; L vars; sc; bol; fuel] ->
        let t = List.assoc vname rtabs in
        let vars = List.map (fun v -> n_of_int (ai v)) vars in
        let sc = ai sc and bol = ab bol in
        let s0 = spec_start_r prog vars (n_of_int sc) bol in
        let i0 = St (start_of t.r_c.c_bol (z_of_int (sc - 1)) bol) in
        let descr s i =
          let sob = String.concat "," (List.map (fun x -> string_of_int (int_of_n x)) (sobs s)) in
          let il = match raccl t i with Some l -> String.concat "," (List.map (fun z -> string_of_int (int_of_z z)) l) | None -> "undef" in
          Printf.sprintf "impl_state=%s impl_acclist=[%s] impl_stop=%b spec_acc=[%s] spec_dead=%b"
            (ist_str i) il (cstop t.r_c i) sob (sdead al s) in
        (try
           let (m, cnt) = search_gen (cstep t.r_c) (ok_r t vars al) descr al s0 i0 (ai fuel) in
           let verdict = check_rview t vars al m s0 i0 in
           Printf.printf "lockstep %s %d %d %s pairs=%d\n" vname sc (if bol then 1 else 0)
             (if verdict then "OK" else "CHECK-FAILED") cnt
         with
         | Mismatch (path, info) ->
           Printf.printf "lockstep %s %d %d MISMATCH input=[%s] %s\n" vname sc (if bol then 1 else 0)
             (String.concat " " (List.map string_of_int path)) info
         | OutOfFuel ->
           Printf.printf "lockstep %s %d %d INCONCLUSIVE fuel\n" vname sc (if bol then 1 else 0))
      | L [A "rejtokens"; A which; sc; bol; inp; L pols; L adj] ->
        let w = bytes_of inp in
        let pols = List.map policy_of pols in
        let pol r = match List.assoc_opt (int_of_n r) pols with Some p -> p | None -> RejNever in
        let fuel = nat_of_int (List.length w + 1) in
        let t = if which = "spec" then spec_rej_tokens fuel prog (n_of_int (ai sc)) pol (ab bol) w
          else view_rej_tokens fuel (List.assoc which rtabs) (adj_of adj) (n_of_int (ai sc)) pol (ab bol) w in
        Printf.printf "rejtokens %s %s\n" which (toks_str t)
      | L [A "rejtokens_tc"; A which; sc; bol; inp; L pols; L adj] ->
        let w = bytes_of inp in
        let pols = List.map policy_of pols in
        let pol r = match List.assoc_opt (int_of_n r) pols with Some p -> p | None -> RejNever in
        let fuel = nat_of_int (List.length w + 1) in
        let t = view_rej_tokens_tc fuel (List.assoc which rtabs) (adj_of adj) (n_of_int (ai sc)) pol (ab bol) w in
        Printf.printf "rejtokens %s %s\n" which (toks_str t)
      | L [A "rejtokens_ln"; sc; bol; inp; L pols] ->
        let w = bytes_of inp in
        let pols = List.map policy_of pols in
        let pol r = match List.assoc_opt (int_of_n r) pols with Some p -> p | None -> RejNever in
        let fuel = nat_of_int (List.length w + 1) in
        let t = spec_rej_tokens_ln fuel prog (n_of_int (ai sc)) pol (ab bol) w in
        Printf.printf "rejtokens_ln %s\n"
          (String.concat " " (List.map (fun ((r, h), l) -> Printf.sprintf "%d:%d:%d" (int_of_n r) (int_of_nat h) (int_of_nat l)) t))
      | L [A "stacktrace"; L ops] ->
        (* ops: a positive number pushes that buffer, 0 pops; answer: top:max after every operation *)
        let ks = List.map (fun v -> let n = ai v in if n > 0 then KPush (nat_of_int n) else KPop) ops in
        let tr = trace bs_init ks in
        Printf.printf "stacktrace %s\n" (String.concat " " (List.map (fun (t, m) -> Printf.sprintf "%d:%d" (int_of_nat t) (int_of_nat m)) tr))
      | L [A "eolcheck"; L flags] ->
        (* flags: yy_rule_can_match_eol[1 .. number of rules + 1] (the last one belongs to the default rule) *)
        let fl = List.map (fun v -> ai v <> 0) flags in
        let nr = List.length prog.p_rules in
        let user = List.filteri (fun i _ -> i < nr) fl in
        let ok = eol_ok prog.p_csize prog.p_rules user in
        let missing = List.concat (List.mapi (fun i r ->
            if can_nl (head_re prog.p_csize r) && not (try List.nth fl i with _ -> false) then [string_of_int (i + 1)] else []) prog.p_rules) in
        let dflt = (try List.nth fl nr with _ -> false) in
        let wit = List.concat (List.mapi (fun i r ->
            if can_nl (head_re prog.p_csize r) && not (try List.nth fl i with _ -> false) then
              (match nl_word (head_re prog.p_csize r) with
               | Some w -> [Printf.sprintf "%d=%s" (i + 1) (String.concat "." (List.map (fun x -> string_of_int (int_of_n x)) w))]
               | None -> [])
            else []) prog.p_rules) in
        Printf.printf "eolcheck %s default=%b missing=[%s] witnesses=[%s]\n" (if ok && dflt then "OK" else "FAIL") dflt
          (String.concat "," missing) (String.concat "," wit)
      | L [A "unputrun"; size; nch; cp; inp; cs] ->
        (* the buffer after the first refill: the file's bytes, the two end-of-buffer bytes, the rest of the array *)
        let size = ai size and nch = ai nch and cp = ai cp in
        let data = bytes_of inp in
        let pad = List.init (max 0 (size + 2 - List.length data - 2)) (fun _ -> n_of_int 7) in
        let b = { u_mem = data @ [n_of_int 0; n_of_int 0] @ pad; u_size = nat_of_int size; u_nch = nat_of_int nch; u_cp = nat_of_int cp } in
        (match unputs b (bytes_of cs) with
         | None -> Printf.printf "unputrun OVERFLOW\n"
         | Some b' -> Printf.printf "unputrun OK %s\n" (String.concat " " (List.map (fun x -> string_of_int (int_of_n x)) (u_unread b'))))
      | L [A "rejvalidate"; sc; bol; inp; L pols; L evs] ->
        let w = bytes_of inp in
        let pols = List.map policy_of pols in
        let pol r = match List.assoc_opt (int_of_n r) pols with Some p -> p | None -> RejNever in
        let evs = List.map (function L [r; k] -> (n_of_int (ai r), nat_of_int (ai k)) | _ -> failwith "ev") evs in
        let fuel = nat_of_int (List.length evs + List.length w + 2) in
        Printf.printf "rejvalidate x %s\n" (if rej_validate fuel prog (n_of_int (ai sc)) pol [] (ab bol) w evs then "OK" else "FAIL")
      | L [A "rejtokens_old"; A which; sc; bol; inp; L pols] ->
        let w = bytes_of inp in
        let pols = List.map policy_of pols in
        let pol r = match List.assoc_opt (int_of_n r) pols with Some p -> p | None -> RejNever in
        let fuel = nat_of_int (List.length w + 1) in
        let t = if which = "spec" then spec_rej_tokens fuel prog (n_of_int (ai sc)) pol (ab bol) w
          else view_rej_tokens fuel (List.assoc which rtabs) (fun _ -> None) (n_of_int (ai sc)) pol (ab bol) w in
        Printf.printf "rejtokens %s %s\n" which (toks_str t)
      | L [A "viewtokens_tc"; A vname; sc; bol; inp; L adj] ->
        let w = bytes_of inp in
        let fuel = nat_of_int (List.length w + 1) in
        let t = match List.assoc_opt vname rtabs with
          | Some rt -> view_rtokens_tc fuel rt (adj_of adj) (n_of_int (ai sc)) (ab bol) w
          | None -> let (v, _) = List.assoc vname views in
            view_tokens_tc fuel v (adj_of adj) (n_of_int (ai sc)) (ab bol) w in
        Printf.printf "viewtokens %s %s\n" vname (toks_str t)
      | L [A "spectokens"; sc; bol; inp] ->
        let w = bytes_of inp in
        let t = spec_tokens (nat_of_int (List.length w + 1)) prog (n_of_int (ai sc)) (ab bol) w in
        Printf.printf "spectokens %s\n" (toks_str t)
      | L [A "viewtokens"; A vname; sc; bol; inp] ->
        let (v, _) = List.assoc vname views in
        let w = bytes_of inp in
        let t = view_tokens (nat_of_int (List.length w + 1)) v (n_of_int (ai sc)) (ab bol) w in
        Printf.printf "viewtokens %s %s\n" vname (toks_str t)
      | L [A "validate_o"; L owners; sc; bol; inp; L toks] ->
        let w = bytes_of inp in
        let otbl = List.map (function L [r; o] -> (ai r, ai o) | _ -> failwith "owner") owners in
        let owner r = match List.assoc_opt (int_of_n r) otbl with Some o -> n_of_int o | None -> r in
        let toks = List.map (function L [r; k] -> (n_of_int (ai r), nat_of_int (ai k)) | _ -> failwith "tok") toks in
        Printf.printf "validate %s\n" (if validate_o prog owner (n_of_int (ai sc)) (ab bol) w toks then "OK" else "FAIL")
      | L [A "validate"; sc; bol; inp; L toks] ->
        let w = bytes_of inp in
        let toks = List.map (function L [r; k] -> (n_of_int (ai r), nat_of_int (ai k)) | _ -> failwith "tok") toks in
        Printf.printf "validate %s\n" (if validate prog (n_of_int (ai sc)) (ab bol) w toks then "OK" else "FAIL")
      | L [A ("stream" | "sessions" | "conserve" as which); fuel; L inputs] ->
        let f = field "stream_prog" c in
        let op_of = function
          | L [A "begin"; s] -> OBegin (n_of_int (ai s))
          | L [A "push"; s] -> OPush (n_of_int (ai s))
          | L [A "pop"] -> OPop
          | L [A "top"] -> OTop
          | L [A "less"; A "const"; k] -> OLess (LConst (nat_of_int (ai k)))
          | L [A "less"; A "minus"; k] -> OLess (LMinus (nat_of_int (ai k)))
          | L [A "unput"; bs] -> OUnput (bytes_of bs)
          | L [A "input"; k] -> OInput (nat_of_int (ai k))
          | L [A "more"] -> OMore
          | L [A "setbol"; b] -> OSetBol (ab b)
          | L [A "return"; v] -> OReturn (n_of_int (ai v))
          | L [A "terminate"] -> OTerminate
          | _ -> failwith "op" in
        let acts = List.map (function L (r :: ops) -> (ai r, List.map op_of ops) | _ -> failwith "acts") (items (List.hd (field "acts" f))) in
        let eofs = List.map (function L (r :: ops) -> (ai r, List.map op_of ops) | _ -> failwith "eofs") (items (List.hd (field "eofs" f))) in
        let sp = { sp_prog = prog;
                   sp_acts = (fun r -> match List.assoc_opt (int_of_n r) acts with Some o -> o | None -> []);
                   sp_eof = (match field_opt "eofrules" f with
                       | Some (rl :: _) ->
                         (* the <<EOF>> rules in source order; the assignment to start conditions is the model's (EofAssign.v) *)
                         let rules = List.map (function
                             | L (A "u" :: ops) -> (None, List.map op_of ops)
                             | L (L scs :: ops) -> (Some (List.map (fun x -> n_of_int (ai x)) scs), List.map op_of ops)
                             | _ -> failwith "eofrules") (items rl) in
                         (fun s -> eof_assign rules s)
                       | _ -> (fun s -> List.assoc_opt (int_of_n s) eofs));
                   sp_lineno = ab (List.hd (field "lineno" f)) } in
        if which = "conserve" then begin
          (* C08_checked_runs_are_instances: do all steps keep yytext defined, and is consumed ++ unread the input? *)
          let srcs = List.map bytes_of inputs in
          let (ok, st) = run_ok (nat_of_int (ai fuel)) sp (sm_init srcs) in
          let eq = (st.s_done @ unread st) = List.concat srcs in
          Printf.printf "conserve ok=%b eq=%b\nEND\n" ok eq
        end else
        let evs =
          if which = "stream" then sm_run (nat_of_int (ai fuel)) sp (sm_init (List.map bytes_of inputs))
          else begin
            (* a list of sessions, each a list of sources chained by yywrap *)
            let ss = List.map (fun s -> List.map bytes_of (items s)) inputs in
            match ss with
            | [] -> sm_run (nat_of_int (ai fuel)) sp (sm_init [])
            | first :: posts -> sm_sessions (nat_of_int (ai fuel)) sp (sm_init first) posts
          end in
        let fnv bs = List.fold_left (fun h b -> ((h lxor (int_of_n b)) * 16777619) land 0xFFFFFFFF) 2166136261 bs in
        List.iter (function
            | ETok (r, text, sc, line, bol) ->
              Printf.printf "T %d %d %d %d %d %d\n" (int_of_n r) (List.length text) (fnv text) (int_of_n sc - 1) (int_of_z line) (if bol then 1 else 0)
            | EIn None -> Printf.printf "I 0\n"
            | EIn (Some ch) -> Printf.printf "I %d\n" (int_of_n ch)
            | ETop s -> Printf.printf "P %d\n" (int_of_n s - 1)
            | ERet v -> Printf.printf "R %d\n" (int_of_n v)
            | EEof s -> if sp.sp_eof s <> None then Printf.printf "E %d\n" (int_of_n s - 1)
            | EFatal k -> Printf.printf "F %d\n" (int_of_n k)
            | EStuck -> Printf.printf "S\n") evs;
        Printf.printf "END\n"
      | L [A "wtokens"; A vname; sc; bol; L adj; L chunks] ->
        let (v, _) = List.assoc vname views in
        let chunks = List.map bytes_of chunks in
        let total = List.fold_left (fun a c -> a + List.length c) 0 chunks in
        let evs = wtokens v (adj_of adj) (nat_of_int (total + 2)) (z_of_int (ai sc - 1)) (ab bol) false [] chunks in
        Printf.printf "wtokens %s\n" (String.concat " " (List.map (function
            | WTok (r, h) -> Printf.sprintf "T:%d:%d" (int_of_n r) (int_of_nat h)
            | WPull k -> Printf.sprintf "Q:%d" (int_of_nat k)) evs))
      | L [A "faultrun"; A vname; sc; L adj; L src] ->
        (* src: (d b1 b2 ...) data chunk, e = interrupted read, x = read error *)
        let (v, _) = List.assoc vname views in
        let src = List.map (function
            | L (A "d" :: bs) -> RData (List.map (fun b -> n_of_int (ai b)) bs)
            | A "e" -> REintr
            | A "x" -> RErr
            | _ -> failwith "faultrun: bad source item") src in
        let total = List.fold_left (fun a x -> match x with RData c -> a + List.length c | _ -> a) 0 src in
        let evs = fault_events v (adj_of adj) (nat_of_int (total + 2)) (z_of_int (ai sc - 1)) src in
        Printf.printf "faultrun %s\n" (String.concat " " (List.map (function
            | FTok (r, h) -> Printf.sprintf "T:%d:%d" (int_of_n r) (int_of_nat h)
            | FFatal -> "F") evs))
      | L [A "m4q"; A scheme; L bytes] ->
        (* the escaped, wrapped text of a user code region and what the m4 model makes of it *)
        let u = List.map (fun b -> n_of_int (ai b)) bytes in
        let (qs, qe) = if scheme = "A" then (qS_A, qE_A) else (qS_B, qE_B) in
        let e = escape qs qe u in
        let (o, ok) = m4 (Top []) (wrap e) in
        Printf.printf "m4q %s esc=%s out=%s ok=%b\n" scheme
          (String.concat "," (List.map (fun b -> string_of_int (int_of_n b)) e))
          (String.concat "," (List.map (fun b -> string_of_int (int_of_n b)) o)) ok
      | L [A "m4raw"; L bytes] ->
        let u = List.map (fun b -> n_of_int (ai b)) bytes in
        let (o, ok) = m4 (Top []) u in
        Printf.printf "m4raw out=%s ok=%b\n" (String.concat "," (List.map (fun b -> string_of_int (int_of_n b)) o)) ok
      | L [A "requests"; size; L ntms] ->
        let rs = requests (nat_of_int (ai size)) (List.map (fun x -> nat_of_int (ai x)) ntms) in
        Printf.printf "requests %s\n" (String.concat " " (List.map (fun x -> string_of_int (int_of_nat x)) rs))
      | L [A "warncheck"; mode; fuel] ->
        (* mode 0: first-rule selection; 1: REJECT / variable trailing context (every matching rule may be reached) *)
        let rejmode = ab mode in
        let nsc = int_of_n prog.p_nsc in
        let nrules = List.length prog.p_rules in
        let canon (s : sstate) = List.sort compare s in
        let tbl : (sstate, int) Hashtbl.t = Hashtbl.create 997 in
        let states = ref [] and count = ref 0 in
        let parent : (int, (int * int) option) Hashtbl.t = Hashtbl.create 997 in
        let q = Queue.create () in
        let intern s from =
          let c = canon s in
          match Hashtbl.find_opt tbl c with
          | Some i -> i
          | None -> incr count; let i = !count in Hashtbl.add tbl c i; states := (i, s) :: !states;
            Hashtbl.add parent i from; Queue.add (i, s) q; i in
        let starts = ref [] in
        let start_info = Hashtbl.create 17 in
        for sc = 1 to nsc do
          List.iter (fun bol ->
              let s0 = spec_start prog (n_of_int sc) bol in
              let i = intern s0 None in
              if not (Hashtbl.mem start_info i) then Hashtbl.add start_info i (sc, bol);
              starts := (pos_of_int i, s0) :: !starts) [false; true]
        done;
        let succ_tbl : (int * int, int) Hashtbl.t = Hashtbl.create 9973 in
        let fuel = ai fuel in
        let out_of_fuel = ref false in
        (* first-reached state per rule, split by "after at least one byte" *)
        let first_hd : (int, int) Hashtbl.t = Hashtbl.create 97 and among : (int, int) Hashtbl.t = Hashtbl.create 97 in
        while not (Queue.is_empty q) && not !out_of_fuel do
          let (i, s) = Queue.pop q in
          List.iter (fun b ->
              let s' = sstep s b in
              let j = intern s' (Some (i, int_of_n b)) in
              Hashtbl.replace succ_tbl (i, int_of_n b) j;
              (match sobs s' with
               | [] -> ()
               | h :: _ as l ->
                 if not (Hashtbl.mem first_hd (int_of_n h)) then Hashtbl.add first_hd (int_of_n h) j;
                 List.iter (fun r -> if not (Hashtbl.mem among (int_of_n r)) then Hashtbl.add among (int_of_n r) j) l);
              if !count > fuel then out_of_fuel := true) al
        done;
        if !out_of_fuel then Printf.printf "warncheck INCONCLUSIVE fuel\n"
        else begin
          let qm = List.fold_left (fun acc (i, s) -> PositiveMap.add (pos_of_int i) s acc) PositiveMap.empty !states in
          let succ k b = match Hashtbl.find_opt succ_tbl (int_of_pos k, int_of_n b) with Some j -> pos_of_int j | None -> XH in
          (* path to state j: the word leading to it from its start state *)
          let rec path j acc = match Hashtbl.find parent j with
            | None -> (j, acc)
            | Some (i, b) -> path i (b :: acc) in
          for r = 1 to nrules + 1 do
            let reach = if rejmode then Hashtbl.find_opt among r else Hashtbl.find_opt first_hd r in
            match reach with
            | Some j ->
              let (st, word) = path j [] in
              let (sc, bol) = Hashtbl.find start_info st in
              (* confirm with the proved scanner: on this word the rule is selected (or, in REJECT mode, is among the matches) *)
              let s0 = spec_start prog (n_of_int sc) bol in
              let w = List.map n_of_int word in
              let okw = if rejmode then List.exists (fun x -> int_of_n x = r) (sobs (List.fold_left sstep s0 w))
                else (let (r', k) = spec_scan s0 w in int_of_n r' = r && int_of_nat k = List.length w) in
              Printf.printf "rule %d matchable sc=%d bol=%d witness=[%s] confirmed=%b\n" r sc (if bol then 1 else 0)
                (String.concat " " (List.map string_of_int word)) okw
            | None ->
              let pred = if rejmode then not_among (n_of_int r) else not_first (n_of_int r) in
              let v = closed_check !starts qm succ al pred in
              Printf.printf "rule %d unmatchable proved=%b states=%d\n" r v !count
          done
        end
      | L [A "tablesfile"; A path; A name] ->
        (* decode a real --tables-file with the proved decoder; re-encode every set and compare with the file *)
        let ic = open_in_bin path in
        let len = in_channel_length ic in
        let raw = really_input_string ic len in
        close_in ic;
        let bs = List.init len (fun i -> n_of_int (Char.code raw.[i])) in
        let nm = List.init (String.length name) (fun i -> n_of_int (Char.code name.[i])) in
        (match dec_file (nat_of_int (len + 1)) bs nm with
         | Found ts ->
           Printf.printf "tablesfile found %d\n" (List.length ts);
           List.iter (fun t ->
               Printf.printf "table id=%d flags=%d hilen=%d lolen=%d data=%s\n" (int_of_n t.t_id) (int_of_n t.t_flags)
                 (int_of_n t.t_hilen) (int_of_n t.t_lolen) (String.concat "," (List.map (fun z -> string_of_int (int_of_z z)) t.t_data))) ts
         | NotFound -> Printf.printf "tablesfile notfound\n"
         | Malformed -> Printf.printf "tablesfile malformed\n");
        (* walk all sets, re-encode *)
        let rec walk bs acc = match bs with
          | [] -> Some (List.rev acc)
          | _ -> (match dec_set_header bs with
              | Some ((n, body), rest) ->
                (match dec_tables (nat_of_int (List.length body + 1)) body with
                 | Some ts -> walk rest ((n, ts) :: acc)
                 | None -> None)
              | None -> None) in
        (match walk bs [] with
         | Some sets ->
           (* the version string is not returned by dec_set_header: take it from the file (bytes after offset 14 up to NUL) *)
           let version_at off = let b = Buffer.create 8 in let i = ref (off + 14) in
             while raw.[!i] <> '\000' do Buffer.add_char b raw.[!i]; incr i done; Buffer.contents b in
           let off = ref 0 in
           let ok = ref true in
           List.iter (fun (n, ts) ->
               let v = version_at !off in
               let vs = List.init (String.length v) (fun i -> n_of_int (Char.code v.[i])) in
               let enc = enc_set { s_name = n; s_version = vs; s_tables = ts } in
               let l = List.length enc in
               let same = (!off + l <= len) && (let r = ref true in List.iteri (fun i b -> if Char.code raw.[!off + i] <> int_of_n b then r := false) enc; !r) in
               if not same then ok := false;
               off := !off + l) sets;
           Printf.printf "reencode sets=%d identical=%b\n" (List.length sets) (!ok && !off = len)
         | None -> Printf.printf "reencode failed\n")
      | L [A "buffers"; ln; L ops] ->
        let bop_of = function
          | L [A "create"; i; c] -> BCreate (n_of_int (ai i), bytes_of c)
          | L [A "scan"; i; c] -> BScan (n_of_int (ai i), bytes_of c)
          | L [A "switch"; i] -> BSwitch (n_of_int (ai i))
          | L [A "push"; i] -> BPush (n_of_int (ai i))
          | L [A "pop"] -> BPop
          | L [A "flush"; i] -> BFlush (n_of_int (ai i))
          | L [A "delete"; i] -> BDelete (n_of_int (ai i))
          | L [A "lex"; k] -> BLex (nat_of_int (ai k))
          | L [A "lexpop"; k] -> BLexPop (nat_of_int (ai k))
          | _ -> failwith "bop" in
        let evs = brun prog (ab ln) binit (List.map bop_of ops) in
        let fnv bs = List.fold_left (fun h b -> ((h lxor (int_of_n b)) * 16777619) land 0xFFFFFFFF) 2166136261 bs in
        List.iter (function
            | BTok (b, r, text, line, bol) -> Printf.printf "T %d %d %d %d %d %d\n" (int_of_n b) (int_of_n r) (List.length text) (fnv text) (int_of_z line) (if bol then 1 else 0)
            | BEof b -> Printf.printf "Z %d\n" (int_of_n b)
            | BNoBuffer -> Printf.printf "NOBUF\n") evs;
        Printf.printf "END\n"
      | L [A "ledger"; L evs] ->
        let ev_of = function
          | L [A "a"; p] -> AAlloc (n_of_int (ai p))
          | L [A "r"; o; n] -> ARealloc (n_of_int (ai o), n_of_int (ai n))
          | L [A "f"; p] -> AFree (n_of_int (ai p))
          | _ -> failwith "aev" in
        Printf.printf "ledger %b\n" (ledger_ok (List.map ev_of evs))
      | L [A "kinds"] ->
        Printf.printf "kinds %s\n" (String.concat " " (List.map (fun r ->
            match rule_kind r with
            | TcNone -> "none"
            | TcHead k -> Printf.sprintf "head:%d" (int_of_nat k)
            | TcTail k -> Printf.sprintf "tail:%d" (int_of_nat k)
            | TcVariable -> "variable") prog.p_rules))
      | L [A "optmodel"] ->
        List.iter (fun o ->
            let b x = if x then 1 else 0 in
            let tr = function Unspec -> 0 | TTrue -> 1 | TFalse -> 2 in
            let out = match model o with
              | Refuse -> "refuse"
              | Accept (a, w) -> Printf.sprintf "accept array=%d warn=%d" (b a) (b w) in
            Printf.printf "opt full=%d fast=%d meta=%d inter=%d lex=%d cxx=%d reent=%d bison=%d array=%d reject=%d vartrail=%d lineno=%d %s\n"
              (b o.o_full) (b o.o_fast) (b o.o_meta) (tr o.o_inter) (b o.o_lex) (b o.o_cxx) (b o.o_reent)
              (b o.o_bison) (b o.o_array) (b o.o_reject) (b o.o_vartrail) (b o.o_lineno) out)
          all_optsets
      | L [A "matchb"; rl; part; inp] ->
        (* part: 0 whole, 1 head, 2 trail *)
        let r = List.nth prog.p_rules (ai rl - 1) in
        let re = match ai part with
          | 0 -> rule_re prog.p_csize r
          | 1 -> denote prog.p_csize r.r_fl r.r_head
          | _ -> (match r.r_trail with Some t -> denote prog.p_csize r.r_fl t | None -> failwith "no trail") in
        Printf.printf "matchb %b\n" (matchb re (bytes_of inp))
      | _ -> failwith "query")
    queries;
  Stdlib.flush stdout
