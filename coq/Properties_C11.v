(** Property C11 - multiple input buffers keep independent positions and contents. *)
From Coq Require Import List NArith ZArith Bool.
Import ListNotations.
Require Import FlexV.Regex FlexV.Pat FlexV.Tokenize FlexV.Stream FlexV.Buffers.

(** Whatever operation is performed (create, scan_*, switch, push, pop, flush, delete, any number of
    yylex calls), a buffer that the operation does not name and that is not the one being scanned keeps
    its unread input, its beginning-of-line status and its line number. *)
Theorem C11_other_buffers_untouched : forall p ln m o id,
  ~ names o id -> current m <> Some id ->
  bget (m_bufs (fst (bstep p ln m o))) id = bget (m_bufs m) id.
Proof. exact other_buffers_untouched. Qed.
Print Assumptions C11_other_buffers_untouched.

Theorem C11_switch_and_back_resumes : forall p ln m a b, bget (m_bufs m) a <> None -> a <> b ->
  let m1 := fst (bstep p ln m (BSwitch b)) in
  let m2 := fst (bstep p ln m1 (BSwitch a)) in
  bget (m_bufs m2) a = bget (m_bufs m) a /\ current m2 = Some a.
Proof. exact switch_and_back. Qed.
Print Assumptions C11_switch_and_back_resumes.

Theorem C11_scan_gives_exactly_the_bytes : forall p ln m id c,
  let m1 := fst (bstep p ln m (BScan id c)) in
  current m1 = Some id /\ exists b, bget (m_bufs m1) id = Some b /\ b_data b = c /\ b_bol b = true.
Proof. exact scan_gives_exactly_the_bytes. Qed.
Print Assumptions C11_scan_gives_exactly_the_bytes.

Theorem C11_push_pop_returns : forall p ln m id top t, m_stack m = Some top :: t ->
  let m1 := fst (bstep p ln m (BPush id)) in
  let m2 := fst (bstep p ln m1 BPop) in
  m_stack m2 = m_stack m.
Proof. exact push_pop_returns. Qed.
Print Assumptions C11_push_pop_returns.

Theorem C11_flush_keeps_unread_file_text : forall p ln m id b, bget (m_bufs m) id = Some b -> b_fetched b = false ->
  exists b', bget (m_bufs (fst (bstep p ln m (BFlush id)))) id = Some b' /\ b_data b' = b_data b.
Proof. exact flush_keeps_unread_file_text. Qed.
Print Assumptions C11_flush_keeps_unread_file_text.

(** yypop_buffer_state() called from yywrap(): buffers that are not on the stack are out of reach, and
    scanning resumes in the buffer pushed before exactly where it stopped. *)
Theorem C11_pop_in_yywrap_leaves_others : forall p ln k m id, ~ on_stack m id ->
  bget (m_bufs (fst (bstep p ln m (BLexPop k)))) id = bget (m_bufs m) id.
Proof. exact lexpop_off_stack_untouched. Qed.
Print Assumptions C11_pop_in_yywrap_leaves_others.

Theorem C11_pop_in_yywrap_resumes : forall p ln m a b t fuel,
  m_stack m = Some a :: Some b :: t -> exhausted m = true -> a <> b ->
  lexp1 p ln (S fuel) m = lexp1 p ln fuel (pop_state m) /\
  m_stack (pop_state m) = Some b :: t /\
  bget (m_bufs (pop_state m)) b = bget (m_bufs m) b.
Proof. exact wrap_pop_resumes. Qed.
Print Assumptions C11_pop_in_yywrap_resumes.
