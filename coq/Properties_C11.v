(** Property C11 - multiple input buffers keep independent positions and contents. *)
From Coq Require Import List NArith ZArith Bool.
Import ListNotations.
Require Import FlexV.Regex FlexV.Pat FlexV.Tokenize FlexV.Stream FlexV.Buffers.

(** Whatever operation is performed (create, scan_*, switch, push, pop, flush, delete, any number of
    yylex calls), a buffer that the operation does not name and that is not the one being scanned keeps
    its unread input, its beginning-of-line status and its line number. *)
Theorem C11_other_buffers_untouched : forall p ln m o id,
  ~ names o id -> current m <> Some id ->
  bget (m_bufs (fst (bstep p ln m o))) id = bget (m_bufs m) id.
Proof. exact other_buffers_untouched. Qed.
Print Assumptions C11_other_buffers_untouched.

Theorem C11_switch_and_back_resumes : forall p ln m a b, bget (m_bufs m) a <> None -> a <> b ->
  let m1 := fst (bstep p ln m (BSwitch b)) in
  let m2 := fst (bstep p ln m1 (BSwitch a)) in
  bget (m_bufs m2) a = bget (m_bufs m) a /\ current m2 = Some a.
Proof. exact switch_and_back. Qed.
Print Assumptions C11_switch_and_back_resumes.

Theorem C11_scan_gives_exactly_the_bytes : forall p ln m id c,
  let m1 := fst (bstep p ln m (BScan id c)) in
  current m1 = Some id /\ exists b, bget (m_bufs m1) id = Some b /\ b_data b = c /\ b_bol b = true.
Proof. exact scan_gives_exactly_the_bytes. Qed.
Print Assumptions C11_scan_gives_exactly_the_bytes.

Theorem C11_push_pop_returns : forall p ln m id top t, m_stack m = Some top :: t ->
  let m1 := fst (bstep p ln m (BPush id)) in
  let m2 := fst (bstep p ln m1 BPop) in
  m_stack m2 = m_stack m.
Proof. exact push_pop_returns. Qed.
Print Assumptions C11_push_pop_returns.

Theorem C11_flush_keeps_unread_file_text : forall p ln m id b, bget (m_bufs m) id = Some b -> b_fetched b = false ->
  exists b', bget (m_bufs (fst (bstep p ln m (BFlush id)))) id = Some b' /\ b_data b' = b_data b.
Proof. exact flush_keeps_unread_file_text. Qed.
Print Assumptions C11_flush_keeps_unread_file_text.

(** yypop_buffer_state() called from yywrap(): buffers that are not on the stack are out of reach, and
    scanning resumes in the buffer pushed before exactly where it stopped. *)
Theorem C11_pop_in_yywrap_leaves_others : forall p ln k m id, ~ on_stack m id ->
  bget (m_bufs (fst (bstep p ln m (BLexPop k)))) id = bget (m_bufs m) id.
Proof. exact lexpop_off_stack_untouched. Qed.
Print Assumptions C11_pop_in_yywrap_leaves_others.

Theorem C11_pop_in_yywrap_resumes : forall p ln m a b t fuel,
  m_stack m = Some a :: Some b :: t -> exhausted m = true -> a <> b ->
  lexp1 p ln (S fuel) m = lexp1 p ln fuel (pop_state m) /\
  m_stack (pop_state m) = Some b :: t /\
  bget (m_bufs (pop_state m)) b = bget (m_bufs m) b.
Proof. exact wrap_pop_resumes. Qed.
Print Assumptions C11_pop_in_yywrap_resumes.

(** ** the buffer stack as an array with a capacity (coq/StackGrow.v) *)
Require FlexV.StackGrow.

(** for EVERY history of pushes and pops the index of the current buffer stays inside the allocated array,
    every slot above it is empty and every slot below it holds a buffer *)
Theorem C11_stack_index_inside_the_array : forall ops s, FlexV.StackGrow.KInv s ->
  Forall (fun o => match o with FlexV.StackGrow.KPush b => b <> 0 | FlexV.StackGrow.KPop => True end) ops ->
  FlexV.StackGrow.KInv (fold_left FlexV.StackGrow.kstep ops s).
Proof. exact FlexV.StackGrow.history_inv. Qed.
Print Assumptions C11_stack_index_inside_the_array.

Theorem C11_empty_stack_is_well_formed : FlexV.StackGrow.KInv FlexV.StackGrow.bs_init.
Proof. exact FlexV.StackGrow.init_inv. Qed.
Print Assumptions C11_empty_stack_is_well_formed.

(** a push makes the pushed buffer current, inside the array *)
Theorem C11_push_makes_current : forall s b, FlexV.StackGrow.KInv s -> b <> 0 ->
  FlexV.StackGrow.KInv (FlexV.StackGrow.push s b) /\
  FlexV.StackGrow.k_top (FlexV.StackGrow.push s b) < FlexV.StackGrow.k_max (FlexV.StackGrow.push s b) /\
  FlexV.StackGrow.current (FlexV.StackGrow.push s b) = b.
Proof. exact FlexV.StackGrow.push_inv. Qed.
Print Assumptions C11_push_makes_current.

(** popping returns to the buffer pushed before, at whatever depth (growth of the array included) *)
Theorem C11_pop_returns_to_the_buffer_below : forall s b, FlexV.StackGrow.KInv s -> b <> 0 -> FlexV.StackGrow.current s <> 0 ->
  FlexV.StackGrow.k_top (FlexV.StackGrow.pop (FlexV.StackGrow.push s b)) = FlexV.StackGrow.k_top s /\
  FlexV.StackGrow.current (FlexV.StackGrow.pop (FlexV.StackGrow.push s b)) = FlexV.StackGrow.current s.
Proof. exact FlexV.StackGrow.pop_push. Qed.
Print Assumptions C11_pop_returns_to_the_buffer_below.

(** refinement: on the list of stacked buffers (current first) a push is a cons *)
Theorem C11_push_is_cons : forall s b, FlexV.StackGrow.KInv s -> b <> 0 ->
  FlexV.StackGrow.as_list (FlexV.StackGrow.push s b) = b :: FlexV.StackGrow.as_list s.
Proof. exact FlexV.StackGrow.push_is_cons. Qed.
Print Assumptions C11_push_is_cons.

(** ... and a pop removes the head: yypop_buffer_state returns to the buffer pushed before *)
Theorem C11_pop_is_tail : forall s, FlexV.StackGrow.KInv s -> FlexV.StackGrow.current s <> 0 ->
  FlexV.StackGrow.as_list (FlexV.StackGrow.pop s) = tl (FlexV.StackGrow.as_list s).
Proof. exact FlexV.StackGrow.pop_is_tail. Qed.
Print Assumptions C11_pop_is_tail.

(** ** in-memory buffers (coq/Unput.v) *)
Require FlexV.Unput.

(** yy_scan_bytes: the buffer is well formed and what will be scanned is exactly the bytes given *)
Theorem C11_scan_bytes_holds_its_bytes : forall data,
  FlexV.Unput.UInv (FlexV.Unput.scan_bytes data) /\ FlexV.Unput.u_unread (FlexV.Unput.scan_bytes data) = data.
Proof. exact FlexV.Unput.scan_bytes_inv. Qed.
Print Assumptions C11_scan_bytes_holds_its_bytes.

(** yy_scan_buffer accepts an array only if its last two bytes are end-of-buffer bytes (NULL otherwise) *)
Theorem C11_scan_buffer_needs_two_sentinels : forall mem b, FlexV.Unput.scan_buffer mem = Some b ->
  2 <= length mem /\ nth (length mem - 2) mem 1%N = FlexV.BufLayout.EOB /\ nth (length mem - 1) mem 1%N = FlexV.BufLayout.EOB /\ FlexV.Unput.UInv b.
Proof. exact FlexV.Unput.scan_buffer_refuses. Qed.
Print Assumptions C11_scan_buffer_needs_two_sentinels.
