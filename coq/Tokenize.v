(** * Tokenize: the documented tokenisation of a whole input in a fixed start
    condition, as a relation [DocTok], and an executable validator for a token
    stream observed from a real scanner. *)
From Coq Require Import List NArith ZArith Bool Lia.
Import ListNotations.
Require Import FlexV.Regex FlexV.SpecAuto FlexV.Pat FlexV.Tables FlexV.Scan FlexV.C01Proofs.
Local Open Scope N_scope.

(** Beginning-of-line status after an action was handed [text] (manual: "right
    after a newline has been scanned"). *)
Definition bol_after (bol : bool) (text : list byte) : bool :=
  match text with
  | [] => bol
  | _ => N.eqb (last text 0) 10
  end.

Definition rule_of (p : program) (r : N) : option rule := nth_error (p_rules p) (N.to_nat r - 1).

(** [h] is a documented head length for rule [r] on its whole match [u]. *)
Definition SplitOk (p : program) (r : N) (u : list byte) (h : nat) : Prop :=
  match rule_of p r with
  | Some rl =>
      match r_trail rl with
      | None => h = length u
      | Some t => (h <= length u)%nat /\
                  Matches (denote (p_csize p) (r_fl rl) (r_head rl)) (firstn h u) /\
                  Matches (denote (p_csize p) (r_fl rl) t) (skipn h u)
      end
  | None => h = length u
  end.

Definition split_okb (p : program) (r : N) (u : list byte) (h : nat) : bool :=
  match rule_of p r with
  | Some rl =>
      match r_trail rl with
      | None => Nat.eqb h (length u)
      | Some t => (h <=? length u)%nat &&
                  matchb (denote (p_csize p) (r_fl rl) (r_head rl)) (firstn h u) &&
                  matchb (denote (p_csize p) (r_fl rl) t) (skipn h u)
      end
  | None => Nat.eqb h (length u)
  end.

Lemma split_okb_spec p r u h : split_okb p r u h = true <-> SplitOk p r u h.
Proof.
  unfold split_okb, SplitOk. destruct (rule_of p r) as [rl|]; [|apply Nat.eqb_eq].
  destruct (r_trail rl) as [t|]; [|apply Nat.eqb_eq].
  rewrite !andb_true_iff, !matchb_spec, Nat.leb_le. tauto.
Qed.

(** A token stream (rule, yyleng) that the manual allows for input [w] scanned
    in start condition [sc] starting with line-start status [bol]. *)
Inductive DocTok (p : program) (sc : N) : bool -> list byte -> list (N * nat) -> Prop :=
| DT_nil : forall bol, DocTok p sc bol [] []
| DT_cons : forall bol w r k h rest,
    w <> [] -> r <> 0 ->
    Selected (spec_start p sc bol) w r k ->
    SplitOk p r (firstn k w) h -> (1 <= h)%nat ->
    DocTok p sc (bol_after bol (firstn h w)) (skipn h w) rest ->
    DocTok p sc bol w ((r, h) :: rest).

Fixpoint validate (p : program) (sc : N) (bol : bool) (w : list byte) (toks : list (N * nat)) : bool :=
  match toks with
  | [] => match w with [] => true | _ => false end
  | (r, h) :: rest =>
      match w with
      | [] => false
      | _ =>
          let (r', k) := spec_scan (spec_start p sc bol) w in
          N.eqb r r' && negb (N.eqb r 0) && (1 <=? h)%nat && split_okb p r (firstn k w) h &&
          validate p sc (bol_after bol (firstn h w)) (skipn h w) rest
      end
  end.

Theorem validate_sound p sc toks : forall bol w,
  validate p sc bol w toks = true -> DocTok p sc bol w toks.
Proof.
  induction toks as [|[r h] rest IH]; intros bol w; simpl.
  - destruct w; [constructor|discriminate].
  - destruct w as [|b w]; [discriminate|].
    pose proof (spec_scan_selected (spec_start p sc bol) (b :: w) (spec_start_nz p sc bol)) as Hsel.
    destruct (spec_scan (spec_start p sc bol) (b :: w)) as [r' k].
    rewrite !andb_true_iff. intros [[[[Hr Hnz] Hh] Hsp] Hrest].
    apply N.eqb_eq in Hr. subst r'. apply negb_true_iff in Hnz. apply N.eqb_neq in Hnz.
    assert (Hh' : (1 <= h)%nat) by (destruct h; [discriminate|lia]). apply split_okb_spec in Hsp.
    destruct Hsel as [[_ Hsel]|[H0 _]]; [|congruence].
    econstructor; eauto. discriminate.
Qed.

(** The specification's own token stream (heads of trailing-context rules are
    not split here: used for rule sets without trailing context). *)
Fixpoint spec_tokens (fuel : nat) (p : program) (sc : N) (bol : bool) (w : list byte) : list (N * nat) :=
  match fuel with
  | O => []
  | S f =>
      match w with
      | [] => []
      | _ => let (r, k) := spec_scan (spec_start p sc bol) w in
             match k with
             | O => [(r, O)]
             | _ => (r, k) :: spec_tokens f p sc (bol_after bol (firstn k w)) (skipn k w)
             end
      end
  end.

(** The same loop over a table automaton. *)
Fixpoint view_tokens (fuel : nat) (V : view) (sc : N) (bol : bool) (w : list byte) : list (N * nat) :=
  match fuel with
  | O => []
  | S f =>
      match w with
      | [] => []
      | _ => let (r, k) := scan V (v_start V (Z.of_N sc - 1) bol) w 0 (0, 0%nat) in
             match k with
             | O => [(r, O)]
             | _ => (r, k) :: view_tokens f V sc (bol_after bol (firstn k w)) (skipn k w)
             end
      end
  end.

(** Fixed trailing context is undone by the action prologue flex emits:
    [Some (true, n)]: yy_cp = yy_bp + n (fixed head); [Some (false, n)]:
    yy_cp -= n (fixed trail). *)
Definition adjust (adj : N -> option (bool * nat)) (r : N) (k : nat) : nat :=
  match adj r with
  | Some (true, n) => n
  | Some (false, n) => k - n
  | None => k
  end.

Fixpoint view_tokens_tc (fuel : nat) (V : view) (adj : N -> option (bool * nat)) (sc : N) (bol : bool)
         (w : list byte) : list (N * nat) :=
  match fuel with
  | O => []
  | S f =>
      match w with
      | [] => []
      | _ => let (r, k) := scan V (v_start V (Z.of_N sc - 1) bol) w 0 (0, 0%nat) in
             let h := adjust adj r k in
             match h with
             | O => [(r, O)]
             | _ => (r, h) :: view_tokens_tc f V adj sc (bol_after bol (firstn h w)) (skipn h w)
             end
      end
  end.

(** ** rules sharing an action through '|': the scanner reports the rule whose
    action text runs ([owner r]), the manual still selects by the matching rule *)
Inductive DocTokO (p : program) (owner : N -> N) (sc : N) : bool -> list byte -> list (N * nat) -> Prop :=
| DTO_nil : forall bol, DocTokO p owner sc bol [] []
| DTO_cons : forall bol w r k h rest,
    w <> [] -> r <> 0 ->
    Selected (spec_start p sc bol) w r k ->
    SplitOk p r (firstn k w) h -> (1 <= h)%nat ->
    DocTokO p owner sc (bol_after bol (firstn h w)) (skipn h w) rest ->
    DocTokO p owner sc bol w ((owner r, h) :: rest).

Fixpoint validate_o (p : program) (owner : N -> N) (sc : N) (bol : bool) (w : list byte) (toks : list (N * nat)) : bool :=
  match toks with
  | [] => match w with [] => true | _ => false end
  | (ra, h) :: rest =>
      match w with
      | [] => false
      | _ =>
          let (r', k) := spec_scan (spec_start p sc bol) w in
          N.eqb ra (owner r') && negb (N.eqb r' 0) && (1 <=? h)%nat && split_okb p r' (firstn k w) h &&
          validate_o p owner sc (bol_after bol (firstn h w)) (skipn h w) rest
      end
  end.

Theorem validate_o_sound p owner sc toks : forall bol w,
  validate_o p owner sc bol w toks = true -> DocTokO p owner sc bol w toks.
Proof.
  induction toks as [|[ra h] rest IH]; intros bol w; simpl.
  - destruct w; [constructor|discriminate].
  - destruct w as [|b w]; [discriminate|].
    pose proof (spec_scan_selected (spec_start p sc bol) (b :: w) (spec_start_nz p sc bol)) as Hsel.
    destruct (spec_scan (spec_start p sc bol) (b :: w)) as [r' k].
    rewrite !andb_true_iff. intros [[[[Hr Hnz] Hh] Hsp] Hrest].
    apply N.eqb_eq in Hr. subst ra. apply negb_true_iff in Hnz. apply N.eqb_neq in Hnz.
    assert (Hh' : (1 <= h)%nat) by (destruct h; [discriminate|lia]). apply split_okb_spec in Hsp.
    destruct Hsel as [[_ Hsel]|[H0 _]]; [|congruence].
    econstructor; eauto. discriminate.
Qed.
