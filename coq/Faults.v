(** * Faults: read errors and interrupted reads (property C14).
    The input source is a schedule of outcomes of the low-level read primitive
    (read(2), fread, getc run): data, "interrupted by a signal" (EINTR) or a
    real error.  [yyread] is the retry loop of the skeletons' yyread();
    [pull_all] is the sequence of requests the scanner makes until the source
    reports end of input or fails.  The window machine (Window.v) then gives the
    events of a scanner whose k-th request fails: [fault_events].
    Layer R (abstract); tied to the skeletons by the fault-injection harness. *)
From Coq Require Import List NArith ZArith Bool Lia.
Import ListNotations.
Require Import FlexV.Regex FlexV.Tables FlexV.Scan FlexV.Window.

Inductive rd := RData (c : list byte) | REintr | RErr.
Inductive rres := Got (c : list byte) | Eof | Failed.

(** one call of yyread(): the loop
      while ((result = read(...)) < 0) { if (errno != EINTR) { fatal; break; } }
    a result of 0 bytes means end of input *)
Fixpoint yyread (src : list rd) : rres * list rd :=
  match src with
  | [] => (Eof, [])
  | RData [] :: r => (Eof, r)
  | RData c :: r => (Got c, r)
  | REintr :: r => yyread r
  | RErr :: r => (Failed, r)
  end.

Lemma yyread_shorter : forall src r rest, yyread src = (r, rest) -> length rest <= length src.
Proof.
  induction src as [|x src IH]; intros r rest H; cbn [yyread] in H.
  - inversion H; subst; cbn; lia.
  - destruct x as [c| |].
    + destruct c; inversion H; subst; cbn; lia.
    + apply IH in H. cbn; lia.
    + inversion H; subst; cbn; lia.
Qed.

(** all requests until end of input or failure: the chunks obtained, and whether the source failed *)
Fixpoint pull_all (fuel : nat) (src : list rd) : list (list byte) * bool :=
  match fuel with
  | O => ([], false)
  | S f =>
      match yyread src with
      | (Got c, rest) => let (l, e) := pull_all f rest in (c :: l, e)
      | (Eof, _) => ([], false)
      | (Failed, _) => ([], true)
      end
  end.

(** the specification: the data before the first end-of-input indication or error, each chunk once, in order *)
Fixpoint delivered (src : list rd) : list (list byte) * bool :=
  match src with
  | [] => ([], false)
  | RData [] :: _ => ([], false)
  | RData c :: r => let (l, e) := delivered r in (c :: l, e)
  | REintr :: r => delivered r
  | RErr :: _ => ([], true)
  end.

Definition is_eintr (x : rd) : bool := match x with REintr => true | _ => false end.

Theorem pull_all_delivered : forall fuel src, length src < fuel -> pull_all fuel src = delivered src.
Proof.
  induction fuel as [|f IH]; intros src Hf; [lia|].
  cbn [pull_all].
  induction src as [|x src IHs]; cbn [yyread delivered]; [reflexivity|].
  destruct x as [c| |].
  - destruct c as [|b c]; [reflexivity|]. rewrite IH by (cbn in Hf; lia). reflexivity.
  - cbn [length] in Hf. apply IHs. lia.
  - reflexivity.
Qed.

(** interrupted reads are invisible: no byte is lost or duplicated, whatever the positions of the interruptions *)
Theorem eintr_transparent : forall src, delivered src = delivered (filter (fun x => negb (is_eintr x)) src).
Proof.
  induction src as [|x src IH]; [reflexivity|].
  destruct x as [c| |]; cbn [filter is_eintr negb delivered].
  - destruct c; [reflexivity|]. rewrite IH. reflexivity.
  - exact IH.
  - reflexivity.
Qed.

Fixpoint data_of (src : list rd) : list (list byte) :=
  match src with
  | [] => []
  | RData c :: r => c :: data_of r
  | _ :: r => data_of r
  end.

Definition clean (src : list rd) : Prop := forall x, In x src -> match x with RData [] => False | RErr => False | _ => True end.

(** without errors every byte the source produces reaches the scanner, once and in order *)
Theorem delivered_all : forall src, clean src -> delivered src = (data_of src, false).
Proof.
  induction src as [|x src IH]; intros Hc; [reflexivity|].
  assert (Hc' : clean src) by (intros y Hy; apply Hc; right; exact Hy).
  pose proof (Hc x (or_introl eq_refl)) as Hx.
  destruct x as [c| |]; cbn [delivered data_of].
  - destruct c; [contradiction|]. rewrite IH by exact Hc'. reflexivity.
  - apply IH. exact Hc'.
  - contradiction.
Qed.

(** ** events of a scanner whose input fails *)
Inductive fevent := FTok (r : N) (len : nat) | FFatal.

(** the events up to the first request that finds no more data *)
Fixpoint before_end (l : list wevent) : list wevent :=
  match l with
  | [] => []
  | WPull O :: _ => []
  | e :: t => e :: before_end t
  end.

Fixpoint ftoks (l : list wevent) : list fevent :=
  match l with
  | [] => []
  | WTok r n :: t => FTok r n :: ftoks t
  | WPull _ :: t => ftoks t
  end.

Section FaultRun.
  Variable V : view.
  Variable adj : N -> option (bool * nat).

  (** [src] is read through yyread(); when it fails the scanner stops through the fatal-error hook at that request *)
  Definition fault_events (fuel : nat) (sc : Z) (src : list rd) : list fevent :=
    let (chunks, failed) := delivered src in
    let evs := wtokens V adj fuel sc true false [] chunks in
    if failed then ftoks (before_end evs) ++ [FFatal] else ftoks evs.
End FaultRun.

(** a prefix relation *)
Fixpoint prefixb {A} (eqb : A -> A -> bool) (p l : list A) : bool :=
  match p, l with
  | [], _ => true
  | x :: p', y :: l' => eqb x y && prefixb eqb p' l'
  | _ :: _, [] => false
  end.

Lemma wtoks_before_end_pulls : forall (l : list (list byte)) tl,
  (forall c, In c l -> c <> []) ->
  before_end (map (fun c => WPull (length c)) l ++ tl) = map (fun c => WPull (length c)) l ++ before_end tl.
Proof.
  induction l as [|c l IH]; intros tl Hne; [reflexivity|].
  cbn [map app before_end].
  assert (Hc : c <> []) by (apply Hne; left; reflexivity).
  destruct c as [|b c]; [congruence|]. cbn [length]. f_equal. apply IH. intros c' Hc'. apply Hne. right. exact Hc'.
Qed.

Definition is_prefix {A} (p l : list A) : Prop := exists s, l = p ++ s.

Lemma firstn_In_local {A} : forall n (l : list A) x, In x (firstn n l) -> In x l.
Proof.
  induction n as [|n IH]; intros l x H; [contradiction|].
  destruct l as [|y l]; [contradiction|]. cbn [firstn] in H. destruct H as [H|H]; [left; exact H|right; apply IH; exact H].
Qed.

Lemma skipn_In_local {A} : forall n (l : list A) x, In x (skipn n l) -> In x l.
Proof.
  induction n as [|n IH]; intros l x H; [exact H|].
  destruct l as [|y l]; [contradiction|]. cbn [skipn] in H. right. apply IH. exact H.
Qed.

Lemma wscan_pulls_bound (I : Type) (step : I -> byte -> I) (accN : I -> N) (stop : I -> bool) :
  forall rest avail i n last, snd (wscan I step accN stop i avail rest n last) <= length rest.
Proof.
  induction rest as [|c rest IH]; intros avail i n last; cbn [wscan].
  - destruct (scan_avail I step accN stop i avail n last); cbn; lia.
  - destruct (scan_avail I step accN stop i avail n last) as [r|i' n' last']; [cbn; lia|].
    specialize (IH c i' n' last'). destruct (wscan I step accN stop i' c rest n' last') as [r p]. cbn [snd length] in *. lia.
Qed.

Lemma ref_tokens_step V adj f sc bol w : w <> [] ->
  ref_tokens V adj (S f) sc bol w =
  let res := scan V (v_start V sc bol) w 0 (0%N, 0) in
  let h := adjustw adj (fst res) (snd res) in
  match h with
  | O => [(fst res, O)]
  | _ => (fst res, h) :: ref_tokens V adj f sc (bolw bol (firstn h w)) (skipn h w)
  end.
Proof. destruct w; [congruence|reflexivity]. Qed.

Section Prefix.
  Variable V : view.
  Variable adj : N -> option (bool * nat).
  Hypothesis Hadj : forall r k, adjustw adj r k <= k.

  (** if the match loop stopped on the data at hand, more data does not change its result *)
  Lemma scan_avail_done_ext : forall (w v : list byte) i n last r,
    scan_avail ist (v_step V) (accN V) (v_stop V) i w n last = Done ist r ->
    gscan ist (v_step V) (accN V) (v_stop V) i (w ++ v) n last = r.
  Proof.
    intros w v i n last r H. rewrite scan_avail_app. rewrite H. reflexivity.
  Qed.

  (** what [wscan] returns when it did not run into the end of the chunks *)
  Lemma wscan_not_end : forall rest avail i n last r p,
    wscan ist (v_step V) (accN V) (v_stop V) i avail rest n last = (r, p) ->
    (p < length rest \/ exists r', scan_avail ist (v_step V) (accN V) (v_stop V) i (avail ++ concat (firstn p rest)) n last = Done ist r') ->
    scan_avail ist (v_step V) (accN V) (v_stop V) i (avail ++ concat (firstn p rest)) n last = Done ist r.
  Proof.
    induction rest as [|c rest IH]; intros avail i n last r p Hw Hcase; cbn [wscan] in Hw.
    - destruct (scan_avail ist (v_step V) (accN V) (v_stop V) i avail n last) as [r0|i' n' last'] eqn:E.
      + inversion Hw; subst. cbn [firstn concat]. rewrite app_nil_r. exact E.
      + inversion Hw; subst. cbn [firstn concat length] in *. rewrite app_nil_r in *.
        destruct Hcase as [Hlt|[r' Hr']]; [lia|]. rewrite E in Hr'. discriminate.
    - destruct (scan_avail ist (v_step V) (accN V) (v_stop V) i avail n last) as [r0|i' n' last'] eqn:E.
      + inversion Hw; subst. cbn [firstn concat]. rewrite app_nil_r. exact E.
      + destruct (wscan ist (v_step V) (accN V) (v_stop V) i' c rest n' last') as [r1 p1] eqn:Ew.
        inversion Hw; subst. cbn [firstn concat].
        (* scanning avail first leaves the loop in (i', n', last') *)
        assert (Hcont : forall v, scan_avail ist (v_step V) (accN V) (v_stop V) i (avail ++ v) n last =
                                  scan_avail ist (v_step V) (accN V) (v_stop V) i' v n' last').
        { clear -E. revert i n last E. induction avail as [|b w IHw]; intros i n last E v; cbn [scan_avail app] in *.
          - destruct (v_stop V i) eqn:Es; [discriminate|]. inversion E; subst.
            destruct v as [|b v]; cbn [scan_avail]; rewrite Es; reflexivity.
          - destruct (v_stop V i); [discriminate|]. apply IHw. exact E. }
        rewrite app_assoc, <- app_assoc, Hcont.
        apply (IH c i' n' last' r p1 Ew).
        destruct Hcase as [Hlt|[r' Hr']].
        * left. cbn [length] in Hlt. lia.
        * right. exists r'. cbn [firstn concat] in Hr'. rewrite app_assoc, <- app_assoc, Hcont in Hr'. exact Hr'.
  Qed.

  (** the tokens delivered before the request that fails are the first tokens of the stream the
      source would have produced: nothing is scanned on truncated input *)
  Theorem fault_prefix : forall fuel sc bol buf rest more,
    (forall c, In c rest -> c <> []) ->
    is_prefix (wtoks (before_end (wtokens V adj fuel sc bol false buf rest)))
              (ref_tokens V adj fuel sc bol (buf ++ concat rest ++ more)).
  Proof.
    induction fuel as [|f IH]; intros sc bol buf rest more Hne; [exists []; reflexivity|].
    cbn [wtokens].
    destruct (buf ++ concat rest) as [|x w] eqn:Ew2.
    - cbn [before_end wtoks]. eexists. reflexivity.
    - destruct (wscan ist (v_step V) (accN V) (v_stop V) (v_start V sc bol) buf rest 0 (0%N, 0)) as [res p] eqn:Ew.
      set (data := buf ++ concat (firstn p rest)).
      destruct (Nat.eqb p (length rest) &&
                match scan_avail ist (v_step V) (accN V) (v_stop V) (v_start V sc bol) data 0 (0%N, 0) with
                | More _ _ _ _ => true | Done _ _ => false end) eqn:Ehit.
      + (* the scan ran into the end: the failing request comes before any further token *)
        cbn [negb andb app].
        rewrite wtoks_before_end_pulls by (intros c Hc; apply Hne; eapply firstn_In_local; exact Hc).
        cbn [before_end]. rewrite wtoks_app, wtoks_pulls. cbn [wtoks app]. eexists. reflexivity.
      + cbn [andb app].
        rewrite wtoks_before_end_pulls by (intros c Hc; apply Hne; eapply firstn_In_local; exact Hc).
        rewrite wtoks_app, wtoks_pulls. cbn [app].
        assert (Hdone : scan_avail ist (v_step V) (accN V) (v_stop V) (v_start V sc bol) data 0 (0%N, 0) = Done ist res).
        { apply (wscan_not_end rest buf (v_start V sc bol) 0 (0%N, 0) res p Ew).
          apply andb_false_iff in Ehit. destruct Ehit as [Hp|Hs].
          - left. apply Nat.eqb_neq in Hp.
            pose proof (wscan_pulls_bound ist (v_step V) (accN V) (v_stop V) rest buf (v_start V sc bol) 0 (0%N, 0)) as Hb. rewrite Ew in Hb. cbn [snd] in Hb. lia.
          - right. fold data. destruct (scan_avail ist (v_step V) (accN V) (v_stop V) (v_start V sc bol) data 0 (0%N, 0)) as [r'|]; [eauto|discriminate]. }
        assert (Hsplit : buf ++ concat rest ++ more = data ++ (concat (skipn p rest) ++ more)).
        { unfold data. rewrite <- app_assoc. f_equal. rewrite app_assoc, <- concat_app, firstn_skipn. reflexivity. }
        assert (Hres : scan V (v_start V sc bol) (buf ++ concat rest ++ more) 0 (0%N, 0) = res).
        { rewrite Hsplit. unfold scan. apply scan_avail_done_ext. exact Hdone. }
        rewrite ref_tokens_step by (rewrite app_assoc, Ew2; discriminate).
        cbv zeta. rewrite Hres.
        destruct (adjustw adj (fst res) (snd res)) as [|h] eqn:Eh.
        * cbn [before_end wtoks]. exists []. reflexivity.
        * cbn [before_end wtoks].
          pose proof (gscan_bound ist (v_step V) (accN V) (v_stop V) data (v_start V sc bol) 0 (0%N, 0)) as Hb.
          pose proof (scan_avail_done_ext data [] (v_start V sc bol) 0 (0%N, 0) res Hdone) as Hg. rewrite app_nil_r in Hg.
          rewrite Hg in Hb. rewrite Nat.max_0_l, Nat.add_0_l in Hb.
          assert (Hh : S h <= length data) by (specialize (Hadj (fst res) (snd res)); lia).
          rewrite Hsplit.
          rewrite (firstn_app (S h) data), (skipn_app (S h) data).
          replace (S h - length data) with 0 by lia.
          cbn [firstn skipn]. rewrite app_nil_r.
          specialize (IH sc (bolw bol (firstn (S h) data)) (skipn (S h) data) (skipn p rest) more).
          destruct IH as [s Hs]. { intros c Hc. apply Hne. eapply skipn_In_local. exact Hc. }
          exists s. cbn [app]. f_equal. exact Hs.
  Qed.
End Prefix.
