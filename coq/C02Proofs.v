(** * C02Proofs: the selected token is unique, hence any two table
    representations that pass the lock-step check against the same rule set
    return the same (rule, length) on every input. *)
From Coq Require Import List NArith ZArith Bool Lia.
Import ListNotations.
Require Import FlexV.Regex FlexV.SpecAuto FlexV.Lockstep FlexV.Pat FlexV.Tables FlexV.Scan FlexV.C01Proofs.
Local Open Scope N_scope.

Lemma Selected_unique s0 w r k r' k' :
  Selected s0 w r k -> Selected s0 w r' k' -> r = r' /\ k = k'.
Proof.
  intros (Hk & Hm & Hmin & Hlong) (Hk' & Hm' & Hmin' & Hlong').
  assert (k = k').
  { destruct (Nat.lt_trichotomy k k') as [Hlt|[Heq|Hgt]]; [|assumption|].
    - exfalso. apply (Hlong k' r'); [lia|assumption].
    - exfalso. apply (Hlong' k r); [lia|assumption]. }
  subst k'. split; [|reflexivity].
  specialize (Hmin _ Hm'). specialize (Hmin' _ Hm). lia.
Qed.

Theorem repr_independent p sc bol V1 m1 V2 m2 :
  check_view V1 (alphabet (p_csize p)) m1 (spec_start p sc bol) (v_start V1 (Z.of_N sc - 1) bol) = true ->
  check_view V2 (alphabet (p_csize p)) m2 (spec_start p sc bol) (v_start V2 (Z.of_N sc - 1) bol) = true ->
  forall w, Forall (fun b => b < p_csize p) w -> w <> [] ->
    scan V1 (v_start V1 (Z.of_N sc - 1) bol) w 0 (0, 0%nat) =
    scan V2 (v_start V2 (Z.of_N sc - 1) bol) w 0 (0, 0%nat).
Proof.
  intros H1 H2 w Hw Hne.
  pose proof (C01_token p sc bol V1 m1 H1 w Hw Hne) as T1.
  pose proof (C01_token p sc bol V2 m2 H2 w Hw Hne) as T2.
  destruct (scan V1 _ w 0 (0, 0%nat)) as [r1 k1]. destruct (scan V2 _ w 0 (0, 0%nat)) as [r2 k2].
  destruct T1 as (_ & _ & S1). destruct T2 as (_ & _ & S2).
  destruct (Selected_unique _ _ _ _ _ _ S1 S2). subst. reflexivity.
Qed.
