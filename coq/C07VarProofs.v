(** * C07VarProofs: REJECT in rules with (variable) trailing context - what the
    validator [rej_validate] establishes about an observed event stream. *)
From Coq Require Import List NArith ZArith Bool Lia.
Import ListNotations.
Require Import FlexV.Regex FlexV.SpecAuto FlexV.Pat FlexV.Tables FlexV.Scan FlexV.C01Proofs FlexV.RScan
               FlexV.Tokenize FlexV.C07Proofs FlexV.RejectTok.
Local Open Scope N_scope.

(** One scanning step of a scanner whose actions reject according to [pol]:
    the actions run for a prefix of the alternatives [al], in order, none
    skipped; each is handed a documented head of its match; all but the last
    reject; the step consumes the text handed to the last one ([n] = 0 when
    every alternative rejected). *)
Inductive RejWalk (p : program) (pol : N -> policy) (w : list byte)
  : counters -> list (N * nat) -> list (N * nat) -> counters -> nat -> Prop :=
| RW_exhausted : forall c, RejWalk p pol w c [] [] c O
| RW_accept : forall c r k rest h,
    SplitOk p r (firstn k w) h -> rejects (pol r) h (cget c r) = false ->
    RejWalk p pol w c ((r, k) :: rest) [(r, h)] (cincr c r) h
| RW_reject : forall c r k rest h es c' n,
    SplitOk p r (firstn k w) h -> rejects (pol r) h (cget c r) = true ->
    RejWalk p pol w (cincr c r) rest es c' n ->
    RejWalk p pol w c ((r, k) :: rest) ((r, h) :: es) c' n.

Lemma rej_walk_v_sound p pol w : forall al c evs evs' c' n,
  rej_walk_v p pol w c al evs = Some (evs', c', n) ->
  exists es, evs = es ++ evs' /\ RejWalk p pol w c al es c' n.
Proof.
  induction al as [|[r k] rest IH]; intros c evs evs' c' n H; cbn [rej_walk_v] in H.
  - inversion H; subst. exists []. split; [reflexivity|constructor].
  - destruct evs as [|[r' h] evs0]; [discriminate|].
    destruct (N.eqb r r' && split_okb p r (firstn k w) h) eqn:E; [|discriminate].
    apply andb_true_iff in E. destruct E as [Er Es]. apply N.eqb_eq in Er. subst r'.
    apply split_okb_spec in Es.
    destruct (rejects (pol r) h (cget c r)) eqn:Ej.
    + destruct (IH _ _ _ _ _ H) as [es [He Hw]]. exists ((r, h) :: es). split.
      * simpl. rewrite He. reflexivity.
      * eapply RW_reject; eauto.
    + injection H as E1 E2 E3. subst evs' c' n. exists [(r, h)]. split; [reflexivity|]. apply RW_accept; assumption.
Qed.

(** The actions that ran are those of a prefix of the alternatives, in order. *)
Lemma RejWalk_prefix p pol w c al es c' n : RejWalk p pol w c al es c' n ->
  exists al1 al2, al = al1 ++ al2 /\ map fst al1 = map fst es /\ (n = O /\ al2 = [] \/ es <> []).
Proof.
  induction 1 as [c|c r k rest h Hs Hj|c r k rest h es c' n Hs Hj Hw IH].
  - exists [], []. repeat split. left. split; reflexivity.
  - exists [(r, k)], rest. repeat split. right. discriminate.
  - destruct IH as [al1 [al2 [Ha [Hm Hd]]]]. exists ((r, k) :: al1), al2. repeat split.
    + simpl. rewrite Ha. reflexivity.
    + simpl. rewrite Hm. reflexivity.
    + right. discriminate.
Qed.

(** The event stream of a whole input. *)
Inductive DocRejTok (p : program) (sc : N) (pol : N -> policy) : counters -> bool -> list byte -> list (N * nat) -> Prop :=
| DR_nil : forall c bol, DocRejTok p sc pol c bol [] []
| DR_last : forall c bol w es c',
    w <> [] -> RejWalk p pol w c (salts (sobs_of (spec_start p sc bol)) w) es c' O ->
    DocRejTok p sc pol c bol w es
| DR_cons : forall c bol w es c' n rest,
    w <> [] -> RejWalk p pol w c (salts (sobs_of (spec_start p sc bol)) w) es c' n -> (1 <= n)%nat ->
    DocRejTok p sc pol c' (bol_after bol (firstn n w)) (skipn n w) rest ->
    DocRejTok p sc pol c bol w (es ++ rest).

Theorem rej_validate_sound p sc pol : forall fuel c bol w evs,
  rej_validate fuel p sc pol c bol w evs = true -> DocRejTok p sc pol c bol w evs.
Proof.
  induction fuel as [|f IH]; intros c bol w evs H; cbn [rej_validate] in H; [discriminate|].
  destruct w as [|b w'].
  - destruct evs; [constructor|discriminate].
  - destruct (rej_walk_v p pol (b :: w') c (salts (sobs_of (spec_start p sc bol)) (b :: w')) evs)
      as [[[evs' c'] n]|] eqn:E; [|discriminate].
    destruct (rej_walk_v_sound _ _ _ _ _ _ _ _ _ E) as [es [He Hw]]. subst evs.
    destruct n as [|n].
    + destruct evs'; [|discriminate]. rewrite app_nil_r. eapply DR_last; [discriminate|exact Hw].
    + eapply DR_cons; [discriminate|exact Hw|lia|]. apply IH. exact H.
Qed.

(** A validated walk visits alternatives that really match, longest first. *)
Corollary RejWalk_alternatives_match p sc pol w bol c es c' n r k :
  RejWalk p pol w c (salts (sobs_of (spec_start p sc bol)) w) es c' n ->
  In (r, k) (salts (sobs_of (spec_start p sc bol)) w) ->
  (k <= length w)%nat /\ rule_matches (spec_start p sc bol) r (firstn k w).
Proof. intros _ Hin. apply alternatives_complete. exact Hin. Qed.

(** ** Table side: the text handed to the action of a variable-trailing-context rule

    For tables that pass the lock-step check against the specification
    automaton with head markers ([spec_start_r]), the head position the
    find_rule loop settles on ([find_head] below the flagged entry) is, for
    every input, a prefix of the match that the head pattern matches. *)
From Coq Require Import Sorted.

Lemma number_from_In {A} (l : list A) : forall n i x,
  In (i, x) (number_from n l) -> n <= i /\ nth_error l (N.to_nat (i - n)) = Some x.
Proof.
  induction l as [|a t IH]; intros n i x H; simpl in H; [contradiction|].
  destruct H as [H|H].
  - inversion H; subst. split; [lia|]. rewrite N.sub_diag. reflexivity.
  - apply IH in H. destruct H as [Hle Hn]. split; [lia|].
    replace (N.to_nat (i - n)) with (S (N.to_nat (i - (n + 1)))) by lia. exact Hn.
Qed.

Lemma number_from_bound {A} (l : list A) : forall n i x,
  In (i, x) (number_from n l) -> i < n + N.of_nat (length l).
Proof.
  induction l as [|a t IH]; intros n i x H; simpl in H; [contradiction|].
  destruct H as [H|H].
  - inversion H; subst. simpl length. lia.
  - apply IH in H. simpl length. lia.
Qed.

Lemma marker_rule p vars sc bol i re :
  N.of_nat (length (p_rules p)) + 1 < HEAD_MASK ->
  In (i, re) (spec_start_r p vars sc bol) -> HEAD_MASK <= i ->
  exists rl, rule_of p (i - HEAD_MASK) = Some rl /\ re = denote (p_csize p) (r_fl rl) (r_head rl).
Proof.
  intros Hn Hin Hi. unfold spec_start_r in Hin. apply in_app_or in Hin. destruct Hin as [Hin|Hin].
  - exfalso. unfold spec_start in Hin. apply in_app_or in Hin. destruct Hin as [Hin|Hin].
    + apply in_map_iff in Hin. destruct Hin as [[j rl] [Hj Hf]]. apply filter_In in Hf. destruct Hf as [Hf _].
      apply number_from_bound in Hf. simpl in Hj. inversion Hj; subst. lia.
    + simpl in Hin. destruct Hin as [Hin|[]]. inversion Hin; subst. lia.
  - apply in_flat_map in Hin. destruct Hin as [[j rl] [Hj Hin]]. simpl in Hin.
    destruct (memN j vars && active p sc bol rl); [|contradiction].
    simpl in Hin. destruct Hin as [Hin|[]]. inversion Hin; subst.
    apply number_from_In in Hj. destruct Hj as [Hle Hnth]. exists rl. split; [|reflexivity].
    unfold rule_of. replace (j + HEAD_MASK - HEAD_MASK) with j by lia.
    replace (N.to_nat j - 1)%nat with (N.to_nat (j - 1)) by lia. exact Hnth.
Qed.

Section MapAlts.
  Variable I : Type.
  Variable step : I -> byte -> I.
  Variable stop : I -> bool.
  Variable accl : I -> list N.
  Variable f : N -> N.

  Lemma iblocks_map : forall w i n,
    iblocks I step stop (fun i => map f (accl i)) i w n =
    map (map (fun ek : N * nat => (f (fst ek), snd ek))) (iblocks I step stop accl i w n).
  Proof.
    assert (H0 : forall i n, map (fun r => (r, n)) (map f (accl i)) =
                             map (fun ek : N * nat => (f (fst ek), snd ek)) (map (fun r => (r, n)) (accl i))).
    { intros i n. rewrite !map_map. reflexivity. }
    induction w as [|b w IH]; intros i n; cbn [iblocks].
    - rewrite H0. destruct (stop i); reflexivity.
    - rewrite H0. destruct (stop i); cbn [map]; [reflexivity|]. rewrite IH. reflexivity.
  Qed.

  Lemma alts_map i w :
    alts I step stop (fun i => map f (accl i)) i w =
    map (fun ek : N * nat => (f (fst ek), snd ek)) (alts I step stop accl i w).
  Proof. unfold alts. rewrite iblocks_map, <- map_rev, concat_map. reflexivity. Qed.
End MapAlts.

Lemma ralts_of_raw t i0 w :
  ralts t i0 w = map (fun ek : N * nat => (norm_entry (fst ek), snd ek)) (ralts_raw t i0 w).
Proof.
  unfold ralts, ralts_raw. rewrite <- alts_map. unfold alts. f_equal. f_equal.
  assert (E : forall w i n, iblocks ist (cstep (r_c t)) (cstop (r_c t)) (racclN t) i w n =
                            iblocks ist (cstep (r_c t)) (cstop (r_c t)) (fun i => map norm_entry (racclRaw t i)) i w n).
  { assert (A : forall i, racclN t i = map norm_entry (racclRaw t i)).
    { intros i. unfold racclN, racclRaw. destruct (raccl t i); [rewrite map_map; reflexivity|reflexivity]. }
    induction w0 as [|b w0 IH]; intros i n; cbn [iblocks]; rewrite A; [reflexivity|].
    destruct (cstop (r_c t) i); [reflexivity|]. rewrite IH. reflexivity. }
  apply E.
Qed.

Lemma find_head_In target al j : find_head target al = Some j -> In (target, j) al.
Proof.
  induction al as [|[e k] rest IH]; simpl; [discriminate|].
  destruct (N.eqb e target) eqn:E; intros H.
  - apply N.eqb_eq in E. inversion H; subst. left. reflexivity.
  - right. auto.
Qed.

Lemma ssorted_mid {X} (R : X -> X -> Prop) l1 a l2 : StronglySorted R (l1 ++ a :: l2) -> Forall (R a) l2.
Proof.
  induction l1 as [|x l1 IH]; simpl; intros H.
  - inversion H; assumption.
  - inversion H; auto.
Qed.

Theorem variable_head_is_a_head_match p vars sc bol t al m i0 :
  N.of_nat (length (p_rules p)) + 1 < HEAD_MASK ->
  check_rview t vars al m (spec_start_r p vars sc bol) i0 = true ->
  forall w, Forall (fun b => In b al) w ->
  forall pre r k rest j,
    ralts_raw t i0 w = pre ++ (r + TRAIL_MASK, k) :: rest -> r < TRAIL_MASK ->
    find_head (r + HEAD_MASK) rest = Some j ->
    (j <= k <= length w)%nat /\
    exists rl, rule_of p r = Some rl /\
               Matches (denote (p_csize p) (r_fl rl) (r_head rl)) (firstn j w) /\
               rule_matches (spec_start_r p vars sc bol) r (firstn k w).
Proof.
  intros Hn Hck w Hw pre r k rest j Hraw Hr Hf.
  pose proof (reject_alternatives t vars al m _ i0 Hck w Hw) as Hs.
  rewrite ralts_of_raw, Hraw, map_app in Hs. cbn [map fst snd] in Hs.
  assert (Hnr : norm_entry (r + TRAIL_MASK) = r).
  { unfold norm_entry, TRAIL_MASK, HEAD_MASK in *.
    destruct (8192 <=? r + 8192) eqn:E1; [|apply N.leb_gt in E1; lia].
    destruct (r + 8192 <? 16384) eqn:E2; [simpl; lia|apply N.ltb_ge in E2; lia]. }
  rewrite Hnr in Hs.
  apply find_head_In in Hf.
  assert (Hh : In (r + HEAD_MASK, j) (map (fun ek : N * nat => (norm_entry (fst ek), snd ek)) rest)).
  { apply in_map_iff. exists (r + HEAD_MASK, j). split; [|assumption]. simpl. f_equal.
    unfold norm_entry, TRAIL_MASK, HEAD_MASK in *.
    destruct (r + 16384 <? 16384) eqn:E2; [apply N.ltb_lt in E2; lia|]. rewrite andb_false_r. reflexivity. }
  pose proof (alternatives_ordered (spec_start_r p vars sc bol) w) as Hsort. rewrite <- Hs in Hsort.
  apply ssorted_mid in Hsort. rewrite Forall_forall in Hsort. specialize (Hsort _ Hh).
  assert (Hk : In (r, k) (salts (sobs_of (spec_start_r p vars sc bol)) w)).
  { rewrite <- Hs. apply in_or_app. right. left. reflexivity. }
  assert (Hj : In (r + HEAD_MASK, j) (salts (sobs_of (spec_start_r p vars sc bol)) w)).
  { rewrite <- Hs. apply in_or_app. right. right. assumption. }
  apply alternatives_complete in Hk. apply alternatives_complete in Hj.
  destruct Hk as [Hkl Hkm]. destruct Hj as [Hjl [re [Hin Hm]]].
  split.
  - unfold alt_lt in Hsort. simpl in Hsort. lia.
  - destruct (marker_rule p vars sc bol _ _ Hn Hin) as [rl [Hrl Hre]]; [unfold HEAD_MASK; lia|].
    replace (r + HEAD_MASK - HEAD_MASK) with r in Hrl by lia. exists rl. subst re. auto.
Qed.

(** ** line numbers of REJECT scanners: the events are those of [rej_tokens],
    and the number attached to the first event of the input is one plus the
    newlines of the text handed to it *)
Lemma rej_tokens_ln_events hl altf pol : forall fuel c bol lines w,
  map fst (rej_tokens_ln fuel hl altf pol c bol lines w) = rej_tokens fuel hl altf pol c bol w.
Proof.
  induction fuel as [|f IH]; intros c bol lines w; cbn [rej_tokens_ln rej_tokens]; [reflexivity|].
  destruct w as [|b w']; [reflexivity|].
  destruct (walk hl pol c (altf bol (b :: w'))) as [[ev c'] n].
  assert (E : map fst (map (fun rh : N * nat => (fst rh, snd rh, S (lines + nl_count (firstn (snd rh) (b :: w'))))) ev) = ev).
  { rewrite map_map. simpl. induction ev as [|[r h] ev IHev]; simpl; [reflexivity|]. rewrite IHev. reflexivity. }
  destruct n as [|n]; [exact E|]. rewrite map_app, E, IH. reflexivity.
Qed.

Lemma nl_count_app u v : nl_count (u ++ v) = (nl_count u + nl_count v)%nat.
Proof. unfold nl_count. rewrite filter_app, app_length. reflexivity. Qed.

(** The number attached to an event is one plus the newlines of the input
    consumed before its token ([u]) plus those of the text handed to the
    action (a prefix of the rest [v]) - whatever was rejected before. *)
Theorem rej_ln_sound hl altf pol : forall fuel c bol pre w e,
  In e (rej_tokens_ln fuel hl altf pol c bol (nl_count pre) w) ->
  exists u v, pre ++ w = u ++ v /\ snd e = S (nl_count u + nl_count (firstn (snd (fst e)) v)).
Proof.
  induction fuel as [|f IH]; intros c bol pre w e H; cbn [rej_tokens_ln] in H; [contradiction|].
  destruct w as [|b w']; [contradiction|].
  destruct (walk hl pol c (altf bol (b :: w'))) as [[ev c'] n].
  assert (Hev : In e (map (fun rh : N * nat => (fst rh, snd rh, S (nl_count pre + nl_count (firstn (snd rh) (b :: w'))))) ev) ->
                exists u v, pre ++ b :: w' = u ++ v /\ snd e = S (nl_count u + nl_count (firstn (snd (fst e)) v))).
  { intros Hin. apply in_map_iff in Hin. destruct Hin as [[r h] [He _]]. subst e. exists pre, (b :: w'). split; reflexivity. }
  destruct n as [|n]; [auto|].
  apply in_app_or in H. destruct H as [H|H]; [auto|].
  rewrite <- nl_count_app in H. apply IH in H. destruct H as [u [v [Huv He]]].
  exists u, v. split; [|exact He]. rewrite <- Huv, <- app_assoc, firstn_skipn. reflexivity.
Qed.
