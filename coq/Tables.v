(** * Tables: the three table interpreters of the generated scanner
    (compressed [yy_base/yy_def/yy_nxt/yy_chk] with equivalence and
    meta-equivalence classes, full [-Cf] rows, full-speed [-CF] transition
    structs), re-stated in Gallina over the arrays flex emitted.  Layer R
    ("RunStep").  Executable definitions only. *)
From Coq Require Import List NArith ZArith PArith Bool FMapPositive.
Import ListNotations.
Require Import FlexV.Regex.
Local Open Scope Z_scope.

Definition arr := PositiveMap.t Z.

Definition aget (a : arr) (i : Z) : option Z :=
  if i <? 0 then None else PositiveMap.find (Z.to_pos (i + 1)) a.

Fixpoint arr_fill (l : list Z) (k : positive) (a : arr) : arr :=
  match l with
  | [] => a
  | x :: t => arr_fill t (Pos.succ k) (PositiveMap.add k x a)
  end.
Definition arr_of_list (l : list Z) : arr := arr_fill l 1%positive (PositiveMap.empty Z).

(** Implementation states: a table state, the jam state, or [Bad] (an array was
    indexed out of range or a default chain did not end: never acceptable). *)
Inductive ist := Bad | Jam | St (s : Z).

Definition ikey (i : ist) : positive :=
  match i with
  | Bad => 1%positive
  | Jam => 2%positive
  | St s => match s with
            | Z0 => 3%positive
            | Zpos p => (p~0~0)%positive
            | Zneg p => (p~1~0)%positive
            end
  end.

Definition ist_eqb (a b : ist) : bool :=
  match a, b with
  | Bad, Bad => true
  | Jam, Jam => true
  | St x, St y => Z.eqb x y
  | _, _ => false
  end.

Definition obind {A B} (o : option A) (f : A -> option B) : option B :=
  match o with Some x => f x | None => None end.
Notation "x <- o ;; k" := (obind o (fun x => k)) (at level 61, o at next level, right associativity).

(** A uniform view of a scanner automaton. [v_acc] is the [yy_act] the scanner
    would find in that state (0 = not accepting); [v_stop] tells the match loop
    it need not look at another character. *)
Record view := {
  v_start : Z -> bool -> ist;      (* start condition number (INITIAL = 0), at-BOL flag *)
  v_step : ist -> byte -> ist;
  v_acc : ist -> option Z;
  v_stop : ist -> bool
}.

(** ** compressed tables *)
Record ctab := {
  c_accept : arr; c_ec : arr; c_meta : arr; c_base : arr; c_def : arr; c_nxt : arr; c_chk : arr;
  c_useecs : bool; c_usemecs : bool;
  c_lastdfa : Z; c_jambase : Z; c_nul_ec : Z;
  c_interactive : bool;           (* loop ends on yy_base == YY_JAMBASE rather than on YY_JAMSTATE *)
  c_bol : bool                    (* M4_MODE_BOL_NEEDED *)
}.

Definition c_jam (t : ctab) : Z := c_lastdfa t + 1.

Definition cclass (t : ctab) (b : byte) : option Z :=
  if N.eqb b 0 then Some (c_nul_ec t)
  else if c_useecs t then aget (c_ec t) (Z.of_N b) else Some (Z.of_N b).

(** M4_GEN_NEXT_COMPRESSED_STATE: follow the default chain until [yy_chk] verifies. *)
Fixpoint cnext (fuel : nat) (t : ctab) (s c : Z) : option Z :=
  bs <- aget (c_base t) s ;;
  ck <- aget (c_chk t) (bs + c) ;;
  if ck =? s then aget (c_nxt t) (bs + c)
  else match fuel with
       | O => None
       | S f =>
           d <- aget (c_def t) s ;;
           if c_usemecs t && (c_jam t + 1 <=? d)
           then (c' <- aget (c_meta t) c ;; cnext f t d c')
           else cnext f t d c
       end.

Definition cstep (t : ctab) (i : ist) (b : byte) : ist :=
  match i with
  | Bad => Bad
  | Jam => Jam
  | St s =>
      match (c <- cclass t b ;; cnext (Z.to_nat (c_lastdfa t) + 300) t s c) with
      | Some z => if z =? c_jam t then Jam else if z <=? 0 then Bad else if c_lastdfa t <? z then Bad else St z
      | None => Bad
      end
  end.

Definition cacc (t : ctab) (i : ist) : option Z :=
  match i with
  | Bad => None
  | Jam => Some 0
  | St s => aget (c_accept t) s
  end.

Definition cstop (t : ctab) (i : ist) : bool :=
  match i with
  | Bad => true
  | Jam => true
  | St s => if c_interactive t
            then match aget (c_base t) s with Some b => b =? c_jambase t | None => true end
            else false
  end.

Definition start_of (bolneeded : bool) (sc : Z) (bol : bool) : Z :=
  2 * sc + 1 + (if bolneeded && bol then 1 else 0).

Definition cview (t : ctab) : view :=
  {| v_start := fun sc bol => St (start_of (c_bol t) sc bol);
     v_step := cstep t; v_acc := cacc t; v_stop := cstop t |}.

(** ** full tables (-Cf) *)
Record ftab := {
  f_nxt : arr; f_rowlen : Z; f_accept : arr;
  f_nultrans : option arr; f_ec : option arr; f_nul_ec : Z;
  f_lastdfa : Z; f_bol : bool
}.

Definition fclass (t : ftab) (b : byte) : option Z :=
  match f_ec t with Some e => aget e (Z.of_N b) | None => Some (Z.of_N b) end.

Definition fstep (t : ftab) (i : ist) (b : byte) : ist :=
  match i with
  | Bad => Bad
  | Jam => Jam
  | St s =>
      let r :=
        if N.eqb b 0 then
          match f_nultrans t with
          | Some nt => aget nt s
          | None => aget (f_nxt t) (s * f_rowlen t + f_nul_ec t)
          end
        else c <- fclass t b ;;
             (if (c <? 0) || (f_rowlen t <=? c) then None else aget (f_nxt t) (s * f_rowlen t + c))
      in match r with
         | Some z => if z <=? 0 then Jam else if f_lastdfa t <? z then Bad else St z
         | None => Bad
         end
  end.

Definition facc (t : ftab) (i : ist) : option Z :=
  match i with
  | Bad => None
  | Jam => Some 0
  | St s => aget (f_accept t) s
  end.

Definition fstop (i : ist) : bool := match i with St _ => false | _ => true end.

Definition fview (t : ftab) : view :=
  {| v_start := fun sc bol => St (start_of (f_bol t) sc bol);
     v_step := fstep t; v_acc := facc t; v_stop := fstop |}.

(** On a jam the full-table loop negates the entry to recover the state it was
    in; this holds exactly when every non-positive entry of row [s] is [-s]
    (column 0 of each row leads to the end-of-buffer state [eob]). *)
Definition frow_ok (t : ftab) (eob : Z) (s : Z) : bool :=
  forallb (fun c => match aget (f_nxt t) (s * f_rowlen t + c) with
                    | Some z => (0 <? z) || (z =? - s)
                    | None => false
                    end)
          (map Z.of_nat (seq 1 (Z.to_nat (f_rowlen t) - 1))).

(** ** full-speed tables (-CF) *)
Record stab := {
  s_verify : arr; s_nxt : arr; s_starts : arr;
  s_ec : option arr; s_nul_ec : Z; s_bol : bool
}.

Definition sclass (t : stab) (b : byte) : option Z :=
  if N.eqb b 0 then Some (s_nul_ec t)
  else match s_ec t with Some e => aget e (Z.of_N b) | None => Some (Z.of_N b) end.

Definition sstep' (t : stab) (i : ist) (b : byte) : ist :=
  match i with
  | Bad => Bad
  | Jam => Jam
  | St p =>
      match (c <- sclass t b ;;
             v <- aget (s_verify t) (p + c) ;;
             n <- aget (s_nxt t) (p + c) ;;
             Some (if v =? c then St (p + n) else Jam)) with
      | Some r => r
      | None => Bad
      end
  end.

Definition sacc' (t : stab) (i : ist) : option Z :=
  match i with
  | Bad => None
  | Jam => Some 0
  | St p => aget (s_nxt t) (p - 1)
  end.

Definition sview (t : stab) : view :=
  {| v_start := fun sc bol =>
       match aget (s_starts t) (start_of (s_bol t) sc bol) with Some p => St p | None => Bad end;
     v_step := sstep' t; v_acc := sacc' t; v_stop := fstop |}.

(** ** REJECT / variable-trailing-context scanners: [yy_accept] indexes
    [yy_acclist]; the slice [yy_accept[s] .. yy_accept[s+1]) lists the accepting
    numbers of state [s] (rule numbers, possibly or-ed with YY_TRAILING_MASK, and
    head markers rule|YY_TRAILING_HEAD_MASK). *)
Fixpoint aslice (a : arr) (from : Z) (n : nat) : option (list Z) :=
  match n with
  | O => Some []
  | S n' => x <- aget a from ;; rest <- aslice a (from + 1) n' ;; Some (x :: rest)
  end.

Definition accl_of (accept acclist : arr) (i : ist) : option (list Z) :=
  match i with
  | Bad => None
  | Jam => Some []
  | St s =>
      lo <- aget accept s ;;
      hi <- aget accept (s + 1) ;;
      if (lo <=? 0) || (hi <? lo) then Some [] else aslice acclist lo (Z.to_nat (hi - lo))
  end.

Record rtab := { r_c : ctab; r_acclist : arr }.

(** In a REJECT scanner [v_acc] is not used by the scanner; the view keeps the
    first entry of the slice so that the uniform interface stays meaningful. *)
Definition rview (t : rtab) : view :=
  {| v_start := fun sc bol => St (start_of (c_bol (r_c t)) sc bol);
     v_step := cstep (r_c t);
     v_acc := fun i => match accl_of (c_accept (r_c t)) (r_acclist t) i with
                       | Some [] => Some 0
                       | Some (x :: _) => Some x
                       | None => None
                       end;
     v_stop := cstop (r_c t) |}.

Definition raccl (t : rtab) (i : ist) : option (list Z) := accl_of (c_accept (r_c t)) (r_acclist t) i.
