(** Property C08 - yyless, yyunput, yyinput, yymore: laws of the stream machine
    (the oracle the compiled scanners are compared with, event by event). *)
From Coq Require Import List NArith ZArith Bool.
Import ListNotations.
Require Import FlexV.Regex FlexV.Pat FlexV.Tokenize FlexV.Stream FlexV.StreamProofs FlexV.Conservation.
Local Open Scope Z_scope.

(** yyless(n): the first n bytes stay yytext, the rest becomes the next input, in order, nothing lost *)
Theorem C08_less_law : forall l a rest st text more,
  exec l (OLess a :: rest) st text more =
  exec l rest (with_inp st (skipn (less_n a (length text)) text ++ s_inp st)
                        (if l then s_line st - nl_count (skipn (less_n a (length text)) text) else s_line st)
                        (firstn (length (s_done st) - length (skipn (less_n a (length text)) text)) (s_done st)))
       (firstn (less_n a (length text)) text) more.
Proof. exact less_law. Qed.
Print Assumptions C08_less_law.

Theorem C08_less_keeps_all_bytes : forall a (text : list byte),
  firstn (less_n a (length text)) text ++ skipn (less_n a (length text)) text = text.
Proof. exact less_keeps_all_bytes. Qed.
Print Assumptions C08_less_keeps_all_bytes.

(** yyunput(c) makes c the next byte read *)
Theorem C08_unput_next_read : forall c st l,
  s_inp (with_inp st (c :: s_inp st) (if l && N.eqb c 10 then s_line st - 1 else s_line st) (s_done st)) = c :: s_inp st.
Proof. exact unput_next_read. Qed.
Print Assumptions C08_unput_next_read.

(** yyinput() returns and consumes the next byte; its end value appears only when nothing is left,
    not even in the sources yywrap can still supply *)
Theorem C08_input_returns_next : forall c inp st l, s_inp st = c :: inp ->
  snd (input_once 1 st l) = EIn (Some c) /\ s_inp (fst (input_once 1 st l)) = inp.
Proof. exact input_returns_next. Qed.
Print Assumptions C08_input_returns_next.

Theorem C08_input_end_value_only_at_end : forall fuel l st,
  snd (input_once fuel st l) = EIn None ->
  s_inp st = [] /\ ((length (s_rest st) < fuel)%nat -> concat (s_rest st) = []).
Proof. exact input_end_value_only_at_end. Qed.
Print Assumptions C08_input_end_value_only_at_end.

(** Every input byte is consumed exactly once and in order: at every moment of a run in which yytext stays
    defined where it is used (no yyunput(); every yyless() gives back only bytes of the token just matched and
    comes before any yyinput() of the same action), what has been consumed followed by what is still unread is
    the concatenation of all sources - across buffer refills, sources supplied by yywrap, yymore, yyless, yyinput. *)
Theorem C08_bytes_conserved : forall sp sources st, Conservation.reach_ok sp (sm_init sources) st ->
  s_done st ++ StreamProofs.unread st = concat sources.
Proof. exact Conservation.bytes_conserved. Qed.
Print Assumptions C08_bytes_conserved.

Theorem C08_step_keeps_the_stream : forall sp st, Conservation.step_ok sp st = true ->
  Conservation.stream (fst (fst (sm_step sp st))) = Conservation.stream st.
Proof. exact Conservation.step_stream. Qed.
Print Assumptions C08_step_keeps_the_stream.

(** the executable form the harness evaluates on its runs is an instance *)
Theorem C08_checked_runs_are_instances : forall sp sources fuel, fst (Conservation.run_ok fuel sp (sm_init sources)) = true ->
  let st := snd (Conservation.run_ok fuel sp (sm_init sources)) in s_done st ++ StreamProofs.unread st = concat sources.
Proof. exact Conservation.run_conserved. Qed.
Print Assumptions C08_checked_runs_are_instances.

(** ** yyunput on the buffer as addresses (coq/Unput.v) *)
Require FlexV.Unput.

(** the descending copy that makes room is right although source and destination overlap *)
Theorem C08_unput_overlapping_move_is_right : forall n m dst src i, (src <= dst)%nat -> (n <= src)%nat -> (dst <= length m)%nat -> (i < n)%nat ->
  nth (dst - 1 - i) (FlexV.Unput.copy_bwd m dst src n) FlexV.BufLayout.EOB = nth (src - 1 - i) m FlexV.BufLayout.EOB.
Proof. exact FlexV.Unput.copy_bwd_spec. Qed.
Print Assumptions C08_unput_overlapping_move_is_right.

(** a successful yyunput(c) makes c the next unread byte in front of the former unread bytes and keeps the buffer well formed *)
Theorem C08_unput_pushes_in_front : forall b c b', FlexV.Unput.UInv b -> FlexV.Unput.unput b c = Some b' ->
  FlexV.Unput.UInv b' /\ FlexV.Unput.u_unread b' = c :: FlexV.Unput.u_unread b /\ FlexV.Unput.u_size b' = FlexV.Unput.u_size b.
Proof. exact FlexV.Unput.unput_unread. Qed.
Print Assumptions C08_unput_pushes_in_front.

(** "push-back overflow" exactly when fewer than two bytes would stay free in front of the unread text *)
Theorem C08_unput_overflow_exact : forall b c, FlexV.Unput.UInv b ->
  (FlexV.Unput.unput b c = None <-> (FlexV.Unput.u_size b + FlexV.Unput.u_cp b < FlexV.Unput.u_nch b + 2)%nat).
Proof. exact FlexV.Unput.unput_overflow_iff. Qed.
Print Assumptions C08_unput_overflow_exact.

(** every store of yyunput lies inside the buf_size + 2 bytes of the buffer *)
Theorem C08_unput_stays_inside : forall b c b', FlexV.Unput.UInv b -> FlexV.Unput.unput b c = Some b' ->
  length (FlexV.Unput.u_mem b') = (FlexV.Unput.u_size b + 2)%nat /\ (FlexV.Unput.u_cp b' < FlexV.Unput.u_size b + 2)%nat.
Proof. exact FlexV.Unput.unput_writes_inside. Qed.
Print Assumptions C08_unput_stays_inside.

(** any run of unputs: afterwards the unread bytes are the pushed ones, last pushed first, then the former ones *)
Theorem C08_unputs_then_rescanned : forall cs b b', FlexV.Unput.UInv b -> FlexV.Unput.unputs b cs = Some b' ->
  FlexV.Unput.UInv b' /\ FlexV.Unput.u_unread b' = rev cs ++ FlexV.Unput.u_unread b.
Proof. exact FlexV.Unput.unputs_unread. Qed.
Print Assumptions C08_unputs_then_rescanned.

(** a buffer made by yy_scan_bytes / yy_scan_string is exactly as large as its content: the first yyunput before anything
    was consumed stops with "push-back overflow" (observed on compiled scanners by the unput grid) *)
Theorem C08_unput_after_scan_bytes_overflows : forall data c, FlexV.Unput.unput (FlexV.Unput.scan_bytes data) c = None.
Proof. exact FlexV.Unput.unput_after_scan_bytes_overflows. Qed.
Print Assumptions C08_unput_after_scan_bytes_overflows.
