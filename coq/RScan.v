(** * RScan: the state-stack match loop of REJECT scanners over a list of bytes
    and the order in which alternatives are offered to the actions. *)
From Coq Require Import List NArith ZArith Bool Lia Sorted.
Import ListNotations.
Require Import FlexV.Regex.

Section RScan.
  Variable I : Type.
  Variable step : I -> byte -> I.
  Variable stop : I -> bool.
  Variable accl : I -> list N.

  (** the blocks of candidates per visited state, in the order the states are pushed *)
  Fixpoint iblocks (i : I) (w : list byte) (n : nat) : list (list (N * nat)) :=
    map (fun r => (r, n)) (accl i) ::
    if stop i then [] else
    match w with
    | [] => []
    | b :: w' => iblocks (step i b) w' (S n)
    end.

  (** yy_find_action with REJECT: pop states from the top of the stack, within a
      state walk the accepting list in order. *)
  Definition alts (i0 : I) (w : list byte) : list (N * nat) := concat (rev (iblocks i0 w 0)).

  Variable obs : list byte -> list N.

  Fixpoint sblocks (pre w : list byte) : list (list (N * nat)) :=
    map (fun r => (r, length pre)) (obs pre) ::
    match w with
    | [] => []
    | b :: w' => sblocks (pre ++ [b]) w'
    end.

  Definition salts (w : list byte) : list (N * nat) := concat (rev (sblocks [] w)).

  Variable i0 : I.
  Variable A : byte -> Prop.
  Definition run (u : list byte) : I := fold_left step u i0.
  Hypothesis Hobs : forall u, Forall A u -> accl (run u) = obs u.
  Hypothesis Hstop : forall u, stop (run u) = true -> forall b v, Forall A (u ++ b :: v) -> obs (u ++ b :: v) = [].

  Lemma sblocks_dead : forall w pre,
    (forall b v, Forall A (pre ++ b :: v) -> obs (pre ++ b :: v) = []) ->
    Forall A (pre ++ w) ->
    sblocks pre w = map (fun r => (r, length pre)) (obs pre) :: repeat [] (length w).
  Proof.
    induction w as [|b w IH]; intros pre Hd HA.
    - reflexivity.
    - cbn [sblocks length repeat]. f_equal.
      assert (HA' : Forall A ((pre ++ [b]) ++ w)) by (rewrite <- app_assoc; exact HA).
      rewrite (IH (pre ++ [b])); [|intros c v Hc; rewrite <- app_assoc in *; apply Hd; exact Hc|exact HA'].
      assert (Hb : obs (pre ++ [b]) = []).
      { apply Hd. apply Forall_app in HA. destruct HA as [Hp Hbw].
        apply Forall_app. split; [assumption|]. inversion Hbw; subst. constructor; auto. }
      rewrite Hb. reflexivity.
  Qed.

  Lemma run_app u b : run (u ++ [b]) = step (run u) b.
  Proof. unfold run. rewrite fold_left_app. reflexivity. Qed.

  Lemma blocks_agree : forall w pre, Forall A (pre ++ w) ->
    exists k, sblocks pre w = iblocks (run pre) w (length pre) ++ repeat [] k.
  Proof.
    induction w as [|b w IH]; intros pre HA.
    - exists 0. cbn [sblocks iblocks]. rewrite app_nil_r in HA. rewrite (Hobs pre HA).
      destruct (stop (run pre)); reflexivity.
    - assert (Hp : Forall A pre) by (apply Forall_app in HA; tauto).
      cbn [iblocks]. destruct (stop (run pre)) eqn:Es.
      + exists (length (b :: w)). rewrite sblocks_dead; [|apply Hstop; exact Es|exact HA].
        rewrite (Hobs pre Hp). reflexivity.
      + assert (HA' : Forall A ((pre ++ [b]) ++ w)) by (rewrite <- app_assoc; exact HA).
        destruct (IH (pre ++ [b]) HA') as [k Hk]. exists k.
        cbn [sblocks]. rewrite Hk, run_app, (Hobs pre Hp), app_length. simpl.
        replace (length pre + 1) with (S (length pre)) by lia. reflexivity.
  Qed.

  Lemma concat_repeat_nil {X} k : concat (repeat (@nil X) k) = [].
  Proof. induction k; simpl; auto. Qed.

  Lemma rev_repeat {X} (x : X) k : rev (repeat x k) = repeat x k.
  Proof.
    induction k as [|k IH]; simpl; [reflexivity|]. rewrite IH.
    clear IH. induction k as [|k IH]; simpl; [reflexivity|]. rewrite IH. reflexivity.
  Qed.

  (** The REJECT scanner offers exactly the specification's alternatives, in the same order. *)
  Theorem alts_spec w : Forall A w -> alts i0 w = salts w.
  Proof.
    intros HA. unfold alts, salts. destruct (blocks_agree w [] HA) as [k Hk].
    rewrite Hk. simpl. rewrite rev_app_distr, rev_repeat, concat_app, concat_repeat_nil. reflexivity.
  Qed.

  (** Membership and order of the specification's alternatives. *)
  Lemma sblocks_In : forall w pre r k,
    In (r, k) (concat (sblocks pre w)) <->
    (length pre <= k <= length pre + length w /\ In r (obs (firstn k (pre ++ w)))).
  Proof.
    induction w as [|b w IH]; intros pre r k; cbn [sblocks concat].
    - rewrite !app_nil_r, in_map_iff. simpl. split.
      + intros [x [Hx Hin]]. inversion Hx; subst. rewrite firstn_all. split; [lia|assumption].
      + intros [Hk Hin]. assert (k = length pre) by lia. subst. rewrite firstn_all in Hin. eauto.
    - rewrite in_app_iff, in_map_iff, IH, app_length. simpl. rewrite <- app_assoc. simpl. split.
      + intros [[x [Hx Hin]]|[Hk Hin]].
        * inversion Hx; subst. split; [lia|].
          rewrite firstn_app, Nat.sub_diag, firstn_all. simpl. rewrite app_nil_r. assumption.
        * split; [lia|assumption].
      + intros [Hk Hin]. destruct (Nat.eq_dec k (length pre)) as [->|Hne].
        * left. exists r. split; [reflexivity|].
          rewrite firstn_app, Nat.sub_diag, firstn_all in Hin. simpl in Hin. rewrite app_nil_r in Hin. assumption.
        * right. split; [lia|assumption].
  Qed.

  Lemma In_concat_rev {X} (l : list (list X)) x : In x (concat (rev l)) <-> In x (concat l).
  Proof.
    rewrite !in_concat. split; intros [y [Hy Hx]]; exists y; (split; [|assumption]).
    - apply in_rev. assumption.
    - apply in_rev in Hy. assumption.
  Qed.

  Theorem salts_In w r k : In (r, k) (salts w) <-> (k <= length w /\ In r (obs (firstn k w))).
  Proof.
    unfold salts. rewrite In_concat_rev, sblocks_In. simpl. split; intros [H1 H2]; (split; [lia|assumption]).
  Qed.

  (** order: decreasing length, then increasing rule number *)
  Definition alt_lt (a b : N * nat) : Prop :=
    snd b < snd a \/ (snd a = snd b /\ (fst a < fst b)%N).

  Lemma ssorted_app {X} (R : X -> X -> Prop) (l1 l2 : list X) :
    StronglySorted R l1 -> StronglySorted R l2 ->
    (forall x y, In x l1 -> In y l2 -> R x y) -> StronglySorted R (l1 ++ l2).
  Proof.
    induction l1 as [|a t IH]; intros H1 H2 H12; simpl; [assumption|].
    inversion H1 as [|? ? Hs Ha]; subst. constructor.
    - apply IH; [assumption|assumption|]. intros x y Hx Hy. apply H12; [right; assumption|assumption].
    - rewrite Forall_forall in *. intros x Hx. apply in_app_or in Hx. destruct Hx as [Hx|Hx].
      + apply Ha. assumption.
      + apply H12; [left; reflexivity|assumption].
  Qed.

  Hypothesis Hsorted : forall u, StronglySorted N.lt (obs u).

  Lemma block_sorted (l : list N) n : StronglySorted N.lt l -> StronglySorted alt_lt (map (fun r => (r, n)) l).
  Proof.
    induction l as [|a t IH]; intros Hs; simpl; [constructor|].
    inversion Hs as [|? ? Hs' Ha]; subst. constructor; [apply IH; assumption|].
    rewrite Forall_forall in *. intros x Hx. apply in_map_iff in Hx. destruct Hx as [r [<- Hr]].
    right. simpl. split; [reflexivity|]. apply Ha. assumption.
  Qed.

  Lemma sblocks_sorted : forall w pre, StronglySorted alt_lt (concat (rev (sblocks pre w))).
  Proof.
    induction w as [|b w IH]; intros pre; cbn [sblocks].
    - simpl. rewrite app_nil_r. apply block_sorted. apply Hsorted.
    - cbn [rev]. rewrite concat_app. simpl. rewrite app_nil_r. apply ssorted_app.
      + apply IH.
      + apply block_sorted. apply Hsorted.
      + intros [r1 k1] [r2 k2] H1 H2. rewrite In_concat_rev in H1. apply sblocks_In in H1.
        apply in_map_iff in H2. destruct H2 as [r [Hr _]]. inversion Hr; subst.
        left. simpl. destruct H1 as [H1 _]. rewrite app_length in H1. simpl in H1. lia.
  Qed.

  Theorem salts_sorted w : StronglySorted alt_lt (salts w).
  Proof. apply sblocks_sorted. Qed.
End RScan.
