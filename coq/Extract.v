(** Extraction of the executable definitions (ExtrOcamlBasic only; N, Z,
    positive and nat stay the extracted inductive types). *)
From Coq Require Import List NArith ZArith Bool FMapPositive.
From Coq Require Extraction ExtrOcamlBasic.
Require Import FlexV.Regex FlexV.SpecAuto FlexV.Lockstep FlexV.Pat FlexV.Tables FlexV.Scan
               FlexV.C01Proofs FlexV.Tokenize FlexV.GenOptions FlexV.RScan FlexV.C07Proofs FlexV.RejectTok FlexV.GenParse FlexV.Stream FlexV.Window FlexV.Warn FlexV.Codec FlexV.Buffers FlexV.Ledger FlexV.Faults FlexV.M4Quote FlexV.BufLayout FlexV.StreamProofs FlexV.Conservation FlexV.Unput FlexV.EolTable FlexV.StackGrow FlexV.NfaSim FlexV.EofAssign.
Extraction Language OCaml.
Extraction "flexv.ml"
  matchb denote rule_re spec_start sstep seqb sobs sdead
  arr_of_list aget cview fview sview frow_ok ikey ist_eqb
  ok check_view alphabet lk scan spec_scan
  validate spec_tokens view_tokens bol_after
  GenOptions.model GenOptions.all_optsets
  view_tokens_tc rview raccl ok_r check_rview spec_start_r spec_rej_tokens view_rej_tokens view_rej_tokens_tc rej_validate view_rtokens_tc ralts rule_kind sm_run sm_init wtokens sm_sessions validate_o closed_check not_first not_among dec_file dec_set_header dec_tables enc_table enc_set brun binit ledger_ok fault_events delivered m4 escape QS_A QE_A QS_B QE_B wrap requests run_ok unread unputs u_unread spec_rej_tokens_ln eol_ok can_nl nl_word head_re rule_re StackGrow.trace bs_init nview nacc members set_of wf_nfa dview ec_consistent ec_rep eof_assign
  PositiveMap.empty PositiveMap.add PositiveMap.find PositiveMap.elements
  N.of_nat N.to_nat Z.of_nat Z.of_N Z.to_N.
