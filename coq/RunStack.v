(** * RunStack: the start-condition stack as the skeleton implements it (an int
    array grown by YY_START_STACK_INCR, a pointer, a depth) and its refinement
    to the list of the stream machine.  Layer R. *)
From Coq Require Import List NArith Arith Bool Lia.
Import ListNotations.
Require Import FlexV.SourceFacts.

Definition INCR : nat := N.to_nat F_YY_START_STACK_INCR.

Lemma incr_positive : 0 < INCR.
Proof. vm_compute. lia. Qed.
Global Opaque INCR.

Record rstack := { rs_arr : list N; rs_ptr : nat; rs_depth : nat; rs_cur : N }.

Fixpoint set_nth (l : list N) (i : nat) (x : N) : list N :=
  match l, i with
  | [], _ => []
  | _ :: t, O => x :: t
  | a :: t, S j => a :: set_nth t j x
  end.

(** yy_push_state(s) *)
Definition rpush (r : rstack) (s : N) : rstack :=
  let '(arr, depth) :=
    if Nat.leb (rs_depth r) (rs_ptr r)
    then (rs_arr r ++ repeat 0%N INCR, rs_depth r + INCR)      (* yyalloc / yyrealloc: new cells undefined *)
    else (rs_arr r, rs_depth r) in
  {| rs_arr := set_nth arr (rs_ptr r) (rs_cur r); rs_ptr := S (rs_ptr r); rs_depth := depth; rs_cur := s |}.

(** yy_pop_state(): None = fatal "start-condition stack underflow" *)
Definition rpop (r : rstack) : option rstack :=
  match rs_ptr r with
  | O => None
  | S p => Some {| rs_arr := rs_arr r; rs_ptr := p; rs_depth := rs_depth r; rs_cur := nth p (rs_arr r) 0%N |}
  end.

(** yy_top_state() *)
Definition rtop (r : rstack) : N :=
  match rs_ptr r with
  | O => rs_cur r
  | S p => nth p (rs_arr r) 0%N
  end.

Definition rinit : rstack := {| rs_arr := []; rs_ptr := 0; rs_depth := 0; rs_cur := 1%N |}.

Definition RInv (r : rstack) : Prop := length (rs_arr r) = rs_depth r /\ rs_ptr r <= rs_depth r.

(** abstraction: the list stack, most recent first *)
Definition rabs (r : rstack) : list N := rev (firstn (rs_ptr r) (rs_arr r)).

Lemma set_nth_length l i x : length (set_nth l i x) = length l.
Proof. revert i; induction l as [|a t IH]; intros [|i]; simpl; auto. Qed.

Lemma firstn_set_nth_same l : forall i x, i < length l -> firstn (S i) (set_nth l i x) = firstn i l ++ [x].
Proof.
  induction l as [|a t IH]; intros [|i] x Hi; simpl in *; try lia; auto.
  f_equal. apply IH. lia.
Qed.

Lemma nth_firstn_rev_hd l : forall p, p < length l -> rev (firstn (S p) l) = nth p l 0%N :: rev (firstn p l).
Proof.
  induction l as [|a t IH]; intros [|p] Hp; simpl in *; try lia; auto.
  specialize (IH p ltac:(lia)). simpl in IH. rewrite IH. reflexivity.
Qed.

Theorem rinit_inv : RInv rinit.
Proof. split; simpl; lia. Qed.

(** the write of yy_push_state is always inside the array (the growth test makes room first) *)
Theorem rpush_in_bounds r : RInv r ->
  rs_ptr r < length (if Nat.leb (rs_depth r) (rs_ptr r) then rs_arr r ++ repeat 0%N INCR else rs_arr r).
Proof.
  intros [Hl Hp]. pose proof incr_positive. destruct (Nat.leb_spec (rs_depth r) (rs_ptr r)).
  - rewrite app_length, repeat_length. lia.
  - lia.
Qed.

Theorem rpush_refines r s : RInv r ->
  RInv (rpush r s) /\ rabs (rpush r s) = rs_cur r :: rabs r /\ rs_cur (rpush r s) = s.
Proof.
  intros [Hl Hp]. pose proof incr_positive as Hi. unfold rpush, RInv, rabs.
  destruct (Nat.leb_spec (rs_depth r) (rs_ptr r)) as [Hfull|Hroom]; cbn [rs_arr rs_ptr rs_depth rs_cur].
  - assert (Hptr : rs_ptr r = length (rs_arr r)) by lia.
    repeat split.
    + rewrite set_nth_length, app_length, repeat_length. lia.
    + lia.
    + rewrite firstn_set_nth_same by (rewrite app_length, repeat_length; lia).
      rewrite rev_app_distr. cbn [rev app]. f_equal. f_equal.
      rewrite firstn_app, Hptr, Nat.sub_diag, firstn_all. cbn [firstn]. rewrite app_nil_r. reflexivity.
  - repeat split.
    + rewrite set_nth_length. assumption.
    + lia.
    + rewrite firstn_set_nth_same by lia. rewrite rev_app_distr. reflexivity.
Qed.

Theorem rpop_refines r : RInv r ->
  match rpop r, rabs r with
  | None, [] => True
  | Some r', x :: t => RInv r' /\ rabs r' = t /\ rs_cur r' = x
  | _, _ => False
  end.
Proof.
  intros [Hl Hp]. unfold rpop, rabs. destruct (rs_ptr r) as [|p] eqn:E.
  - simpl. trivial.
  - rewrite nth_firstn_rev_hd by lia. unfold RInv. cbn [rs_arr rs_ptr rs_depth rs_cur]. repeat split; lia || reflexivity.
Qed.

Theorem rtop_refines r : RInv r ->
  rtop r = match rabs r with [] => rs_cur r | x :: _ => x end.
Proof.
  intros [Hl Hp]. unfold rtop, rabs. destruct (rs_ptr r) as [|p] eqn:E; [reflexivity|].
  rewrite nth_firstn_rev_hd by lia. reflexivity.
Qed.

(** a history of pushes and pops on the array agrees with the list stack, for
    every history (beyond the first YY_START_STACK_INCR slots too) *)
Inductive sop := SPush (s : N) | SPop.

Fixpoint rrun (r : rstack) (h : list sop) : option rstack :=
  match h with
  | [] => Some r
  | SPush s :: t => rrun (rpush r s) t
  | SPop :: t => match rpop r with Some r' => rrun r' t | None => None end
  end.

Fixpoint lrun (cur : N) (st : list N) (h : list sop) : option (N * list N) :=
  match h with
  | [] => Some (cur, st)
  | SPush s :: t => lrun s (cur :: st) t
  | SPop :: t => match st with x :: st' => lrun x st' t | [] => None end
  end.

Theorem stack_history_refines h : forall r, RInv r ->
  match rrun r h, lrun (rs_cur r) (rabs r) h with
  | Some r', Some (c, st) => RInv r' /\ rs_cur r' = c /\ rabs r' = st
  | None, None => True
  | _, _ => False
  end.
Proof.
  induction h as [|o t IH]; intros r Hinv; simpl.
  - auto.
  - destruct o as [s|].
    + destruct (rpush_refines r s Hinv) as [Hi [Ha Hc]]. specialize (IH (rpush r s) Hi).
      rewrite Ha, Hc in IH. exact IH.
    + pose proof (rpop_refines r Hinv) as Hp. destruct (rpop r) as [r'|]; destruct (rabs r) as [|x st]; try contradiction.
      * destruct Hp as [Hi [Ha Hc]]. specialize (IH r' Hi). rewrite Ha, Hc in IH. exact IH.
      * trivial.
Qed.
