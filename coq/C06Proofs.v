(** * C06Proofs: anchors and trailing context at the specification level. *)
From Coq Require Import List NArith ZArith Bool Lia.
Import ListNotations.
Require Import FlexV.Regex FlexV.SpecAuto FlexV.Pat FlexV.Tables FlexV.Scan FlexV.C01Proofs FlexV.RScan
               FlexV.Tokenize FlexV.C07Proofs FlexV.RejectTok.
Local Open Scope N_scope.

Lemma number_from_nth {A} (l : list A) : forall n i x,
  In (i, x) (number_from n l) -> n <= i /\ nth_error l (N.to_nat (i - n)) = Some x.
Proof.
  induction l as [|a t IH]; intros n i x; simpl; [intros []|].
  intros [Heq|Hin].
  - inversion Heq; subst. split; [lia|]. rewrite N.sub_diag. reflexivity.
  - destruct (IH _ _ _ Hin) as [Hle Hnth]. split; [lia|].
    replace (N.to_nat (i - n)) with (S (N.to_nat (i - (n + 1)))) by lia. exact Hnth.
Qed.

(** an item of a start state comes from an active rule of the program, or is the default rule *)
Lemma spec_start_item p sc bol i re :
  In (i, re) (spec_start p sc bol) ->
  (exists rl, rule_of p i = Some rl /\ active p sc bol rl = true /\ re = rule_re (p_csize p) rl) \/
  (i = N.of_nat (length (p_rules p)) + 1 /\ re = Cls (full (p_csize p))).
Proof.
  unfold spec_start. intros Hin. apply in_app_or in Hin. destruct Hin as [Hin|[Heq|[]]].
  - left. apply in_map_iff in Hin. destruct Hin as [[j rl] [Heq Hin]]. inversion Heq; subst. clear Heq.
    apply filter_In in Hin. destruct Hin as [Hin Hact]. simpl in *.
    apply number_from_nth in Hin. destruct Hin as [Hle Hnth].
    exists rl. repeat split; auto. unfold rule_of. replace (N.to_nat i - 1)%nat with (N.to_nat (i - 1)) by lia. exact Hnth.
  - right. inversion Heq; subst. auto.
Qed.

(** ^ rules take part only when the scanner is at the beginning of a line *)
Theorem bol_rules_only_at_bol p sc i re rl :
  In (i, re) (spec_start p sc false) -> rule_of p i = Some rl -> r_bol rl = false.
Proof.
  intros Hin Hr. apply spec_start_item in Hin. destruct Hin as [[rl' [Hr' [Hact _]]]|[Hi _]].
  - rewrite Hr in Hr'. inversion Hr'; subst rl'. unfold active in Hact.
    destruct (r_bol rl); [discriminate|reflexivity].
  - exfalso. subst i. unfold rule_of in Hr.
    assert (Hn : nth_error (p_rules p) (N.to_nat (N.of_nat (length (p_rules p)) + 1) - 1) = None).
    { apply nth_error_None. lia. }
    rewrite Hn in Hr. discriminate.
Qed.

(** a selected rule with trailing context competes with head followed by trail *)
Theorem trailing_competes_with_total_length p sc bol i rl t u :
  rule_of p i = Some rl -> r_trail rl = Some t ->
  In (i, rule_re (p_csize p) rl) (spec_start p sc bol) ->
  (Matches (rule_re (p_csize p) rl) u <->
   exists h, (h <= length u)%nat /\ Matches (denote (p_csize p) (r_fl rl) (r_head rl)) (firstn h u) /\
             Matches (denote (p_csize p) (r_fl rl) t) (skipn h u)).
Proof.
  intros _ Ht _. unfold rule_re. rewrite Ht. split.
  - intros H. apply Matches_Cat_inv in H. destruct H as [a [b [-> [Ha Hb]]]].
    exists (length a). rewrite firstn_app, Nat.sub_diag, firstn_all, skipn_app, Nat.sub_diag, skipn_all. simpl.
    rewrite app_nil_r. split; [rewrite app_length; lia|]. split; assumption.
  - intros [h [_ [Hh Ht']]]. rewrite <- (firstn_skipn h u). constructor; assumption.
Qed.

(** the head markers of a verified REJECT-table set say exactly "the head of
    this rule matches the text read so far" *)
Theorem head_marker_meaning p vars sc bol u i :
  HEAD_MASK <= i ->
  (forall x, In x (spec_start p sc bol) -> fst x < HEAD_MASK) ->
  (In i (sobs (SpecAuto.srun u (spec_start_r p vars sc bol))) <->
   exists j rl, i = j + HEAD_MASK /\ In (j, rl) (number_from 1 (p_rules p)) /\ memN j vars = true /\
                active p sc bol rl = true /\ Matches (denote (p_csize p) (r_fl rl) (r_head rl)) u).
Proof.
  intros Hi Hsmall. rewrite sobs_srun. unfold spec_start_r. split.
  - intros [re [Hin Hm]]. apply in_app_or in Hin. destruct Hin as [Hin|Hin].
    + specialize (Hsmall _ Hin). simpl in Hsmall. lia.
    + apply in_flat_map in Hin. destruct Hin as [[j rl] [Hin Hc]]. simpl in Hc.
      destruct (memN j vars) eqn:Ev; simpl in Hc; [|destruct Hc].
      destruct (active p sc bol rl) eqn:Ea; simpl in Hc; [|destruct Hc].
      destruct Hc as [Heq|[]]. inversion Heq; subst. exists j, rl. auto.
  - intros [j [rl [-> [Hin [Hv [Ha Hm]]]]]]. exists (denote (p_csize p) (r_fl rl) (r_head rl)). split; [|assumption].
    apply in_or_app. right. apply in_flat_map. exists (j, rl). split; [assumption|]. simpl. rewrite Hv, Ha. left. reflexivity.
Qed.

(** ** fixed-length trailing context: the rewind flex emits is a documented split *)
Require Import FlexV.GenParse.

Theorem fixed_tail_split p r rl t n u :
  rule_of p r = Some rl -> r_trail rl = Some t -> fixed_len t = Some n ->
  Matches (rule_re (p_csize p) rl) u ->
  SplitOk p r u (length u - n).
Proof.
  intros Hr Ht Hn Hm. unfold SplitOk. rewrite Hr, Ht. unfold rule_re in Hm. rewrite Ht in Hm.
  apply Matches_Cat_inv in Hm. destruct Hm as [a [b [-> [Ha Hb]]]].
  pose proof (fixed_len_sound _ _ _ _ _ Hn Hb) as Hlen.
  rewrite app_length, Hlen. replace (length a + n - n)%nat with (length a) by lia.
  rewrite firstn_app, Nat.sub_diag, firstn_all, skipn_app, Nat.sub_diag, skipn_all. simpl. rewrite app_nil_r.
  split; [lia|]. split; assumption.
Qed.

Theorem fixed_head_split p r rl t n u :
  rule_of p r = Some rl -> r_trail rl = Some t -> fixed_len (r_head rl) = Some n ->
  Matches (rule_re (p_csize p) rl) u ->
  SplitOk p r u n.
Proof.
  intros Hr Ht Hn Hm. unfold SplitOk. rewrite Hr, Ht. unfold rule_re in Hm. rewrite Ht in Hm.
  apply Matches_Cat_inv in Hm. destruct Hm as [a [b [-> [Ha Hb]]]].
  pose proof (fixed_len_sound _ _ _ _ _ Hn Ha) as Hlen. subst n.
  rewrite firstn_app, Nat.sub_diag, firstn_all, skipn_app, Nat.sub_diag, skipn_all. simpl. rewrite app_nil_r.
  split; [rewrite app_length; lia|]. split; assumption.
Qed.

(** a fixed-length part makes the split unique *)
Theorem fixed_tail_split_unique p r rl t n u h :
  rule_of p r = Some rl -> r_trail rl = Some t -> fixed_len t = Some n ->
  SplitOk p r u h -> h = (length u - n)%nat.
Proof.
  intros Hr Ht Hn Hs. unfold SplitOk in Hs. rewrite Hr, Ht in Hs. destruct Hs as [Hle [_ Hb]].
  pose proof (fixed_len_sound _ _ _ _ _ Hn Hb) as Hlen. rewrite skipn_length in Hlen. lia.
Qed.
