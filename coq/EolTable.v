(** * EolTable: the table yy_rule_can_match_eol (property C09).
    With %option yylineno the scanner counts the newlines of a match only if
    yy_rule_can_match_eol[rule] is set.  [can_nl r] decides whether the
    language of [r] contains a word with a newline; a table that is set for
    every rule whose HEAD [can_nl] makes the counting loop see every newline
    of every text handed to an action, for every input.  (Trailing context is
    not consumed: when the flag is set its newlines are counted and given
    back by the rule's prologue, when it is not set neither happens - flex
    emits the give-back only together with the flag.  flex may set the flag
    more often than needed: that costs time only.) *)
From Coq Require Import List NArith Bool Lia.
Import ListNotations.
Require Import FlexV.Regex FlexV.Pat.
Local Open Scope N_scope.

Fixpoint inhabited (r : re) : bool :=
  match r with
  | Emp => false
  | Eps => true
  | Cls s => negb (N.eqb s 0)
  | Cat a b => inhabited a && inhabited b
  | Alt a b => inhabited a || inhabited b
  | Star _ => true
  end.

Definition NL : byte := 10.

Fixpoint can_nl (r : re) : bool :=
  match r with
  | Emp => false
  | Eps => false
  | Cls s => cmem s NL
  | Cat a b => (can_nl a && inhabited b) || (inhabited a && can_nl b)
  | Alt a b => can_nl a || can_nl b
  | Star a => can_nl a
  end.

Lemma inhabited_complete r w : Matches r w -> inhabited r = true.
Proof.
  induction 1; simpl; try reflexivity.
  - (* Cls *) apply negb_true_iff. apply N.eqb_neq. intros E. subst s. unfold cmem in H. rewrite N.bits_0 in H. discriminate.
  - rewrite IHMatches1, IHMatches2. reflexivity.
  - rewrite IHMatches. reflexivity.
  - rewrite IHMatches. apply orb_true_r.
Qed.

Lemma inhabited_sound r : inhabited r = true -> exists w, Matches r w.
Proof.
  induction r as [| |s|a IHa b IHb|a IHa b IHb|a IHa]; simpl; intros H.
  - discriminate.
  - exists []. constructor.
  - apply negb_true_iff in H. apply N.eqb_neq in H. exists [N.log2 s]. constructor. unfold cmem. apply N.bit_log2. exact H.
  - apply andb_true_iff in H. destruct H as [Ha Hb]. destruct (IHa Ha) as [u Hu]. destruct (IHb Hb) as [v Hv].
    exists (u ++ v). constructor; assumption.
  - apply orb_true_iff in H. destruct H as [H|H].
    + destruct (IHa H) as [u Hu]. exists u. apply MAltL. assumption.
    + destruct (IHb H) as [u Hu]. exists u. apply MAltR. assumption.
  - exists []. constructor.
Qed.

Lemma can_nl_complete r w : Matches r w -> In NL w -> can_nl r = true.
Proof.
  induction 1 as [|s b Hb|a b u v Hu IHu Hv IHv|a b u Hu IHu|a b u Hu IHu|a|a u v Hu IHu Hv IHv]; simpl; intros Hin.
  - contradiction.
  - destruct Hin as [E|[]]. subst b. exact Hb.
  - apply in_app_or in Hin. destruct Hin as [Hin|Hin].
    + rewrite (IHu Hin), (inhabited_complete _ _ Hv). reflexivity.
    + rewrite (IHv Hin), (inhabited_complete _ _ Hu). apply orb_true_r.
  - rewrite (IHu Hin). reflexivity.
  - rewrite (IHu Hin). apply orb_true_r.
  - contradiction.
  - apply in_app_or in Hin. destruct Hin as [Hin|Hin]; [exact (IHu Hin)|exact (IHv Hin)].
Qed.

Lemma can_nl_sound r : can_nl r = true -> exists w, Matches r w /\ In NL w.
Proof.
  induction r as [| |s|a IHa b IHb|a IHa b IHb|a IHa]; simpl; intros H.
  - discriminate.
  - discriminate.
  - exists [NL]. split; [constructor; exact H|left; reflexivity].
  - apply orb_true_iff in H. destruct H as [H|H]; apply andb_true_iff in H; destruct H as [H1 H2].
    + destruct (IHa H1) as [u [Hu Hin]]. destruct (inhabited_sound _ H2) as [v Hv].
      exists (u ++ v). split; [constructor; assumption|apply in_or_app; left; assumption].
    + destruct (inhabited_sound _ H1) as [u Hu]. destruct (IHb H2) as [v [Hv Hin]].
      exists (u ++ v). split; [constructor; assumption|apply in_or_app; right; assumption].
  - apply orb_true_iff in H. destruct H as [H|H].
    + destruct (IHa H) as [u [Hu Hin]]. exists u. split; [apply MAltL; assumption|assumption].
    + destruct (IHb H) as [u [Hu Hin]]. exists u. split; [apply MAltR; assumption|assumption].
  - destruct (IHa H) as [u [Hu Hin]]. exists (u ++ []). split; [apply MStarS; [assumption|constructor]|apply in_or_app; left; assumption].
Qed.

Theorem can_nl_spec r : can_nl r = true <-> exists w, Matches r w /\ In NL w.
Proof.
  split; [apply can_nl_sound|]. intros [w [Hm Hin]]. exact (can_nl_complete r w Hm Hin).
Qed.

(** a witness: a word the pattern matches that contains a newline (the candidate failing input when a flag is missing) *)
Fixpoint any_word (r : re) : option (list byte) :=
  match r with
  | Emp => None
  | Eps => Some []
  | Cls s => if N.eqb s 0 then None else Some [N.log2 s]
  | Cat a b => match any_word a, any_word b with Some u, Some v => Some (u ++ v) | _, _ => None end
  | Alt a b => match any_word a with Some u => Some u | None => any_word b end
  | Star _ => Some []
  end.

Fixpoint nl_word (r : re) : option (list byte) :=
  match r with
  | Emp => None
  | Eps => None
  | Cls s => if cmem s NL then Some [NL] else None
  | Cat a b =>
      match nl_word a, any_word b with
      | Some u, Some v => Some (u ++ v)
      | _, _ => match any_word a, nl_word b with Some u, Some v => Some (u ++ v) | _, _ => None end
      end
  | Alt a b => match nl_word a with Some u => Some u | None => nl_word b end
  | Star a => nl_word a
  end.

Lemma any_word_sound r : forall w, any_word r = Some w -> Matches r w.
Proof.
  induction r as [| |s|a IHa b IHb|a IHa b IHb|a IHa]; simpl; intros w H.
  - discriminate.
  - inversion H. constructor.
  - destruct (N.eqb s 0) eqn:E; [discriminate|]. inversion H. apply N.eqb_neq in E. constructor. unfold cmem. apply N.bit_log2. exact E.
  - destruct (any_word a) as [u|]; [|discriminate]. destruct (any_word b) as [v|]; [|discriminate]. inversion H. constructor; auto.
  - destruct (any_word a) as [u|]; [inversion H; subst; apply MAltL; auto|apply MAltR; auto].
  - inversion H. constructor.
Qed.

Theorem nl_word_sound r : forall w, nl_word r = Some w -> Matches r w /\ In NL w.
Proof.
  induction r as [| |s|a IHa b IHb|a IHa b IHb|a IHa]; simpl; intros w H.
  - discriminate.
  - discriminate.
  - destruct (cmem s NL) eqn:E; [|discriminate]. inversion H. split; [constructor; exact E|left; reflexivity].
  - destruct (nl_word a) as [u|] eqn:Ea.
    + destruct (any_word b) as [v|] eqn:Eb.
      * inversion H. destruct (IHa u eq_refl) as [Hm Hin]. split; [constructor; [exact Hm|apply any_word_sound; exact Eb]|apply in_or_app; left; exact Hin].
      * destruct (any_word a) as [u'|] eqn:Ea'; [|discriminate]. destruct (nl_word b) as [v|] eqn:Eb'; [|discriminate].
        inversion H. destruct (IHb v eq_refl) as [Hm Hin]. split; [constructor; [apply any_word_sound; exact Ea'|exact Hm]|apply in_or_app; right; exact Hin].
    + destruct (any_word a) as [u'|] eqn:Ea'; [|discriminate]. destruct (nl_word b) as [v|] eqn:Eb'; [|discriminate].
      inversion H. destruct (IHb v eq_refl) as [Hm Hin]. split; [constructor; [apply any_word_sound; exact Ea'|exact Hm]|apply in_or_app; right; exact Hin].
  - destruct (nl_word a) as [u|] eqn:Ea.
    + inversion H; subst. destruct (IHa w eq_refl) as [Hm Hin]. split; [apply MAltL; exact Hm|exact Hin].
    + destruct (IHb w H) as [Hm Hin]. split; [apply MAltR; exact Hm|exact Hin].
  - destruct (IHa w H) as [Hm Hin]. split; [|exact Hin]. rewrite <- (app_nil_r w). apply MStarS; [exact Hm|constructor].
Qed.

Definition head_re (csize : N) (r : rule) : re := denote csize (r_fl r) (r_head r).

(** the emitted table: [tbl] lists yy_rule_can_match_eol[1], [2], ... for the user's rules in order *)
Fixpoint eol_ok (csize : N) (rules : list rule) (tbl : list bool) : bool :=
  match rules, tbl with
  | [], _ => true
  | r :: rs, f :: fs => (implb (can_nl (head_re csize r)) f) && eol_ok csize rs fs
  | _ :: _, [] => false
  end.

Theorem eol_ok_sound csize : forall rules tbl, eol_ok csize rules tbl = true ->
  forall i r w, nth_error rules i = Some r -> Matches (head_re csize r) w -> In NL w -> nth_error tbl i = Some true.
Proof.
  induction rules as [|r0 rs IH]; intros tbl H i r w Hn Hm Hin.
  - destruct i; discriminate.
  - destruct tbl as [|f fs]; [discriminate|]. simpl in H. apply andb_true_iff in H. destruct H as [H1 H2].
    destruct i as [|i].
    + simpl in Hn. inversion Hn; subst r0. simpl. rewrite (can_nl_complete _ _ Hm Hin) in H1. simpl in H1. subst f. reflexivity.
    + simpl in Hn. simpl. exact (IH fs H2 i r w Hn Hm Hin).
Qed.

(** the default rule matches any single byte, newline included *)
Lemma default_rule_can_nl csize : (10 < csize) -> can_nl (Cls (full csize)) = true.
Proof. intros H. simpl. unfold cmem, NL, full. apply N.ones_spec_low. exact H. Qed.
