(** Property C10 - end of input. *)
From Coq Require Import List NArith ZArith Bool.
Import ListNotations.
Require Import FlexV.Regex FlexV.Pat FlexV.Tokenize FlexV.Stream FlexV.StreamProofs.

(** The <<EOF>> action runs only when no byte at all is left to tokenise, and it is the action of
    the current start condition. *)
Theorem C10_eof_only_when_exhausted : forall sp st sc,
  In (EEof sc) (snd (fst (sm_step sp st))) -> unread st = [] /\ sc = s_sc st.
Proof. exact eof_only_when_exhausted. Qed.
Print Assumptions C10_eof_only_when_exhausted.

(** When yywrap supplies another source, scanning continues in the unchanged condition, at the
    beginning of a line, with nothing lost from either source and no event in between. *)
Theorem C10_wrap_continues : forall sp st nxt more,
  s_inp st = [] -> s_rest st = nxt :: more ->
  let st' := fst (fst (sm_step sp st)) in
  s_sc st' = s_sc st /\ s_stack st' = s_stack st /\ s_bol st' = true /\ unread st' = unread st /\
  snd (fst (sm_step sp st)) = [].
Proof. exact wrap_continues. Qed.
Print Assumptions C10_wrap_continues.
