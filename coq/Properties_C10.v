(** Property C10 - end of input. *)
From Coq Require Import List NArith ZArith Bool.
Import ListNotations.
Require Import FlexV.Regex FlexV.Pat FlexV.Tokenize FlexV.Stream FlexV.StreamProofs FlexV.EofAssign.

(** The <<EOF>> action runs only when no byte at all is left to tokenise, and it is the action of
    the current start condition. *)
Theorem C10_eof_only_when_exhausted : forall sp st sc,
  In (EEof sc) (snd (fst (sm_step sp st))) -> unread st = [] /\ sc = s_sc st.
Proof. exact eof_only_when_exhausted. Qed.
Print Assumptions C10_eof_only_when_exhausted.

(** When yywrap supplies another source, scanning continues in the unchanged condition, at the
    beginning of a line, with nothing lost from either source and no event in between. *)
Theorem C10_wrap_continues : forall sp st nxt more,
  s_inp st = [] -> s_rest st = nxt :: more ->
  let st' := fst (fst (sm_step sp st)) in
  s_sc st' = s_sc st /\ s_stack st' = s_stack st /\ s_bol st' = true /\ unread st' = unread st /\
  snd (fst (sm_step sp st)) = [].
Proof. exact wrap_continues. Qed.
Print Assumptions C10_wrap_continues.

(** Which <<EOF>> rule a start condition gets (parse.y over sceof[], modelled by [eof_assign]; the
    oracle of the stream checks takes the assignment from this function): the first rule in source
    order that covers the condition ... *)
Theorem C10_eof_rule_is_the_first_covering : forall (A : Type) (rules : list (option (list N) * A)) sc,
  eof_assign rules sc = option_map snd (find (fun r => eof_covers (fst r) sc) rules).
Proof. exact FlexV.EofAssign.eof_assign_first. Qed.
Print Assumptions C10_eof_rule_is_the_first_covering.

(** ... so an unqualified <<EOF>> rule applies to exactly the start conditions lacking their own. *)
Theorem C10_unqualified_eof_applies_to_exactly_the_conditions_lacking_their_own :
  forall (A : Type) (pre : list (option (list N) * A)) act post sc,
  eof_assign (pre ++ (None, act) :: post) sc =
  match eof_assign pre sc with Some a => Some a | None => Some act end.
Proof. exact FlexV.EofAssign.eof_unqualified_exact. Qed.
Print Assumptions C10_unqualified_eof_applies_to_exactly_the_conditions_lacking_their_own.

(** Without an unqualified rule a condition that no scope lists keeps the default action. *)
Theorem C10_unlisted_condition_keeps_the_default : forall (A : Type) (rules : list (option (list N) * A)) sc,
  Forall (fun r => exists l, fst r = Some l /\ ~ In sc l) rules -> eof_assign rules sc = None.
Proof. exact FlexV.EofAssign.eof_unlisted_default. Qed.
Print Assumptions C10_unlisted_condition_keeps_the_default.
