(** Property C01 - longest match, first rule, pattern language.
    This file contains only statements; every proof is [exact] of a lemma
    proved elsewhere, followed by [Print Assumptions]. *)
From Coq Require Import List NArith ZArith Bool.
Import ListNotations.
Require Import FlexV.Regex FlexV.SpecAuto FlexV.Lockstep FlexV.Pat FlexV.Tables FlexV.Scan
               FlexV.C01Proofs FlexV.Tokenize FlexV.NfaSim FlexV.NfaProofs FlexV.NfaTotal FlexV.C02Proofs.

(** The executable matcher used as oracle decides the denotation. *)
Theorem C01_matcher_decides : forall r w, matchb r w = true <-> Matches r w.
Proof. exact matchb_spec. Qed.
Print Assumptions C01_matcher_decides.

(** What the specification automaton observes after reading [w] is exactly the
    set of rules one of whose terms matches [w]. *)
Theorem C01_spec_automaton : forall w s i,
  In i (sobs (SpecAuto.srun w s)) <-> exists r, In (i, r) s /\ Matches r w.
Proof. exact sobs_srun. Qed.
Print Assumptions C01_spec_automaton.

(** A verified candidate relation gives agreement of observations on EVERY
    input word, for any table automaton (whatever its representation). *)
Theorem C01_lockstep_sound : forall V al m s0 i0, check_view V al m s0 i0 = true ->
  forall w, Forall (fun b => In b al) w ->
    ok V al (SpecAuto.srun w s0) (Scan.irun V w i0) = true.
Proof. exact check_view_sound. Qed.
Print Assumptions C01_lockstep_sound.

(** Main statement: once the check has passed for a (start condition, BOL)
    pair on the tables flex emitted, then for EVERY non-empty input the match
    loop run on those tables selects the rule and length the manual defines:
    the longest prefix matched by an active rule, the first such rule, at least
    one byte (default rule). *)
Theorem C01_longest_match_first_rule : forall p sc bol V m,
  check_view V (alphabet (p_csize p)) m (spec_start p sc bol) (v_start V (Z.of_N sc - 1) bol) = true ->
  forall w, Forall (fun b => (b < p_csize p)%N) w -> w <> [] ->
    let (r, k) := scan V (v_start V (Z.of_N sc - 1) bol) w 0 (0%N, 0%nat) in
    r <> 0%N /\ (1 <= k)%nat /\ Selected (spec_start p sc bol) w r k.
Proof. exact C01_token. Qed.
Print Assumptions C01_longest_match_first_rule.

(** The validator applied to token streams of the compiled scanner accepts only
    documented tokenisations. *)
Theorem C01_validator_sound : forall p sc toks bol w,
  validate p sc bol w toks = true -> DocTok p sc bol w toks.
Proof. exact validate_sound. Qed.
Print Assumptions C01_validator_sound.

(** ** The NFA of nfa.c / parse.y and the subset construction of dfa.c
    ([flex -T] prints the NFA; NfaSim.v gives it its path semantics). *)

(** Determinization: the bit set the subset simulation holds after [w] is
    exactly the set of NFA states reachable by [w] from the start state. *)
Theorem C01_subset_construction_is_exact : forall a w X0 X,
  nstart a = Some X0 -> nrun a w X0 = Some X ->
  forall q, N.testbit X q = true <-> Path a (n_start a) w q.
Proof. exact subset_simulation_exact. Qed.
Print Assumptions C01_subset_construction_is_exact.

(** The accepting number kept for a DFA state (the least one) is the first rule
    the NFA accepts. *)
Theorem C01_dfa_state_accepts_first_nfa_rule : forall a w X0 X,
  nstart a = Some X0 -> nrun a w X0 = Some X ->
  (nacc a X = 0%N /\ forall r, ~ Accepts a w r) \/
  (Accepts a w (nacc a X) /\ forall r, Accepts a w r -> (nacc a X <= r)%N).
Proof. exact nacc_is_the_first_accepted_rule. Qed.
Print Assumptions C01_dfa_state_accepts_first_nfa_rule.

(** On a well-formed NFA (every transition leads to a state of the NFA) the
    simulation is total: the closure iteration reaches its fixed point within
    the fuel it is given, so the "undefined" escape of the model never occurs. *)
Theorem C01_subset_construction_is_total : forall a, wf_nfa a = true ->
  exists X0, nstart a = Some X0 /\ InRange a X0 /\
    forall w X, InRange a X -> exists X', nrun a w X = Some X' /\ InRange a X'.
Proof. exact subset_simulation_total. Qed.
Print Assumptions C01_subset_construction_is_total.

(** Once the lock-step check has passed on the NFA flex printed, then after
    EVERY word the first rule that NFA accepts is the first rule whose pattern
    matches the word, as the manual defines the pattern language. *)
Theorem C01_nfa_accepts_the_documented_language : forall a al m s0,
  (forall x, In x s0 -> fst x <> 0%N) ->
  check_view (nview a) al m s0 (v_start (nview a) 0%Z false) = true ->
  forall w, Forall (fun b => In b al) w ->
    exists X, (forall q, N.testbit X q = true <-> Path a (n_start a) w q) /\
      (((forall r, ~ Accepts a w r) /\ (forall r, ~ rule_matches s0 r w)) \/
       (exists r, Accepts a w r /\ (forall r', Accepts a w r' -> (r <= r')%N) /\
                  rule_matches s0 r w /\ (forall r', rule_matches s0 r' w -> (r <= r')%N))).
Proof. exact nfa_first_rule_is_documented. Qed.
Print Assumptions C01_nfa_accepts_the_documented_language.

(** The DFA of dfa.c before table compression ([flex -T] prints it), read as a
    scanner automaton: once the lock-step check has passed on it, its match loop
    selects the documented token for every input. *)
Theorem C01_printed_dfa_selects_the_documented_token : forall p sc bol d m,
  check_view (dview d) (alphabet (p_csize p)) m (spec_start p sc bol) (v_start (dview d) (Z.of_N sc - 1) bol) = true ->
  forall w, Forall (fun b => (b < p_csize p)%N) w -> w <> [] ->
    let (r, k) := scan (dview d) (v_start (dview d) (Z.of_N sc - 1) bol) w 0 (0%N, 0%nat) in
    r <> 0%N /\ (1 <= k)%nat /\ Selected (spec_start p sc bol) w r k.
Proof. exact printed_dfa_token. Qed.
Print Assumptions C01_printed_dfa_selects_the_documented_token.

(** Subset construction end to end (nfa.c -> dfa.c): when the printed NFA and
    the printed DFA both pass the lock-step check against the rule set, the match
    loop selects the same rule and length over either of them on EVERY input. *)
Theorem C01_dfa_construction_preserves_the_nfa_token : forall p sc bol a d m1 m2,
  check_view (nview a) (alphabet (p_csize p)) m1 (spec_start p sc bol) (v_start (nview a) (Z.of_N sc - 1) bol) = true ->
  check_view (dview d) (alphabet (p_csize p)) m2 (spec_start p sc bol) (v_start (dview d) (Z.of_N sc - 1) bol) = true ->
  forall w, Forall (fun b => (b < p_csize p)%N) w -> w <> [] ->
    scan (nview a) (v_start (nview a) (Z.of_N sc - 1) bol) w 0 (0%N, 0%nat) =
    scan (dview d) (v_start (dview d) (Z.of_N sc - 1) bol) w 0 (0%N, 0%nat).
Proof. exact (fun p sc bol a d m1 m2 => FlexV.C02Proofs.repr_independent p sc bol (nview a) m1 (dview d) m2). Qed.
Print Assumptions C01_dfa_construction_preserves_the_nfa_token.

(** Non-vacuity: a concrete program, tables-free instance of the premises. *)
Example C01_example_selected :
  let p := {| p_csize := 256%N; p_excl := []; p_nsc := 1%N;
              p_rules := [ {| r_star := false; r_scs := None; r_bol := false;
                              r_head := PPlus (PChar 97%N); r_trail := None; r_fl := fl0 |} ;
                           {| r_star := false; r_scs := None; r_bol := false;
                              r_head := PCat (PChar 97%N) (PChar 98%N); r_trail := None; r_fl := fl0 |} ] |} in
  spec_tokens 10 p 1%N true [97; 97; 98; 97; 98; 120]%N = [(1%N, 2%nat); (3%N, 1%nat); (2%N, 2%nat); (3%N, 1%nat)].
Proof. vm_compute. reflexivity. Qed.
