(** Property C01 - longest match, first rule, pattern language.
    This file contains only statements; every proof is [exact] of a lemma
    proved elsewhere, followed by [Print Assumptions]. *)
From Coq Require Import List NArith ZArith Bool.
Import ListNotations.
Require Import FlexV.Regex FlexV.SpecAuto FlexV.Lockstep FlexV.Pat FlexV.Tables FlexV.Scan
               FlexV.C01Proofs FlexV.Tokenize.

(** The executable matcher used as oracle decides the denotation. *)
Theorem C01_matcher_decides : forall r w, matchb r w = true <-> Matches r w.
Proof. exact matchb_spec. Qed.
Print Assumptions C01_matcher_decides.

(** What the specification automaton observes after reading [w] is exactly the
    set of rules one of whose terms matches [w]. *)
Theorem C01_spec_automaton : forall w s i,
  In i (sobs (SpecAuto.srun w s)) <-> exists r, In (i, r) s /\ Matches r w.
Proof. exact sobs_srun. Qed.
Print Assumptions C01_spec_automaton.

(** A verified candidate relation gives agreement of observations on EVERY
    input word, for any table automaton (whatever its representation). *)
Theorem C01_lockstep_sound : forall V al m s0 i0, check_view V al m s0 i0 = true ->
  forall w, Forall (fun b => In b al) w ->
    ok V al (SpecAuto.srun w s0) (Scan.irun V w i0) = true.
Proof. exact check_view_sound. Qed.
Print Assumptions C01_lockstep_sound.

(** Main statement: once the check has passed for a (start condition, BOL)
    pair on the tables flex emitted, then for EVERY non-empty input the match
    loop run on those tables selects the rule and length the manual defines:
    the longest prefix matched by an active rule, the first such rule, at least
    one byte (default rule). *)
Theorem C01_longest_match_first_rule : forall p sc bol V m,
  check_view V (alphabet (p_csize p)) m (spec_start p sc bol) (v_start V (Z.of_N sc - 1) bol) = true ->
  forall w, Forall (fun b => (b < p_csize p)%N) w -> w <> [] ->
    let (r, k) := scan V (v_start V (Z.of_N sc - 1) bol) w 0 (0%N, 0%nat) in
    r <> 0%N /\ (1 <= k)%nat /\ Selected (spec_start p sc bol) w r k.
Proof. exact C01_token. Qed.
Print Assumptions C01_longest_match_first_rule.

(** The validator applied to token streams of the compiled scanner accepts only
    documented tokenisations. *)
Theorem C01_validator_sound : forall p sc toks bol w,
  validate p sc bol w toks = true -> DocTok p sc bol w toks.
Proof. exact validate_sound. Qed.
Print Assumptions C01_validator_sound.

(** Non-vacuity: a concrete program, tables-free instance of the premises. *)
Example C01_example_selected :
  let p := {| p_csize := 256%N; p_excl := []; p_nsc := 1%N;
              p_rules := [ {| r_star := false; r_scs := None; r_bol := false;
                              r_head := PPlus (PChar 97%N); r_trail := None; r_fl := fl0 |} ;
                           {| r_star := false; r_scs := None; r_bol := false;
                              r_head := PCat (PChar 97%N) (PChar 98%N); r_trail := None; r_fl := fl0 |} ] |} in
  spec_tokens 10 p 1%N true [97; 97; 98; 97; 98; 120]%N = [(1%N, 2%nat); (3%N, 1%nat); (2%N, 2%nat); (3%N, 1%nat)].
Proof. vm_compute. reflexivity. Qed.
