(** Property C05 - start conditions and the start-condition stack. *)
From Coq Require Import List NArith ZArith Bool.
Import ListNotations.
Require Import FlexV.Regex FlexV.SpecAuto FlexV.Pat FlexV.Tables FlexV.Scan FlexV.C01Proofs FlexV.Tokenize
               FlexV.C05Proofs FlexV.Stream FlexV.StreamProofs FlexV.RunStack.

(** The candidates of the specification automaton in condition [sc] are exactly the active rules + default rule;
    the real tables are lock-stepped against this start state for every (condition, BOL) pair. *)
Theorem C05_start_state_rules : forall p sc bol i re,
  In (i, re) (spec_start p sc bol) <->
  (exists rl, rule_of p i = Some rl /\ (1 <= i)%N /\ active p sc bol rl = true /\ re = rule_re (p_csize p) rl) \/
  (i = (N.of_nat (length (p_rules p)) + 1)%N /\ re = Cls (full (p_csize p))).
Proof. exact start_state_rules. Qed.
Print Assumptions C05_start_state_rules.

Theorem C05_active_documented : forall p sc bol rl,
  active p sc bol rl = true <->
  ((r_bol rl = true -> bol = true) /\
   (r_star rl = true \/
    (r_star rl = false /\ exists l, r_scs rl = Some l /\ memN sc l = true) \/
    (r_star rl = false /\ r_scs rl = None /\ memN sc (p_excl p) = false))).
Proof. exact active_documented. Qed.
Print Assumptions C05_active_documented.

(** The condition (and its stack) changes only through yybegin / yy_push_state / yy_pop_state:
    no other operation of an action touches it ... *)
Theorem C05_changes_only_by_begin_push_pop : forall l ops,
  forallb (fun o => negb (sc_op o)) ops = true ->
  forall st text more,
    let st' := fst (fst (fst (fst (exec l ops st text more)))) in
    s_sc st' = s_sc st /\ s_stack st' = s_stack st.
Proof. exact exec_sc_unchanged. Qed.
Print Assumptions C05_changes_only_by_begin_push_pop.

(** ... nor does yywrap supplying a new source. *)
Theorem C05_wrap_keeps_condition : forall sp st nxt more,
  s_inp st = [] -> s_rest st = nxt :: more ->
  let st' := fst (fst (sm_step sp st)) in
  s_sc st' = s_sc st /\ s_stack st' = s_stack st /\ s_bol st' = true /\ unread st' = unread st /\
  snd (fst (sm_step sp st)) = [].
Proof. exact wrap_continues. Qed.
Print Assumptions C05_wrap_keeps_condition.

(** Unbounded LIFO: any number of pushes followed by as many pops is the identity. *)
Theorem C05_stack_lifo : forall l ss st text more rest,
  exec l (map OPush ss ++ pops (length ss) ++ rest) st text more = exec l rest st text more.
Proof. exact pushes_pops_lifo. Qed.
Print Assumptions C05_stack_lifo.

Theorem C05_underflow_is_fatal : forall l rest st text more, s_stack st = [] ->
  exec l (OPop :: rest) st text more = (st, text, more, [EFatal 1%N], Halt).
Proof. exact pop_underflow_is_fatal. Qed.
Print Assumptions C05_underflow_is_fatal.

(** The skeleton's array (grown by YY_START_STACK_INCR, read off the source) refines the list
    for every history of pushes and pops; its writes are inside the array. *)
Theorem C05_array_stack_refines_list : forall h r, RInv r ->
  match rrun r h, lrun (rs_cur r) (rabs r) h with
  | Some r', Some (c, st) => RInv r' /\ rs_cur r' = c /\ rabs r' = st
  | None, None => True
  | _, _ => False
  end.
Proof. exact stack_history_refines. Qed.
Print Assumptions C05_array_stack_refines_list.

Theorem C05_push_in_bounds : forall r, RInv r ->
  (rs_ptr r < length (if Nat.leb (rs_depth r) (rs_ptr r) then rs_arr r ++ repeat 0%N INCR else rs_arr r))%nat.
Proof. exact rpush_in_bounds. Qed.
Print Assumptions C05_push_in_bounds.

Example C05_history_crossing_growth :
  rrun rinit (map SPush (map N.of_nat (seq 2 60)) ++ repeat SPop 60) <> None.
Proof. vm_compute. discriminate. Qed.
