(** * Conservation: every input byte is consumed exactly once and in order (property C08).
    [stream st] = what has been consumed so far followed by what is still unread.
    It never changes while scanning, as long as actions do not call yyunput() and
    every yyless() gives back only bytes of the token just matched (not of the text
    kept by yymore()) and is called before any yyinput() of the same action - the
    situations in which the manual defines yytext.  Hence at every moment
    consumed ++ unread = the concatenation of all sources.
    (yyunput() is the one way to put a byte into the stream that was not there:
    C08_unput_next_read.) *)
From Coq Require Import List NArith ZArith Bool Arith Lia.
Import ListNotations.
Require Import FlexV.Regex FlexV.SpecAuto FlexV.Pat FlexV.Tables FlexV.Scan FlexV.C01Proofs FlexV.Tokenize FlexV.Stream FlexV.StreamProofs.

Definition stream (st : sm) : list byte := s_done st ++ unread st.

(** the bytes of the current token are the end of what has been consumed; [p] bytes at the start of yytext
    are text kept by yymore() *)
Definition Tail (st : sm) (text : list byte) (p : nat) : Prop :=
  p <= length text /\ exists pre, s_done st = pre ++ skipn p text.

(** an action in which yytext stays defined whenever it is used *)
Fixpoint less_ok (ops : list op) (len p : nat) (allowed : bool) : bool :=
  match ops with
  | [] => true
  | OLess a :: r => allowed && Nat.leb p (less_n a len) && less_ok r (less_n a len) p allowed
  | OInput _ :: r => less_ok r len p false
  | OUnput _ :: _ => false
  | _ :: r => less_ok r len p allowed
  end.

Lemma less_n_le a len : less_n a len <= len.
Proof. destruct a; cbn; lia. Qed.

Lemma input_once_stream l : forall fuel st, stream (fst (input_once fuel st l)) = stream st.
Proof.
  induction fuel as [|f IH]; intros [inp rst sc stk bol line mo dn]; cbn [input_once s_inp s_rest].
  - destruct inp as [|c rest]; [destruct rst; reflexivity|].
    unfold stream, unread. cbn [fst s_done s_inp s_rest]. rewrite <- !app_assoc. reflexivity.
  - destruct inp as [|c rest].
    + destruct rst as [|nxt more]; [reflexivity|].
      rewrite IH. unfold stream, unread. cbn [s_done s_inp s_rest concat app]. reflexivity.
    + unfold stream, unread. cbn [fst s_done s_inp s_rest]. rewrite <- !app_assoc. reflexivity.
Qed.

Lemma inputs_stream l : forall k st, stream (fst (inputs k st l)) = stream st.
Proof.
  induction k as [|k IH]; intros st; cbn [inputs]; [reflexivity|].
  pose proof (input_once_stream l (S (length (s_rest st))) st) as H1.
  destruct (input_once (S (length (s_rest st))) st l) as [st1 e]. cbn [fst] in H1.
  specialize (IH st1). destruct (inputs k st1 l) as [st2 es]. cbn [fst] in *. congruence.
Qed.

Lemma exec_stream l : forall ops st text more p allowed,
  less_ok ops (length text) p allowed = true -> (allowed = true -> Tail st text p) ->
  stream (fst (fst (fst (fst (exec l ops st text more))))) = stream st.
Proof.
  induction ops as [|o rest IH]; intros st text more p allowed Hok HT; [reflexivity|].
  destruct o as [s|s| | |a|bs|k| |b|v| ]; cbn [exec less_ok] in *.
  - (* begin *) rewrite (IH _ text more p allowed Hok); [reflexivity|]. intros Ha. exact (HT Ha).
  - rewrite (IH _ text more p allowed Hok); [reflexivity|]. intros Ha. exact (HT Ha).
  - (* pop *) destruct (s_stack st) as [|x t]; [reflexivity|].
    rewrite (IH _ text more p allowed Hok); [reflexivity|]. intros Ha. exact (HT Ha).
  - (* top *)
    destruct (s_stack st) as [|x t].
    + specialize (IH st text more p allowed Hok HT). destruct (exec l rest st text more) as [[[[a0 b0] c0] d0] e0]. exact IH.
    + specialize (IH st text more p allowed Hok HT). destruct (exec l rest st text more) as [[[[a0 b0] c0] d0] e0]. exact IH.
  - (* less *)
    apply andb_true_iff in Hok. destruct Hok as [Hok Hr]. apply andb_true_iff in Hok. destruct Hok as [Ha Hp].
    apply Nat.leb_le in Hp. subst allowed. destruct (HT eq_refl) as [Hpl [pre Hd]].
    set (n := less_n a (length text)) in *.
    assert (Hn : n <= length text) by apply less_n_le.
    set (back := skipn n text).
    set (st' := with_inp st (back ++ s_inp st) _ _).
    assert (Hlen : length (firstn n text) = n) by (rewrite firstn_length; lia).
    assert (Hsplit : skipn p text = skipn p (firstn n text) ++ back).
    { unfold back. rewrite <- (firstn_skipn n text) at 1. rewrite skipn_app.
      replace (p - length (firstn n text)) with 0 by lia. reflexivity. }
    assert (Hx : forall (x y : list byte), firstn (length x) (x ++ y) = x).
    { intros x y. rewrite firstn_app, Nat.sub_diag, firstn_all. cbn [firstn]. apply app_nil_r. }
    assert (Hdone : s_done st' = pre ++ skipn p (firstn n text)).
    { unfold st'. cbn [with_inp s_done]. rewrite Hd, Hsplit.
      rewrite app_assoc. rewrite (app_length (pre ++ skipn p (firstn n text)) back).
      replace (length (pre ++ skipn p (firstn n text)) + length back - length back) with (length (pre ++ skipn p (firstn n text))) by lia.
      apply Hx. }
    rewrite (IH st' (firstn n text) more p true).
    + unfold stream, unread. rewrite Hdone. unfold st'. cbn [with_inp s_inp s_rest]. rewrite Hd, Hsplit.
      rewrite <- !app_assoc. reflexivity.
    + rewrite Hlen. exact Hr.
    + intros _. split; [lia|]. exists pre. exact Hdone.
  - discriminate.
  - (* input *)
    pose proof (inputs_stream l k st) as H1. destruct (inputs k st l) as [st' evs]. cbn [fst] in H1.
    specialize (IH st' text more p false Hok). destruct (exec l rest st' text more) as [[[[a0 b0] c0] d0] e0]. cbn [fst] in *.
    rewrite IH; [exact H1|discriminate].
  - (* more *) apply (IH st text true p allowed Hok HT).
  - (* setbol *) rewrite (IH _ text more p allowed Hok); [reflexivity|]. intros Ha. exact (HT Ha).
  - reflexivity.
  - reflexivity.
Qed.

(** the action run by the next step keeps yytext defined *)
Definition step_ok (sp : sprog) (st : sm) : bool :=
  match s_inp st with
  | [] =>
      match s_rest st with
      | _ :: _ => true
      | [] => less_ok (match sp_eof sp (s_sc st) with Some o => o | None => [OTerminate] end) 0 0 true
      end
  | _ =>
      let (r, k) := spec_scan (spec_start (sp_prog sp) (s_sc st) (s_bol st)) (s_inp st) in
      match head_len (sp_prog sp) r k with
      | O => true
      | h => less_ok (sp_acts sp r) (length (s_more st) + Nat.min h (length (s_inp st))) (length (s_more st)) true
      end
  end.

Theorem step_stream sp st : step_ok sp st = true -> stream (fst (fst (sm_step sp st))) = stream st.
Proof.
  unfold step_ok, sm_step. intros Hok.
  destruct (s_inp st) as [|c inp] eqn:Ei.
  - destruct (s_rest st) as [|nxt more] eqn:Er.
    + pose proof (exec_stream (sp_lineno sp) (match sp_eof sp (s_sc st) with Some o => o | None => [OTerminate] end) st [] false 0 true Hok) as H.
      destruct (exec (sp_lineno sp) _ st [] false) as [[[[a b] cc] d] e]. cbn [fst] in *. apply H.
      intros _. split; [cbn; lia|]. exists (s_done st). cbn [skipn]. rewrite app_nil_r. reflexivity.
    + unfold stream, unread. cbn [fst s_done s_inp s_rest concat]. rewrite Ei, Er. reflexivity.
  - destruct (spec_scan _ (c :: inp)) as [r k].
    destruct (head_len (sp_prog sp) r k) as [|h] eqn:Eh; [reflexivity|].
    set (tnew := firstn (S h) (c :: inp)) in *.
    set (st1 := {| s_inp := skipn (S h) (c :: inp) |}).
    assert (Hlen : length (s_more st ++ tnew) = length (s_more st) + Nat.min (S h) (length (c :: inp)))
      by (rewrite app_length; unfold tnew; rewrite firstn_length; reflexivity).
    pose proof (exec_stream (sp_lineno sp) (sp_acts sp r) st1 (s_more st ++ tnew) false (length (s_more st)) true) as H.
    rewrite Hlen in H. specialize (H Hok).
    destruct (exec (sp_lineno sp) (sp_acts sp r) st1 (s_more st ++ tnew) false) as [[[[a b] cc] d] e]. cbn [fst] in *.
    change (stream (with_more a (if cc then b else []))) with (stream a).
    rewrite H.
    + unfold stream, unread, st1. cbn [s_done s_inp s_rest]. rewrite Ei. unfold tnew.
      rewrite <- !app_assoc. f_equal. rewrite app_assoc. rewrite (firstn_skipn (S h) (c :: inp)). reflexivity.
    + intros _. split; [rewrite app_length; lia|]. exists (s_done st).
      unfold st1. cbn [s_done]. rewrite skipn_app, skipn_all, Nat.sub_diag. cbn [skipn app]. reflexivity.
Qed.

(** states reached by steps that keep yytext defined *)
Inductive reach_ok (sp : sprog) (st0 : sm) : sm -> Prop :=
| rok_refl : reach_ok sp st0 st0
| rok_step : forall st, reach_ok sp st0 st -> step_ok sp st = true -> reach_ok sp st0 (fst (fst (sm_step sp st))).

(** C08: consumed ++ unread is the input, at every moment *)
Theorem bytes_conserved sp sources st : reach_ok sp (sm_init sources) st ->
  s_done st ++ unread st = concat sources.
Proof.
  intros Hr. change (stream st = concat sources).
  assert (H : stream st = stream (sm_init sources)).
  { induction Hr as [|st Hr IH Hok]; [reflexivity|]. rewrite step_stream by exact Hok. exact IH. }
  rewrite H. unfold stream, unread, sm_init. destruct sources as [|i rest]; reflexivity.
Qed.

(** executable form, for the harness: do all steps of a run keep yytext defined, and what is the final state *)
Fixpoint run_ok (fuel : nat) (sp : sprog) (st : sm) : bool * sm :=
  match fuel with
  | O => (true, st)
  | S f => let '(st', _, go) := sm_step sp st in
           let ok := step_ok sp st in
           if go then let (b, s) := run_ok f sp st' in (ok && b, s) else (ok, st')
  end.

Lemma run_ok_reach sp : forall fuel st0 st, reach_ok sp st0 st -> fst (run_ok fuel sp st) = true ->
  reach_ok sp st0 (snd (run_ok fuel sp st)).
Proof.
  induction fuel as [|f IH]; intros st0 st Hr Hok; cbn [run_ok] in *; [exact Hr|].
  destruct (sm_step sp st) as [[st' ev] go] eqn:Es.
  assert (Hst' : st' = fst (fst (sm_step sp st))) by (rewrite Es; reflexivity).
  destruct go.
  - destruct (run_ok f sp st') as [b s] eqn:Er. cbn [fst snd] in *.
    apply andb_true_iff in Hok. destruct Hok as [H1 H2].
    specialize (IH st0 st'). rewrite Er in IH. cbn [fst snd] in IH. apply IH; [|exact H2].
    rewrite Hst'. apply rok_step; assumption.
  - cbn [fst snd] in *. rewrite Hst'. apply rok_step; assumption.
Qed.

(** what the harness checks on its runs is an instance of the theorem *)
Corollary run_conserved sp sources fuel : fst (run_ok fuel sp (sm_init sources)) = true ->
  let st := snd (run_ok fuel sp (sm_init sources)) in s_done st ++ unread st = concat sources.
Proof. intros H. apply (bytes_conserved sp). apply run_ok_reach; [apply rok_refl|exact H]. Qed.
