(** Property C15 - serialized tables follow the documented file format and round-trip. *)
From Coq Require Import List NArith ZArith Bool.
Import ListNotations.
Require Import FlexV.Regex FlexV.Codec.

(** A table written in the documented layout (id, flags, hilen, lolen, big-endian data of the
    flagged width, zero padding to a 64-bit boundary) is read back exactly, whatever follows it. *)
Theorem C15_table_round_trip : forall t r, table_wf t -> dec_table (enc_table t ++ r) = Some (t, r).
Proof. exact dec_enc_table. Qed.
Print Assumptions C15_table_round_trip.

Theorem C15_tables_are_64bit_aligned : forall t, table_wf t -> (N.of_nat (length (enc_table t)) mod 8 = 0)%N.
Proof. exact enc_table_length. Qed.
Print Assumptions C15_tables_are_64bit_aligned.

(** Sets concatenated in ANY order are each found by name. *)
Theorem C15_sets_found_by_name : forall pre s post, Forall set_wf pre -> set_wf s ->
  Forall (fun p => s_name p <> s_name s) pre ->
  forall fuel, (length pre < fuel)%nat ->
    dec_file fuel (enc_file (pre ++ s :: post)) (s_name s) = Found (s_tables s).
Proof. exact dec_enc_file. Qed.
Print Assumptions C15_sets_found_by_name.

(** Every truncation of a set file is refused, and so is a wrong magic number. *)
Theorem C15_truncated_never_found : forall s, set_wf s ->
  forall k, (k < length (enc_set s))%nat ->
  forall fuel name ts, dec_file fuel (firstn k (enc_set s)) name <> Found ts.
Proof. exact truncated_never_found. Qed.
Print Assumptions C15_truncated_never_found.

Theorem C15_wrong_magic_rejected : forall bs name fuel m1 m2 m3 m4 r,
  bs = m1 :: m2 :: m3 :: m4 :: r -> dec32 m1 m2 m3 m4 <> FlexV.SourceFacts.F_YYTBL_MAGIC -> dec_file (S fuel) bs name = Malformed.
Proof. exact wrong_magic_rejected. Qed.
Print Assumptions C15_wrong_magic_rejected.

Example C15_example_round_trip :
  let t := {| t_id := 1; t_flags := 2; t_hilen := 0; t_lolen := 3; t_data := [5; -1; 300]%Z |} in
  dec_table (enc_table t ++ [7; 7]%N) = Some (t, [7; 7]%N).
Proof. vm_compute. reflexivity. Qed.
