(** Property C19 - options reach the skeleton, and both spellings of an option mean the same (the part that is
    a finite fact about the source: OptionFacts.v is regenerated from /repo/src on every run).  The observable
    effects of the options are decided by probe scanners, see DESIGN.md. *)
From Coq Require Import List String Bool.
Import ListNotations.
Require Import FlexV.OptionFacts.
Local Open Scope string_scope.

Definition can_be_defined (s : string) : bool := existsb (String.eqb s) defined_symbols.

(** every m4 symbol a skeleton tests is one that the generator or a skeleton defines under some option:
    no option is cut off from the skeleton by a misspelt symbol *)
Theorem C19_every_tested_symbol_can_be_defined : forallb can_be_defined tested_symbols = true.
Proof. vm_compute. reflexivity. Qed.
Print Assumptions C19_every_tested_symbol_can_be_defined.

Definition same_effect (x : string * (string * string) * (string * string)) : bool :=
  let '(_, (f1, v1), (f2, v2)) := x in String.eqb f1 f2 && String.eqb v1 v2.

(** for every option that is a single assignment on both sides, the command-line spelling and the %option
    spelling assign the same value to the same control field *)
Theorem C19_cli_and_option_spelling_agree : forallb same_effect simple_options = true.
Proof. vm_compute. reflexivity. Qed.
Print Assumptions C19_cli_and_option_spelling_agree.

(** the tables are not empty *)
Theorem C19_tables_nonempty : (50 <= List.length tested_symbols /\ 100 <= List.length defined_symbols /\ 40 <= List.length simple_options)%nat.
Proof. vm_compute. repeat split; repeat constructor. Qed.
Print Assumptions C19_tables_nonempty.
