(** * SpecAuto: the specification automaton.  A state is a finite set (list) of
    (rule number, partial-derivative term) pairs.  Its observation is the
    strictly increasing list of rule numbers having a nullable term.
    Main result [sobs_srun]: after reading [w] from [s0], rule [i] is observed
    iff some term of rule [i] in [s0] matches [w]. *)
From Coq Require Import List NArith Bool Lia Sorted.
Import ListNotations.
Require Import FlexV.Regex.
Local Open Scope N_scope.

Definition item := (N * re)%type.
Definition sstate := list item.

Definition item_eqb (x y : item) : bool := N.eqb (fst x) (fst y) && re_eqb (snd x) (snd y).
Definition memb (x : item) (l : sstate) : bool := existsb (item_eqb x) l.

Fixpoint dedup (l : sstate) : sstate :=
  match l with
  | [] => []
  | x :: t => let t' := dedup t in if memb x t' then t' else x :: t'
  end.

Definition sstep (s : sstate) (b : byte) : sstate :=
  dedup (flat_map (fun it : item => map (pair (fst it)) (pd b (snd it))) s).

Definition seqv (a b : sstate) : Prop := forall x, In x a <-> In x b.
Definition seqb (a b : sstate) : bool :=
  forallb (fun x => memb x b) a && forallb (fun x => memb x a) b.

(** insertion into a strictly increasing list *)
Fixpoint ins (i : N) (l : list N) : list N :=
  match l with
  | [] => [i]
  | j :: t => if i <? j then i :: l else if i =? j then l else j :: ins i t
  end.

Definition sobs (s : sstate) : list N :=
  fold_right (fun (it : item) acc => if nullable (snd it) then ins (fst it) acc else acc) [] s.

(** a state from which no byte leads anywhere *)
Definition sdead (alphabet : list byte) (s : sstate) : bool :=
  forallb (fun b => match sstep s b with [] => true | _ => false end) alphabet.

Definition srun (w : list byte) (s : sstate) : sstate := fold_left sstep w s.

(** ** Proofs *)

Lemma item_eqb_eq x y : item_eqb x y = true <-> x = y.
Proof.
  destruct x as [i r], y as [j q]. unfold item_eqb. simpl.
  rewrite andb_true_iff, N.eqb_eq, re_eqb_eq. split; [intros [-> ->]; reflexivity|intros H; inversion H; auto].
Qed.

Lemma memb_In x l : memb x l = true <-> In x l.
Proof.
  unfold memb. rewrite existsb_exists. split.
  - intros [y [Hin Heq]]. apply item_eqb_eq in Heq. subst. assumption.
  - intros Hin. exists x. split; [assumption|]. apply item_eqb_eq. reflexivity.
Qed.

Lemma dedup_In x l : In x (dedup l) <-> In x l.
Proof.
  induction l as [|y t IH]; simpl; [tauto|].
  destruct (memb y (dedup t)) eqn:E.
  - rewrite IH. split; [auto|]. intros [<-|H]; [|assumption]. apply IH. apply memb_In. assumption.
  - simpl. rewrite IH. tauto.
Qed.

Lemma sstep_In s b i r' :
  In (i, r') (sstep s b) <-> exists r, In (i, r) s /\ In r' (pd b r).
Proof.
  unfold sstep. rewrite dedup_In, in_flat_map. split.
  - intros [[j r] [Hin Hm]]. simpl in Hm. apply in_map_iff in Hm.
    destruct Hm as [x [Hx Hin']]. inversion Hx; subst. eauto.
  - intros [r [Hin Hpd]]. exists (i, r). split; [assumption|]. simpl.
    apply in_map_iff. eauto.
Qed.

Lemma seqv_refl a : seqv a a. Proof. intros x; tauto. Qed.
Lemma seqv_sym a b : seqv a b -> seqv b a. Proof. intros H x; symmetry; apply H. Qed.
Lemma seqv_trans a b c : seqv a b -> seqv b c -> seqv a c.
Proof. intros H1 H2 x. rewrite (H1 x). apply H2. Qed.

Lemma sstep_compat a b c : seqv a b -> seqv (sstep a c) (sstep b c).
Proof.
  intros H [i r']. rewrite !sstep_In. split; intros [r [Hin Hpd]]; exists r; (split; [apply H; assumption|assumption]).
Qed.

Lemma seqb_sound a b : seqb a b = true -> seqv a b.
Proof.
  unfold seqb. rewrite andb_true_iff, !forallb_forall. intros [H1 H2] x. split; intros Hin.
  - apply memb_In. apply H1. assumption.
  - apply memb_In. apply H2. assumption.
Qed.

Lemma seqb_complete a b : seqv a b -> seqb a b = true.
Proof.
  intros H. unfold seqb. rewrite andb_true_iff, !forallb_forall. split; intros x Hin; apply memb_In; apply H; assumption.
Qed.

(** *** strictly sorted lists *)
Definition ssorted (l : list N) : Prop := StronglySorted N.lt l.

Lemma ins_In x i l : In x (ins i l) <-> x = i \/ In x l.
Proof.
  induction l as [|j t IH]; simpl.
  - split; [intros [<-|[]]; auto | intros [->|[]]; auto].
  - destruct (i <? j) eqn:E1; [simpl; split; [intros [<-|[<-|H]]; auto | intros [->|[->|H]]; auto]|].
    destruct (i =? j) eqn:E2.
    + apply N.eqb_eq in E2. subst. simpl. split; [auto | intros [->|H]; auto].
    + simpl. rewrite IH. split; [intros [<-|[->|H]]; auto | intros [->|[->|H]]; auto].
Qed.

Lemma ins_sorted i l : ssorted l -> ssorted (ins i l).
Proof.
  unfold ssorted. induction l as [|j t IH]; simpl; intros Hs.
  - constructor; constructor.
  - destruct (i <? j) eqn:E1.
    + apply N.ltb_lt in E1. constructor; [assumption|]. inversion Hs as [|? ? Hs' Hall]; subst.
      constructor; [assumption|]. rewrite Forall_forall in *. intros x Hx. specialize (Hall _ Hx). lia.
    + destruct (i =? j) eqn:E2; [assumption|].
      apply N.ltb_ge in E1. apply N.eqb_neq in E2.
      inversion Hs as [|? ? Hs' Hall]; subst. constructor; [apply IH; assumption|].
      rewrite Forall_forall in *. intros x Hx. apply ins_In in Hx. destruct Hx as [->|Hx]; [lia|auto].
Qed.

Lemma ssorted_ext l1 : forall l2, ssorted l1 -> ssorted l2 ->
  (forall x, In x l1 <-> In x l2) -> l1 = l2.
Proof.
  unfold ssorted. induction l1 as [|a t1 IH]; intros l2 H1 H2 Hext.
  - destruct l2 as [|b t2]; [reflexivity|]. exfalso. apply (Hext b). left; reflexivity.
  - destruct l2 as [|b t2]; [exfalso; apply (Hext a); left; reflexivity|].
    inversion H1 as [|? ? Hs1 Ha]; subst. inversion H2 as [|? ? Hs2 Hb]; subst.
    rewrite Forall_forall in Ha, Hb.
    assert (a = b).
    { assert (Hab : In a (b :: t2)) by (apply Hext; left; reflexivity).
      assert (Hba : In b (a :: t1)) by (apply Hext; left; reflexivity).
      destruct Hab as [->|Hab]; [reflexivity|]. destruct Hba as [->|Hba]; [reflexivity|].
      specialize (Ha _ Hba). specialize (Hb _ Hab). lia. }
    subst b. f_equal. apply IH; [assumption|assumption|].
    intros x. split; intros Hx.
    + assert (Hx' : In x (a :: t2)) by (apply Hext; right; assumption).
      destruct Hx' as [->|Hx']; [|assumption]. specialize (Ha _ Hx). lia.
    + assert (Hx' : In x (a :: t1)) by (apply Hext; right; assumption).
      destruct Hx' as [->|Hx']; [|assumption]. specialize (Hb _ Hx). lia.
Qed.

Lemma sobs_In i s : In i (sobs s) <-> exists r, In (i, r) s /\ nullable r = true.
Proof.
  induction s as [|[j q] t IH]; simpl.
  - split; [intros [] | intros [r [[] _]]].
  - destruct (nullable q) eqn:E.
    + rewrite ins_In, IH. split.
      * intros [->|[r [Hin Hn]]]; [exists q; auto | exists r; auto].
      * intros [r [[Heq|Hin] Hn]]; [inversion Heq; auto | right; eauto].
    + rewrite IH. split.
      * intros [r [Hin Hn]]. eauto.
      * intros [r [[Heq|Hin] Hn]]; [inversion Heq; subst; congruence | eauto].
Qed.

Lemma sobs_sorted s : ssorted (sobs s).
Proof.
  induction s as [|[j q] t IH]; simpl; [constructor|].
  destruct (nullable q); [apply ins_sorted|]; assumption.
Qed.

Lemma sobs_compat a b : seqv a b -> sobs a = sobs b.
Proof.
  intros H. apply ssorted_ext; try apply sobs_sorted.
  intros x. rewrite !sobs_In. split; intros [r [Hin Hn]]; exists r; (split; [apply H; assumption|assumption]).
Qed.


(** Semantics of a run: a term of rule [i] after [w] matches [v] iff ... *)
Lemma srun_sem w : forall s i v,
  (exists r', In (i, r') (srun w s) /\ Matches r' v) <->
  (exists r, In (i, r) s /\ Matches r (w ++ v)).
Proof.
  induction w as [|b w IH]; intros s i v; simpl; [tauto|].
  unfold srun in *. simpl. rewrite IH. split.
  - intros [r' [Hin Hm]]. apply sstep_In in Hin. destruct Hin as [r [Hin Hpd]].
    exists r. split; [assumption|]. apply pd_spec. eauto.
  - intros [r [Hin Hm]]. apply pd_spec in Hm. destruct Hm as [r' [Hpd Hm]].
    exists r'. split; [|assumption]. apply sstep_In. eauto.
Qed.

Theorem sobs_srun w s i :
  In i (sobs (srun w s)) <-> exists r, In (i, r) s /\ Matches r w.
Proof.
  rewrite sobs_In.
  transitivity (exists r', In (i, r') (srun w s) /\ Matches r' []).
  - split; intros [r [Hin Hn]]; exists r; (split; [assumption|]); apply nullable_spec; assumption.
  - rewrite srun_sem, app_nil_r. tauto.
Qed.

(** dead states stay dead and observe nothing *)
Lemma sstep_nil b : sstep [] b = [].
Proof. reflexivity. Qed.

Lemma srun_nil w : srun w [] = [].
Proof. induction w as [|b w IH]; simpl; [reflexivity|]. unfold srun in *. simpl. assumption. Qed.

Lemma sdead_srun alphabet s : sdead alphabet s = true ->
  forall b w, In b alphabet -> srun (b :: w) s = [].
Proof.
  unfold sdead. rewrite forallb_forall. intros H b w Hb. specialize (H _ Hb).
  unfold srun. simpl. destruct (sstep s b); [apply srun_nil|discriminate].
Qed.

Lemma sdead_compat alphabet a b : seqv a b -> sdead alphabet a = sdead alphabet b.
Proof.
  intros H. unfold sdead. induction alphabet as [|c al IH]; [reflexivity|]. simpl. rewrite IH. f_equal.
  pose proof (sstep_compat _ _ c H) as Hc.
  destruct (sstep a c) as [|x t], (sstep b c) as [|y u]; try reflexivity.
  - exfalso. apply (Hc y). left; reflexivity.
  - exfalso. apply (Hc x). left; reflexivity.
Qed.
