(** * C01Proofs: lock-step check + match loop = longest match, first rule. *)
From Coq Require Import List NArith ZArith Bool Lia Sorted FMapPositive.
Import ListNotations.
Require Import FlexV.Regex FlexV.SpecAuto FlexV.Lockstep FlexV.Pat FlexV.Tables FlexV.Scan.
Local Open Scope N_scope.

Definition alphabet (csize : N) : list byte := map N.of_nat (seq 0 (N.to_nat csize)).

Lemma alphabet_In csize b : In b (alphabet csize) <-> b < csize.
Proof.
  unfold alphabet. rewrite in_map_iff. split.
  - intros [n [<- Hin]]. apply in_seq in Hin. lia.
  - intros H. exists (N.to_nat b). split; [apply N2Nat.id|]. apply in_seq. lia.
Qed.

(** observation agreement between a specification state and a table state *)
Definition ok (V : view) (al : list byte) (s : sstate) (i : ist) : bool :=
  match v_acc V i with
  | Some z => (0 <=? z)%Z && N.eqb (Z.to_N z) (hd 0 (sobs s))
  | None => false
  end && (if v_stop V i then sdead al s else true).

Definition check_view (V : view) (al : list byte) (m : relmap sstate ist) (s0 : sstate) (i0 : ist) : bool :=
  check sstate ist sstep (v_step V) seqb (ok V al) ikey al m s0 i0.

Lemma ikey_inj a b : ikey a = ikey b -> a = b.
Proof.
  destruct a as [| |[|p|p]], b as [| |[|q|q]]; simpl; intros H; try discriminate; try reflexivity;
    inversion H; reflexivity.
Qed.

Lemma ok_compat V al a b i : seqv a b -> ok V al a i = ok V al b i.
Proof.
  intros H. unfold ok. rewrite (sobs_compat _ _ H), (sdead_compat al _ _ H). reflexivity.
Qed.

Theorem check_view_sound V al m s0 i0 : check_view V al m s0 i0 = true ->
  forall w, Forall (fun b => In b al) w ->
    ok V al (SpecAuto.srun w s0) (Scan.irun V w i0) = true.
Proof.
  intros H w Hw.
  exact (check_sound sstate ist sstep (v_step V) seqv seqv_sym seqv_trans sstep_compat
           seqb seqb_sound (ok V al) (ok_compat V al) ikey ikey_inj al m s0 i0 H w Hw).
Qed.

(** ** what the observation means *)
Definition rule_matches (s0 : sstate) (i : N) (u : list byte) : Prop :=
  exists r, In (i, r) s0 /\ Matches r u.

Definition accf (s0 : sstate) (u : list byte) : N := hd 0 (sobs (SpecAuto.srun u s0)).

Lemma hd_sorted_min l : ssorted l -> forall x, In x l -> hd 0 l <= x.
Proof.
  intros Hs x Hin. destruct l as [|a t]; [destruct Hin|]. simpl.
  destruct Hin as [->|Hin]; [lia|]. inversion Hs as [|? ? _ Hall]; subst.
  rewrite Forall_forall in Hall. specialize (Hall _ Hin). lia.
Qed.

Lemma accf_zero s0 u : (forall x, In x s0 -> fst x <> 0) ->
  (accf s0 u = 0 <-> forall i, ~ rule_matches s0 i u).
Proof.
  intros Hnz. unfold accf. split.
  - intros H0 i Hm. apply sobs_srun in Hm.
    destruct (sobs (SpecAuto.srun u s0)) as [|a t] eqn:E; [destruct Hm|]. simpl in H0. subst a.
    assert (Hin0 : In 0 (sobs (SpecAuto.srun u s0))) by (rewrite E; left; reflexivity).
    apply sobs_srun in Hin0. destruct Hin0 as [r [Hin _]]. apply (Hnz _ Hin). reflexivity.
  - intros Hno. destruct (sobs (SpecAuto.srun u s0)) as [|a t] eqn:E; [reflexivity|].
    exfalso. apply (Hno a). apply sobs_srun. rewrite E. left; reflexivity.
Qed.

Lemma accf_nonzero s0 u r : r <> 0 -> accf s0 u = r ->
  rule_matches s0 r u /\ forall r', rule_matches s0 r' u -> r <= r'.
Proof.
  unfold accf. intros Hr Hacc. split.
  - apply sobs_srun. destruct (sobs (SpecAuto.srun u s0)) as [|a t]; simpl in Hacc; [congruence|].
    subst. left; reflexivity.
  - intros r' Hm. apply sobs_srun in Hm. rewrite <- Hacc. apply hd_sorted_min; [apply sobs_sorted|assumption].
Qed.

(** the documented selection: longest match, then first rule *)
Definition Selected (s0 : sstate) (w : list byte) (r : N) (k : nat) : Prop :=
  (k <= length w)%nat /\ rule_matches s0 r (firstn k w) /\
  (forall r', rule_matches s0 r' (firstn k w) -> r <= r') /\
  (forall m r', (k < m <= length w)%nat -> ~ rule_matches s0 r' (firstn m w)).

Definition NoMatch (s0 : sstate) (w : list byte) : Prop :=
  forall m r', (m <= length w)%nat -> ~ rule_matches s0 r' (firstn m w).

Lemma bestF_selected s0 w r k :
  (forall x, In x s0 -> fst x <> 0) ->
  BestF (accf s0) w (r, k) ->
  (r <> 0 /\ Selected s0 w r k) \/ (r = 0 /\ k = 0%nat /\ NoMatch s0 w).
Proof.
  intros Hnz Hbest. unfold BestF in Hbest.
  destruct Hbest as [(Hr & Hk & Hz)|(Hr & Hk & Ha & Hz)].
  - right. repeat split; auto. intros m' r' Hm'. apply (accf_zero s0 _ Hnz). apply Hz. assumption.
  - left. split; [assumption|]. destruct (accf_nonzero s0 _ r Hr Ha) as [Hm Hmin].
    repeat split; auto. intros m' r' Hm'. apply (accf_zero s0 _ Hnz). apply Hz. assumption.
Qed.

Theorem lockstep_scan V al m s0 i0 :
  (forall x, In x s0 -> fst x <> 0) ->
  check_view V al m s0 i0 = true ->
  forall w, Forall (fun b => In b al) w ->
    let (r, k) := scan V i0 w 0 (0, 0%nat) in
    (r <> 0 /\ Selected s0 w r k) \/ (r = 0 /\ k = 0%nat /\ NoMatch s0 w).
Proof.
  intros Hnz Hck w Hw.
  pose proof (check_view_sound V al m s0 i0 Hck) as Hok.
  assert (Hacc : forall u, Forall (fun b => In b al) u -> accN V (Scan.irun V u i0) = accf s0 u).
  { intros u Hu. specialize (Hok u Hu). unfold ok in Hok.
    apply andb_true_iff in Hok. destruct Hok as [Hok _]. unfold accN, accf.
    destruct (v_acc V (Scan.irun V u i0)) as [z|]; [|discriminate].
    apply andb_true_iff in Hok. destruct Hok as [_ Hok]. apply N.eqb_eq in Hok. assumption. }
  assert (Hstop : forall u, v_stop V (Scan.irun V u i0) = true ->
            forall b v, Forall (fun b => In b al) (u ++ b :: v) -> accf s0 (u ++ b :: v) = 0).
  { intros u Hs b v Huv.
    assert (Hu : Forall (fun b => In b al) u) by (apply Forall_app in Huv; tauto).
    assert (Hb : In b al).
    { apply Forall_app in Huv. destruct Huv as [_ Hbv]. inversion Hbv; assumption. }
    specialize (Hok u Hu). unfold ok in Hok. apply andb_true_iff in Hok. destruct Hok as [_ Hok].
    rewrite Hs in Hok. unfold accf, SpecAuto.srun. rewrite fold_left_app.
    change (fold_left sstep (b :: v) (fold_left sstep u s0)) with (SpecAuto.srun (b :: v) (SpecAuto.srun u s0)).
    rewrite (sdead_srun al _ Hok b v Hb). reflexivity. }
  pose proof (scan_best ist (v_step V) (accN V) (v_stop V) (accf s0) i0 (fun b => In b al) Hacc Hstop w Hw) as Hbest.
  unfold scan. destruct (gscan ist (v_step V) (accN V) (v_stop V) i0 w 0 (0, 0%nat)) as [r k].
  apply bestF_selected; assumption.
Qed.

(** ** the specification's own scanner (the oracle the real scanner is compared with) *)
Definition sacc1 (s : sstate) : N := hd 0 (sobs s).
Definition sempty (s : sstate) : bool := match s with [] => true | _ => false end.
Definition spec_scan (s0 : sstate) (w : list byte) : N * nat :=
  gscan sstate sstep sacc1 sempty s0 w 0 (0, 0%nat).

Theorem spec_scan_selected s0 w :
  (forall x, In x s0 -> fst x <> 0) ->
  let (r, k) := spec_scan s0 w in
  (r <> 0 /\ Selected s0 w r k) \/ (r = 0 /\ k = 0%nat /\ NoMatch s0 w).
Proof.
  intros Hnz.
  assert (Hacc : forall u, Forall (fun _ : byte => True) u -> sacc1 (girun sstate sstep u s0) = accf s0 u).
  { intros u _. reflexivity. }
  assert (Hstop : forall u, sempty (girun sstate sstep u s0) = true ->
            forall b v, Forall (fun _ : byte => True) (u ++ b :: v) -> accf s0 (u ++ b :: v) = 0).
  { intros u Hs b v _. unfold accf, SpecAuto.srun. rewrite fold_left_app.
    unfold girun in Hs. destruct (fold_left sstep u s0); [|discriminate].
    change (fold_left sstep (b :: v) []) with (SpecAuto.srun (b :: v) []). rewrite srun_nil. reflexivity. }
  assert (Hw : Forall (fun _ : byte => True) w) by (apply Forall_forall; auto).
  pose proof (scan_best sstate sstep sacc1 sempty (accf s0) s0 (fun _ => True) Hacc Hstop w Hw) as Hbest.
  unfold spec_scan. destruct (gscan sstate sstep sacc1 sempty s0 w 0 (0, 0%nat)) as [r k].
  apply bestF_selected; assumption.
Qed.

(** ** with the default rule a non-empty input always yields a token of >= 1 byte *)
Lemma number_from_fst {A} (l : list A) : forall n x, In x (number_from n l) -> n <= fst x.
Proof.
  induction l as [|a t IH]; intros n x; simpl; [intros []|].
  intros [<-|Hin]; [simpl; lia|]. specialize (IH _ _ Hin). lia.
Qed.

Lemma spec_start_nz p sc bol x : In x (spec_start p sc bol) -> fst x <> 0.
Proof.
  unfold spec_start. intros Hin. apply in_app_or in Hin. destruct Hin as [Hin|[<-|[]]].
  - apply in_map_iff in Hin. destruct Hin as [[i r] [<- Hin]]. simpl.
    apply filter_In in Hin. destruct Hin as [Hin _]. apply number_from_fst in Hin. simpl in Hin. lia.
  - simpl. lia.
Qed.

Lemma full_mem csize b : cmem (full csize) b = true <-> b < csize.
Proof.
  unfold cmem, full. split.
  - intros H. destruct (N.lt_ge_cases b csize) as [Hlt|Hge]; [assumption|].
    rewrite N.ones_spec_high in H by assumption. discriminate.
  - intros H. apply N.ones_spec_low. assumption.
Qed.

Theorem C01_token p sc bol V m :
  check_view V (alphabet (p_csize p)) m (spec_start p sc bol) (v_start V (Z.of_N sc - 1) bol) = true ->
  forall w, Forall (fun b => b < p_csize p) w -> w <> [] ->
    let (r, k) := scan V (v_start V (Z.of_N sc - 1) bol) w 0 (0, 0%nat) in
    r <> 0 /\ (1 <= k)%nat /\ Selected (spec_start p sc bol) w r k.
Proof.
  intros Hck w Hw Hne.
  assert (Hw' : Forall (fun b => In b (alphabet (p_csize p))) w).
  { rewrite Forall_forall in *. intros b Hb. apply alphabet_In. auto. }
  pose proof (lockstep_scan V _ m _ _ (spec_start_nz p sc bol) Hck w Hw') as H.
  destruct (scan V (v_start V (Z.of_N sc - 1) bol) w 0 (0, 0%nat)) as [r k].
  destruct w as [|b w]; [congruence|].
  assert (Hdef : rule_matches (spec_start p sc bol) (N.of_nat (length (p_rules p)) + 1) (firstn 1 (b :: w))).
  { exists (Cls (full (p_csize p))). split.
    - unfold spec_start. apply in_or_app. right. left. reflexivity.
    - simpl. constructor. apply full_mem. inversion Hw; assumption. }
  destruct H as [[Hr Hsel]|[Hr [Hk Hno]]].
  - split; [assumption|]. split; [|assumption].
    destruct Hsel as (Hle & _ & _ & Hlong).
    destruct k as [|k]; [|lia]. exfalso.
    apply (Hlong 1%nat _ ltac:(simpl; lia) Hdef).
  - exfalso. apply (Hno 1%nat _ ltac:(simpl; lia) Hdef).
Qed.
