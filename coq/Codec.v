(** * Codec: the serialized-tables file format of the manual ("Tables File
    Format"): a reference encoder, a decoder, and their round trip.  Layer S/G. *)
From Coq Require Import List NArith ZArith Bool Lia.
From Coq Require Import ZifyBool ZifyN ZifyNat.
Import ListNotations.
Require Import FlexV.Regex FlexV.SourceFacts.
Local Open Scope N_scope.
Ltac Zify.zify_post_hook ::= Z.div_mod_to_equations.

(** ** big-endian integers *)
Definition be16 (n : N) : list byte := [(n / 256) mod 256; n mod 256].
Definition be32 (n : N) : list byte := [(n / 16777216) mod 256; (n / 65536) mod 256; (n / 256) mod 256; n mod 256].

Definition dec16 (a b : byte) : N := a * 256 + b.
Definition dec32 (a b c d : byte) : N := ((a * 256 + b) * 256 + c) * 256 + d.

Lemma dec16_be16 n : n < 65536 -> dec16 ((n / 256) mod 256) (n mod 256) = n.
Proof. unfold dec16. lia. Qed.

Lemma dec32_be32 n : n < 4294967296 ->
  dec32 ((n / 16777216) mod 256) ((n / 65536) mod 256) ((n / 256) mod 256) (n mod 256) = n.
Proof. unfold dec32. lia. Qed.

(** ** signed data elements of width 1, 2 or 4 bytes (two's complement) *)
Definition width_of_flags (fl : N) : option N :=
  if N.testbit fl 0 then Some 1 else if N.testbit fl 1 then Some 2 else if N.testbit fl 2 then Some 4 else None.

Definition pow256 (w : N) : N := match w with 1 => 256 | 2 => 65536 | _ => 4294967296 end.

Definition to_unsigned (w : N) (z : Z) : N := Z.to_N (z mod Z.of_N (pow256 w)).
Definition of_unsigned (w : N) (u : N) : Z :=
  if u <? pow256 w / 2 then Z.of_N u else (Z.of_N u - Z.of_N (pow256 w))%Z.

Definition in_range (w : N) (z : Z) : Prop := (- Z.of_N (pow256 w / 2) <= z < Z.of_N (pow256 w / 2))%Z.

Lemma of_to_unsigned w z : (w = 1 \/ w = 2 \/ w = 4) -> in_range w z -> of_unsigned w (to_unsigned w z) = z.
Proof.
  intros Hw Hr. unfold of_unsigned, to_unsigned, in_range in *.
  destruct Hw as [H1|[H1|H1]]; subst w; cbn [pow256] in *;
    (destruct (Z.to_N (z mod _) <? _) eqn:E; [apply N.ltb_lt in E|apply N.ltb_ge in E]; lia).
Qed.

Definition enc_elem (w : N) (z : Z) : list byte :=
  let u := to_unsigned w z in
  match w with
  | 1 => [u mod 256]
  | 2 => be16 u
  | _ => be32 u
  end.

Definition dec_elem (w : N) (bs : list byte) : option (Z * list byte) :=
  match w, bs with
  | 1, a :: r => Some (of_unsigned 1 a, r)
  | 2, a :: b :: r => Some (of_unsigned 2 (dec16 a b), r)
  | 4, a :: b :: c :: d :: r => Some (of_unsigned 4 (dec32 a b c d), r)
  | _, _ => None
  end.

Lemma to_unsigned_lt w z : (w = 1 \/ w = 2 \/ w = 4) -> to_unsigned w z < pow256 w.
Proof. intros [H1|[H1|H1]]; subst w; unfold to_unsigned; cbn [pow256]; lia. Qed.

Lemma dec_enc_elem w z r : (w = 1 \/ w = 2 \/ w = 4) -> in_range w z ->
  dec_elem w (enc_elem w z ++ r) = Some (z, r).
Proof.
  intros Hw Hr. pose proof (to_unsigned_lt w z Hw) as Hlt. pose proof (of_to_unsigned w z Hw Hr) as Hrt.
  destruct Hw as [H1|[H1|H1]]; subst w; unfold enc_elem, dec_elem, be16, be32; cbn [app pow256] in *.
  - rewrite N.mod_small by exact Hlt. rewrite Hrt. reflexivity.
  - rewrite dec16_be16 by exact Hlt. rewrite Hrt. reflexivity.
  - rewrite dec32_be32 by exact Hlt. rewrite Hrt. reflexivity.
Qed.

Fixpoint enc_elems (w : N) (l : list Z) : list byte :=
  match l with [] => [] | z :: t => enc_elem w z ++ enc_elems w t end.

Fixpoint dec_elems (w : N) (n : nat) (bs : list byte) : option (list Z * list byte) :=
  match n with
  | O => Some ([], bs)
  | S k => match dec_elem w bs with
           | Some (z, r) => match dec_elems w k r with
                            | Some (l, r') => Some (z :: l, r')
                            | None => None
                            end
           | None => None
           end
  end.

Lemma dec_enc_elems w l : (w = 1 \/ w = 2 \/ w = 4) -> Forall (in_range w) l ->
  forall r, dec_elems w (length l) (enc_elems w l ++ r) = Some (l, r).
Proof.
  intros Hw. induction l as [|z t IH]; intros Hall r; [reflexivity|].
  inversion Hall as [|? ? Hz Ht]; subst. cbn [length dec_elems enc_elems]. rewrite <- app_assoc.
  rewrite dec_enc_elem by assumption. rewrite IH by assumption. reflexivity.
Qed.

Lemma enc_elem_length w z : (w = 1 \/ w = 2 \/ w = 4) -> N.of_nat (length (enc_elem w z)) = w.
Proof. intros [H1|[H1|H1]]; subst w; reflexivity. Qed.

Lemma enc_elems_length w l : (w = 1 \/ w = 2 \/ w = 4) -> N.of_nat (length (enc_elems w l)) = w * N.of_nat (length l).
Proof.
  intros Hw. induction l as [|z t IH]; cbn [enc_elems length]; [lia|].
  rewrite app_length, Nat2N.inj_add, IH, (enc_elem_length w z Hw). lia.
Qed.

(** ** padding to 64-bit boundaries *)
Definition pad_len (n : N) : N := (8 - n mod 8) mod 8.
Definition zeros (n : N) : list byte := repeat 0 (N.to_nat n).

Lemma pad_len_spec n : (n + pad_len n) mod 8 = 0 /\ pad_len n < 8.
Proof. unfold pad_len. lia. Qed.

Fixpoint drop (n : nat) (bs : list byte) : option (list byte) :=
  match n, bs with
  | O, _ => Some bs
  | S k, _ :: r => drop k r
  | S _, [] => None
  end.

Lemma drop_app (a b : list byte) : drop (length a) (a ++ b) = Some b.
Proof. induction a as [|x a IH]; simpl; auto. Qed.

(** ** one table *)
Record table := { t_id : N; t_flags : N; t_hilen : N; t_lolen : N; t_data : list Z }.

Definition STRUCT_FLAG : N := F_YYTD_STRUCT.

Definition nelems (hilen lolen flags : N) : N :=
  (if N.eqb hilen 0 then lolen else hilen * lolen) * (if N.testbit flags 4 then 2 else 1).

Definition table_wf (t : table) : Prop :=
  t_id t < 65536 /\ t_flags t < 65536 /\ t_hilen t < 4294967296 /\ t_lolen t < 4294967296 /\
  (exists w, width_of_flags (t_flags t) = Some w /\ Forall (in_range w) (t_data t)) /\
  N.of_nat (length (t_data t)) = nelems (t_hilen t) (t_lolen t) (t_flags t).

Definition enc_table (t : table) : list byte :=
  match width_of_flags (t_flags t) with
  | Some w =>
      be16 (t_id t) ++ be16 (t_flags t) ++ be32 (t_hilen t) ++ be32 (t_lolen t) ++ enc_elems w (t_data t) ++
      zeros (pad_len (12 + w * N.of_nat (length (t_data t))))
  | None => []
  end.

Definition dec_table (bs : list byte) : option (table * list byte) :=
  match bs with
  | i1 :: i2 :: f1 :: f2 :: h1 :: h2 :: h3 :: h4 :: l1 :: l2 :: l3 :: l4 :: r =>
      let id := dec16 i1 i2 in let fl := dec16 f1 f2 in
      let hi := dec32 h1 h2 h3 h4 in let lo := dec32 l1 l2 l3 l4 in
      match width_of_flags fl with
      | Some w =>
          let n := nelems hi lo fl in
          match dec_elems w (N.to_nat n) r with
          | Some (data, r') =>
              match drop (N.to_nat (pad_len (12 + w * n))) r' with
              | Some r'' => Some ({| t_id := id; t_flags := fl; t_hilen := hi; t_lolen := lo; t_data := data |}, r'')
              | None => None
              end
          | None => None
          end
      | None => None
      end
  | _ => None
  end.

Lemma width_cases fl w : width_of_flags fl = Some w -> w = 1 \/ w = 2 \/ w = 4.
Proof.
  unfold width_of_flags. destruct (N.testbit fl 0); [intros H; inversion H; auto|].
  destruct (N.testbit fl 1); [intros H; inversion H; auto|].
  destruct (N.testbit fl 2); [intros H; inversion H; auto|discriminate].
Qed.

Theorem dec_enc_table t r : table_wf t -> dec_table (enc_table t ++ r) = Some (t, r).
Proof.
  intros (Hid & Hfl & Hhi & Hlo & (w & Hw & Hdata) & Hlen).
  pose proof (width_cases _ _ Hw) as Hwc.
  unfold enc_table. rewrite Hw. unfold be16, be32. cbn [app]. rewrite <- !app_assoc. cbn [app dec_table].
  rewrite !dec16_be16 by assumption. rewrite !dec32_be32 by assumption. rewrite Hw.
  rewrite <- Hlen, Nat2N.id. rewrite dec_enc_elems by assumption.
  unfold zeros.
  replace (N.to_nat (pad_len (12 + w * N.of_nat (length (t_data t))))) with
      (length (repeat (0 : byte) (N.to_nat (pad_len (12 + w * N.of_nat (length (t_data t))))))) at 1 by apply repeat_length.
  rewrite drop_app. destruct t; reflexivity.
Qed.

Lemma enc_table_length t : table_wf t -> N.of_nat (length (enc_table t)) mod 8 = 0.
Proof.
  intros (Hid & Hfl & Hhi & Hlo & (w & Hw & Hdata) & Hlen).
  pose proof (width_cases _ _ Hw) as Hwc.
  unfold enc_table. rewrite Hw. unfold be16, be32, zeros. cbn [app length].
  rewrite !Nat2N.inj_succ, app_length, Nat2N.inj_add, repeat_length, N2Nat.id, (enc_elems_length w _ Hwc).
  pose proof (pad_len_spec (12 + w * N.of_nat (length (t_data t)))) as [H1 H2]. lia.
Qed.

(** ** a table set: header + tables *)
Fixpoint enc_tables (ts : list table) : list byte :=
  match ts with [] => [] | t :: r => enc_table t ++ enc_tables r end.

Definition cstr (s : list byte) : list byte := s ++ [0].

Definition header_body (hsize ssize : N) (version name : list byte) : list byte :=
  be32 F_YYTBL_MAGIC ++ be32 hsize ++ be32 ssize ++ be16 0 ++ cstr version ++ cstr name.

Definition hsize_of (version name : list byte) : N :=
  let n := 14 + N.of_nat (length version) + 1 + N.of_nat (length name) + 1 in n + pad_len n.

Record tset := { s_name : list byte; s_version : list byte; s_tables : list table }.

Definition enc_set (s : tset) : list byte :=
  let hs := hsize_of (s_version s) (s_name s) in
  let body := enc_tables (s_tables s) in
  let ss := hs + N.of_nat (length body) in
  let hb := header_body hs ss (s_version s) (s_name s) in
  hb ++ zeros (hs - N.of_nat (length hb)) ++ body.

(** reading a NUL-terminated string *)
Fixpoint read_cstr (bs : list byte) : option (list byte * list byte) :=
  match bs with
  | [] => None
  | c :: r => if N.eqb c 0 then Some ([], r)
              else match read_cstr r with Some (s, r') => Some (c :: s, r') | None => None end
  end.

Definition no_nul (s : list byte) : Prop := Forall (fun c => c <> 0) s.

Lemma read_cstr_app s r : no_nul s -> read_cstr (cstr s ++ r) = Some (s, r).
Proof.
  unfold cstr. induction s as [|c s IH]; intros Hn; cbn [app read_cstr].
  - reflexivity.
  - inversion Hn as [|? ? Hc Hs]; subst. apply N.eqb_neq in Hc. rewrite Hc. rewrite IH by assumption. reflexivity.
Qed.

Fixpoint dec_tables (fuel : nat) (bs : list byte) : option (list table) :=
  match bs with
  | [] => Some []
  | _ => match fuel with
         | O => None
         | S f => match dec_table bs with
                  | Some (t, r) => match dec_tables f r with Some ts => Some (t :: ts) | None => None end
                  | None => None
                  end
         end
  end.

Fixpoint take (n : nat) (bs : list byte) : option (list byte * list byte) :=
  match n, bs with
  | O, _ => Some ([], bs)
  | S k, c :: r => match take k r with Some (a, b) => Some (c :: a, b) | None => None end
  | S _, [] => None
  end.

Lemma take_app (a b : list byte) : take (length a) (a ++ b) = Some (a, b).
Proof. induction a as [|x a IH]; simpl; auto. rewrite IH. reflexivity. Qed.

Definition bytes_eqb (a b : list byte) : bool :=
  Nat.eqb (length a) (length b) && forallb (fun p => N.eqb (fst p) (snd p)) (combine a b).

Inductive dres := Found (ts : list table) | NotFound | Malformed.

(** Decode one set header at the front of [bs]: returns name, the bytes of its tables, the rest. *)
Definition dec_set_header (bs : list byte) : option (list byte * list byte * list byte) :=
  match bs with
  | m1 :: m2 :: m3 :: m4 :: a1 :: a2 :: a3 :: a4 :: b1 :: b2 :: b3 :: b4 :: f1 :: f2 :: r =>
      if N.eqb (dec32 m1 m2 m3 m4) F_YYTBL_MAGIC then
        let hs := dec32 a1 a2 a3 a4 in let ss := dec32 b1 b2 b3 b4 in
        match read_cstr r with
        | Some (ver, r1) =>
            match read_cstr r1 with
            | Some (name, r2) =>
                let used := 14 + N.of_nat (length ver) + 1 + N.of_nat (length name) + 1 in
                if (used <=? hs) && (hs <=? ss) then
                  match drop (N.to_nat (hs - used)) r2 with
                  | Some r3 => match take (N.to_nat (ss - hs)) r3 with
                               | Some (body, rest) => Some (name, body, rest)
                               | None => None
                               end
                  | None => None
                  end
                else None
            | None => None
            end
        | None => None
        end
      else None
  | _ => None
  end.

(** Find the set called [name] in a file made of consecutive sets. *)
Fixpoint dec_file (fuel : nat) (bs : list byte) (name : list byte) : dres :=
  match bs with
  | [] => NotFound
  | _ =>
      match fuel with
      | O => Malformed
      | S f =>
          match dec_set_header bs with
          | Some (n, body, rest) =>
              if bytes_eqb n name then
                match dec_tables (length body) body with Some ts => Found ts | None => Malformed end
              else dec_file f rest name
          | None => Malformed
          end
      end
  end.

(** ** round trip of a set and of a file of sets *)
Lemma magic_lt : F_YYTBL_MAGIC < 4294967296.
Proof. vm_compute. reflexivity. Qed.

Lemma enc_table_cons t : table_wf t -> exists c r, enc_table t = c :: r.
Proof.
  intros (_ & _ & _ & _ & (w & Hw & _) & _). unfold enc_table. rewrite Hw. unfold be16. cbn [app]. eauto.
Qed.

Lemma dec_enc_tables ts : Forall table_wf ts ->
  forall fuel, (length ts <= fuel)%nat -> dec_tables fuel (enc_tables ts) = Some ts.
Proof.
  induction ts as [|t ts IH]; intros Hall fuel Hf; [destruct fuel; reflexivity|].
  inversion Hall as [|? ? Ht Hts]; subst. cbn [enc_tables].
  destruct (enc_table_cons t Ht) as [c [r Hc]].
  destruct fuel as [|f]; [cbn in Hf; lia|].
  unfold dec_tables; fold dec_tables. rewrite Hc. cbn [app]. rewrite <- app_comm_cons || idtac.
  change (c :: r ++ enc_tables ts) with ((c :: r) ++ enc_tables ts). rewrite <- Hc.
  rewrite dec_enc_table by assumption. rewrite IH; [reflexivity|assumption|cbn in Hf; lia].
Qed.

Lemma enc_tables_length ts : Forall table_wf ts -> (length ts <= length (enc_tables ts))%nat.
Proof.
  induction ts as [|t ts IH]; intros Hall; [cbn; lia|]. inversion Hall as [|? ? Ht Hts]; subst.
  cbn [enc_tables length]. rewrite app_length. destruct (enc_table_cons t Ht) as [c [r Hc]]. rewrite Hc. cbn [length].
  specialize (IH Hts). lia.
Qed.

Definition set_wf (s : tset) : Prop :=
  no_nul (s_version s) /\ no_nul (s_name s) /\ Forall table_wf (s_tables s) /\
  hsize_of (s_version s) (s_name s) + N.of_nat (length (enc_tables (s_tables s))) < 4294967296.

Lemma header_body_length hs ss ver name :
  N.of_nat (length (header_body hs ss ver name)) = 14 + N.of_nat (length ver) + 1 + N.of_nat (length name) + 1.
Proof.
  unfold header_body, be32, be16, cstr. cbn [app length]. rewrite !Nat2N.inj_succ, !app_length, !Nat2N.inj_add. cbn [length]. lia.
Qed.

Theorem dec_enc_set_header s rest : set_wf s ->
  dec_set_header (enc_set s ++ rest) = Some (s_name s, enc_tables (s_tables s), rest).
Proof.
  intros (Hv & Hn & Hts & Hsz). unfold enc_set.
  set (hs := hsize_of (s_version s) (s_name s)) in *.
  set (body := enc_tables (s_tables s)) in *.
  set (ss := hs + N.of_nat (length body)) in *.
  pose proof (header_body_length hs ss (s_version s) (s_name s)) as Hlen.
  set (used := 14 + N.of_nat (length (s_version s)) + 1 + N.of_nat (length (s_name s)) + 1) in *.
  assert (Hhs : hs = used + pad_len used) by reflexivity.
  pose proof (pad_len_spec used) as [_ Hpad].
  unfold header_body at 1. unfold be32 at 1 2 3. unfold be16. cbn [app]. rewrite <- !app_assoc. cbn [app dec_set_header].
  rewrite dec32_be32 by apply magic_lt. rewrite N.eqb_refl.
  rewrite !dec32_be32 by lia.
  rewrite read_cstr_app by assumption. rewrite read_cstr_app by assumption.
  fold used. replace ((used <=? hs) && (hs <=? ss)) with true by (symmetry; apply andb_true_iff; split; apply N.leb_le; lia).
  rewrite Hlen. unfold zeros.
  replace (N.to_nat (hs - used)) with (length (repeat (0 : byte) (N.to_nat (hs - used)))) at 1 by apply repeat_length.
  rewrite drop_app.
  replace (N.to_nat (ss - hs)) with (length body) by lia.
  rewrite take_app. reflexivity.
Qed.

Lemma bytes_eqb_refl a : bytes_eqb a a = true.
Proof.
  unfold bytes_eqb. rewrite Nat.eqb_refl. induction a as [|x a IH]; cbn; [reflexivity|]. rewrite N.eqb_refl. exact IH.
Qed.

Lemma bytes_eqb_eq a : forall b, bytes_eqb a b = true -> a = b.
Proof.
  unfold bytes_eqb. induction a as [|x a IH]; intros [|y b] H; cbn in H; try discriminate; [reflexivity|].
  apply andb_true_iff in H. destruct H as [Hl H]. apply andb_true_iff in H. destruct H as [Hxy H].
  apply N.eqb_eq in Hxy. subst. f_equal. apply IH. rewrite Hl. exact H.
Qed.

Fixpoint enc_file (sets : list tset) : list byte :=
  match sets with [] => [] | s :: r => enc_set s ++ enc_file r end.

Lemma enc_set_cons s : exists c r, enc_set s = c :: r.
Proof. unfold enc_set, header_body, be32. cbn [app]. eauto. Qed.

(** sets concatenated in any order are each found by name *)
Theorem dec_enc_file pre s post : Forall set_wf pre -> set_wf s ->
  Forall (fun p => s_name p <> s_name s) pre ->
  forall fuel, (length pre < fuel)%nat ->
    dec_file fuel (enc_file (pre ++ s :: post)) (s_name s) = Found (s_tables s).
Proof.
  induction pre as [|p pre IH]; intros Hpre Hs Hne fuel Hf.
  - cbn [app enc_file]. destruct fuel as [|f]; [lia|]. destruct (enc_set_cons s) as [c [r Hc]].
    cbn [dec_file]. rewrite Hc. cbn [app]. change (c :: r ++ enc_file post) with ((c :: r) ++ enc_file post). rewrite <- Hc.
    rewrite dec_enc_set_header by assumption. rewrite bytes_eqb_refl.
    destruct Hs as (_ & _ & Hts & _). rewrite dec_enc_tables; [reflexivity|assumption|apply enc_tables_length; assumption].
  - inversion Hpre as [|? ? Hp Hpre']; subst. inversion Hne as [|? ? Hn Hne']; subst.
    cbn [app enc_file]. destruct fuel as [|f]; [cbn in Hf; lia|]. destruct (enc_set_cons p) as [c [r Hc]].
    cbn [dec_file]. rewrite Hc. cbn [app]. change (c :: r ++ enc_file (pre ++ s :: post)) with ((c :: r) ++ enc_file (pre ++ s :: post)).
    rewrite <- Hc. rewrite dec_enc_set_header by assumption.
    destruct (bytes_eqb (s_name p) (s_name s)) eqn:E; [apply bytes_eqb_eq in E; contradiction|].
    apply IH; try assumption. cbn in Hf. lia.
Qed.

(** a file that does not start with the magic number is rejected *)
Theorem wrong_magic_rejected bs name fuel m1 m2 m3 m4 r :
  bs = m1 :: m2 :: m3 :: m4 :: r -> dec32 m1 m2 m3 m4 <> F_YYTBL_MAGIC -> dec_file (S fuel) bs name = Malformed.
Proof.
  intros -> Hm. cbn [dec_file]. unfold dec_set_header.
  destruct r as [|a1 [|a2 [|a3 [|a4 [|b1 [|b2 [|b3 [|b4 [|f1 [|f2 r]]]]]]]]]]; try reflexivity.
  apply N.eqb_neq in Hm. rewrite Hm. reflexivity.
Qed.

(** ** truncated files are never accepted *)
Lemma take_len : forall n bs a b, take n bs = Some (a, b) -> length bs = (n + length b)%nat.
Proof.
  induction n as [|n IH]; intros bs a b H; cbn [take] in H.
  - inversion H; subst. reflexivity.
  - destruct bs as [|c r]; [discriminate|]. destruct (take n r) as [[a' b']|] eqn:E; [|discriminate].
    inversion H; subst. cbn [length]. rewrite (IH _ _ _ E). reflexivity.
Qed.

Lemma drop_len : forall n bs r, drop n bs = Some r -> length bs = (n + length r)%nat.
Proof.
  induction n as [|n IH]; intros bs r H; cbn [drop] in H.
  - inversion H; subst. reflexivity.
  - destruct bs as [|c t]; [discriminate|]. cbn [length]. rewrite (IH _ _ H). reflexivity.
Qed.

Lemma read_cstr_len : forall bs s r, read_cstr bs = Some (s, r) -> length bs = (length s + 1 + length r)%nat.
Proof.
  induction bs as [|c t IH]; intros s r H; cbn [read_cstr] in H; [discriminate|].
  destruct (N.eqb c 0).
  - inversion H; subst. cbn. reflexivity.
  - destruct (read_cstr t) as [[s' r']|] eqn:E; [|discriminate]. inversion H; subst. cbn [length].
    rewrite (IH _ _ eq_refl). lia.
Qed.

Lemma dec_set_header_len m1 m2 m3 m4 a1 a2 a3 a4 b1 b2 b3 b4 f1 f2 r n body rest :
  dec_set_header (m1 :: m2 :: m3 :: m4 :: a1 :: a2 :: a3 :: a4 :: b1 :: b2 :: b3 :: b4 :: f1 :: f2 :: r) = Some (n, body, rest) ->
  N.of_nat (length (m1 :: m2 :: m3 :: m4 :: a1 :: a2 :: a3 :: a4 :: b1 :: b2 :: b3 :: b4 :: f1 :: f2 :: r)) =
  dec32 b1 b2 b3 b4 + N.of_nat (length rest).
Proof.
  cbn [dec_set_header]. destruct (N.eqb (dec32 m1 m2 m3 m4) F_YYTBL_MAGIC); [|discriminate].
  destruct (read_cstr r) as [[ver r1]|] eqn:E1; [|discriminate].
  destruct (read_cstr r1) as [[name r2]|] eqn:E2; [|discriminate].
  destruct ((14 + N.of_nat (length ver) + 1 + N.of_nat (length name) + 1 <=? dec32 a1 a2 a3 a4) &&
            (dec32 a1 a2 a3 a4 <=? dec32 b1 b2 b3 b4)) eqn:Ec; [|discriminate].
  apply andb_true_iff in Ec. destruct Ec as [Hc1 Hc2]. apply N.leb_le in Hc1. apply N.leb_le in Hc2.
  destruct (drop _ r2) as [r3|] eqn:E3; [|discriminate].
  destruct (take _ r3) as [[bd rs]|] eqn:E4; [|discriminate].
  intros H. inversion H; subst. cbn [length].
  apply read_cstr_len in E1. apply read_cstr_len in E2. apply drop_len in E3. apply take_len in E4. lia.
Qed.

Lemma enc_set_length s : set_wf s ->
  N.of_nat (length (enc_set s)) = hsize_of (s_version s) (s_name s) + N.of_nat (length (enc_tables (s_tables s))).
Proof.
  intros _. unfold enc_set. rewrite !app_length, !Nat2N.inj_add. unfold zeros. rewrite repeat_length, N2Nat.id.
  rewrite !header_body_length. unfold hsize_of. pose proof (pad_len_spec (14 + N.of_nat (length (s_version s)) + 1 + N.of_nat (length (s_name s)) + 1)). lia.
Qed.

Theorem truncated_never_found s : set_wf s ->
  forall k, (k < length (enc_set s))%nat ->
  forall fuel name ts, dec_file fuel (firstn k (enc_set s)) name <> Found ts.
Proof.
  intros Hwf k Hk fuel name ts.
  pose proof (enc_set_length s Hwf) as Hlen.
  destruct Hwf as (Hv & Hn & Hts & Hsz).
  remember (enc_set s) as full eqn:Hfull. unfold enc_set in Hfull.
  set (hs := hsize_of (s_version s) (s_name s)) in *.
  set (ss := hs + N.of_nat (length (enc_tables (s_tables s)))) in *.
  unfold header_body in Hfull. unfold be32 at 1 2 3 in Hfull. unfold be16 in Hfull. cbn [app] in Hfull. rewrite <- !app_assoc in Hfull. cbn [app] in Hfull.
  subst full.
  do 14 (destruct k as [|k]; [destruct fuel; cbn; discriminate|]).
  cbn [firstn]. destruct fuel as [|fuel]; [cbn; discriminate|]. cbn [dec_file].
  match goal with |- context [dec_set_header ?l] => destruct (dec_set_header l) as [[[n body] rest]|] eqn:E end; [|discriminate].
  exfalso. apply dec_set_header_len in E. rewrite dec32_be32 in E by (unfold ss, hs; lia).
  cbn [length] in E, Hk, Hlen. rewrite firstn_length in E.
  match type of Hk with (_ < S (S (S (S (S (S (S (S (S (S (S (S (S (S ?t))))))))))))))%nat => set (T := t) in * end.
  fold ss in Hlen. lia.
Qed.
