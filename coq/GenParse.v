(** * GenParse: the length bookkeeping of parse.y ([rulelen], [varlength],
    [headcnt], [trailcnt]) as a function on pattern trees, and its meaning.
    Layer G.  flex treats a pattern as fixed-length only syntactically: any
    use of | * + ? or {} makes it variable. *)
From Coq Require Import List NArith Bool Lia.
Import ListNotations.
Require Import FlexV.Regex FlexV.Pat.

Fixpoint fixed_len (p : pat) : option nat :=
  match p with
  | PChar _ | PAny | PCls _ => Some 1
  | PStr bs => Some (length bs)
  | PCat a b => match fixed_len a, fixed_len b with
                | Some x, Some y => Some (x + y)
                | _, _ => None
                end
  | PFlags _ _ _ _ a => fixed_len a
  | _ => None
  end.

(** how the generated scanner undoes trailing context for a rule *)
Inductive tckind := TcNone | TcHead (n : nat) | TcTail (n : nat) | TcVariable.

Definition rule_kind (r : rule) : tckind :=
  match r_trail r with
  | None => TcNone
  | Some t =>
      match fixed_len (r_head r), fixed_len t with
      | _, Some n => TcTail n          (* trailcnt: yy_cp -= n *)
      | Some n, None => TcHead n       (* headcnt: yy_cp = yy_bp + n *)
      | None, None => TcVariable
      end
  end.

Lemma Matches_catre a b w : Matches (catre a b) w <-> Matches (Cat a b) w.
Proof.
  unfold catre. destruct a; destruct b; try tauto.
  all: try (split; [intros H; rewrite <- (app_nil_r w); constructor; [assumption|constructor]
                   |intros H; apply Matches_Cat_inv in H; destruct H as [u [v [-> [Hu Hv]]]];
                    apply Matches_Eps_inv in Hv; subst; rewrite app_nil_r; assumption]).
  all: try (split; [intros H; change w with ([] ++ w); constructor; [constructor|assumption]
                   |intros H; apply Matches_Cat_inv in H; destruct H as [u [v [-> [Hu Hv]]]];
                    apply Matches_Eps_inv in Hu; subst; assumption]).
Qed.

Lemma str_len fl bs : forall w,
  Matches (fold_right (fun c acc => catre (Cls (char_set fl c)) acc) Eps bs) w -> length w = length bs.
Proof.
  induction bs as [|c bs IH]; intros w H.
  - simpl in H. apply Matches_Eps_inv in H. subst. reflexivity.
  - cbn [fold_right] in H. apply Matches_catre in H. apply Matches_Cat_inv in H. destruct H as [u [v [-> [Hu Hv]]]].
    apply Matches_Cls_inv in Hu. destruct Hu as [b [-> _]]. simpl. f_equal. apply IH. assumption.
Qed.

Theorem fixed_len_sound csize p : forall fl n w,
  fixed_len p = Some n -> Matches (denote csize fl p) w -> length w = n.
Proof.
  induction p as [c| |e|bs|a IHa b IHb|a IHa b IHb|a IHa|a IHa|a IHa|a IHa k|a IHa k|a IHa k m|ion ioff son soff a IHa];
    intros fl n w Hf Hm; simpl in *; try discriminate.
  - inversion Hf; subst. apply Matches_Cls_inv in Hm. destruct Hm as [b [-> _]]. reflexivity.
  - inversion Hf; subst. apply Matches_Cls_inv in Hm. destruct Hm as [b [-> _]]. reflexivity.
  - inversion Hf; subst. apply Matches_Cls_inv in Hm. destruct Hm as [b [-> _]]. reflexivity.
  - inversion Hf; subst. eapply str_len; eassumption.
  - destruct (fixed_len a) as [x|]; [|discriminate]. destruct (fixed_len b) as [y|]; [|discriminate].
    inversion Hf; subst. apply Matches_Cat_inv in Hm. destruct Hm as [u [v [-> [Hu Hv]]]].
    rewrite app_length. erewrite IHa, IHb; eauto.
  - eapply IHa; eauto.
Qed.
