(** * StackGrow: the buffer stack as an array with a capacity (properties C11, C13).
    yyensure_buffer_stack / yypush_buffer_state / yypop_buffer_state of the
    skeletons: the stack is an array of [max] slots (first allocation: 1 slot,
    zeroed; when the top reaches the last slot the array grows by 8 slots and
    only the new slots are zeroed), [top] is the index of the current buffer,
    an empty slot is 0.  A push stores above the current buffer (or into the
    empty top slot), a pop empties the top slot and steps down.
    [push_inv], [pop_inv]: the top index stays inside the array and every
    slot above it is empty, for every history; [abs_push], [abs_pop]: the
    array behaves like a list (refinement to the abstract stack of
    Buffers.v); [capacity_steps]: the capacities are 1, 9, 17, ...
    The (top, max) pairs of a run are compared with those a compiled scanner
    reports after every operation (harness/props/c11.py, stack grid). *)
From Coq Require Import List Arith Lia.
Import ListNotations.

Record bstack := { k_slots : list nat;      (* 0 = NULL, otherwise a buffer handle *)
                   k_top : nat;
                   k_alloc : bool }.        (* yy_buffer_stack != NULL *)

Definition k_max (s : bstack) : nat := length (k_slots s).

Definition bs_init : bstack := {| k_slots := []; k_top := 0; k_alloc := false |}.

Definition ensure (s : bstack) : bstack :=
  if negb (k_alloc s) then {| k_slots := [0]; k_top := 0; k_alloc := true |}
  else if k_max s - 1 <=? k_top s then {| k_slots := k_slots s ++ repeat 0 8; k_top := k_top s; k_alloc := true |}
  else s.

Fixpoint set_slot (l : list nat) (i v : nat) : list nat :=
  match l, i with
  | [], _ => []
  | _ :: t, O => v :: t
  | x :: t, S j => x :: set_slot t j v
  end.

Definition current (s : bstack) : nat := nth (k_top s) (k_slots s) 0.

(** yypush_buffer_state(b), b <> NULL *)
Definition push (s : bstack) (b : nat) : bstack :=
  let s1 := ensure s in
  let top' := if Nat.eqb (current s1) 0 then k_top s1 else S (k_top s1) in
  {| k_slots := set_slot (k_slots s1) top' b; k_top := top'; k_alloc := true |}.

(** yypop_buffer_state() *)
Definition pop (s : bstack) : bstack :=
  if Nat.eqb (current s) 0 then s
  else {| k_slots := set_slot (k_slots s) (k_top s) 0; k_top := k_top s - 1; k_alloc := k_alloc s |}.

Definition KInv (s : bstack) : Prop :=
  (k_alloc s = false -> k_slots s = [] /\ k_top s = 0) /\
  (k_alloc s = true -> k_top s < k_max s) /\
  (forall i, k_top s < i -> nth i (k_slots s) 0 = 0) /\
  (forall i, i < k_top s -> nth i (k_slots s) 0 <> 0).

Lemma set_slot_length l : forall i v, length (set_slot l i v) = length l.
Proof. induction l as [|x t IH]; intros [|j] v; simpl; auto. Qed.

Lemma nth_set_slot_same l : forall i v, i < length l -> nth i (set_slot l i v) 0 = v.
Proof. induction l as [|x t IH]; intros [|j] v H; simpl in *; try lia; auto. apply IH. lia. Qed.

Lemma nth_set_slot_other l : forall i j v, i <> j -> nth j (set_slot l i v) 0 = nth j l 0.
Proof.
  induction l as [|x t IH]; intros [|i] [|j] v H; simpl; try reflexivity; try lia.
  apply IH. lia.
Qed.

Lemma nth_app_repeat0 (l : list nat) n i : nth i (l ++ repeat 0 n) 0 = nth i l 0.
Proof.
  destruct (Nat.lt_ge_cases i (length l)) as [H|H].
  - apply app_nth1. exact H.
  - rewrite app_nth2 by exact H. rewrite (nth_overflow l) by exact H.
    destruct (Nat.lt_ge_cases (i - length l) n) as [H2|H2].
    + apply nth_repeat.
    + apply nth_overflow. rewrite repeat_length. exact H2.
Qed.

Lemma ensure_inv s : KInv s -> KInv (ensure s) /\ k_alloc (ensure s) = true /\
  (k_top (ensure s) = k_top s) /\ (forall i, nth i (k_slots (ensure s)) 0 = nth i (k_slots s) 0) /\
  S (k_top (ensure s)) < k_max (ensure s) + (if negb (k_alloc s) then 1 else 0).
Proof.
  intros [Hf [Ht [Ha Hb]]]. unfold ensure. destruct (k_alloc s) eqn:Ea; cbn [negb].
  - specialize (Ht eq_refl). destruct (k_max s - 1 <=? k_top s) eqn:E.
    + apply Nat.leb_le in E. unfold KInv, k_max in *. cbn [k_slots k_top k_alloc]. rewrite app_length, repeat_length.
      split; [|split; [reflexivity|split; [reflexivity|split; [intros i; apply nth_app_repeat0|lia]]]].
      split; [discriminate|]. split; [intros _; lia|]. split; intros i Hi; rewrite nth_app_repeat0; auto.
    + apply Nat.leb_gt in E. rewrite Ea. split; [|split; [reflexivity|split; [reflexivity|split; [reflexivity|unfold k_max in *; lia]]]].
      unfold KInv. rewrite Ea. repeat split; auto; discriminate.
  - destruct (Hf eq_refl) as [Hs H0]. rewrite Hs, H0. unfold KInv, k_max. cbn [k_slots k_top k_alloc length].
    split; [|split; [reflexivity|split; [reflexivity|split; [|lia]]]].
    + split; [discriminate|]. split; [intros _; lia|]. split; intros i Hi; [|lia]. destruct i as [|[|i]]; simpl; try lia; reflexivity.
    + intros [|[|i]]; reflexivity.
Qed.

(** the stack as a list: non-empty slots from the top down *)
Definition abs (s : bstack) : list nat := rev (filter (fun x => negb (Nat.eqb x 0)) (k_slots s)).

Theorem push_inv s b : KInv s -> b <> 0 ->
  KInv (push s b) /\ k_top (push s b) < k_max (push s b) /\ current (push s b) = b.
Proof.
  intros Hinv Hb. destruct (ensure_inv s Hinv) as [[Hf [Ht [Ha Hbel]]] [Hal [Htop [Hsl Hroom]]]].
  unfold push. set (s1 := ensure s) in *. specialize (Ht Hal).
  assert (Hcase : (current s1 = 0 /\ (if Nat.eqb (current s1) 0 then k_top s1 else S (k_top s1)) = k_top s1) \/
                  (current s1 <> 0 /\ (if Nat.eqb (current s1) 0 then k_top s1 else S (k_top s1)) = S (k_top s1) /\ S (k_top s1) < k_max s1)).
  { destruct (Nat.eqb (current s1) 0) eqn:E.
    - left. apply Nat.eqb_eq in E. auto.
    - right. apply Nat.eqb_neq in E. split; [exact E|]. split; [reflexivity|].
      (* a non-empty current slot means the stack was allocated before: room for one more was ensured *)
      destruct (k_alloc s) eqn:Ea; simpl in Hroom; [lia|].
      exfalso. apply E. unfold current. rewrite Htop, Hsl. destruct Hinv as [Hf0 _]. destruct (Hf0 Ea) as [Hs0 _]. rewrite Hs0. destruct (k_top s); reflexivity. }
  destruct Hcase as [[Hc Ht']|[Hc [Ht' Hlt]]]; rewrite Ht'; unfold KInv, k_max, current in *; cbn [k_slots k_top k_alloc]; rewrite set_slot_length.
  - split; [|split; [exact Ht|apply nth_set_slot_same; exact Ht]].
    split; [discriminate|]. split; [intros _; exact Ht|]. split; intros i Hi; rewrite nth_set_slot_other by lia; auto.
  - split; [|split; [exact Hlt|apply nth_set_slot_same; exact Hlt]].
    split; [discriminate|]. split; [intros _; exact Hlt|]. split; intros i Hi.
    + rewrite nth_set_slot_other by lia. apply Ha. lia.
    + rewrite nth_set_slot_other by lia. destruct (Nat.eq_dec i (k_top s1)) as [->|Hne]; [exact Hc|apply Hbel; lia].
Qed.

Theorem pop_inv s : KInv s -> KInv (pop s).
Proof.
  intros [Hf [Ht [Ha Hb]]]. unfold pop. destruct (Nat.eqb (current s) 0) eqn:E; [exact (conj Hf (conj Ht (conj Ha Hb)))|].
  apply Nat.eqb_neq in E. unfold KInv, k_max, current in *. cbn [k_slots k_top k_alloc]. rewrite set_slot_length.
  assert (Hal : k_alloc s = true).
  { destruct (k_alloc s) eqn:Ea; [reflexivity|]. destruct (Hf eq_refl) as [Hs H0]. rewrite Hs in E. destruct (k_top s); simpl in E; congruence. }
  specialize (Ht Hal). split; [intros Hx; congruence|]. split; [intros _; lia|]. split; intros i Hi.
  - destruct (Nat.eq_dec i (k_top s)) as [->|Hne]; [apply nth_set_slot_same; exact Ht|].
    rewrite nth_set_slot_other by lia. apply Ha. lia.
  - rewrite nth_set_slot_other by lia. apply Hb. lia.
Qed.

(** every history of pushes and pops keeps the top inside the array *)
Inductive kop := KPush (b : nat) | KPop.
Definition kstep (s : bstack) (o : kop) : bstack := match o with KPush b => push s b | KPop => pop s end.

Theorem history_inv : forall ops s, KInv s -> Forall (fun o => match o with KPush b => b <> 0 | KPop => True end) ops ->
  KInv (fold_left kstep ops s).
Proof.
  induction ops as [|o ops IH]; intros s Hinv Hall; cbn [fold_left]; [exact Hinv|].
  inversion Hall as [|? ? Ho Hrest]; subst. apply IH; [|exact Hrest].
  destruct o as [b|]; cbn [kstep]; [apply push_inv; assumption|apply pop_inv; assumption].
Qed.

Lemma init_inv : KInv bs_init.
Proof. unfold KInv, bs_init, k_max; simpl. repeat split; try discriminate; intros i Hi; try lia; destruct i; reflexivity. Qed.

(** the capacities the array goes through: 1, then 9, 17, ... *)
Theorem capacity_steps s : KInv s -> k_max (ensure s) = (if negb (k_alloc s) then 1 else if k_max s - 1 <=? k_top s then k_max s + 8 else k_max s).
Proof.
  intros _. unfold ensure, k_max. destruct (k_alloc s); cbn [negb]; [|reflexivity].
  destruct (length (k_slots s) - 1 <=? k_top s); cbn [k_slots]; [rewrite app_length, repeat_length; reflexivity|reflexivity].
Qed.

Example grow_example :
  let s := fold_left kstep (map KPush [1;2;3;4;5;6;7;8;9;10;11]) bs_init in
  (k_top s, k_max s) = (10, 17) /\ current s = 11 /\ k_top (fold_left kstep [KPop; KPop] s) = 8.
Proof. vm_compute. repeat split; reflexivity. Qed.

(** popping what was just pushed on a non-empty stack gives the stack back: same top, same current buffer *)
Theorem pop_push s b : KInv s -> b <> 0 -> current s <> 0 ->
  k_top (pop (push s b)) = k_top s /\ current (pop (push s b)) = current s.
Proof.
  intros Hinv Hb Hc.
  destruct (push_inv s b Hinv Hb) as [Hi [Hlt Hcur]].
  destruct (ensure_inv s Hinv) as [_ [Hal [Htop [Hsl _]]]].
  assert (Hc1 : current (ensure s) <> 0) by (unfold current; rewrite Htop, Hsl; exact Hc).
  assert (Ht' : k_top (push s b) = S (k_top s)).
  { unfold push. cbn [k_top]. destruct (Nat.eqb (current (ensure s)) 0) eqn:E; [apply Nat.eqb_eq in E; contradiction|]. rewrite Htop. reflexivity. }
  unfold pop. rewrite Hcur. destruct (Nat.eqb b 0) eqn:E; [apply Nat.eqb_eq in E; contradiction|].
  cbn [k_top k_slots]. unfold current. cbn [k_top k_slots]. rewrite Ht'. split; [lia|].
  replace (S (k_top s) - 1) with (k_top s) by lia.
  rewrite nth_set_slot_other by lia.
  unfold push. cbn [k_slots]. destruct (Nat.eqb (current (ensure s)) 0) eqn:E2; [apply Nat.eqb_eq in E2; contradiction|].
  rewrite nth_set_slot_other by (rewrite Htop; lia). rewrite Hsl. reflexivity.
Qed.

(** what a compiled scanner reports after every operation of a history: (yy_buffer_stack_top, yy_buffer_stack_max) *)
Fixpoint trace (s : bstack) (ops : list kop) : list (nat * nat) :=
  match ops with
  | [] => []
  | o :: t => let s' := kstep s o in (k_top s', k_max s') :: trace s' t
  end.

(** ** refinement: the array is a list (top of the stack first) *)
Definition depth (s : bstack) : nat := if Nat.eqb (current s) 0 then k_top s else S (k_top s).
Definition as_list (s : bstack) : list nat := rev (firstn (depth s) (k_slots s)).

Lemma firstn_set_slot l : forall i v, i < length l -> firstn (S i) (set_slot l i v) = firstn i l ++ [v].
Proof.
  induction l as [|x t IH]; intros [|i] v H; simpl in *; try lia; [reflexivity|].
  f_equal. apply IH. lia.
Qed.

Lemma firstn_nth_eq (a b : list nat) n : n <= length a -> n <= length b ->
  (forall i, i < n -> nth i a 0 = nth i b 0) -> firstn n a = firstn n b.
Proof.
  revert a b. induction n as [|n IH]; intros a b Ha Hb H; [reflexivity|].
  destruct a as [|x a]; [simpl in Ha; lia|]. destruct b as [|y b]; [simpl in Hb; lia|].
  simpl. f_equal.
  - exact (H 0 (Nat.lt_0_succ n)).
  - apply IH; simpl in *; try lia. intros i Hi. exact (H (S i) (proj1 (Nat.succ_lt_mono i n) Hi)).
Qed.

Theorem push_is_cons s b : KInv s -> b <> 0 -> as_list (push s b) = b :: as_list s.
Proof.
  intros Hinv Hb.
  destruct (push_inv s b Hinv Hb) as [Hi [Hlt Hcur]].
  destruct (ensure_inv s Hinv) as [[_ [Ht1 _]] [Hal [Htop [Hsl _]]]]. specialize (Ht1 Hal).
  unfold as_list, depth. rewrite Hcur. destruct (Nat.eqb b 0) eqn:Eb; [apply Nat.eqb_eq in Eb; contradiction|].
  assert (Hcs : current (ensure s) = current s) by (unfold current; rewrite Htop, Hsl; reflexivity).
  unfold push in *. cbn [k_top k_slots] in *. unfold k_max in *. cbn [k_slots] in Hlt. rewrite set_slot_length in Hlt.
  rewrite Hcs in *. destruct (Nat.eqb (current s) 0) eqn:Ec.
  - rewrite firstn_set_slot by exact Hlt. rewrite rev_app_distr. change (rev [b]) with [b]. cbn [app]. f_equal. f_equal. rewrite Htop.
    destruct Hinv as [Hf [Ht _]]. destruct (k_alloc s) eqn:Ea.
    + specialize (Ht eq_refl). apply firstn_nth_eq; [lia|unfold k_max in Ht; lia|intros i _; apply Hsl].
    + destruct (Hf eq_refl) as [Hs0 H0]. rewrite H0. reflexivity.
  - rewrite firstn_set_slot by exact Hlt. rewrite rev_app_distr. change (rev [b]) with [b]. cbn [app]. f_equal. f_equal. rewrite Htop.
    destruct Hinv as [Hf [Ht _]]. destruct (k_alloc s) eqn:Ea.
    + specialize (Ht eq_refl). apply firstn_nth_eq; [lia|unfold k_max in Ht; lia|intros i _; apply Hsl].
    + exfalso. destruct (Hf eq_refl) as [Hs0 H0]. apply Nat.eqb_neq in Ec. apply Ec. unfold current. rewrite Hs0. destruct (k_top s); reflexivity.
Qed.

Lemma firstn_S_nth (l : list nat) : forall p, p < length l -> firstn (S p) l = firstn p l ++ [nth p l 0].
Proof.
  induction l as [|x t IH]; intros [|p] H; simpl in *; try lia; [reflexivity|]. f_equal. apply IH. lia.
Qed.

Lemma firstn_set_slot_below l : forall i n v, n <= i -> firstn n (set_slot l i v) = firstn n l.
Proof.
  induction l as [|x t IH]; intros [|i] [|n] v H; simpl; try reflexivity; try lia. f_equal. apply IH. lia.
Qed.

(** on the list of stacked buffers a pop removes the head *)
Theorem pop_is_tail s : KInv s -> current s <> 0 -> as_list (pop s) = tl (as_list s).
Proof.
  intros [Hf [Ht [Ha Hb]]] Hc.
  assert (Hal : k_alloc s = true).
  { destruct (k_alloc s) eqn:Ea; [reflexivity|]. destruct (Hf eq_refl) as [Hs H0]. exfalso. apply Hc. unfold current. rewrite Hs. destruct (k_top s); reflexivity. }
  specialize (Ht Hal). unfold k_max in Ht.
  unfold as_list at 2. unfold depth. destruct (Nat.eqb (current s) 0) eqn:E; [apply Nat.eqb_eq in E; contradiction|].
  rewrite firstn_S_nth by exact Ht. rewrite rev_app_distr. cbn [rev app tl].
  unfold pop. rewrite E. unfold as_list, depth, current. cbn [k_top k_slots].
  destruct (k_top s) as [|p] eqn:Etop.
  - cbn [Nat.sub]. rewrite nth_set_slot_same by lia. cbn [Nat.eqb firstn rev]. reflexivity.
  - replace (S p - 1) with p by lia. rewrite nth_set_slot_other by lia.
    assert (Hp : nth p (k_slots s) 0 <> 0) by (apply Hb; lia).
    destruct (Nat.eqb (nth p (k_slots s) 0) 0) eqn:E2; [apply Nat.eqb_eq in E2; contradiction|].
    rewrite firstn_set_slot_below by lia. reflexivity.
Qed.
