(** * Determinism: the generator's transition store (tblcmp.c nxt[] / chk[]) and
    what of it reaches the output (gen.c gentabs()), with the content of freshly
    allocated memory made explicit.  Generator model G7', property C18.

    malloc/realloc give memory with arbitrary content ([junk]).  The generator
    zeroes chk[] when it allocates or grows the store (inittbl(),
    expand_nxt_chk()) but never nxt[]; every entry it makes writes both arrays
    (mkentry(), mkdeftbl(), mktemplate(): "nxt[i] = ...; chk[i] = ..."); on
    output an entry is looked at through "chk[i] == 0 || nxt[i] == 0".
    [emit_independent]: for every sequence of store operations the emitted
    table is the same for any two contents of fresh memory.
    The tie to the code: outputs of the real flex under perturbed allocators are
    compared byte by byte and flex is run under valgrind's definedness checker
    (harness/props/c18.py). *)
From Coq Require Import List ZArith Bool Lia.
Import ListNotations.
Local Open Scope Z_scope.

(** memory: position -> value; [junk] is what malloc happened to return *)
Record store := { s_size : nat; s_nxt : nat -> Z; s_chk : nat -> Z }.

Inductive sop :=
| Grow (extra : nat)                 (* expand_nxt_chk(): realloc both arrays, zero the new part of chk *)
| SetPair (i : nat) (n c : Z)        (* an entry: nxt[i] = n; chk[i] = c with c <> 0 *)
| SetNxt (i : nat) (n : Z)           (* nxt[i] = n at a position that already has an owner *)
| Clear (i : nat).                   (* chk[i] = 0: the entry is given up *)

Definition upd (f : nat -> Z) (i : nat) (v : Z) : nat -> Z := fun j => if Nat.eqb j i then v else f j.

(** fresh memory for positions >= old size comes from [junk] *)
Definition sstep (junk_nxt junk_chk : nat -> Z) (s : store) (o : sop) : store :=
  match o with
  | Grow extra =>
      {| s_size := s_size s + extra;
         s_nxt := fun j => if Nat.ltb j (s_size s) then s_nxt s j else junk_nxt j;
         s_chk := fun j => if Nat.ltb j (s_size s) then s_chk s j else 0 |}
  | SetPair i n c => {| s_size := s_size s; s_nxt := upd (s_nxt s) i n; s_chk := upd (s_chk s) i c |}
  | SetNxt i n => {| s_size := s_size s; s_nxt := upd (s_nxt s) i n; s_chk := s_chk s |}
  | Clear i => {| s_size := s_size s; s_nxt := s_nxt s; s_chk := upd (s_chk s) i 0 |}
  end.

(** inittbl(): the arrays were allocated with [n] entries, chk is zeroed *)
Definition sinit (junk_nxt : nat -> Z) (n : nat) : store :=
  {| s_size := n; s_nxt := junk_nxt; s_chk := fun _ => 0 |}.

Definition srun (jn jc : nat -> Z) (n : nat) (ops : list sop) : store := fold_left (sstep jn jc) ops (sinit jn n).

(** the operations the generator performs: an entry is made inside the store with a non-zero owner,
    and nxt alone is only rewritten where an owner is present *)
Fixpoint ops_ok (s_owned : nat -> bool) (size : nat) (ops : list sop) : Prop :=
  match ops with
  | [] => True
  | Grow e :: t => ops_ok s_owned (size + e) t
  | SetPair i n c :: t => (i < size)%nat /\ c <> 0 /\ ops_ok (fun j => if Nat.eqb j i then true else s_owned j) size t
  | SetNxt i n :: t => (i < size)%nat /\ s_owned i = true /\ ops_ok s_owned size t
  | Clear i :: t => (i < size)%nat /\ ops_ok (fun j => if Nat.eqb j i then false else s_owned j) size t
  end.

(** gentabs(): "if (chk[i] == 0 || nxt[i] == 0) nxt[i] = jamstate;" then both arrays are written out *)
Definition emit1 (jam : Z) (s : store) (i : nat) : Z * Z :=
  let c := s_chk s i in
  ((if Z.eqb c 0 then jam else if Z.eqb (s_nxt s i) 0 then jam else s_nxt s i), c).

Definition emit (jam : Z) (s : store) (tblend : nat) : list (Z * Z) := map (emit1 jam s) (seq 0 (S tblend)).

(** the invariant: same size; owners lie inside the store and are exactly the non-zero chk;
    chk agrees everywhere inside, nxt wherever there is an owner *)
Definition agree (owned : nat -> bool) (a b : store) : Prop :=
  s_size a = s_size b /\
  (forall j, owned j = true -> (j < s_size a)%nat) /\
  (forall j, (j < s_size a)%nat -> s_chk a j = s_chk b j /\ (owned j = true <-> s_chk a j <> 0) /\
                                   (owned j = true -> s_nxt a j = s_nxt b j)).

Lemma upd_same f i v : upd f i v i = v.
Proof. unfold upd. rewrite Nat.eqb_refl. reflexivity. Qed.

Lemma upd_other f i v j : j <> i -> upd f i v j = f j.
Proof. intros H. unfold upd. destruct (Nat.eqb j i) eqn:E; [apply Nat.eqb_eq in E; contradiction|reflexivity]. Qed.

Lemma run_agree : forall ops owned a b jn1 jc1 jn2 jc2,
  agree owned a b -> ops_ok owned (s_size a) ops ->
  exists owned', agree owned' (fold_left (sstep jn1 jc1) ops a) (fold_left (sstep jn2 jc2) ops b).
Proof.
  induction ops as [|o ops IH]; intros owned a b jn1 jc1 jn2 jc2 Hag Hok; cbn [fold_left]; [exists owned; exact Hag|].
  destruct Hag as [Hsz [Hown Hin]].
  destruct o as [e|i n c|i n|i]; cbn [ops_ok] in Hok.
  - (* Grow: the new part of chk is zeroed, nothing is owned there, nxt is not looked at *)
    apply (IH owned); [|cbn [sstep s_size]; exact Hok].
    split; [cbn [sstep s_size]; congruence|]. split.
    + intros j Ho. cbn [sstep s_size]. specialize (Hown j Ho). lia.
    + intros j Hj. cbn [sstep s_size s_nxt s_chk] in *. rewrite <- Hsz.
      destruct (Nat.ltb j (s_size a)) eqn:E.
      * apply Nat.ltb_lt in E. exact (Hin j E).
      * apply Nat.ltb_ge in E.
        assert (Hno : owned j = false).
        { destruct (owned j) eqn:Eo; [|reflexivity]. specialize (Hown j Eo). lia. }
        split; [reflexivity|]. split.
        -- rewrite Hno. split; [discriminate|]. intros H. exfalso. apply H. reflexivity.
        -- rewrite Hno. discriminate.
  - (* SetPair *)
    destruct Hok as [Hi [Hc Hok]].
    apply (IH (fun j => if Nat.eqb j i then true else owned j)); [|cbn [sstep s_size]; exact Hok].
    split; [cbn [sstep s_size]; exact Hsz|]. split.
    + intros j. cbn [sstep s_size]. destruct (Nat.eqb j i) eqn:E; [apply Nat.eqb_eq in E; subst; intros _; exact Hi|apply Hown].
    + intros j Hj. cbn [sstep s_size s_nxt s_chk] in *.
      destruct (Nat.eqb j i) eqn:E.
      * apply Nat.eqb_eq in E. subst j. rewrite !upd_same. split; [reflexivity|]. split; [split; [intros _; exact Hc|reflexivity]|reflexivity].
      * apply Nat.eqb_neq in E. rewrite !upd_other by exact E. exact (Hin j Hj).
  - (* SetNxt *)
    destruct Hok as [Hi [Ho Hok]].
    apply (IH owned); [|cbn [sstep s_size]; exact Hok].
    split; [cbn [sstep s_size]; exact Hsz|]. split; [exact Hown|].
    intros j Hj. cbn [sstep s_size s_nxt s_chk] in *. destruct (Hin j Hj) as [H1 [H2 H3]].
    split; [exact H1|]. split; [exact H2|]. intros Hoj.
    destruct (Nat.eqb j i) eqn:E.
    + apply Nat.eqb_eq in E. subst j. rewrite !upd_same. reflexivity.
    + apply Nat.eqb_neq in E. rewrite !upd_other by exact E. exact (H3 Hoj).
  - (* Clear *)
    destruct Hok as [Hi Hok].
    apply (IH (fun j => if Nat.eqb j i then false else owned j)); [|cbn [sstep s_size]; exact Hok].
    split; [cbn [sstep s_size]; exact Hsz|]. split.
    + intros j. destruct (Nat.eqb j i); [discriminate|apply Hown].
    + intros j Hj. cbn [sstep s_size s_nxt s_chk] in *.
      destruct (Nat.eqb j i) eqn:E.
      * apply Nat.eqb_eq in E. subst j. rewrite !upd_same. split; [reflexivity|]. split; [split; [discriminate|intros H; exfalso; apply H; reflexivity]|discriminate].
      * apply Nat.eqb_neq in E. rewrite !upd_other by exact E. exact (Hin j Hj).
Qed.

Lemma init_agree jn1 jn2 n : agree (fun _ => false) (sinit jn1 n) (sinit jn2 n).
Proof.
  split; [reflexivity|]. split; [discriminate|].
  intros j _. cbn [sinit s_chk]. split; [reflexivity|]. split; [split; [discriminate|intros H; exfalso; apply H; reflexivity]|discriminate].
Qed.

Lemma emit_agree owned a b jam tblend : agree owned a b -> (tblend < s_size a)%nat -> emit jam a tblend = emit jam b tblend.
Proof.
  intros [Hsz [Hown Hin]] Ht. unfold emit. apply map_ext_in. intros i Hi. apply in_seq in Hi.
  assert (Hlt : (i < s_size a)%nat) by lia.
  destruct (Hin i Hlt) as [H1 [H2 H3]]. unfold emit1. rewrite <- H1.
  destruct (Z.eqb (s_chk a i) 0) eqn:E; [reflexivity|].
  apply Z.eqb_neq in E. rewrite (H3 (proj2 H2 E)). reflexivity.
Qed.

(** C18 for the transition store: whatever malloc and realloc returned, the emitted table is the same *)
Theorem emit_independent : forall jn1 jc1 jn2 jc2 n ops jam tblend,
  ops_ok (fun _ => false) n ops ->
  (tblend < s_size (srun jn1 jc1 n ops))%nat ->
  emit jam (srun jn1 jc1 n ops) tblend = emit jam (srun jn2 jc2 n ops) tblend.
Proof.
  intros jn1 jc1 jn2 jc2 n ops jam tblend Hok Ht. unfold srun in *.
  destruct (run_agree ops (fun _ => false) (sinit jn1 n) (sinit jn2 n) jn1 jc1 jn2 jc2 (init_agree jn1 jn2 n) Hok) as [owned' Hag].
  eapply emit_agree; eassumption.
Qed.

(** ... whereas a generator that wrote out nxt[i] without looking at chk[i] would leak fresh memory:
    the guard in gentabs() is what the theorem rests on *)
Definition emit_unguarded (s : store) (tblend : nat) : list Z := map (s_nxt s) (seq 0 (S tblend)).

Example unguarded_leaks :
  emit_unguarded (srun (fun _ => 7) (fun _ => 0) 4 [SetPair 1 5 2]) 2 <> emit_unguarded (srun (fun _ => 9) (fun _ => 0) 4 [SetPair 1 5 2]) 2
  /\ ops_ok (fun _ => false) 4 [SetPair 1 5 2].
Proof. split; [cbv; discriminate|cbn; repeat split; [lia|discriminate]]. Qed.
