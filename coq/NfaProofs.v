(** * NfaProofs: the subset simulation of NfaSim.v computes exactly the states
    the NFA can reach (the determinization theorem behind dfa.c), and the
    accepting numbers it reports are exactly the rules the NFA accepts. *)
From Coq Require Import List NArith ZArith Bool Lia.
Import ListNotations.
Require Import FlexV.Regex FlexV.Tables FlexV.NfaSim.
Local Open Scope N_scope.

Lemma fold_setbit_spec l : forall acc i,
  N.testbit (fold_left N.setbit l acc) i = true <-> In i l \/ N.testbit acc i = true.
Proof.
  induction l as [|x t IH]; intros acc i; simpl.
  - tauto.
  - rewrite IH, N.setbit_iff. split.
    + intros [H|[H|H]]; auto.
    + intros [[H|H]|H]; auto.
Qed.

Lemma set_of_spec l i : N.testbit (set_of l) i = true <-> In i l.
Proof.
  unfold set_of. rewrite fold_setbit_spec, N.bits_0. split; [intros [H|H]; [exact H|discriminate]|auto].
Qed.

Lemma nth1_range {A} (l : list A) i x : nth1 l i = Some x -> 1 <= i <= N.of_nat (length l).
Proof.
  unfold nth1. destruct (i =? 0) eqn:E; [discriminate|]. apply N.eqb_neq in E.
  intros H. assert (Hlt : (N.to_nat (i - 1) < length l)%nat) by (apply nth_error_Some; congruence).
  lia.
Qed.

Lemma members_spec a X i :
  In i (members a X) <-> (1 <= i <= N.of_nat (nstates a)) /\ N.testbit X i = true.
Proof.
  unfold members. rewrite filter_In, in_map_iff. split.
  - intros [[n [<- Hin]] Hb]. apply in_seq in Hin. split; [lia|exact Hb].
  - intros [Hr Hb]. split; [|exact Hb]. exists (N.to_nat i). split; [apply N2Nat.id|]. apply in_seq. lia.
Qed.

Lemma eps_succ_node a p q : In q (eps_succ a p) -> exists nd, node a p = Some nd.
Proof. unfold eps_succ. destruct (node a p) as [nd|]; [eauto|intros []]. Qed.

Lemma chr_succ_node a p b q : In q (chr_succ a p b) -> exists nd, node a p = Some nd.
Proof. unfold chr_succ. destruct (node a p) as [nd|]; [eauto|intros []]. Qed.

Lemma node_range a p nd : node a p = Some nd -> 1 <= p <= N.of_nat (nstates a).
Proof. apply nth1_range. Qed.

Lemma expand_spec a X q :
  N.testbit (expand a X) q = true <->
  N.testbit X q = true \/ exists p, N.testbit X p = true /\ In q (eps_succ a p).
Proof.
  unfold expand. rewrite N.lor_spec, orb_true_iff, set_of_spec, in_flat_map. split.
  - intros [H|[p [Hp Hq]]]; [left; exact H|right]. apply members_spec in Hp. exists p. tauto.
  - intros [H|[p [Hp Hq]]]; [left; exact H|right]. exists p. split; [|exact Hq].
    apply members_spec. split; [|exact Hp].
    destruct (eps_succ_node _ _ _ Hq) as [nd Hnd]. eapply node_range; eassumption.
Qed.

Lemma move_spec a X b q :
  N.testbit (move a X b) q = true <-> exists p, N.testbit X p = true /\ In q (chr_succ a p b).
Proof.
  unfold move. rewrite set_of_spec, in_flat_map. split.
  - intros [p [Hp Hq]]. apply members_spec in Hp. exists p. tauto.
  - intros [p [Hp Hq]]. exists p. split; [|exact Hq]. apply members_spec. split; [|exact Hp].
    destruct (chr_succ_node _ _ _ _ Hq) as [nd Hnd]. eapply node_range; eassumption.
Qed.

Lemma eclose_sound a f : forall X q, N.testbit (eclose a f X) q = true ->
  exists p, N.testbit X p = true /\ Path a p [] q.
Proof.
  induction f as [|f IH]; simpl; intros X q H.
  - exists q. split; [exact H|constructor].
  - destruct (expand a X =? X) eqn:E.
    + exists q. split; [exact H|constructor].
    + apply IH in H. destruct H as [p [Hp Hpath]]. apply expand_spec in Hp.
      destruct Hp as [Hp|[p0 [Hp0 Hin]]].
      * exists p. split; assumption.
      * exists p0. split; [assumption|]. eapply P_eps; eassumption.
Qed.

Lemma eclose_incl a f : forall X q, N.testbit X q = true -> N.testbit (eclose a f X) q = true.
Proof.
  induction f as [|f IH]; simpl; intros X q H; [exact H|].
  destruct (expand a X =? X); [exact H|]. apply IH. apply expand_spec. left. exact H.
Qed.

(** a set that contains everything reachable from its members without input *)
Definition EClosed (a : nfa) (C : N) : Prop :=
  forall p q, N.testbit C p = true -> Path a p [] q -> N.testbit C q = true.

Lemma closedb_EClosed a C : closedb a C = true -> EClosed a C.
Proof.
  unfold closedb. intros Hc. apply N.eqb_eq in Hc. intros p q Hp Hpath.
  remember [] as w eqn:Hw. revert Hp. induction Hpath as [s|s s' w q Hin Hpath IH|s s' b w q Hin Hpath IH]; intros Hp.
  - exact Hp.
  - apply IH; [exact Hw|]. rewrite <- Hc. apply expand_spec. right. exists s. split; assumption.
  - discriminate.
Qed.

Lemma eclosed_spec a X C : eclosed a X = Some C ->
  EClosed a C /\ forall q, N.testbit C q = true <-> exists p, N.testbit X p = true /\ Path a p [] q.
Proof.
  unfold eclosed. set (C0 := eclose a (Datatypes.S (nstates a)) X).
  destruct (closedb a C0) eqn:Hc; [|discriminate]. intros H. injection H as <-.
  pose proof (closedb_EClosed _ _ Hc) as Hcl. split; [exact Hcl|]. intros q. split.
  - intros Hq. exact (eclose_sound a (Datatypes.S (nstates a)) X q Hq).
  - intros [p [Hp Hpath]]. eapply Hcl; [|exact Hpath].
    exact (eclose_incl a (Datatypes.S (nstates a)) X p Hp).
Qed.

Lemma Path_eps_app a p p1 : Path a p [] p1 -> forall w q, Path a p1 w q -> Path a p w q.
Proof.
  intros H. remember [] as e eqn:He. induction H as [s|s s' w0 q0 Hin H IH|s s' b w0 q0 Hin H IH]; intros w q Hq.
  - exact Hq.
  - eapply P_eps; [exact Hin|]. apply IH; assumption.
  - discriminate.
Qed.

Lemma Path_cons_inv a p b w q : Path a p (b :: w) q ->
  exists p1 p2, Path a p [] p1 /\ In p2 (chr_succ a p1 b) /\ Path a p2 w q.
Proof.
  intros H. remember (b :: w) as bw eqn:Hbw.
  induction H as [s|s s' w0 q0 Hin H IH|s s' b0 w0 q0 Hin H IH].
  - discriminate.
  - destruct (IH Hbw) as [p1 [p2 [H1 [H2 H3]]]]. exists p1, p2. split; [|tauto].
    eapply P_eps; eassumption.
  - injection Hbw as -> ->. exists s, s'. split; [constructor|tauto].
Qed.

Lemma nstep_spec a X b X' : nstep a X b = Some X' ->
  EClosed a X' /\
  forall q, N.testbit X' q = true <->
            exists p p2, N.testbit X p = true /\ In p2 (chr_succ a p b) /\ Path a p2 [] q.
Proof.
  unfold nstep. intros H. apply eclosed_spec in H. destruct H as [Hcl Hq]. split; [exact Hcl|].
  intros q. rewrite Hq. split.
  - intros [p2 [Hm Hpath]]. apply move_spec in Hm. destruct Hm as [p [Hp Hin]]. exists p, p2. tauto.
  - intros [p [p2 [Hp [Hin Hpath]]]]. exists p2. split; [|exact Hpath]. apply move_spec. exists p. tauto.
Qed.

Lemma nrun_spec a w : forall X X', EClosed a X -> nrun a w X = Some X' ->
  forall q, N.testbit X' q = true <-> exists p, N.testbit X p = true /\ Path a p w q.
Proof.
  induction w as [|b w IH]; simpl; intros X X' Hcl H q.
  - injection H as <-. split.
    + intros Hq. exists q. split; [exact Hq|constructor].
    + intros [p [Hp Hpath]]. eapply Hcl; eassumption.
  - destruct (nstep a X b) as [X1|] eqn:E; [|discriminate].
    apply nstep_spec in E. destruct E as [Hcl1 Hq1].
    rewrite (IH _ _ Hcl1 H). split.
    + intros [p2' [Hp2' Hpath]]. apply Hq1 in Hp2'. destruct Hp2' as [p [p2 [Hp [Hin He]]]].
      exists p. split; [exact Hp|]. eapply P_chr; [exact Hin|]. eapply Path_eps_app; eassumption.
    + intros [p [Hp Hpath]]. apply Path_cons_inv in Hpath. destruct Hpath as [p1 [p2 [H1 [H2 H3]]]].
      exists p2. split; [|exact H3]. apply Hq1. exists p1, p2. split; [|split; [exact H2|constructor]].
      eapply Hcl; eassumption.
Qed.

(** ** determinization: the set computed for [w] is the set of states reachable by [w] *)
Theorem subset_simulation_exact a w X0 X : nstart a = Some X0 -> nrun a w X0 = Some X ->
  forall q, N.testbit X q = true <-> Path a (n_start a) w q.
Proof.
  unfold nstart. intros H0 Hr q. apply eclosed_spec in H0. destruct H0 as [Hcl0 Hq0].
  rewrite (nrun_spec _ _ _ _ Hcl0 Hr). split.
  - intros [p [Hp Hpath]]. apply Hq0 in Hp. destruct Hp as [p0 [Hp0 He]].
    apply set_of_spec in Hp0. destruct Hp0 as [<-|[]]. eapply Path_eps_app; eassumption.
  - intros Hpath. exists (n_start a). split; [|exact Hpath]. apply Hq0. exists (n_start a).
    split; [apply set_of_spec; left; reflexivity|constructor].
Qed.

(** ** accepting numbers *)
Lemma nonzero_In x l : In x (nonzero l) <-> In x l /\ x <> 0.
Proof.
  unfold nonzero. rewrite filter_In. rewrite negb_true_iff, N.eqb_neq. tauto.
Qed.

Lemma accs_spec a X r : In r (accs a X) <->
  r <> 0 /\ exists q nd, N.testbit X q = true /\ node a q = Some nd /\ n_acc nd = r.
Proof.
  unfold accs. rewrite nonzero_In, in_flat_map. split.
  - intros [[q [Hq Hin]] Hr]. split; [exact Hr|]. apply members_spec in Hq.
    destruct (node a q) as [nd|] eqn:E; [|destruct Hin]. destruct Hin as [<-|[]].
    exists q, nd. tauto.
  - intros [Hr [q [nd [Hq [Hnd Hacc]]]]]. split; [|exact Hr]. exists q. split.
    + apply members_spec. split; [eapply node_range; eassumption|exact Hq].
    + rewrite Hnd. left. exact Hacc.
Qed.

Lemma fold_min_spec l : forall x, (fold_left N.min l x <= x) /\ (forall y, In y l -> fold_left N.min l x <= y) /\
  (fold_left N.min l x = x \/ In (fold_left N.min l x) l).
Proof.
  induction l as [|z t IH]; intros x; simpl.
  - split; [lia|]. split; [intros y []|left; reflexivity].
  - destruct (IH (N.min x z)) as [H1 [H2 H3]]. split; [lia|]. split.
    + intros y [<-|Hy]; [lia|apply H2; exact Hy].
    + destruct H3 as [H3|H3]; [|right; right; exact H3].
      destruct (N.min_spec x z) as [[_ Hm]|[_ Hm]]; rewrite Hm in H3; [left|right; left]; congruence.
Qed.

Lemma least_spec l : (l = [] /\ least l = 0) \/ (In (least l) l /\ forall y, In y l -> least l <= y).
Proof.
  destruct l as [|x t]; [left; split; reflexivity|right]. unfold least.
  destruct (fold_min_spec t x) as [H1 [H2 H3]]. split.
  - destruct H3 as [->|H3]; [left; reflexivity|right; exact H3].
  - intros y [<-|Hy]; [exact H1|apply H2; exact Hy].
Qed.

(** the accepting numbers of the computed set are exactly the rules the NFA accepts *)
Theorem accs_are_the_accepted_rules a w X0 X : nstart a = Some X0 -> nrun a w X0 = Some X ->
  forall r, In r (accs a X) <-> Accepts a w r.
Proof.
  intros H0 Hr r. rewrite accs_spec. unfold Accepts. split.
  - intros [Hnz [q [nd [Hq H]]]]. split; [exact Hnz|]. exists q, nd. split; [|exact H].
    apply (subset_simulation_exact _ _ _ _ H0 Hr). exact Hq.
  - intros [Hnz [q [nd [Hq H]]]]. split; [exact Hnz|]. exists q, nd. split; [|exact H].
    apply (subset_simulation_exact _ _ _ _ H0 Hr). exact Hq.
Qed.

(** flex keeps the least accepting number of a DFA state: the first rule that matches *)
Theorem nacc_is_the_first_accepted_rule a w X0 X : nstart a = Some X0 -> nrun a w X0 = Some X ->
  (nacc a X = 0 /\ forall r, ~ Accepts a w r) \/
  (Accepts a w (nacc a X) /\ forall r, Accepts a w r -> nacc a X <= r).
Proof.
  intros H0 Hr. unfold nacc. destruct (least_spec (accs a X)) as [[Hnil Hl]|[Hin Hmin]].
  - left. split; [exact Hl|]. intros r Hacc. apply (accs_are_the_accepted_rules _ _ _ _ H0 Hr) in Hacc.
    rewrite Hnil in Hacc. destruct Hacc.
  - right. split.
    + apply (accs_are_the_accepted_rules _ _ _ _ H0 Hr). exact Hin.
    + intros r Hacc. apply Hmin. apply (accs_are_the_accepted_rules _ _ _ _ H0 Hr). exact Hacc.
Qed.

(** ** the scanner automaton follows the simulation *)
Lemma members_0 a : members a 0 = [].
Proof.
  unfold members. induction (map N.of_nat (seq 1 (nstates a))) as [|x t IH]; cbn [filter]; [reflexivity|].
  rewrite N.bits_0. exact IH.
Qed.

Lemma nstep_0 a b : nstep a 0 b = Some 0.
Proof.
  assert (He : expand a 0 = 0) by (unfold expand; rewrite members_0; reflexivity).
  unfold nstep, move. rewrite members_0. cbn [flat_map set_of fold_left]. unfold eclosed.
  cbn [eclose]. rewrite He. rewrite N.eqb_refl. cbv zeta. unfold closedb. rewrite He. reflexivity.
Qed.

Lemma nrun_0 a w : nrun a w 0 = Some 0.
Proof. induction w as [|b w IH]; simpl; [reflexivity|]. rewrite nstep_0. exact IH. Qed.

Lemma fold_Bad a w : fold_left (nview_step a) w Bad = Bad.
Proof. induction w; simpl; auto. Qed.

Lemma fold_Jam a w : fold_left (nview_step a) w Jam = Jam.
Proof. induction w; simpl; auto. Qed.

Lemma nview_run a w : forall X, fold_left (nview_step a) w (to_ist (Some X)) = to_ist (nrun a w X).
Proof.
  induction w as [|b w IH]; intros X; simpl; [reflexivity|].
  destruct (X =? 0) eqn:E.
  - apply N.eqb_eq in E. subst X. rewrite nstep_0. simpl. rewrite fold_Jam, nrun_0. reflexivity.
  - simpl. rewrite N2Z.id. destruct (nstep a X b) as [X1|]; simpl.
    + apply IH.
    + apply fold_Bad.
Qed.

Lemma nacc_0 a : nacc a 0 = 0.
Proof. unfold nacc, accs. rewrite members_0. reflexivity. Qed.

Lemma nview_acc_to_ist a X : nview_acc a (to_ist (Some X)) = Some (Z.of_N (nacc a X)).
Proof.
  simpl. destruct (X =? 0) eqn:E; simpl.
  - apply N.eqb_eq in E. subst X. rewrite nacc_0. reflexivity.
  - rewrite N2Z.id. reflexivity.
Qed.

(** ** the lock-step check applied to the NFA itself *)
Require Import FlexV.SpecAuto FlexV.Lockstep FlexV.Scan FlexV.C01Proofs.

Lemma irun_nview a w i : Scan.irun (nview a) w i = fold_left (nview_step a) w i.
Proof. reflexivity. Qed.

(** Once the candidate relation between the specification automaton and the
    subset simulation of the NFA has been checked, then after EVERY word the
    simulation holds exactly the reachable NFA states, and the first rule the
    NFA accepts is the first rule whose pattern matches. *)
Theorem nfa_first_rule_is_documented a al m s0 :
  (forall x, In x s0 -> fst x <> 0) ->
  check_view (nview a) al m s0 (v_start (nview a) 0%Z false) = true ->
  forall w, Forall (fun b => In b al) w ->
    exists X, (forall q, N.testbit X q = true <-> Path a (n_start a) w q) /\
      (((forall r, ~ Accepts a w r) /\ (forall r, ~ rule_matches s0 r w)) \/
       (exists r, Accepts a w r /\ (forall r', Accepts a w r' -> r <= r') /\
                  rule_matches s0 r w /\ (forall r', rule_matches s0 r' w -> r <= r'))).
Proof.
  intros Hnz Hck w Hw. pose proof (check_view_sound _ _ _ _ _ Hck w Hw) as Hok.
  rewrite irun_nview in Hok. cbn [nview v_start] in Hok.
  destruct (wf_nfa a).
  2:{ rewrite fold_Bad in Hok. unfold ok in Hok. cbn in Hok. discriminate. }
  destruct (nstart a) as [X0|] eqn:E0.
  2:{ cbn [to_ist] in Hok. rewrite fold_Bad in Hok. unfold ok in Hok. cbn in Hok. discriminate. }
  rewrite nview_run in Hok.
  destruct (nrun a w X0) as [X|] eqn:Er.
  2:{ unfold ok in Hok. cbn in Hok. discriminate. }
  exists X. split; [exact (subset_simulation_exact _ _ _ _ E0 Er)|].
  unfold ok in Hok. cbn [nview v_acc] in Hok. rewrite nview_acc_to_ist in Hok.
  apply andb_true_iff in Hok. destruct Hok as [Hacc _].
  apply andb_true_iff in Hacc. destruct Hacc as [_ Hacc]. apply N.eqb_eq in Hacc.
  rewrite N2Z.id in Hacc. fold (accf s0 w) in Hacc.
  destruct (nacc_is_the_first_accepted_rule _ _ _ _ E0 Er) as [[Hz Hno]|[Hyes Hmin]].
  - left. split; [exact Hno|]. apply (accf_zero s0 w Hnz). congruence.
  - right. exists (nacc a X). split; [exact Hyes|]. split; [exact Hmin|].
    assert (Hr : nacc a X <> 0) by (destruct Hyes as [Hr _]; exact Hr).
    apply (accf_nonzero s0 w _ Hr). congruence.
Qed.

(** Non-vacuity: the NFA flex prints for the rules  ab*  and  [x-z]  (plus the
    default rule), and what its simulation reports. *)
Definition ex_nfa : nfa :=
  {| n_nodes := [ {| n_sym := NChr 97; n_t1 := 3; n_t2 := 0; n_acc := 0 |};
                  {| n_sym := NChr 98; n_t1 := 3; n_t2 := 0; n_acc := 0 |};
                  {| n_sym := NEps; n_t1 := 2; n_t2 := 4; n_acc := 0 |};
                  {| n_sym := NEps; n_t1 := 0; n_t2 := 0; n_acc := 1 |};
                  {| n_sym := NCcl 1; n_t1 := 6; n_t2 := 0; n_acc := 0 |};
                  {| n_sym := NEps; n_t1 := 0; n_t2 := 0; n_acc := 2 |};
                  {| n_sym := NEps; n_t1 := 1; n_t2 := 5; n_acc := 0 |};
                  {| n_sym := NCcl 2; n_t1 := 9; n_t2 := 0; n_acc := 0 |};
                  {| n_sym := NEps; n_t1 := 0; n_t2 := 0; n_acc := 3 |};
                  {| n_sym := NEps; n_t1 := 7; n_t2 := 8; n_acc := 0 |} ];
     n_ccls := [ (false, N.shiftl 7 120); (true, 0) ];
     n_start := 10 |}.

Example ex_nfa_runs :
  wf_nfa ex_nfa = true /\
  option_map (fun X0 => option_map (nacc ex_nfa) (nrun ex_nfa [97; 98; 98] X0)) (nstart ex_nfa) = Some (Some 1) /\
  option_map (fun X0 => option_map (nacc ex_nfa) (nrun ex_nfa [121] X0)) (nstart ex_nfa) = Some (Some 2) /\
  option_map (fun X0 => option_map (nacc ex_nfa) (nrun ex_nfa [98] X0)) (nstart ex_nfa) = Some (Some 3) /\
  option_map (fun X0 => option_map (nacc ex_nfa) (nrun ex_nfa [98; 98] X0)) (nstart ex_nfa) = Some (Some 0).
Proof. vm_compute. repeat split. Qed.

(** ** equivalence classes *)
Lemma ec_rep_class ec al b : In b al -> In (ec_rep ec al b) al /\ ec (ec_rep ec al b) = ec b.
Proof.
  intros Hin. unfold ec_rep. destruct (find (fun c => ec c =? ec b) al) as [c|] eqn:E.
  - apply find_some in E. destruct E as [Hc He]. apply N.eqb_eq in He. split; assumption.
  - split; [exact Hin|reflexivity].
Qed.

Lemma ec_rep_same ec al b1 b2 : In b1 al -> ec b1 = ec b2 -> ec_rep ec al b1 = ec_rep ec al b2.
Proof.
  intros Hin He. unfold ec_rep. rewrite He. destruct (find (fun c => ec c =? ec b2) al) as [c|] eqn:E; [reflexivity|].
  exfalso. pose proof (find_none _ _ E b1 Hin) as F. cbv beta in F. rewrite He, N.eqb_refl in F. discriminate.
Qed.

Lemma nth1_In {A} (l : list A) i x : nth1 l i = Some x -> In x l.
Proof. unfold nth1. destruct (i =? 0); [discriminate|]. apply nth_error_In. Qed.

Lemma ec_consistent_sym a ec al : ec_consistent a ec al = true ->
  forall i nd b1 b2, node a i = Some nd -> In b1 al -> In b2 al -> ec b1 = ec b2 ->
    sym_has a (n_sym nd) b1 = sym_has a (n_sym nd) b2.
Proof.
  unfold ec_consistent. intros H i nd b1 b2 Hnd H1 H2 He.
  rewrite forallb_forall in H. specialize (H nd (nth1_In _ _ _ Hnd)).
  rewrite forallb_forall in H. pose proof (H b1 H1) as E1. pose proof (H b2 H2) as E2.
  apply eqb_prop in E1. apply eqb_prop in E2.
  rewrite E1, E2, (ec_rep_same ec al b1 b2 H1 He). reflexivity.
Qed.

Lemma flat_map_ext_in {A B} (f g : A -> list B) l : (forall x, In x l -> f x = g x) -> flat_map f l = flat_map g l.
Proof.
  induction l as [|x t IH]; intros H; simpl; [reflexivity|].
  rewrite (H x (or_introl eq_refl)), IH; [reflexivity|]. intros y Hy. apply H. right. exact Hy.
Qed.

(** bytes of one class move every set of NFA states alike: the DFA over classes is well defined *)
Theorem ec_consistent_move a ec al : ec_consistent a ec al = true ->
  forall b1 b2, In b1 al -> In b2 al -> ec b1 = ec b2 -> forall X, move a X b1 = move a X b2.
Proof.
  intros H b1 b2 H1 H2 He X. unfold move. f_equal. apply flat_map_ext_in. intros i _.
  unfold chr_succ. destruct (node a i) as [nd|] eqn:E; [|reflexivity].
  rewrite (ec_consistent_sym a ec al H i nd b1 b2 E H1 H2 He). reflexivity.
Qed.

Theorem ec_consistent_run a ec al : ec_consistent a ec al = true ->
  forall w1 w2, Forall2 (fun b1 b2 => In b1 al /\ In b2 al /\ ec b1 = ec b2) w1 w2 ->
  forall X, nrun a w1 X = nrun a w2 X.
Proof.
  intros H w1 w2 HF. induction HF as [|b1 b2 t1 t2 [H1 [H2 He]] _ IH]; intros X; simpl; [reflexivity|].
  unfold nstep. rewrite (ec_consistent_move a ec al H b1 b2 H1 H2 He X).
  destruct (eclosed a (move a X b2)) as [X'|]; [apply IH|reflexivity].
Qed.

(** ** the printed DFA as a scanner automaton: the generic theorems instantiated *)
Require Import FlexV.Pat.
Theorem printed_dfa_token p sc bol d m :
  check_view (dview d) (alphabet (p_csize p)) m (spec_start p sc bol) (v_start (dview d) (Z.of_N sc - 1) bol) = true ->
  forall w, Forall (fun b => (b < p_csize p)%N) w -> w <> [] ->
    let (r, k) := scan (dview d) (v_start (dview d) (Z.of_N sc - 1) bol) w 0 (0%N, 0%nat) in
    r <> 0%N /\ (1 <= k)%nat /\ Selected (spec_start p sc bol) w r k.
Proof. exact (C01_token p sc bol (dview d) m). Qed.

(** Non-vacuity for the class theorem: the classes flex computes for [ex_nfa]
    ({a}, {b}, {x,y,z}, the rest; NUL with the rest) are consistent, a table
    that puts a and b together is not. *)
Definition ex_ec (b : byte) : N :=
  if b =? 97 then 2 else if b =? 98 then 3 else if (120 <=? b) && (b <=? 122) then 4 else 1.
Definition ex_ec_bad (b : byte) : N :=
  if (b =? 97) || (b =? 98) then 2 else if (120 <=? b) && (b <=? 122) then 4 else 1.

Example ex_ec_consistent :
  ec_consistent ex_nfa ex_ec (alphabet 256) = true /\ ec_consistent ex_nfa ex_ec_bad (alphabet 256) = false.
Proof. vm_compute. split; reflexivity. Qed.

(** ** classes and the match loop: not only the sets of NFA states, the token
    itself (rule number and length, as the scanner's loop computes them over
    the NFA seen as an automaton) is the same for inputs that agree class by
    class - from any state of the loop, with any remembered accepting pair. *)
Lemma ec_consistent_nview_step a ec al : ec_consistent a ec al = true ->
  forall b1 b2, In b1 al -> In b2 al -> ec b1 = ec b2 ->
  forall i, nview_step a i b1 = nview_step a i b2.
Proof.
  intros H b1 b2 H1 H2 He i. destruct i as [| |z]; simpl; try reflexivity.
  unfold nstep. rewrite (ec_consistent_move a ec al H b1 b2 H1 H2 He (Z.to_N z)). reflexivity.
Qed.

Theorem ec_consistent_scan a ec al : ec_consistent a ec al = true ->
  forall w1 w2, Forall2 (fun b1 b2 => In b1 al /\ In b2 al /\ ec b1 = ec b2) w1 w2 ->
  forall i n last, scan (nview a) i w1 n last = scan (nview a) i w2 n last.
Proof.
  intros H w1 w2 HF. unfold scan.
  induction HF as [|b1 b2 t1 t2 [H1 [H2 He]] _ IH]; intros i n last; [reflexivity|].
  cbn [gscan]. change (v_step (nview a)) with (nview_step a).
  rewrite (ec_consistent_nview_step a ec al H b1 b2 H1 H2 He i).
  destruct (v_stop (nview a) i); [reflexivity|]. apply IH.
Qed.

(** [nrun] over a concatenation is [nrun] over the parts (the subset
    simulation has no hidden state besides the current set). *)
Lemma nrun_app a w1 : forall w2 X,
  nrun a (w1 ++ w2) X = match nrun a w1 X with Some Y => nrun a w2 Y | None => None end.
Proof.
  induction w1 as [|b t IH]; intros w2 X; simpl; [reflexivity|].
  destruct (nstep a X b) as [X'|]; [apply IH|reflexivity].
Qed.

Example ex_ec_scan_same :
  scan (nview ex_nfa) (v_start (nview ex_nfa) 0%Z false) [120; 121; 97] 0 (0%N, 0%nat) =
  scan (nview ex_nfa) (v_start (nview ex_nfa) 0%Z false) [122; 120; 97] 0 (0%N, 0%nat) /\
  scan (nview ex_nfa) (v_start (nview ex_nfa) 0%Z false) [122; 120; 97] 0 (0%N, 0%nat) = (2%N, 1%nat).
Proof. vm_compute. split; reflexivity. Qed.

(** What the generated scanner does at run time - look the byte up in yy_ec and
    move on the class - loses nothing: the loop fed the class representatives
    selects the token it selects on the bytes themselves. *)
Theorem ec_rep_scan a ec al : ec_consistent a ec al = true ->
  forall w, Forall (fun b => In b al) w ->
  forall i n last, scan (nview a) i (map (ec_rep ec al) w) n last = scan (nview a) i w n last.
Proof.
  intros H w Hw. apply (ec_consistent_scan a ec al H).
  induction Hw as [|b t Hb _ IH]; simpl; constructor; [|exact IH].
  destruct (ec_rep_class ec al b Hb) as [Hin Hec]. repeat split; assumption.
Qed.
