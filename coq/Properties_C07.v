(** Property C07 - REJECT visits every alternative in the documented order. *)
From Coq Require Import List NArith ZArith Bool Sorted.
Import ListNotations.
Require Import FlexV.Regex FlexV.SpecAuto FlexV.Pat FlexV.Tables FlexV.Scan FlexV.C01Proofs FlexV.RScan
               FlexV.C07Proofs FlexV.GenOptions FlexV.Tokenize FlexV.RejectTok FlexV.C07VarProofs.

(** For a table set that passes the lock-step check on full accepting lists,
    the alternatives the state-stack loop offers are, for EVERY input, exactly
    the specification's list ... *)
Theorem C07_alternatives_from_tables : forall t vars al m s0 i0,
  check_rview t vars al m s0 i0 = true ->
  forall w, Forall (fun b => In b al) w -> ralts t i0 w = salts (sobs_of s0) w.
Proof. exact reject_alternatives. Qed.
Print Assumptions C07_alternatives_from_tables.

(** ... which contains every (rule, length) pair that matches, and nothing else ... *)
Theorem C07_alternatives_complete : forall s0 w r k,
  In (r, k) (salts (sobs_of s0) w) <-> ((k <= length w)%nat /\ rule_matches s0 r (firstn k w)).
Proof. exact alternatives_complete. Qed.
Print Assumptions C07_alternatives_complete.

(** ... in order of decreasing length and, for equal length, rule position. *)
Theorem C07_alternatives_ordered : forall s0 w, StronglySorted alt_lt (salts (sobs_of s0) w).
Proof. exact alternatives_ordered. Qed.
Print Assumptions C07_alternatives_ordered.

(** REJECT is refused together with full tables (model = documented table). *)
Theorem C07_reject_refused_with_full_tables : forall o,
  o_reject o = true -> (o_full o || o_fast o) = true -> documented o = Refuse.
Proof.
  intros o Hr Hf. unfold documented. rewrite Hr.
  destruct (o_full o), (o_fast o); try discriminate; simpl;
    repeat rewrite orb_true_r; simpl; try reflexivity;
    destruct (o_meta o), (o_inter o); reflexivity.
Qed.
Print Assumptions C07_reject_refused_with_full_tables.

(** REJECT in rules with trailing context (variable context included): an
    event stream accepted by the validator is, token after token, a walk
    through the specification's alternatives in their order, every action
    handed a documented head of its match, all but the last rejecting. *)
Theorem C07_validated_events_are_documented : forall p sc pol fuel c bol w evs,
  rej_validate fuel p sc pol c bol w evs = true -> DocRejTok p sc pol c bol w evs.
Proof. exact rej_validate_sound. Qed.
Print Assumptions C07_validated_events_are_documented.

(** Such a walk runs the actions of a prefix of the alternatives: none is skipped. *)
Theorem C07_walk_skips_no_alternative : forall p pol w c al es c' n,
  RejWalk p pol w c al es c' n ->
  exists al1 al2, al = al1 ++ al2 /\ map fst al1 = map fst es /\ (n = O /\ al2 = [] \/ es <> []).
Proof. exact RejWalk_prefix. Qed.
Print Assumptions C07_walk_skips_no_alternative.

(** Tables that pass the lock-step check against the specification automaton
    with head markers: the text the find_rule loop hands to the action of a
    rule with variable trailing context (the head marker found below the
    flagged entry) is, for EVERY input, a prefix of the rule's match that
    the rule's head pattern matches. *)
Theorem C07_variable_head_from_tables : forall p vars sc bol t al m i0,
  (N.of_nat (length (p_rules p)) + 1 < HEAD_MASK)%N ->
  check_rview t vars al m (spec_start_r p vars sc bol) i0 = true ->
  forall w, Forall (fun b => In b al) w ->
  forall pre r k rest j,
    ralts_raw t i0 w = pre ++ ((r + TRAIL_MASK)%N, k) :: rest -> (r < TRAIL_MASK)%N ->
    find_head (r + HEAD_MASK)%N rest = Some j ->
    (j <= k <= length w)%nat /\
    exists rl, rule_of p r = Some rl /\
               Matches (denote (p_csize p) (r_fl rl) (r_head rl)) (firstn j w) /\
               rule_matches (spec_start_r p vars sc bol) r (firstn k w).
Proof. exact variable_head_is_a_head_match. Qed.
Print Assumptions C07_variable_head_from_tables.
