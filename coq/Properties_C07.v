(** Property C07 - REJECT visits every alternative in the documented order. *)
From Coq Require Import List NArith ZArith Bool Sorted.
Import ListNotations.
Require Import FlexV.Regex FlexV.SpecAuto FlexV.Pat FlexV.Tables FlexV.Scan FlexV.C01Proofs FlexV.RScan
               FlexV.C07Proofs FlexV.GenOptions.

(** For a table set that passes the lock-step check on full accepting lists,
    the alternatives the state-stack loop offers are, for EVERY input, exactly
    the specification's list ... *)
Theorem C07_alternatives_from_tables : forall t vars al m s0 i0,
  check_rview t vars al m s0 i0 = true ->
  forall w, Forall (fun b => In b al) w -> ralts t i0 w = salts (sobs_of s0) w.
Proof. exact reject_alternatives. Qed.
Print Assumptions C07_alternatives_from_tables.

(** ... which contains every (rule, length) pair that matches, and nothing else ... *)
Theorem C07_alternatives_complete : forall s0 w r k,
  In (r, k) (salts (sobs_of s0) w) <-> ((k <= length w)%nat /\ rule_matches s0 r (firstn k w)).
Proof. exact alternatives_complete. Qed.
Print Assumptions C07_alternatives_complete.

(** ... in order of decreasing length and, for equal length, rule position. *)
Theorem C07_alternatives_ordered : forall s0 w, StronglySorted alt_lt (salts (sobs_of s0) w).
Proof. exact alternatives_ordered. Qed.
Print Assumptions C07_alternatives_ordered.

(** REJECT is refused together with full tables (model = documented table). *)
Theorem C07_reject_refused_with_full_tables : forall o,
  o_reject o = true -> (o_full o || o_fast o) = true -> documented o = Refuse.
Proof.
  intros o Hr Hf. unfold documented. rewrite Hr.
  destruct (o_full o), (o_fast o); try discriminate; simpl;
    repeat rewrite orb_true_r; simpl; try reflexivity;
    destruct (o_meta o), (o_inter o); reflexivity.
Qed.
Print Assumptions C07_reject_refused_with_full_tables.
