(** Property C04 - NUL and 8-bit bytes are ordinary characters. *)
From Coq Require Import List NArith ZArith Bool.
Import ListNotations.
Require Import FlexV.Regex FlexV.SpecAuto FlexV.Pat FlexV.Tables FlexV.Scan FlexV.C01Proofs FlexV.C04Proofs.

(** The match-loop theorem ranges over every byte value below the alphabet size,
    0 included: for an 8-bit scanner the premise is checked over all 256 bytes
    (NUL goes through YY_NUL_EC / yy_NUL_trans exactly as in the skeleton). *)
Theorem C04_all_bytes_incl_nul : forall p sc bol V m,
  p_csize p = 256%N ->
  check_view V (alphabet 256) m (spec_start p sc bol) (v_start V (Z.of_N sc - 1) bol) = true ->
  forall w, Forall (fun b => (b < 256)%N) w -> w <> [] ->
    let (r, k) := scan V (v_start V (Z.of_N sc - 1) bol) w 0 (0%N, 0%nat) in
    r <> 0%N /\ (1 <= k)%nat /\ Selected (spec_start p sc bol) w r k.
Proof. intros p sc bol V m Hc. pose proof (C01_token p sc bol V m) as H. rewrite Hc in H. exact H. Qed.
Print Assumptions C04_all_bytes_incl_nul.

(** A 7-bit scanner and an 8-bit scanner of the same rules match the same 7-bit words. *)
Theorem C04_seven_bit_eight_bit_agree : forall p fl w, low w ->
  (Matches (denote 128 fl p) w <-> Matches (denote 256 fl p) w).
Proof. exact seven_eight_agree. Qed.
Print Assumptions C04_seven_bit_eight_bit_agree.

Example C04_nul_in_pattern_and_input :
  matchb (denote 256 fl0 (PCat (PChar 97%N) (PCat (PChar 0%N) (PStar (PCls (CSet true [CChar 10%N]))))))
         [97; 0; 0; 98; 0]%N = true.
Proof. exact nul_is_ordinary. Qed.
