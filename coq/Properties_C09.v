(** Property C09 - yylineno. *)
From Coq Require Import List NArith ZArith Bool.
Import ListNotations.
Require FlexV.RejectTok FlexV.C07VarProofs.
Require Import FlexV.Regex FlexV.Pat FlexV.Tokenize FlexV.GenParse FlexV.Stream FlexV.StreamProofs.
Local Open Scope Z_scope.

(** In every reachable state - whatever the rules, the input, the sources yywrap supplies and the
    yyless / yyunput / yyinput / yymore calls made by the actions - the line number is
    1 + (newlines of everything) - (newlines still unread), where text given back by yyless
    and bytes pushed back by yyunput count as unread again. *)
Theorem C09_lineno_conservation : forall sp sources st, sp_lineno sp = true ->
  reach sp (sm_init sources) st ->
  s_line st = 1 + nl_count (concat sources) - nl_count (unread st).
Proof. exact lineno_conservation. Qed.
Print Assumptions C09_lineno_conservation.

Theorem C09_untouched_without_option : forall sp sources st, sp_lineno sp = false ->
  reach sp (sm_init sources) st -> s_line st = 1.
Proof. exact lineno_untouched_without_option. Qed.
Print Assumptions C09_untouched_without_option.

Example C09_reachable_example :
  let st := sm_init [[97; 10; 98]%N] in reach {| sp_prog := {| p_csize := 256%N; p_excl := []; p_nsc := 1%N; p_rules := [] |};
                                                 sp_acts := fun _ => []; sp_eof := fun _ => None; sp_lineno := true |} st st.
Proof. constructor. Qed.

(** yylineno and REJECT: in the event stream of a scanner whose actions
    reject, the line number attached to an action is one plus the newlines of
    the input consumed before its token plus those of the text handed to it;
    text of alternatives rejected before was never consumed and does not count.
    (Specification side; compared with what compiled REJECT scanners with
    %option yylineno report.) *)
Theorem C09_reject_does_not_count_lines : forall hl altf pol fuel c bol pre w e,
  In e (FlexV.RejectTok.rej_tokens_ln fuel hl altf pol c bol (FlexV.RejectTok.nl_count pre) w) ->
  exists u v, pre ++ w = u ++ v /\
              snd e = S (FlexV.RejectTok.nl_count u + FlexV.RejectTok.nl_count (firstn (snd (fst e)) v)).
Proof. exact FlexV.C07VarProofs.rej_ln_sound. Qed.
Print Assumptions C09_reject_does_not_count_lines.

Theorem C09_reject_line_events_are_the_reject_events : forall hl altf pol fuel c bol lines w,
  map fst (FlexV.RejectTok.rej_tokens_ln fuel hl altf pol c bol lines w) = FlexV.RejectTok.rej_tokens fuel hl altf pol c bol w.
Proof. exact FlexV.C07VarProofs.rej_tokens_ln_events. Qed.
Print Assumptions C09_reject_line_events_are_the_reject_events.

(** ** the table yy_rule_can_match_eol (coq/EolTable.v) *)
Require FlexV.EolTable.

(** [can_nl] decides whether a pattern has a match containing a newline *)
Theorem C09_can_match_eol_decided : forall r,
  FlexV.EolTable.can_nl r = true <-> exists w, Matches r w /\ In FlexV.EolTable.NL w.
Proof. exact FlexV.EolTable.can_nl_spec. Qed.
Print Assumptions C09_can_match_eol_decided.

(** an emitted table that passes [eol_ok] is set for every rule and EVERY text its head can match
    (what the action is handed) containing a newline: the counting loop of the scanner looks at it *)
Theorem C09_eol_table_covers_every_newline : forall csize rules tbl, FlexV.EolTable.eol_ok csize rules tbl = true ->
  forall i r w, nth_error rules i = Some r -> Matches (FlexV.EolTable.head_re csize r) w -> In FlexV.EolTable.NL w -> nth_error tbl i = Some true.
Proof. exact FlexV.EolTable.eol_ok_sound. Qed.
Print Assumptions C09_eol_table_covers_every_newline.

(** the witness handed to the harness when a flag is missing really is a match with a newline *)
Theorem C09_newline_witness_is_a_match : forall r w,
  FlexV.EolTable.nl_word r = Some w -> Matches r w /\ In FlexV.EolTable.NL w.
Proof. exact FlexV.EolTable.nl_word_sound. Qed.
Print Assumptions C09_newline_witness_is_a_match.
