(** Property C09 - yylineno. *)
From Coq Require Import List NArith ZArith Bool.
Import ListNotations.
Require Import FlexV.Regex FlexV.Pat FlexV.Tokenize FlexV.GenParse FlexV.Stream FlexV.StreamProofs.
Local Open Scope Z_scope.

(** In every reachable state - whatever the rules, the input, the sources yywrap supplies and the
    yyless / yyunput / yyinput / yymore calls made by the actions - the line number is
    1 + (newlines of everything) - (newlines still unread), where text given back by yyless
    and bytes pushed back by yyunput count as unread again. *)
Theorem C09_lineno_conservation : forall sp sources st, sp_lineno sp = true ->
  reach sp (sm_init sources) st ->
  s_line st = 1 + nl_count (concat sources) - nl_count (unread st).
Proof. exact lineno_conservation. Qed.
Print Assumptions C09_lineno_conservation.

Theorem C09_untouched_without_option : forall sp sources st, sp_lineno sp = false ->
  reach sp (sm_init sources) st -> s_line st = 1.
Proof. exact lineno_untouched_without_option. Qed.
Print Assumptions C09_untouched_without_option.

Example C09_reachable_example :
  let st := sm_init [[97; 10; 98]%N] in reach {| sp_prog := {| p_csize := 256%N; p_excl := []; p_nsc := 1%N; p_rules := [] |};
                                                 sp_acts := fun _ => []; sp_eof := fun _ => None; sp_lineno := true |} st st.
Proof. constructor. Qed.
