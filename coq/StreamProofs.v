(** * StreamProofs: invariants of the stream machine, for every program, input,
    and sequence of actions. *)
From Coq Require Import List NArith ZArith Bool Lia.
Import ListNotations.
Require Import FlexV.Regex FlexV.SpecAuto FlexV.Pat FlexV.Tables FlexV.Scan FlexV.C01Proofs FlexV.Tokenize
               FlexV.GenParse FlexV.Stream.
Local Open Scope Z_scope.

Definition unread (st : sm) : list byte := s_inp st ++ concat (s_rest st).

Lemma nl_count_app a b : nl_count (a ++ b) = nl_count a + nl_count b.
Proof. unfold nl_count. rewrite filter_app, app_length, Nat2Z.inj_add. reflexivity. Qed.

Lemma nl_count_cons c l : nl_count (c :: l) = (if N.eqb c 10 then 1 else 0) + nl_count l.
Proof. unfold nl_count. simpl. destruct (N.eqb c 10); simpl length; [rewrite Nat2Z.inj_succ|]; lia. Qed.

Lemma nl_firstn_skipn h l : nl_count (firstn h l) + nl_count (skipn h l) = nl_count l.
Proof. rewrite <- nl_count_app, firstn_skipn. reflexivity. Qed.

(** ** yylineno: [line + newlines still unread] never changes *)
Definition lsum (st : sm) : Z := s_line st + nl_count (unread st).

Lemma input_once_lsum fuel : forall st, lsum (fst (input_once fuel st true)) = lsum st.
Proof.
  induction fuel as [|f IH]; intros st; destruct st as [inp rest sc stack bol line more done];
    destruct inp as [|c inp]; cbn [input_once s_inp s_rest fst].
  - destruct rest; reflexivity.
  - unfold lsum, unread. cbn. rewrite nl_count_cons. destruct (N.eqb c 10); lia.
  - destruct rest as [|nxt rest']; [reflexivity|]. rewrite IH. unfold lsum, unread. cbn. reflexivity.
  - unfold lsum, unread. cbn. rewrite nl_count_cons. destruct (N.eqb c 10); lia.
Qed.

Lemma inputs_lsum k : forall st, lsum (fst (inputs k st true)) = lsum st.
Proof.
  induction k as [|k IH]; intros st; cbn [inputs]; [reflexivity|].
  pose proof (input_once_lsum (S (length (s_rest st))) st) as H1.
  destruct (input_once (S (length (s_rest st))) st true) as [st1 e]. cbn [fst] in H1.
  specialize (IH st1). destruct (inputs k st1 true) as [st2 es]. cbn [fst] in *. lia.
Qed.

Lemma unput_lsum bs : forall st,
  lsum (fold_left (fun s c => with_inp s (c :: s_inp s)
                                (if true && N.eqb c 10 then s_line s - 1 else s_line s) (s_done s)) bs st) = lsum st.
Proof.
  induction bs as [|c bs IH]; intros st; simpl; [reflexivity|].
  rewrite IH. unfold lsum, unread. simpl. rewrite nl_count_cons. destruct (N.eqb c 10); lia.
Qed.

Lemma exec_lsum ops : forall st text more,
  lsum (fst (fst (fst (fst (exec true ops st text more))))) = lsum st.
Proof.
  induction ops as [|o rest IH]; intros st text more; simpl; [reflexivity|].
  destruct o; simpl.
  - rewrite IH. reflexivity.
  - rewrite IH. reflexivity.
  - destruct (s_stack st); simpl; [reflexivity|]. rewrite IH. reflexivity.
  - specialize (IH st text more).
    destruct (s_stack st); destruct (exec true rest st text more) as [[[[a b] c] d] e]; simpl in *; assumption.
  - rewrite IH. unfold lsum, unread. simpl. rewrite <- app_assoc, nl_count_app. lia.
  - rewrite IH. apply unput_lsum.
  - pose proof (inputs_lsum k st) as H1. destruct (inputs k st true) as [st' evs]. simpl in H1.
    specialize (IH st' text more). destruct (exec true rest st' text more) as [[[[a b] c] d] e]. simpl in *. lia.
  - rewrite IH. reflexivity.
  - rewrite IH. reflexivity.
  - reflexivity.
  - reflexivity.
Qed.

Theorem step_lsum sp st : sp_lineno sp = true ->
  lsum (fst (fst (sm_step sp st))) = lsum st.
Proof.
  intros Hl. unfold sm_step. rewrite Hl.
  destruct (s_inp st) as [|c inp] eqn:Ei.
  - destruct (s_rest st) as [|nxt more] eqn:Er.
    + pose proof (exec_lsum (match sp_eof sp (s_sc st) with Some o => o | None => [OTerminate] end) st [] false) as H.
      destruct (exec true _ st [] false) as [[[[a b] c] d] e]. simpl in *. assumption.
    + unfold lsum, unread. simpl. rewrite Ei, Er. reflexivity.
  - destruct (spec_scan _ (c :: inp)) as [r k].
    destruct (head_len (sp_prog sp) r k) as [|h] eqn:Eh; [reflexivity|].
    set (st1 := {| s_inp := skipn (S h) (c :: inp) |}).
    pose proof (exec_lsum (sp_acts sp r) st1 (s_more st ++ firstn (S h) (c :: inp)) false) as H.
    destruct (exec true (sp_acts sp r) st1 _ false) as [[[[a b] cc] d] e]. simpl in *.
    cbn [fst snd] in *. change (lsum (with_more a (if cc then b else []))) with (lsum a).
    rewrite H. unfold lsum, unread, st1. cbn [s_line s_inp s_rest]. rewrite Ei.
    rewrite !nl_count_app. pose proof (nl_firstn_skipn (S h) (c :: inp)) as Hfs. cbn [firstn skipn] in Hfs. lia.
Qed.

(** states reachable by scanning *)
Inductive reach (sp : sprog) (st0 : sm) : sm -> Prop :=
| reach_refl : reach sp st0 st0
| reach_step : forall st, reach sp st0 st -> reach sp st0 (fst (fst (sm_step sp st))).

(** C09: with %option yylineno, at every moment
    yylineno = 1 + newlines of the whole input - newlines still unread
    (text given back by yyless and bytes pushed by yyunput are unread again). *)
Theorem lineno_conservation sp sources st : sp_lineno sp = true ->
  reach sp (sm_init sources) st ->
  s_line st = 1 + nl_count (concat sources) - nl_count (unread st).
Proof.
  intros Hl Hr. assert (H : lsum st = lsum (sm_init sources)).
  { induction Hr as [|st Hr IH]; [reflexivity|]. rewrite step_lsum by assumption. assumption. }
  unfold lsum in H. assert (Hi : unread (sm_init sources) = concat sources /\ s_line (sm_init sources) = 1).
  { destruct sources; simpl; auto. }
  destruct Hi as [Hu Hs]. rewrite Hu, Hs in H. lia.
Qed.

(** ** without the option the line number is never modified *)
Lemma input_once_line_off fuel : forall st, s_line (fst (input_once fuel st false)) = s_line st.
Proof.
  induction fuel as [|f IH]; intros st; destruct st as [inp rest sc stack bol line more done];
    destruct inp as [|c inp]; cbn [input_once s_inp s_rest fst]; auto.
  - destruct rest; auto.
  - destruct rest as [|nxt rest']; auto. exact (IH _).
Qed.

Lemma inputs_line_off k : forall st, s_line (fst (inputs k st false)) = s_line st.
Proof.
  induction k as [|k IH]; intros st; cbn [inputs]; [reflexivity|].
  pose proof (input_once_line_off (S (length (s_rest st))) st) as H1.
  destruct (input_once (S (length (s_rest st))) st false) as [st1 e]. specialize (IH st1). destruct (inputs k st1 false). cbn [fst] in *. congruence.
Qed.

Lemma unput_line_off bs : forall st,
  s_line (fold_left (fun s c => with_inp s (c :: s_inp s)
                                (if false && N.eqb c 10 then s_line s - 1 else s_line s) (s_done s)) bs st) = s_line st.
Proof. induction bs as [|c bs IH]; intros st; simpl; [reflexivity|]. rewrite IH. reflexivity. Qed.

Lemma exec_line_off ops : forall st text more,
  s_line (fst (fst (fst (fst (exec false ops st text more))))) = s_line st.
Proof.
  induction ops as [|o rest IH]; intros st text more; simpl; [reflexivity|].
  destruct o; simpl; try (rewrite IH; reflexivity); try reflexivity.
  - destruct (s_stack st); simpl; [reflexivity|]. rewrite IH. reflexivity.
  - specialize (IH st text more).
    destruct (s_stack st); destruct (exec false rest st text more) as [[[[a b] c] d] e]; assumption.
  - rewrite IH. apply unput_line_off.
  - pose proof (inputs_line_off k st) as H1. destruct (inputs k st false) as [st' evs]. simpl in H1.
    specialize (IH st' text more). destruct (exec false rest st' text more) as [[[[a b] c] d] e]. simpl in *. congruence.
Qed.

Theorem lineno_untouched_without_option sp sources st : sp_lineno sp = false ->
  reach sp (sm_init sources) st -> s_line st = 1.
Proof.
  intros Hl Hr. induction Hr as [|st Hr IH]; [destruct sources; reflexivity|].
  unfold sm_step. rewrite Hl. destruct (s_inp st) as [|c inp].
  - destruct (s_rest st).
    + pose proof (exec_line_off (match sp_eof sp (s_sc st) with Some o => o | None => [OTerminate] end) st [] false) as H.
      destruct (exec false _ st [] false) as [[[[a b] cc] d] e]. simpl in *. congruence.
    + simpl. assumption.
  - destruct (spec_scan _ (c :: inp)) as [r k]. destruct (head_len (sp_prog sp) r k) as [|h]; [assumption|].
    set (st1 := {| s_inp := skipn (S h) (c :: inp) |}).
    pose proof (exec_line_off (sp_acts sp r) st1 (s_more st ++ firstn (S h) (c :: inp)) false) as H.
    destruct (exec false (sp_acts sp r) st1 _ false) as [[[[a b] cc] d] e]. simpl in *. rewrite H. assumption.
Qed.

(** ** start conditions change only through yybegin / yy_push_state / yy_pop_state *)
Definition sc_op (o : op) : bool :=
  match o with OBegin _ | OPush _ | OPop => true | _ => false end.

Lemma input_once_sc fuel l : forall st,
  s_sc (fst (input_once fuel st l)) = s_sc st /\ s_stack (fst (input_once fuel st l)) = s_stack st.
Proof.
  induction fuel as [|f IH]; intros st; destruct st as [inp rest sc stack bol line more done];
    destruct inp as [|c inp]; cbn [input_once s_inp s_rest fst]; auto.
  - destruct rest; auto.
  - destruct rest as [|nxt rest']; auto. exact (IH _).
Qed.

Lemma inputs_sc k l : forall st,
  s_sc (fst (inputs k st l)) = s_sc st /\ s_stack (fst (inputs k st l)) = s_stack st.
Proof.
  induction k as [|k IH]; intros st; cbn [inputs]; auto.
  pose proof (input_once_sc (S (length (s_rest st))) l st) as H1.
  destruct (input_once (S (length (s_rest st))) st l) as [st1 e]. specialize (IH st1). destruct (inputs k st1 l). cbn [fst] in *.
  destruct H1, IH. split; congruence.
Qed.

Lemma unput_sc l bs : forall st,
  let st' := fold_left (fun s c => with_inp s (c :: s_inp s)
                                (if l && N.eqb c 10 then s_line s - 1 else s_line s) (s_done s)) bs st in
  s_sc st' = s_sc st /\ s_stack st' = s_stack st.
Proof. induction bs as [|c bs IH]; intros st; simpl; auto. destruct (IH (with_inp st (c :: s_inp st) (if l && N.eqb c 10 then s_line st - 1 else s_line st) (s_done st))). auto. Qed.

Theorem exec_sc_unchanged l ops : forallb (fun o => negb (sc_op o)) ops = true ->
  forall st text more,
    let st' := fst (fst (fst (fst (exec l ops st text more)))) in
    s_sc st' = s_sc st /\ s_stack st' = s_stack st.
Proof.
  induction ops as [|o rest IH]; intros Hno st text more; simpl; auto.
  simpl in Hno. apply andb_true_iff in Hno. destruct Hno as [Ho Hrest]. specialize (IH Hrest).
  destruct o; simpl in Ho; try discriminate; simpl.
  - pose proof (IH st text more) as IH'. cbv zeta in IH'.
    destruct (exec l rest st text more) as [[[[a b] c] d] e].
    destruct (s_stack st); cbn [fst] in *; exact IH'.
  - exact (IH _ _ _).
  - destruct (unput_sc l bs st) as [H1 H2].
    destruct (IH (fold_left (fun s c => with_inp s (c :: s_inp s) (if l && N.eqb c 10 then s_line s - 1 else s_line s) (s_done s)) bs st) text more) as [H3 H4].
    cbn [fst] in *. split; congruence.
  - pose proof (inputs_sc k l st) as H1. destruct (inputs k st l) as [st' evs]. cbn [fst] in H1.
    specialize (IH st' text more). destruct (exec l rest st' text more) as [[[[a b] c] d] e]. cbn [fst] in *.
    destruct H1, IH. split; congruence.
  - exact (IH _ _ _).
  - exact (IH _ _ _).
  - auto.
  - auto.
Qed.

(** when yywrap supplies another source the start condition (and its stack) is unchanged,
    the scanner is at the beginning of a line, and nothing is lost from either source *)
Theorem wrap_continues sp st nxt more :
  s_inp st = [] -> s_rest st = nxt :: more ->
  let st' := fst (fst (sm_step sp st)) in
  s_sc st' = s_sc st /\ s_stack st' = s_stack st /\ s_bol st' = true /\ unread st' = unread st /\
  snd (fst (sm_step sp st)) = [].
Proof.
  intros Hi Hr. unfold sm_step. rewrite Hi, Hr. simpl. unfold unread. simpl. rewrite Hi, Hr. simpl. auto.
Qed.

(** ** the start-condition stack is a LIFO *)
Lemma with_sc_eta st : with_sc (with_sc st (s_sc st) (s_stack st)) (s_sc st) (s_stack st) = with_sc st (s_sc st) (s_stack st).
Proof. reflexivity. Qed.

Theorem push_pop_identity l a rest st text more :
  exec l (OPush a :: OPop :: rest) st text more = exec l rest (with_sc st (s_sc st) (s_stack st)) text more.
Proof. simpl. reflexivity. Qed.

Theorem push_top l a rest st text more :
  exists st' tx m ev c, exec l (OPush a :: OTop :: rest) st text more = (st', tx, m, ETop (s_sc st) :: ev, c).
Proof.
  simpl. destruct (exec l rest (with_sc st a (s_sc st :: s_stack st)) text more) as [[[[x y] z] u] v].
  do 5 eexists. reflexivity.
Qed.

Theorem pop_underflow_is_fatal l rest st text more : s_stack st = [] ->
  exec l (OPop :: rest) st text more = (st, text, more, [EFatal 1%N], Halt).
Proof. intros H. simpl. rewrite H. reflexivity. Qed.

(** n pushes followed by n pops restore the condition and the stack, for every n
    (the stack is unbounded) *)
Fixpoint pops (n : nat) : list op := match n with O => [] | S k => OPop :: pops k end.

Lemma pops_snoc n : pops (S n) = pops n ++ [OPop].
Proof. induction n as [|n IHn]; simpl; [reflexivity|]. simpl in IHn. rewrite <- IHn. reflexivity. Qed.

Lemma with_sc_undo st a : with_sc (with_sc st a (s_sc st :: s_stack st)) (s_sc st) (s_stack st) = st.
Proof. destruct st; reflexivity. Qed.

Theorem pushes_pops_lifo l ss : forall st text more rest,
  exec l (map OPush ss ++ pops (length ss) ++ rest) st text more = exec l rest st text more.
Proof.
  induction ss as [|a ss IH]; intros st text more rest.
  - reflexivity.
  - cbn [map length]. rewrite pops_snoc. cbn [app]. cbn [exec]. rewrite <- app_assoc. rewrite IH.
    cbn [app exec]. destruct st; reflexivity.
Qed.

(** ** end of input *)
Lemma input_once_no_eof n l sc : forall st, snd (input_once n st l) <> EEof sc.
Proof.
  induction n as [|n IHn]; intros st; destruct st as [inp rest a b c d e0 f]; destruct inp as [|x inp];
    cbn [input_once s_inp s_rest snd]; try discriminate.
  - destruct rest; discriminate.
  - destruct rest as [|nxt rest']; [discriminate|]. apply IHn.
Qed.

Lemma inputs_no_eof k l sc : forall st, ~ In (EEof sc) (snd (inputs k st l)).
Proof.
  induction k as [|k IH]; intros st; cbn [inputs]; [intros []|].
  pose proof (input_once_no_eof (S (length (s_rest st))) l sc st) as H1.
  destruct (input_once (S (length (s_rest st))) st l) as [st1 e]. cbn [snd] in H1.
  specialize (IH st1). destruct (inputs k st1 l) as [st2 es]. cbn [snd] in *.
  intros [H|H]; [congruence|exact (IH H)].
Qed.

Lemma exec_no_eof l sc ops : forall st text more,
  ~ In (EEof sc) (snd (fst (exec l ops st text more))).
Proof.
  induction ops as [|o rest IH]; intros st text more; cbn [exec]; [intros []|].
  destruct o; try apply IH.
  - destruct (s_stack st); [cbn; intros [H|[]]; discriminate|apply IH].
  - specialize (IH st text more). destruct (exec l rest st text more) as [[[[a b] c] d] e].
    destruct (s_stack st); cbn [fst snd] in *; intros [H|H]; try discriminate; exact (IH H).
  - pose proof (inputs_no_eof k l sc st) as H1. destruct (inputs k st l) as [st' evs]. cbn [snd] in H1.
    specialize (IH st' text more). destruct (exec l rest st' text more) as [[[[a b] c] d] e]. cbn [fst snd] in *.
    intros H. apply in_app_or in H. tauto.
  - cbn. intros [H|[]]; discriminate.
  - cbn. intros [H|[]]; discriminate.
Qed.

(** the EOF action of a start condition runs only when no byte at all is left
    (neither in the current source nor in sources yywrap can still supply),
    and it is the action of the current condition *)
Theorem eof_only_when_exhausted sp st sc :
  In (EEof sc) (snd (fst (sm_step sp st))) -> unread st = [] /\ sc = s_sc st.
Proof.
  unfold sm_step, unread. destruct (s_inp st) as [|c inp] eqn:Ei.
  - destruct (s_rest st) as [|nxt more] eqn:Er.
    + pose proof (exec_no_eof (sp_lineno sp) sc (match sp_eof sp (s_sc st) with Some o => o | None => [OTerminate] end) st [] false) as Hn.
      destruct (exec (sp_lineno sp) _ st [] false) as [[[[a b] cc] d] e]. cbn [fst snd] in *.
      intros [H|H]; [inversion H; auto|contradiction].
    + cbn. intros [].
  - destruct (spec_scan _ (c :: inp)) as [r k]. destruct (head_len (sp_prog sp) r k) as [|h].
    + cbn. intros [H|[]]; discriminate.
    + set (st1 := {| s_inp := skipn (S h) (c :: inp) |}).
      pose proof (exec_no_eof (sp_lineno sp) sc (sp_acts sp r) st1 (s_more st ++ firstn (S h) (c :: inp)) false) as Hn.
      destruct (exec (sp_lineno sp) (sp_acts sp r) st1 _ false) as [[[[a b] cc] d] e]. cbn [fst snd] in *.
      intros [H|H]; [discriminate|contradiction].
Qed.

(** ** local laws of the editing calls *)
Theorem less_law l a rest st text more :
  exec l (OLess a :: rest) st text more =
  exec l rest (with_inp st (skipn (less_n a (length text)) text ++ s_inp st)
                        (if l then s_line st - nl_count (skipn (less_n a (length text)) text) else s_line st)
                        (firstn (length (s_done st) - length (skipn (less_n a (length text)) text)) (s_done st)))
       (firstn (less_n a (length text)) text) more.
Proof. reflexivity. Qed.

Theorem less_keeps_all_bytes a (text : list byte) : firstn (less_n a (length text)) text ++ skipn (less_n a (length text)) text = text.
Proof. apply firstn_skipn. Qed.

Theorem unput_next_read c st l :
  s_inp (with_inp st (c :: s_inp st) (if l && N.eqb c 10 then s_line st - 1 else s_line st) (s_done st)) = c :: s_inp st.
Proof. reflexivity. Qed.

Theorem input_returns_next c inp st l : s_inp st = c :: inp ->
  snd (input_once 1 st l) = EIn (Some c) /\ s_inp (fst (input_once 1 st l)) = inp.
Proof. intros H. cbn [input_once]. rewrite H. auto. Qed.

Theorem input_end_value_only_at_end fuel l : forall st,
  snd (input_once fuel st l) = EIn None -> s_inp st = [] /\ ((length (s_rest st) < fuel)%nat -> concat (s_rest st) = []).
Proof.
  induction fuel as [|f IH]; intros st; destruct st as [inp rest a b c d e0 g]; destruct inp as [|x inp];
    cbn [input_once s_inp s_rest snd]; try discriminate.
  - intros _. split; [reflexivity|]. cbn. lia.
  - destruct rest as [|nxt rest'].
    + intros _. auto.
    + intros H. apply IH in H. cbn [s_inp s_rest] in H. destruct H as [Hn Hr]. split; [reflexivity|].
      cbn [length concat]. intros Hl. subst nxt. cbn. apply Hr. lia.
Qed.
