(** * Pat: abstract syntax of flex patterns and their denotation as [re],
    written from the manual (chapter "Patterns"), C locale.  Layer S. *)
From Coq Require Import List NArith Bool.
Import ListNotations.
Require Import FlexV.Regex.
Local Open Scope N_scope.

(** ** character sets *)
Definition single (c : byte) : cset := N.shiftl 1 c.
Definition range (lo hi : byte) : cset :=
  if lo <=? hi then N.shiftl (N.ones (hi + 1 - lo)) lo else 0.
Definition full (csize : N) : cset := N.ones csize.

Definition is_upper (c : byte) := (65 <=? c) && (c <=? 90).
Definition is_lower (c : byte) := (97 <=? c) && (c <=? 122).
Definition has_case (c : byte) := is_upper c || is_lower c.
Definition rev_case (c : byte) : byte :=
  if is_upper c then c + 32 else if is_lower c then c - 32 else c.

(** The twelve POSIX class expressions in the C locale (ASCII only), numbered
    alnum 0, alpha 1, blank 2, cntrl 3, digit 4, graph 5, lower 6, print 7,
    punct 8, space 9, upper 10, xdigit 11. *)
Definition p_upper := range 65 90.
Definition p_lower := range 97 122.
Definition p_digit := range 48 57.
Definition p_alpha := N.lor p_upper p_lower.
Definition posix (k : N) : cset :=
  match k with
  | 0 => N.lor p_alpha p_digit
  | 1 => p_alpha
  | 2 => N.lor (single 32) (single 9)
  | 3 => N.lor (range 0 31) (single 127)
  | 4 => p_digit
  | 5 => range 33 126
  | 6 => p_lower
  | 7 => range 32 126
  | 8 => N.lor (N.lor (range 33 47) (range 58 64)) (N.lor (range 91 96) (range 123 126))
  | 9 => N.lor (range 9 13) (single 32)
  | 10 => p_upper
  | 11 => N.lor p_digit (N.lor (range 65 70) (range 97 102))
  | _ => 0
  end.

Record flags := { f_i : bool; f_s : bool }.

Inductive citem :=
| CChar (c : byte)
| CRange (lo hi : byte)
| CPosix (neg : bool) (k : N).

Inductive cexpr :=
| CSet (neg : bool) (items : list citem)
| CDiff (a b : cexpr)
| CUnion (a b : cexpr).

Inductive pat :=
| PChar (c : byte)
| PAny
| PCls (e : cexpr)
| PStr (bs : list byte)
| PCat (a b : pat)
| PAlt (a b : pat)
| PStar (a : pat)
| PPlus (a : pat)
| POpt (a : pat)
| PRep (a : pat) (n : nat)            (* r{n}   , n >= 1 *)
| PRepMin (a : pat) (n : nat)         (* r{n,}  , n >= 1 *)
| PRepRange (a : pat) (n m : nat)     (* r{n,m} , n <= m, m >= 1 *)
| PFlags (ion ioff son soff : bool) (a : pat).   (* (?is-is:r) *)

Definition char_set (fl : flags) (c : byte) : cset :=
  if f_i fl && has_case c then N.lor (single c) (single (rev_case c)) else single c.

Definition citem_set (csize : N) (fl : flags) (it : citem) : cset :=
  match it with
  | CChar c => char_set fl c
  | CRange lo hi =>
      let m := range lo hi in
      if f_i fl && ((is_upper lo && is_upper hi) || (is_lower lo && is_lower hi))
      then N.lor m (range (rev_case lo) (rev_case hi)) else m
  | CPosix neg k =>
      if f_i fl && ((k =? 6) || (k =? 10))
      then (if neg then 0 else p_alpha)
      else if neg then N.ldiff (full csize) (posix k) else posix k
  end.

Fixpoint cexpr_set (csize : N) (fl : flags) (e : cexpr) : cset :=
  match e with
  | CSet neg items =>
      let m := N.land (full csize) (fold_right (fun it acc => N.lor (citem_set csize fl it) acc) 0 items) in
      if neg then N.ldiff (full csize) m else m
  | CDiff a b => N.ldiff (cexpr_set csize fl a) (cexpr_set csize fl b)
  | CUnion a b => N.lor (cexpr_set csize fl a) (cexpr_set csize fl b)
  end.

Fixpoint rep (r : re) (n : nat) : re :=
  match n with
  | O => Eps
  | S O => r
  | S n' => Cat r (rep r n')
  end.

Fixpoint upto (r : re) (k : nat) : re :=
  match k with
  | O => Eps
  | S k' => Alt Eps (Cat r (upto r k'))
  end.

Definition catre (a b : re) : re :=
  match a, b with
  | Eps, _ => b
  | _, Eps => a
  | _, _ => Cat a b
  end.

Fixpoint denote (csize : N) (fl : flags) (p : pat) : re :=
  match p with
  | PChar c => Cls (char_set fl c)
  | PAny => Cls (if f_s fl then full csize else N.ldiff (full csize) (single 10))
  | PCls e => Cls (cexpr_set csize fl e)
  | PStr bs => fold_right (fun c acc => catre (Cls (char_set fl c)) acc) Eps bs
  | PCat a b => Cat (denote csize fl a) (denote csize fl b)
  | PAlt a b => Alt (denote csize fl a) (denote csize fl b)
  | PStar a => Star (denote csize fl a)
  | PPlus a => let r := denote csize fl a in Cat r (Star r)
  | POpt a => Alt (denote csize fl a) Eps
  | PRep a n => rep (denote csize fl a) n
  | PRepMin a n => let r := denote csize fl a in catre (rep r n) (Star r)
  | PRepRange a n m => let r := denote csize fl a in catre (rep r n) (upto r (m - n))
  | PFlags ion ioff son soff a =>
      let i' := if ioff then false else if ion then true else f_i fl in
      let s' := if soff then false else if son then true else f_s fl in
      denote csize {| f_i := i'; f_s := s' |} a
  end.

(** A rule: the start conditions it names ([None] = none written, i.e. active
    in every inclusive condition; [Some l] with [star = true] = <*>),
    whether it is anchored with ^, its head, and its trailing context. *)
Record rule := {
  r_star : bool;
  r_scs : option (list N);     (* start-condition numbers, 1-based as in flex *)
  r_bol : bool;
  r_head : pat;
  r_trail : option pat;        (* r$ is trailing context "\n" *)
  r_fl : flags                 (* flags in force at the rule: -i, (?s) never global *)
}.

Record program := {
  p_csize : N;
  p_excl : list N;             (* exclusive start conditions (numbers); condition 1 = INITIAL *)
  p_nsc : N;                   (* number of start conditions *)
  p_rules : list rule
}.

Definition rule_re (csize : N) (r : rule) : re :=
  match r_trail r with
  | None => denote csize (r_fl r) (r_head r)
  | Some t => Cat (denote csize (r_fl r) (r_head r)) (denote csize (r_fl r) t)
  end.

Definition memN (x : N) (l : list N) : bool := existsb (N.eqb x) l.

(** Manual, "Start Conditions": a rule is active in condition [sc] iff it names
    [sc], or is written with <*>, or names no condition and [sc] is inclusive. *)
Definition active (p : program) (sc : N) (bol : bool) (r : rule) : bool :=
  (if r_bol r then bol else true) &&
  (if r_star r then true else
   match r_scs r with
   | Some l => memN sc l
   | None => negb (memN sc (p_excl p))
   end).

Fixpoint number_from {A} (n : N) (l : list A) : list (N * A) :=
  match l with
  | [] => []
  | x :: t => (n, x) :: number_from (n + 1) t
  end.

(** The start state of the specification automaton for (condition, BOL): the
    active rules (numbered from 1 in file order) and the default rule, which
    has number [length rules + 1] and matches any single character. *)
Definition spec_start (p : program) (sc : N) (bol : bool) : list (N * re) :=
  map (fun ir => (fst ir, rule_re (p_csize p) (snd ir)))
      (filter (fun ir => active p sc bol (snd ir)) (number_from 1 (p_rules p)))
  ++ [(N.of_nat (length (p_rules p)) + 1, Cls (full (p_csize p)))].

(** ** The manual's own examples, checked by computation *)
Definition fl0 := {| f_i := false; f_s := false |}.
Example ex_i : denote 256 fl0 (PFlags true false false false (PStr [97;98;55])) =
               denote 256 fl0 (PCat (PCls (CSet false [CChar 97; CChar 65]))
                                (PCat (PCls (CSet false [CChar 98; CChar 66])) (PChar 55))).
Proof. vm_compute. reflexivity. Qed.
Example ex_s : denote 256 fl0 (PFlags false false true false PAny) =
               denote 256 fl0 (PCls (CSet false [CRange 0 255])).
Proof. vm_compute. reflexivity. Qed.
Example ex_dot : denote 256 fl0 PAny = denote 256 fl0 (PCls (CSet true [CChar 10])).
Proof. vm_compute. reflexivity. Qed.
Example ex_diff : denote 256 fl0 (PCls (CDiff (CSet false [CRange 97 99]) (CSet false [CRange 98 122]))) =
                  denote 256 fl0 (PChar 97).
Proof. vm_compute. reflexivity. Qed.
Example ex_union : denote 256 fl0 (PCls (CUnion (CDiff (CSet false [CPosix false 1]) (CSet false [CPosix false 6]))
                                                (CSet false [CChar 113]))) =
                   denote 256 fl0 (PCls (CSet false [CRange 65 90; CChar 113])).
Proof. vm_compute. reflexivity. Qed.
Example ex_range_i : cexpr_set 256 {| f_i := true; f_s := false |} (CSet false [CRange 65 116]) =
                     cexpr_set 256 fl0 (CSet false [CRange 65 90; CRange 91 96; CRange 97 116]).
Proof. vm_compute. reflexivity. Qed.
