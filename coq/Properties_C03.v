(** Property C03 - tokens independent of input delivery; no over-reading. *)
From Coq Require Import List NArith ZArith Bool.
Import ListNotations.
Require Import FlexV.Regex FlexV.Tables FlexV.Scan FlexV.Window FlexV.BufLayout.

(** The match loop with refills returns, for EVERY way of cutting the input into
    chunks, what the loop over the whole input returns ... *)
Theorem C03_scan_independent_of_chunking : forall I step accN stop rest avail i n last,
  fst (wscan I step accN stop i avail rest n last) = gscan I step accN stop i (avail ++ concat rest) n last.
Proof. exact wscan_eq. Qed.
Print Assumptions C03_scan_independent_of_chunking.

(** ... and so does the whole token stream (with the trailing-context rewinds flex emits). *)
Theorem C03_tokens_independent_of_chunking : forall V adj fuel sc bol eof buf rest,
  (forall r k, (adjustw adj r k <= k)%nat) ->
  wtoks (wtokens V adj fuel sc bol eof buf rest) = ref_tokens V adj fuel sc bol (buf ++ concat rest).
Proof. exact wtokens_chunking. Qed.
Print Assumptions C03_tokens_independent_of_chunking.

(** A chunk is requested from the source only while the loop has not stopped on
    everything obtained so far: with the interactive loop condition (stop as soon
    as the state has no out-transition) no input is requested beyond the first
    point at which no longer match is possible. *)
Theorem C03_no_request_once_stopped : forall I step accN stop rest avail i n last q,
  (q < snd (wscan I step accN stop i avail rest n last))%nat ->
  exists i' n' last', scan_avail I step accN stop i (avail ++ concat (firstn q rest)) n last = More I i' n' last'.
Proof. exact wscan_lazy. Qed.
Print Assumptions C03_no_request_once_stopped.

(** The buffer as addresses (coq/BufLayout.v): the ascending byte-by-byte move of the unfinished token to the
    start of the buffer is right although the ranges overlap; text, new data and the two end-of-buffer bytes
    fit the [buf_size + 2] bytes whatever the source delivers within the request; after the refill the window
    is the unfinished token followed by the new data (the step "buf ++ chunk" of the window machine). *)
Theorem C03_overlapping_move_is_right : forall n m dst src i, (dst <= src)%nat -> (src + n <= length m)%nat -> (i < n)%nat ->
  nth (dst + i) (BufLayout.copy_fwd m dst src n) BufLayout.EOB = nth (src + i) m BufLayout.EOB.
Proof. exact BufLayout.copy_fwd_spec. Qed.
Print Assumptions C03_overlapping_move_is_right.

Theorem C03_refill_fits_the_buffer : forall b chunk junk,
  (length chunk <= BufLayout.request (BufLayout.c_size b) (BufLayout.number_to_move b))%nat ->
  (BufLayout.number_to_move b + length chunk + 2 <= BufLayout.c_size (BufLayout.refill b chunk junk) + 2)%nat /\
  (BufLayout.number_to_move b + length chunk <= BufLayout.c_size (BufLayout.refill b chunk junk))%nat.
Proof. exact BufLayout.refill_fits. Qed.
Print Assumptions C03_refill_fits_the_buffer.

Theorem C03_refill_is_window_append : forall b chunk junk, BufLayout.CInv b -> BufLayout.c_cp b = (BufLayout.c_nch b + 1)%nat ->
  (length chunk <= BufLayout.request (BufLayout.c_size b) (BufLayout.number_to_move b))%nat ->
  (BufLayout.c_size (BufLayout.refill b chunk junk) - (BufLayout.number_to_move b + length chunk) <= length junk)%nat ->
  BufLayout.window (BufLayout.refill b chunk junk) = BufLayout.window b ++ chunk /\
  nth (BufLayout.c_nch (BufLayout.refill b chunk junk)) (BufLayout.c_mem (BufLayout.refill b chunk junk)) 1%N = BufLayout.EOB /\
  nth (S (BufLayout.c_nch (BufLayout.refill b chunk junk))) (BufLayout.c_mem (BufLayout.refill b chunk junk)) 1%N = BufLayout.EOB /\
  length (BufLayout.c_mem (BufLayout.refill b chunk junk)) = (BufLayout.c_size (BufLayout.refill b chunk junk) + 2)%nat.
Proof. exact BufLayout.refill_window. Qed.
Print Assumptions C03_refill_is_window_append.

Theorem C03_every_request_asks_for_something : forall size ntm, (1 <= BufLayout.request size ntm)%nat.
Proof. exact BufLayout.request_positive. Qed.
Print Assumptions C03_every_request_asks_for_something.
