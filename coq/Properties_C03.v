(** Property C03 - tokens independent of input delivery; no over-reading. *)
From Coq Require Import List NArith ZArith Bool.
Import ListNotations.
Require Import FlexV.Regex FlexV.Tables FlexV.Scan FlexV.Window.

(** The match loop with refills returns, for EVERY way of cutting the input into
    chunks, what the loop over the whole input returns ... *)
Theorem C03_scan_independent_of_chunking : forall I step accN stop rest avail i n last,
  fst (wscan I step accN stop i avail rest n last) = gscan I step accN stop i (avail ++ concat rest) n last.
Proof. exact wscan_eq. Qed.
Print Assumptions C03_scan_independent_of_chunking.

(** ... and so does the whole token stream (with the trailing-context rewinds flex emits). *)
Theorem C03_tokens_independent_of_chunking : forall V adj fuel sc bol eof buf rest,
  (forall r k, (adjustw adj r k <= k)%nat) ->
  wtoks (wtokens V adj fuel sc bol eof buf rest) = ref_tokens V adj fuel sc bol (buf ++ concat rest).
Proof. exact wtokens_chunking. Qed.
Print Assumptions C03_tokens_independent_of_chunking.

(** A chunk is requested from the source only while the loop has not stopped on
    everything obtained so far: with the interactive loop condition (stop as soon
    as the state has no out-transition) no input is requested beyond the first
    point at which no longer match is possible. *)
Theorem C03_no_request_once_stopped : forall I step accN stop rest avail i n last q,
  (q < snd (wscan I step accN stop i avail rest n last))%nat ->
  exists i' n' last', scan_avail I step accN stop i (avail ++ concat (firstn q rest)) n last = More I i' n' last'.
Proof. exact wscan_lazy. Qed.
Print Assumptions C03_no_request_once_stopped.
