(** * C13Proofs: table lookups of the interpreters stay in range for every input. *)
From Coq Require Import List NArith ZArith Bool Lia.
Import ListNotations.
Require Import FlexV.Regex FlexV.SpecAuto FlexV.Pat FlexV.Tables FlexV.Scan FlexV.C01Proofs FlexV.C07Proofs.

(** [Bad] is the state the interpreters enter when an array is indexed outside its bounds, a
    default chain does not end within the number of states, or a stored state number is out of
    range.  A table set that passes the lock-step check never gets there, whatever the input. *)
Lemma ok_not_bad_c t al s : ok (cview t) al s Bad = false.
Proof. reflexivity. Qed.
Lemma ok_not_bad_f t al s : ok (fview t) al s Bad = false.
Proof. reflexivity. Qed.
Lemma ok_not_bad_s t al s : ok (sview t) al s Bad = false.
Proof. reflexivity. Qed.

Theorem compressed_lookups_in_range t al m s0 i0 : check_view (cview t) al m s0 i0 = true ->
  forall w, Forall (fun b => In b al) w -> Scan.irun (cview t) w i0 <> Bad.
Proof.
  intros H w Hw Hb. pose proof (check_view_sound _ _ _ _ _ H w Hw) as Hok. rewrite Hb, ok_not_bad_c in Hok. discriminate.
Qed.

Theorem full_lookups_in_range t al m s0 i0 : check_view (fview t) al m s0 i0 = true ->
  forall w, Forall (fun b => In b al) w -> Scan.irun (fview t) w i0 <> Bad.
Proof.
  intros H w Hw Hb. pose proof (check_view_sound _ _ _ _ _ H w Hw) as Hok. rewrite Hb, ok_not_bad_f in Hok. discriminate.
Qed.

Theorem fullspd_lookups_in_range t al m s0 i0 : check_view (sview t) al m s0 i0 = true ->
  forall w, Forall (fun b => In b al) w -> Scan.irun (sview t) w i0 <> Bad.
Proof.
  intros H w Hw Hb. pose proof (check_view_sound _ _ _ _ _ H w Hw) as Hok. rewrite Hb, ok_not_bad_s in Hok. discriminate.
Qed.

Theorem reject_lookups_in_range t vars al m s0 i0 : check_rview t vars al m s0 i0 = true ->
  forall w, Forall (fun b => In b al) w -> fold_left (cstep (r_c t)) w i0 <> Bad.
Proof.
  intros H w Hw Hb. pose proof (check_rview_sound _ _ _ _ _ _ H w Hw) as Hok. rewrite Hb in Hok.
  unfold ok_r, raccl, accl_of in Hok. discriminate.
Qed.
