(** Property C14 - read failures and interrupted reads (the part a model can carry; allocation failures are
    decided by exhaustive fault injection against the ledger of C13, see DESIGN.md). *)
From Coq Require Import List NArith ZArith Bool.
Import ListNotations.
Require Import FlexV.Regex FlexV.Tables FlexV.Scan FlexV.Window FlexV.Faults.

(** The retry loop of yyread(), called until the source ends or fails, obtains exactly the specified chunks. *)
Theorem C14_yyread_loop_meets_spec : forall fuel src, length src < fuel -> pull_all fuel src = delivered src.
Proof. exact pull_all_delivered. Qed.
Print Assumptions C14_yyread_loop_meets_spec.

(** Reads interrupted by a signal are invisible, wherever and however often they occur. *)
Theorem C14_eintr_transparent : forall src, delivered src = delivered (filter (fun x => negb (is_eintr x)) src).
Proof. exact eintr_transparent. Qed.
Print Assumptions C14_eintr_transparent.

(** Without a real error every byte of the source reaches the scanner exactly once and in order. *)
Theorem C14_no_loss_no_duplication : forall src, clean src -> delivered src = (data_of src, false).
Proof. exact delivered_all. Qed.
Print Assumptions C14_no_loss_no_duplication.

(** The tokens a scanner delivers before the request that fails are the first tokens of the stream the
    source would have produced, whatever [more] it would still have delivered: no token is ever
    computed from truncated input. *)
Theorem C14_tokens_before_failure_are_true_tokens : forall V adj,
  (forall r k, adjustw adj r k <= k) ->
  forall fuel sc bol buf rest more, (forall c, In c rest -> c <> []) ->
  is_prefix (wtoks (before_end (wtokens V adj fuel sc bol false buf rest)))
            (ref_tokens V adj fuel sc bol (buf ++ concat rest ++ more)).
Proof. exact fault_prefix. Qed.
Print Assumptions C14_tokens_before_failure_are_true_tokens.

(** the premises are satisfiable, and the machine does stop at the failing request *)
Example C14_example :
  delivered [RData [97%N; 98%N]; REintr; REintr; RData [99%N]; RErr; RData [100%N]] = ([[97%N; 98%N]; [99%N]], true)
  /\ delivered [REintr; RData [97%N]] = delivered [RData [97%N]].
Proof. split; reflexivity. Qed.
