(** * NfaSim: the NFA that flex builds (the arrays transchar / trans1 / trans2 /
    accptnum of nfa.c, as printed by [flex -T]) with its path semantics, and the
    subset simulation of dfa.c (epsclosure + symfollowset) over bit sets of NFA
    states.  [nview] packages the simulation as a scanner automaton, so that the
    lock-step checker and the match-loop theorems apply to the NFA itself.
    Executable definitions only; proofs are in NfaProofs.v. *)
From Coq Require Import List NArith ZArith Bool.
Import ListNotations.
Require Import FlexV.Regex FlexV.Tables.
Local Open Scope N_scope.

(** transchar: SYM_EPSILON, a byte, or -k for character class k *)
Inductive nsym := NEps | NChr (b : byte) | NCcl (k : N).

(** state i of the NFA; 0 is NO_TRANSITION for [n_t1] / [n_t2] and NIL for [n_acc] *)
Record nnode := { n_sym : nsym; n_t1 : N; n_t2 : N; n_acc : N }.

Record nfa := {
  n_nodes : list nnode;            (* state i is element i-1 *)
  n_ccls : list (bool * cset);     (* class k is element k-1: cclng flag, members *)
  n_start : N                      (* scset[1] *)
}.

Definition nth1 {A} (l : list A) (i : N) : option A :=
  if i =? 0 then None else nth_error l (N.to_nat (i - 1)).

Definition node (a : nfa) (i : N) : option nnode := nth1 (n_nodes a) i.

Definition ccl_has (a : nfa) (k : N) (b : byte) : bool :=
  match nth1 (n_ccls a) k with
  | Some (ng, s) => xorb ng (cmem s b)
  | None => false
  end.

Definition sym_has (a : nfa) (s : nsym) (b : byte) : bool :=
  match s with
  | NEps => false
  | NChr c => b =? c
  | NCcl k => ccl_has a k b
  end.

Definition nonzero (l : list N) : list N := filter (fun x => negb (x =? 0)) l.

(** out-transitions of state [i] on the empty word and on byte [b] *)
Definition eps_succ (a : nfa) (i : N) : list N :=
  match node a i with
  | Some nd => match n_sym nd with NEps => nonzero [n_t1 nd; n_t2 nd] | _ => [] end
  | None => []
  end.

Definition chr_succ (a : nfa) (i : N) (b : byte) : list N :=
  match node a i with
  | Some nd => if sym_has a (n_sym nd) b then nonzero [n_t1 nd] else []
  | None => []
  end.

(** ** declarative semantics *)
Inductive Path (a : nfa) : N -> list byte -> N -> Prop :=
| P_nil s : Path a s [] s
| P_eps s s' w q : In s' (eps_succ a s) -> Path a s' w q -> Path a s w q
| P_chr s s' b w q : In s' (chr_succ a s b) -> Path a s' w q -> Path a s (b :: w) q.

(** rule [r] is accepted after [w] *)
Definition Accepts (a : nfa) (w : list byte) (r : N) : Prop :=
  r <> 0 /\ exists q nd, Path a (n_start a) w q /\ node a q = Some nd /\ n_acc nd = r.

(** ** subset simulation over bit sets (bit i = NFA state i) *)
Definition set_of (l : list N) : N := fold_left N.setbit l 0.

Definition nstates (a : nfa) : nat := length (n_nodes a).

Definition members (a : nfa) (X : N) : list N :=
  filter (N.testbit X) (map N.of_nat (seq 1 (nstates a))).

Definition expand (a : nfa) (X : N) : N :=
  N.lor X (set_of (flat_map (eps_succ a) (members a X))).

Fixpoint eclose (a : nfa) (fuel : nat) (X : N) : N :=
  match fuel with
  | O => X
  | Datatypes.S f => let X' := expand a X in if X' =? X then X else eclose a f X'
  end.

Definition closedb (a : nfa) (X : N) : bool := expand a X =? X.

Definition move (a : nfa) (X : N) (b : byte) : N :=
  set_of (flat_map (fun i => chr_succ a i b) (members a X)).

(** every state mentioned is a state of the NFA *)
Definition inrange (a : nfa) (i : N) : bool := i <=? N.of_nat (nstates a).
Definition wf_nfa (a : nfa) : bool :=
  inrange a (n_start a) && negb (n_start a =? 0) &&
  forallb (fun nd => inrange a (n_t1 nd) && inrange a (n_t2 nd)) (n_nodes a).

(** the closure of a set, or None when the fuel did not reach a fixed point *)
Definition eclosed (a : nfa) (X : N) : option N :=
  let C := eclose a (Datatypes.S (nstates a)) X in
  if closedb a C then Some C else None.

Definition nstart (a : nfa) : option N := eclosed a (set_of [n_start a]).
Definition nstep (a : nfa) (X : N) (b : byte) : option N := eclosed a (move a X b).

Fixpoint nrun (a : nfa) (w : list byte) (X : N) : option N :=
  match w with
  | [] => Some X
  | b :: t => match nstep a X b with Some X' => nrun a t X' | None => None end
  end.

(** the accepting numbers of the states of a set, and the one flex keeps (the least) *)
Definition accs (a : nfa) (X : N) : list N :=
  nonzero (flat_map (fun i => match node a i with Some nd => [n_acc nd] | None => [] end) (members a X)).

Definition least (l : list N) : N :=
  match l with
  | [] => 0
  | x :: t => fold_left N.min t x
  end.

Definition nacc (a : nfa) (X : N) : N := least (accs a X).

(** ** the NFA as a scanner automaton *)
Definition to_ist (o : option N) : ist :=
  match o with
  | None => Bad
  | Some X => if X =? 0 then Jam else St (Z.of_N X)
  end.

Definition nview_step (a : nfa) (i : ist) (b : byte) : ist :=
  match i with
  | Bad => Bad
  | Jam => Jam
  | St z => to_ist (nstep a (Z.to_N z) b)
  end.

Definition nview_acc (a : nfa) (i : ist) : option Z :=
  match i with
  | Bad => None
  | Jam => Some 0%Z
  | St z => Some (Z.of_N (nacc a (Z.to_N z)))
  end.

Definition nview (a : nfa) : view :=
  {| v_start := fun _ _ => if wf_nfa a then to_ist (nstart a) else Bad;
     v_step := nview_step a; v_acc := nview_acc a; v_stop := fstop |}.

(** ** equivalence classes (ecs.c): bytes of one class must be indistinguishable
    for every transition of the NFA *)
Definition ec_rep (ec : byte -> N) (al : list byte) (b : byte) : byte :=
  match find (fun c => ec c =? ec b) al with Some c => c | None => b end.

Definition ec_consistent (a : nfa) (ec : byte -> N) (al : list byte) : bool :=
  forallb (fun nd => forallb (fun b => Bool.eqb (sym_has a (n_sym nd) b) (sym_has a (n_sym nd) (ec_rep ec al b))) al)
          (n_nodes a).

(** ** the DFA of dfa.c before table compression, as printed by [flex -T]:
    transitions over equivalence-class numbers, one accepting number per state *)
Record dfa := {
  d_width : Z;          (* number of symbols + 1 *)
  d_trans : arr;        (* entry  s * d_width + c  = target of state s on symbol c (absent: jam) *)
  d_acc : arr;          (* entry s = accepting number of state s (absent: none) *)
  d_ec : arr            (* entry b = symbol of byte b *)
}.

Definition dstep (d : dfa) (i : ist) (b : byte) : ist :=
  match i with
  | Bad => Bad
  | Jam => Jam
  | St s =>
      match aget (d_ec d) (Z.of_N b) with
      | Some c =>
          if ((0 <? c) && (c <? d_width d))%Z then
            match aget (d_trans d) (s * d_width d + c)%Z with
            | Some t => if (0 <? t)%Z then St t else Jam
            | None => Jam
            end
          else Bad
      | None => Bad
      end
  end.

Definition dacc (d : dfa) (i : ist) : option Z :=
  match i with
  | Bad => None
  | Jam => Some 0%Z
  | St s => match aget (d_acc d) s with Some z => Some z | None => Some 0%Z end
  end.

Definition dview (d : dfa) : view :=
  {| v_start := fun sc bol => St (2 * sc + 1 + (if bol then 1 else 0))%Z;
     v_step := dstep d; v_acc := dacc d; v_stop := fstop |}.
