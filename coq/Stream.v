(** * Stream: the abstract stream machine - what the manual promises about
    yyless, yyunput, yyinput, yymore, yybegin, yy_push_state / yy_pop_state /
    yy_top_state, yysetbol, yylineno, end of input and yywrap - written over
    lists of bytes with no buffers, no refills and no tables.  Layer S.
    It is the oracle the compiled scanners' event streams are compared with. *)
From Coq Require Import List NArith ZArith Bool Lia.
Import ListNotations.
Require Import FlexV.Regex FlexV.SpecAuto FlexV.Pat FlexV.Tables FlexV.Scan FlexV.C01Proofs FlexV.Tokenize
               FlexV.GenParse.
Local Open Scope N_scope.

Inductive lessarg := LConst (k : nat) | LMinus (k : nat).

Inductive op :=
| OBegin (s : N)
| OPush (s : N)
| OPop
| OTop
| OLess (a : lessarg)
| OUnput (bs : list byte)        (* yyunput(c) for each c, in this order *)
| OInput (k : nat)               (* k calls of yyinput() *)
| OMore
| OSetBol (b : bool)
| OReturn (v : N)                (* return v; (v <> 0) - the caller calls yylex again *)
| OTerminate.

Inductive event :=
| ETok (r : N) (text : list byte) (sc : N) (line : Z) (bol : bool)
| EIn (c : option byte)          (* None: the end-of-input value *)
| ETop (s : N)
| ERet (v : N)
| EEof (sc : N)
| EFatal (kind : N)              (* 1: start-condition stack underflow *)
| EStuck.

Record sprog := {
  sp_prog : program;
  sp_acts : N -> list op;        (* by rule number; the default rule has [] (ECHO) *)
  sp_eof : N -> option (list op);(* <<EOF>> action of a start condition, None = default (terminate) *)
  sp_lineno : bool               (* %option yylineno *)
}.

Record sm := {
  s_inp : list byte;             (* unread input, pushed-back bytes first *)
  s_rest : list (list byte);     (* sources yywrap will still supply *)
  s_sc : N;
  s_stack : list N;
  s_bol : bool;
  s_line : Z;
  s_more : list byte;            (* text kept by yymore() *)
  s_done : list byte             (* ghost: the bytes consumed so far, in order (for the conservation laws) *)
}.

Definition nl_count (l : list byte) : Z := Z.of_nat (length (filter (fun b => N.eqb b 10) l)).

Definition head_len (p : program) (r : N) (k : nat) : nat :=
  match rule_of p r with
  | Some rl => match rule_kind rl with
               | TcHead n => n
               | TcTail n => k - n
               | _ => k
               end
  | None => k
  end.

Definition less_n (a : lessarg) (len : nat) : nat :=
  match a with
  | LConst k => Nat.min k len
  | LMinus k => len - k
  end.

(** result of running an action: continue scanning, leave yylex and come back, or stop for good *)
Inductive ctl := Continue | Returned | Halt.

(** one yyinput() call *)
Fixpoint input_once (fuel : nat) (st : sm) (lineno : bool) : sm * event :=
  match s_inp st with
  | c :: rest =>
      ({| s_inp := rest; s_rest := s_rest st; s_sc := s_sc st; s_stack := s_stack st;
          s_bol := N.eqb c 10;
          s_line := if lineno && N.eqb c 10 then (s_line st + 1)%Z else s_line st;
          s_more := s_more st; s_done := s_done st ++ [c] |}, EIn (Some c))
  | [] =>
      match s_rest st, fuel with
      | nxt :: more, S f =>
          input_once f {| s_inp := nxt; s_rest := more; s_sc := s_sc st; s_stack := s_stack st;
                          s_bol := true; s_line := s_line st; s_more := s_more st; s_done := s_done st |} lineno
      | _, _ =>
          (* the end of input has been reached: the (restarted) buffer is at the beginning of a line *)
          ({| s_inp := s_inp st; s_rest := s_rest st; s_sc := s_sc st; s_stack := s_stack st; s_bol := true;
              s_line := s_line st; s_more := s_more st; s_done := s_done st |}, EIn None)
      end
  end.

Fixpoint inputs (k : nat) (st : sm) (lineno : bool) : sm * list event :=
  match k with
  | O => (st, [])
  | S k' => let (st1, e) := input_once (S (length (s_rest st))) st lineno in
            let (st2, es) := inputs k' st1 lineno in (st2, e :: es)
  end.

Definition with_inp (st : sm) (i : list byte) (line : Z) (done : list byte) : sm :=
  {| s_inp := i; s_rest := s_rest st; s_sc := s_sc st; s_stack := s_stack st; s_bol := s_bol st;
     s_line := line; s_more := s_more st; s_done := done |}.
Definition with_sc (st : sm) (sc : N) (stack : list N) : sm :=
  {| s_inp := s_inp st; s_rest := s_rest st; s_sc := sc; s_stack := stack; s_bol := s_bol st;
     s_line := s_line st; s_more := s_more st; s_done := s_done st |}.
Definition with_bol (st : sm) (b : bool) : sm :=
  {| s_inp := s_inp st; s_rest := s_rest st; s_sc := s_sc st; s_stack := s_stack st; s_bol := b;
     s_line := s_line st; s_more := s_more st; s_done := s_done st |}.
Definition with_more (st : sm) (m : list byte) : sm :=
  {| s_inp := s_inp st; s_rest := s_rest st; s_sc := s_sc st; s_stack := s_stack st; s_bol := s_bol st;
     s_line := s_line st; s_more := m; s_done := s_done st |}.

(** run the operations of one action; [text] is yytext, [more] the yymore flag *)
Fixpoint exec (lineno : bool) (ops : list op) (st : sm) (text : list byte) (more : bool)
  : sm * list byte * bool * list event * ctl :=
  match ops with
  | [] => (st, text, more, [], Continue)
  | o :: rest =>
      match o with
      | OBegin s => exec lineno rest (with_sc st s (s_stack st)) text more
      | OPush s => exec lineno rest (with_sc st s (s_sc st :: s_stack st)) text more
      | OPop =>
          match s_stack st with
          | [] => (st, text, more, [EFatal 1], Halt)
          | x :: t => exec lineno rest (with_sc st x t) text more
          end
      | OTop =>
          match s_stack st with
          | [] => (* yy_top_state() on an empty stack reports the current condition *)
                  let '(st', tx, m, ev, c) := exec lineno rest st text more in (st', tx, m, ETop (s_sc st) :: ev, c)
          | x :: _ => let '(st', tx, m, ev, c) := exec lineno rest st text more in (st', tx, m, ETop x :: ev, c)
          end
      | OLess a =>
          let n := less_n a (length text) in
          let back := skipn n text in
          let line := if lineno then (s_line st - nl_count back)%Z else s_line st in
          exec lineno rest (with_inp st (back ++ s_inp st) line (firstn (length (s_done st) - length back) (s_done st)))
               (firstn n text) more
      | OUnput bs =>
          let st' := fold_left (fun s c => with_inp s (c :: s_inp s)
                                             (if lineno && N.eqb c 10 then (s_line s - 1)%Z else s_line s) (s_done s)) bs st in
          exec lineno rest st' text more
      | OInput k =>
          let (st', evs) := inputs k st lineno in
          let '(st'', tx, m, ev, c) := exec lineno rest st' text more in (st'', tx, m, evs ++ ev, c)
      | OMore => exec lineno rest st text true
      | OSetBol b => exec lineno rest (with_bol st b) text more
      | OReturn v => (st, text, more, [ERet v], Returned)
      | OTerminate => (st, text, more, [ERet 0], Halt)
      end
  end.

(** one scanning step: the events it produces, the next state, and whether the run goes on *)
Definition sm_step (sp : sprog) (st : sm) : sm * list event * bool :=
  match s_inp st with
  | [] =>
      match s_rest st with
      | nxt :: more =>
          (* yywrap supplied another source: same start condition, beginning of line;
             text kept by yymore() still prefixes the next token *)
          ({| s_inp := nxt; s_rest := more; s_sc := s_sc st; s_stack := s_stack st;
              s_bol := true; s_line := s_line st; s_more := s_more st; s_done := s_done st |}, [], true)
      | [] =>
          let ops := match sp_eof sp (s_sc st) with Some o => o | None => [OTerminate] end in
          let '(st', _, _, ev, c) := exec (sp_lineno sp) ops st [] false in
          (st', EEof (s_sc st) :: ev, match c with Halt => false | _ => true end)
      end
  | _ =>
      let p := sp_prog sp in
      let (r, k) := spec_scan (spec_start p (s_sc st) (s_bol st)) (s_inp st) in
      let h := head_len p r k in
      match h with
      | O => (st, [EStuck], false)
      | _ =>
          let tnew := firstn h (s_inp st) in
          let text := s_more st ++ tnew in
          let line := if sp_lineno sp then (s_line st + nl_count tnew)%Z else s_line st in
          let bol := bol_after (s_bol st) tnew in
          let st1 := {| s_inp := skipn h (s_inp st); s_rest := s_rest st; s_sc := s_sc st;
                        s_stack := s_stack st; s_bol := bol; s_line := line; s_more := [];
                        s_done := s_done st ++ tnew |} in
          let '(st2, text', more, ev, c) := exec (sp_lineno sp) (sp_acts sp r) st1 text false in
          (with_more st2 (if more then text' else []), ETok r text (s_sc st) line bol :: ev,
           match c with Halt => false | _ => true end)
      end
  end.

(** the machine: [fuel] bounds the number of scanning steps *)
Fixpoint sm_run (fuel : nat) (sp : sprog) (st : sm) : list event :=
  match fuel with
  | O => []
  | S f => let '(st', ev, go) := sm_step sp st in
           ev ++ (if go then sm_run f sp st' else [])
  end.

Definition sm_init (inputs : list (list byte)) : sm :=
  match inputs with
  | [] => {| s_inp := []; s_rest := []; s_sc := 1; s_stack := []; s_bol := true; s_line := 1; s_more := []; s_done := [] |}
  | i :: rest => {| s_inp := i; s_rest := rest; s_sc := 1; s_stack := []; s_bol := true; s_line := 1; s_more := []; s_done := [] |}
  end.

(** ** several scanning sessions: after yylex has returned 0 at the end of the
    input, the caller points yyin at a new source (or calls yyrestart) and calls
    yylex again: scanning continues in the unchanged start condition, at the
    beginning of a line. *)
Fixpoint sm_run_st (fuel : nat) (sp : sprog) (st : sm) : list event * sm :=
  match fuel with
  | O => ([], st)
  | S f => let '(st', ev, go) := sm_step sp st in
           if go then let (ev', st'') := sm_run_st f sp st' in (ev ++ ev', st'') else (ev, st')
  end.

Definition reopen (st : sm) (src : list (list byte)) : sm :=
  match src with
  | [] => {| s_inp := []; s_rest := []; s_sc := s_sc st; s_stack := s_stack st; s_bol := true;
             s_line := s_line st; s_more := []; s_done := s_done st |}
  | i :: rest => {| s_inp := i; s_rest := rest; s_sc := s_sc st; s_stack := s_stack st; s_bol := true;
                    s_line := s_line st; s_more := []; s_done := s_done st |}
  end.

Fixpoint sm_sessions (fuel : nat) (sp : sprog) (st : sm) (posts : list (list (list byte))) : list event :=
  let (ev, st') := sm_run_st fuel sp st in
  match posts with
  | [] => ev
  | p :: ps =>
      match s_inp st' ++ concat (s_rest st') with
      | [] => ev ++ sm_sessions fuel sp (reopen st' p) ps
      | _ => ev          (* the caller only continues after the input was exhausted *)
      end
  end.
