(** Property C13 - memory safety and release of memory (partial: the parts a model can carry). *)
From Coq Require Import List NArith ZArith Bool.
Import ListNotations.
Require Import FlexV.Regex FlexV.Tables FlexV.Scan FlexV.C01Proofs FlexV.C07Proofs FlexV.C13Proofs FlexV.Ledger FlexV.RunStack.

(** Table index ranges: for tables that pass the lock-step check, every array access of the table
    interpreter (yy_ec, yy_meta, yy_base, yy_def, yy_chk, yy_nxt, yy_NUL_trans, yy_transition, yy_accept,
    yy_acclist) is inside the emitted array and every default chain ends, for EVERY input. *)
Theorem C13_compressed_lookups_in_range : forall t al m s0 i0, check_view (cview t) al m s0 i0 = true ->
  forall w, Forall (fun b => In b al) w -> Scan.irun (cview t) w i0 <> Bad.
Proof. exact compressed_lookups_in_range. Qed.
Print Assumptions C13_compressed_lookups_in_range.

Theorem C13_full_lookups_in_range : forall t al m s0 i0, check_view (fview t) al m s0 i0 = true ->
  forall w, Forall (fun b => In b al) w -> Scan.irun (fview t) w i0 <> Bad.
Proof. exact full_lookups_in_range. Qed.
Print Assumptions C13_full_lookups_in_range.

Theorem C13_fullspd_lookups_in_range : forall t al m s0 i0, check_view (sview t) al m s0 i0 = true ->
  forall w, Forall (fun b => In b al) w -> Scan.irun (sview t) w i0 <> Bad.
Proof. exact fullspd_lookups_in_range. Qed.
Print Assumptions C13_fullspd_lookups_in_range.

Theorem C13_reject_lookups_in_range : forall t vars al m s0 i0, check_rview t vars al m s0 i0 = true ->
  forall w, Forall (fun b => In b al) w -> fold_left (cstep (r_c t)) w i0 <> Bad.
Proof. exact reject_lookups_in_range. Qed.
Print Assumptions C13_reject_lookups_in_range.

(** The start-condition stack never writes outside its array (growth by YY_START_STACK_INCR). *)
Theorem C13_state_stack_in_bounds : forall r, RInv r ->
  (rs_ptr r < length (if Nat.leb (rs_depth r) (rs_ptr r) then rs_arr r ++ repeat 0%N INCR else rs_arr r))%nat.
Proof. exact rpush_in_bounds. Qed.
Print Assumptions C13_state_stack_in_bounds.

(** An allocation trace accepted by the ledger checker hands back everything it obtained, passes only
    live pointers to yyfree / yyrealloc, and never frees twice. *)
Theorem C13_ledger_checker_sound : forall tr, ledger_ok tr = true -> Led [] tr [].
Proof. exact ledger_ok_sound. Qed.
Print Assumptions C13_ledger_checker_sound.

Example C13_ledger_example : ledger_ok [AAlloc 16; AAlloc 32; ARealloc 16 48; AFree 32; AFree 48]%N = true.
Proof. reflexivity. Qed.
Example C13_ledger_double_free : ledger_ok [AAlloc 16; AFree 16; AFree 16]%N = false.
Proof. reflexivity. Qed.
