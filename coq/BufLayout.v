(** * BufLayout: the input buffer as addresses (run-time model R4b, properties C03 and C13).
    yy_get_next_buffer() of the skeletons: the text of the unfinished token is
    moved to the start of the buffer by an ascending byte-by-byte copy, the
    buffer is doubled until at least one byte can be read, at most
    [buf_size - number_to_move - 1] (and at most YY_READ_BUF_SIZE) bytes are
    requested, what arrives is stored behind the moved text, and two
    end-of-buffer bytes are written behind that.
    [copy_fwd_spec]: the ascending copy is right although source and destination
    overlap; [refill_fits]: text, new data and the two sentinels lie inside the
    [buf_size + 2] bytes of the buffer, whatever the source delivers within the
    request; [refill_window]: the bytes from yytext_ptr to the first sentinel
    afterwards are the unfinished token followed by the new data - the step
    "buf ++ chunk" of the window machine (Window.v).
    The request sizes are compared with the max_size argument the real scanner
    passes to its input routine at every refill (harness/sched.py). *)
From Coq Require Import List Arith NArith Bool Lia.
Import ListNotations.
Require Import FlexV.Regex.

Definition EOB : byte := 0%N.

(** ** the ascending copy  for (i = 0; i < n; ++i) *(dest++) = *(source++); *)
Fixpoint set_nth (l : list byte) (i : nat) (v : byte) : list byte :=
  match l, i with
  | [], _ => []
  | _ :: t, O => v :: t
  | x :: t, S k => x :: set_nth t k v
  end.

Lemma set_nth_length l i v : length (set_nth l i v) = length l.
Proof. revert i; induction l as [|x t IH]; intros [|k]; cbn; auto. Qed.

Lemma nth_set_nth_same l i v d : i < length l -> nth i (set_nth l i v) d = v.
Proof.
  revert i; induction l as [|x t IH]; intros i H; [cbn in H; lia|].
  destruct i as [|k]; [reflexivity|]. cbn [set_nth nth]. apply IH. cbn in H. lia.
Qed.

Lemma nth_set_nth_other l i j v d : i <> j -> nth j (set_nth l i v) d = nth j l d.
Proof.
  revert i j; induction l as [|x t IH]; intros i j H; [destruct i, j; reflexivity|].
  destruct i as [|k], j as [|m]; cbn [set_nth nth]; try reflexivity; [congruence|].
  apply IH. congruence.
Qed.

Lemma nth_firstn_lt (l : list byte) n i d : i < n -> nth i (firstn n l) d = nth i l d.
Proof.
  revert n i; induction l as [|x t IH]; intros n i H; [rewrite firstn_nil; reflexivity|].
  destruct n as [|n]; [lia|]. destruct i as [|i]; [reflexivity|]. cbn [firstn nth]. apply IH. lia.
Qed.

Lemma nth_skipn_add (l : list byte) k i d : nth i (skipn k l) d = nth (k + i) l d.
Proof.
  revert l; induction k as [|k IH]; intros l; [reflexivity|].
  destruct l as [|x t]; [destruct i; reflexivity|]. cbn [skipn Nat.add nth]. apply IH.
Qed.

(** [copy_fwd m dst src n]: n steps of the loop, starting at offsets dst and src *)
Fixpoint copy_fwd (m : list byte) (dst src n : nat) : list byte :=
  match n with
  | O => m
  | S k => copy_fwd (set_nth m dst (nth src m EOB)) (S dst) (S src) k
  end.

Lemma copy_fwd_length : forall n m dst src, length (copy_fwd m dst src n) = length m.
Proof. induction n as [|k IH]; intros m dst src; cbn [copy_fwd]; [reflexivity|]. rewrite IH, set_nth_length. reflexivity. Qed.

(** positions outside [dst, dst+n) are untouched *)
Lemma copy_fwd_outside : forall n m dst src j, (j < dst \/ dst + n <= j) ->
  nth j (copy_fwd m dst src n) EOB = nth j m EOB.
Proof.
  induction n as [|k IH]; intros m dst src j H; cbn [copy_fwd]; [reflexivity|].
  rewrite IH by lia. apply nth_set_nth_other. lia.
Qed.

(** destination below source: every copied byte is the ORIGINAL byte of the source position,
    although the ranges may overlap *)
Lemma copy_fwd_spec : forall n m dst src i, dst <= src -> src + n <= length m -> i < n ->
  nth (dst + i) (copy_fwd m dst src n) EOB = nth (src + i) m EOB.
Proof.
  induction n as [|k IH]; intros m dst src i Hle Hlen Hi; [lia|].
  cbn [copy_fwd].
  destruct i as [|i].
  - rewrite !Nat.add_0_r. rewrite copy_fwd_outside by lia.
    apply nth_set_nth_same. lia.
  - replace (dst + S i) with (S dst + i) by lia. replace (src + S i) with (S src + i) by lia.
    rewrite IH; [| lia | rewrite set_nth_length; lia | lia].
    (* the source byte S src + i has not been overwritten: only position dst <= src was *)
    apply nth_set_nth_other. lia.
Qed.

(** ** the buffer *)
Record cb := {
  c_mem : list byte;      (* yy_ch_buf *)
  c_size : nat;           (* yy_buf_size: room for text; the array has c_size + 2 bytes *)
  c_nch : nat;            (* yy_n_chars *)
  c_txt : nat;            (* yytext_ptr - yy_ch_buf *)
  c_cp : nat              (* yy_c_buf_p - yy_ch_buf: just past the end-of-buffer byte that was read *)
}.

Definition CInv (b : cb) : Prop :=
  length (c_mem b) = c_size b + 2 /\ c_nch b <= c_size b /\
  c_txt b < c_cp b /\ c_cp b <= c_nch b + 1 /\
  nth (c_nch b) (c_mem b) 1%N = EOB /\ nth (S (c_nch b)) (c_mem b) 1%N = EOB.

(** the bytes between yytext_ptr and the first sentinel *)
Definition window (b : cb) : list byte := firstn (c_nch b - c_txt b) (skipn (c_txt b) (c_mem b)).

Definition number_to_move (b : cb) : nat := c_cp b - c_txt b - 1.

(** "while ( num_to_read <= 0 ) grow": doubling until something can be read *)
Fixpoint grow (fuel size ntm : nat) : nat :=
  match fuel with
  | O => size
  | S f => if Nat.ltb (ntm + 1) size then size else grow f (size * 2) ntm
  end.

Definition READ_BUF : nat := 8 * 1024.      (* YY_READ_BUF_SIZE *)

Lemma READ_BUF_pos : 1 <= READ_BUF.
Proof. unfold READ_BUF. lia. Qed.

Global Opaque READ_BUF.

(** the max_size handed to the input routine *)
Definition request (size ntm : nat) : nat := Nat.min (grow (S ntm) (Nat.max size 1) ntm - ntm - 1) READ_BUF.

Lemma grow_ge : forall fuel size ntm, size <= grow fuel size ntm.
Proof.
  induction fuel as [|f IH]; intros size ntm; cbn [grow]; [lia|].
  destruct (Nat.ltb (ntm + 1) size); [lia|]. specialize (IH (size * 2) ntm). lia.
Qed.

Lemma grow_enough : forall fuel size ntm, 1 <= size -> ntm + 2 <= size * 2 ^ fuel -> ntm + 1 < grow fuel size ntm.
Proof.
  induction fuel as [|f IH]; intros size ntm H1 H; cbn [grow].
  - cbn in H. lia.
  - destruct (Nat.ltb (ntm + 1) size) eqn:E; [apply Nat.ltb_lt in E; exact E|].
    apply IH; [lia|]. cbn [Nat.pow] in H. lia.
Qed.

Lemma pow2_gt n : n < 2 ^ n.
Proof. induction n as [|k IH]; cbn; lia. Qed.

Lemma request_positive size ntm : 1 <= request size ntm.
Proof.
  unfold request.
  assert (H : ntm + 1 < grow (S ntm) (Nat.max size 1) ntm).
  { apply grow_enough; [lia|]. pose proof (pow2_gt (S ntm)) as Hp.
    assert (1 <= Nat.max size 1) by lia.
    assert (2 ^ S ntm <= Nat.max size 1 * 2 ^ S ntm) by nia. lia. }
  pose proof READ_BUF_pos. apply Nat.min_glb; lia.
Qed.

(** one refill: [chunk] is what the input routine stored (at most the request); [junk] is whatever the rest of the
    (possibly reallocated) array holds *)
Definition refill (b : cb) (chunk junk : list byte) : cb :=
  let ntm := number_to_move b in
  let size' := grow (S ntm) (Nat.max (c_size b) 1) ntm in
  let moved := copy_fwd (c_mem b) 0 (c_txt b) ntm in
  let n' := ntm + length chunk in
  {| c_mem := firstn ntm moved ++ chunk ++ [EOB; EOB] ++ firstn (size' - n') junk;
     c_size := size'; c_nch := n'; c_txt := 0; c_cp := ntm |}.

(** everything that is written lies inside the array of c_size' + 2 bytes *)
Theorem refill_fits b chunk junk :
  length chunk <= request (c_size b) (number_to_move b) ->
  number_to_move b + length chunk + 2 <= c_size (refill b chunk junk) + 2 /\
  number_to_move b + length chunk <= c_size (refill b chunk junk).
Proof.
  intros Hc. unfold refill, request in *. cbn [c_size].
  set (ntm := number_to_move b) in *. set (g := grow (S ntm) (Nat.max (c_size b) 1) ntm) in *.
  assert (Hg : ntm + 1 < g).
  { apply grow_enough; [lia|]. pose proof (pow2_gt (S ntm)).
    assert (2 ^ S ntm <= Nat.max (c_size b) 1 * 2 ^ S ntm) by nia. lia. }
  lia.
Qed.

Lemma firstn_copy_is_window b : CInv b -> c_cp b = c_nch b + 1 ->
  firstn (number_to_move b) (copy_fwd (c_mem b) 0 (c_txt b) (number_to_move b)) = window b.
Proof.
  intros [Hlen [Hn [Ht [Hcp _]]]] Hall. unfold number_to_move, window. rewrite Hall.
  replace (c_nch b + 1 - c_txt b - 1) with (c_nch b - c_txt b) by lia.
  set (n := c_nch b - c_txt b).
  apply nth_ext with (d := EOB) (d' := EOB).
  - rewrite !firstn_length, copy_fwd_length, skipn_length. lia.
  - intros i Hi. rewrite firstn_length, copy_fwd_length in Hi.
    assert (Hin : i < n) by lia.
    rewrite !nth_firstn_lt by lia.
    pose proof (copy_fwd_spec n (c_mem b) 0 (c_txt b) i (Nat.le_0_l _)) as Hs. cbn [Nat.add] in Hs.
    rewrite Hs by (unfold n; lia). rewrite nth_skipn_add. reflexivity.
Qed.

(** R4b: after a refill that found the whole window scanned, the window is the unfinished token followed
    by the new data, the sentinels are in place and the invariant holds again *)
Theorem refill_window b chunk junk : CInv b -> c_cp b = c_nch b + 1 ->
  length chunk <= request (c_size b) (number_to_move b) ->
  c_size (refill b chunk junk) - (number_to_move b + length chunk) <= length junk ->
  window (refill b chunk junk) = window b ++ chunk /\
  nth (c_nch (refill b chunk junk)) (c_mem (refill b chunk junk)) 1%N = EOB /\
  nth (S (c_nch (refill b chunk junk))) (c_mem (refill b chunk junk)) 1%N = EOB /\
  length (c_mem (refill b chunk junk)) = c_size (refill b chunk junk) + 2.
Proof.
  intros HI Hall Hc Hj.
  pose proof (firstn_copy_is_window b HI Hall) as Hw.
  pose proof (refill_fits b chunk junk Hc) as [_ Hfit].
  unfold refill in *. cbn [c_mem c_size c_nch c_txt] in *.
  set (ntm := number_to_move b) in *.
  set (g := grow (S ntm) (Nat.max (c_size b) 1) ntm) in *.
  assert (Hwl : length (window b) = ntm).
  { rewrite <- Hw. rewrite firstn_length, copy_fwd_length.
    destruct HI as [Hlen [Hn [Ht [Hcp _]]]]. unfold ntm, number_to_move. lia. }
  rewrite Hw.
  assert (Hlen1 : length (window b ++ chunk) = ntm + length chunk) by (rewrite app_length; lia).
  repeat split.
  - unfold window at 1. cbn [c_nch c_txt c_mem skipn]. rewrite Nat.sub_0_r.
    rewrite app_assoc, <- Hlen1. rewrite firstn_app, firstn_all, Nat.sub_diag. cbn [firstn]. rewrite app_nil_r. reflexivity.
  - rewrite app_assoc, app_nth2 by lia. rewrite Hlen1, Nat.sub_diag. reflexivity.
  - rewrite app_assoc, app_nth2 by lia. rewrite Hlen1. replace (S (ntm + length chunk) - (ntm + length chunk)) with 1 by lia. reflexivity.
  - rewrite !app_length, firstn_length. cbn [length]. rewrite Hwl. lia.
Qed.

(** the request sizes of a run: [ntms] are the lengths of the unfinished token at the successive refills *)
Fixpoint requests (size : nat) (ntms : list nat) : list nat :=
  match ntms with
  | [] => []
  | ntm :: t => let size' := grow (S ntm) (Nat.max size 1) ntm in
                Nat.min (size' - ntm - 1) READ_BUF :: requests size' t
  end.
