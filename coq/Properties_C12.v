(** Property C12 - scanner instances are isolated (the part a model can carry: instances that share no state can be
    interleaved at will; that generated scanners share no state is decided on the compiled objects and under
    ThreadSanitizer, see DESIGN.md). *)
From Coq Require Import List Arith.
Import ListNotations.
Require Import FlexV.Isolation.

Theorem C12_interleaving_independent : forall (St Out : Type) (step : St -> St * Out) sched s i,
  outputs_of Out i (snd (sys_run St Out step s sched)) = snd (alone St Out step (s i) (calls_of i sched)) /\
  fst (sys_run St Out step s sched) i = fst (alone St Out step (s i) (calls_of i sched)).
Proof. exact interleaving_independent. Qed.
Print Assumptions C12_interleaving_independent.

Theorem C12_schedules_equivalent : forall (St Out : Type) (step : St -> St * Out) s sch1 sch2 i,
  calls_of i sch1 = calls_of i sch2 ->
  outputs_of Out i (snd (sys_run St Out step s sch1)) = outputs_of Out i (snd (sys_run St Out step s sch2)).
Proof. exact schedules_equivalent. Qed.
Print Assumptions C12_schedules_equivalent.

(** not vacuous: with one shared cell the per-instance outputs depend on the schedule *)
Theorem C12_shared_state_breaks_it :
  let step2 (g : nat) := (S g, g) in snd (alone nat nat step2 0 2) = [0; 1] /\ [0; 2] <> [0; 1].
Proof. exact shared_state_breaks_it. Qed.
Print Assumptions C12_shared_state_breaks_it.
