(** * Lockstep: a checker for a candidate simulation between a specification
    automaton and an arbitrary implementation automaton, and its soundness.

    The candidate relation is found by an untrusted search; [check] verifies it
    (start pair related, observations agree on every related pair, closed under
    every byte of the alphabet).  [check_sound] then gives agreement of the
    observations after EVERY input word over the alphabet. *)
From Coq Require Import List NArith PArith Bool FMapPositive Lia.
Import ListNotations.
Require Import FlexV.Regex.

Section Lockstep.
  Variables (S I : Type).
  Variable sstep : S -> byte -> S.
  Variable istep : I -> byte -> I.
  (** equivalence of specification states (e.g. "same elements") *)
  Variable seqv : S -> S -> Prop.
  Hypothesis seqv_sym : forall a b, seqv a b -> seqv b a.
  Hypothesis seqv_trans : forall a b c, seqv a b -> seqv b c -> seqv a c.
  Hypothesis sstep_compat : forall a b c, seqv a b -> seqv (sstep a c) (sstep b c).
  Variable seqb : S -> S -> bool.
  Hypothesis seqb_sound : forall a b, seqb a b = true -> seqv a b.
  (** observation agreement, invariant under [seqv] *)
  Variable ok : S -> I -> bool.
  Hypothesis ok_compat : forall a b i, seqv a b -> ok a i = ok b i.
  (** implementation states are keyed injectively by positives *)
  Variable ikey : I -> positive.
  Hypothesis ikey_inj : forall a b, ikey a = ikey b -> a = b.
  Variable alphabet : list byte.

  Definition relmap := PositiveMap.t (I * list S).

  Definition lk (m : relmap) (i : I) : list S :=
    match PositiveMap.find (ikey i) m with
    | Some (_, ss) => ss
    | None => []
    end.

  Definition check_entry (m : relmap) (e : positive * (I * list S)) : bool :=
    let '(k, (i, ss)) := e in
    Pos.eqb (ikey i) k &&
    forallb (fun s => ok s i &&
                      forallb (fun b => existsb (seqb (sstep s b)) (lk m (istep i b))) alphabet) ss.

  Definition check (m : relmap) (s0 : S) (i0 : I) : bool :=
    existsb (seqb s0) (lk m i0) && forallb (check_entry m) (PositiveMap.elements m).

  Definition srun (w : list byte) (s : S) : S := fold_left sstep w s.
  Definition irun (w : list byte) (i : I) : I := fold_left istep w i.

  Definition Inv (m : relmap) (sa : S) (i : I) : Prop :=
    exists s, In s (lk m i) /\ seqv s sa.

  Lemma lk_entry m i s : In s (lk m i) ->
    exists i' ss, In (ikey i, (i', ss)) (PositiveMap.elements m) /\ In s ss.
  Proof.
    unfold lk. destruct (PositiveMap.find (ikey i) m) as [[i' ss]|] eqn:E; [|intros []].
    intros Hin. exists i', ss. split; [|assumption].
    apply PositiveMap.elements_correct. assumption.
  Qed.

  Lemma Inv_step m : forallb (check_entry m) (PositiveMap.elements m) = true ->
    forall sa i b, In b alphabet -> Inv m sa i ->
      ok sa i = true /\ Inv m (sstep sa b) (istep i b).
  Proof.
    intros Hall sa i b Hb [s [Hin Hs]].
    destruct (lk_entry _ _ _ Hin) as [i' [ss [Hel Hss]]].
    rewrite forallb_forall in Hall. specialize (Hall _ Hel). simpl in Hall.
    apply andb_true_iff in Hall. destruct Hall as [Hk Hall].
    apply Pos.eqb_eq in Hk. apply ikey_inj in Hk. subst i'.
    rewrite forallb_forall in Hall. specialize (Hall _ Hss).
    apply andb_true_iff in Hall. destruct Hall as [Hok Hcl].
    split.
    - rewrite <- (ok_compat _ _ _ Hs). assumption.
    - rewrite forallb_forall in Hcl. specialize (Hcl _ Hb).
      apply existsb_exists in Hcl. destruct Hcl as [s' [Hin' Heq]].
      exists s'. split; [assumption|].
      apply seqb_sound in Heq. apply seqv_sym in Heq.
      eapply seqv_trans; [exact Heq|]. apply sstep_compat. assumption.
  Qed.

  Lemma Inv_ok_last m : forallb (check_entry m) (PositiveMap.elements m) = true ->
    forall sa i, Inv m sa i -> ok sa i = true.
  Proof.
    intros Hall sa i [s [Hin Hs]].
    destruct (lk_entry _ _ _ Hin) as [i' [ss [Hel Hss]]].
    rewrite forallb_forall in Hall. specialize (Hall _ Hel). simpl in Hall.
    apply andb_true_iff in Hall. destruct Hall as [Hk Hall].
    apply Pos.eqb_eq in Hk. apply ikey_inj in Hk. subst i'.
    rewrite forallb_forall in Hall. specialize (Hall _ Hss).
    apply andb_true_iff in Hall. destruct Hall as [Hok _].
    rewrite <- (ok_compat _ _ _ Hs). assumption.
  Qed.

  Theorem check_sound m s0 i0 : check m s0 i0 = true ->
    forall w, Forall (fun b => In b alphabet) w ->
      ok (srun w s0) (irun w i0) = true.
  Proof.
    unfold check. intros H. apply andb_true_iff in H. destruct H as [H0 Hall].
    assert (Hinv0 : Inv m s0 i0).
    { apply existsb_exists in H0. destruct H0 as [s [Hin Heq]].
      exists s. split; [assumption|]. apply seqv_sym. apply seqb_sound. assumption. }
    clear H0. intros w. revert s0 i0 Hinv0.
    induction w as [|b w IH]; intros s0 i0 Hinv0 Hw; simpl.
    - eapply Inv_ok_last; eassumption.
    - inversion Hw as [|? ? Hb Hw']; subst.
      apply IH; [|assumption].
      eapply Inv_step; eassumption.
  Qed.
End Lockstep.
