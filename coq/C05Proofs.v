(** * C05Proofs: which rules take part in a start condition. *)
From Coq Require Import List NArith ZArith Bool Lia.
Import ListNotations.
Require Import FlexV.Regex FlexV.SpecAuto FlexV.Pat FlexV.Tables FlexV.Scan FlexV.C01Proofs FlexV.Tokenize
               FlexV.C07Proofs FlexV.RejectTok FlexV.C06Proofs.
Local Open Scope N_scope.

Lemma number_from_In {A} (l : list A) : forall n k x,
  nth_error l k = Some x -> In (n + N.of_nat k, x) (number_from n l).
Proof.
  induction l as [|a t IH]; intros n k x H; destruct k; simpl in *; try discriminate.
  - inversion H; subst. left. f_equal. lia.
  - right. replace (n + N.pos (Pos.of_succ_nat k)) with ((n + 1) + N.of_nat k) by lia. apply IH. assumption.
Qed.

(** The candidates in condition [sc] with line-start status [bol] are exactly
    the rules the manual calls active there, plus the default rule. *)
Theorem start_state_rules p sc bol i re :
  In (i, re) (spec_start p sc bol) <->
  (exists rl, rule_of p i = Some rl /\ 1 <= i /\ active p sc bol rl = true /\ re = rule_re (p_csize p) rl) \/
  (i = N.of_nat (length (p_rules p)) + 1 /\ re = Cls (full (p_csize p))).
Proof.
  split.
  - intros Hin. pose proof (spec_start_nz p sc bol _ Hin) as Hnz. simpl in Hnz.
    apply spec_start_item in Hin. destruct Hin as [[rl [Hr [Ha He]]]|H]; [left|right; assumption].
    exists rl. repeat split; auto. lia.
  - intros [[rl [Hr [Hi [Ha He]]]]|[Hi He]]; unfold spec_start; apply in_or_app.
    + left. apply in_map_iff. exists (i, rl). split; [simpl; congruence|].
      apply filter_In. split; [|assumption]. unfold rule_of in Hr.
      replace i with (1 + N.of_nat (N.to_nat i - 1)) by lia. apply number_from_In. assumption.
    + right. left. subst. reflexivity.
Qed.

(** the documented activation rule, clause by clause *)
Theorem active_documented p sc bol rl :
  active p sc bol rl = true <->
  ((r_bol rl = true -> bol = true) /\
   (r_star rl = true \/
    (r_star rl = false /\ exists l, r_scs rl = Some l /\ memN sc l = true) \/
    (r_star rl = false /\ r_scs rl = None /\ memN sc (p_excl p) = false))).
Proof.
  unfold active. rewrite andb_true_iff. split.
  - intros [Hb Hs]. split.
    + intros H. rewrite H in Hb. assumption.
    + destruct (r_star rl); [left; reflexivity|]. right. destruct (r_scs rl) as [l|].
      * left. split; [reflexivity|]. eauto.
      * right. repeat split. apply negb_true_iff in Hs. assumption.
  - intros [Hb Hs]. split.
    + destruct (r_bol rl); [apply Hb; reflexivity|reflexivity].
    + destruct Hs as [H|[[H1 [l [H2 H3]]]|[H1 [H2 H3]]]].
      * rewrite H. reflexivity.
      * rewrite H1, H2. assumption.
      * rewrite H1, H2, H3. reflexivity.
Qed.
