(** Property C18 - scanner generation is deterministic (the part a model can carry: the transition store
    of the generator never lets the content of freshly allocated memory reach the output; byte identity of
    whole outputs is decided by differential runs under perturbed allocators, see DESIGN.md). *)
From Coq Require Import List ZArith Bool.
Import ListNotations.
Require Import FlexV.Determinism.

Theorem C18_emitted_tables_independent_of_fresh_memory : forall jn1 jc1 jn2 jc2 n ops jam tblend,
  ops_ok (fun _ => false) n ops ->
  (tblend < s_size (srun jn1 jc1 n ops))%nat ->
  emit jam (srun jn1 jc1 n ops) tblend = emit jam (srun jn2 jc2 n ops) tblend.
Proof. exact emit_independent. Qed.
Print Assumptions C18_emitted_tables_independent_of_fresh_memory.

(** the theorem is not vacuous: a sequence of operations of the permitted shape, and what would go wrong
    without the guard of gentabs() *)
Theorem C18_unguarded_emission_would_leak :
  emit_unguarded (srun (fun _ => 7%Z) (fun _ => 0%Z) 4 [SetPair 1 5 2]) 2 <> emit_unguarded (srun (fun _ => 9%Z) (fun _ => 0%Z) 4 [SetPair 1 5 2]) 2
  /\ ops_ok (fun _ => false) 4 [SetPair 1 5 2].
Proof. exact unguarded_leaks. Qed.
Print Assumptions C18_unguarded_emission_would_leak.
