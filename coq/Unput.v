(** * Unput: yyunput() on the input buffer as addresses (properties C08, C13).
    yyunput_r of the skeletons: the hold character is put back, and if the
    scan pointer is within the first two bytes of the buffer the whole content
    (yy_n_chars bytes and the two end-of-buffer bytes) is moved to the END of
    the buffer by a descending byte-by-byte copy, yy_n_chars becomes
    yy_buf_size; if there still is no room the scanner stops with
    "flex scanner push-back overflow"; otherwise the byte is stored just below
    the scan pointer.
    [copy_bwd_spec]: the descending copy is right although source and
    destination overlap; [unput_unread]: afterwards the u_unread bytes are the
    pushed byte followed by the former u_unread bytes, and the invariant of the
    buffer holds again; [unput_writes_inside]: every write lies inside the
    buf_size + 2 bytes; [unput_overflow_iff]: the fatal error is raised
    exactly when fewer than two free bytes would remain in front of the
    u_unread text.  Runs of the model are compared with compiled scanners
    (harness/props/c08.py, unput grid). *)
From Coq Require Import List Arith NArith Bool Lia.
Import ListNotations.
Require Import FlexV.Regex FlexV.BufLayout.

(** [copy_bwd m dst src n]: n steps of  *--dest = *--source  (dst, src: offsets one past the next byte) *)
Fixpoint copy_bwd (m : list byte) (dst src n : nat) : list byte :=
  match n with
  | O => m
  | S k => copy_bwd (set_nth m (dst - 1) (nth (src - 1) m EOB)) (dst - 1) (src - 1) k
  end.

Lemma copy_bwd_length : forall n m dst src, length (copy_bwd m dst src n) = length m.
Proof. induction n as [|k IH]; intros m dst src; cbn [copy_bwd]; [reflexivity|]. rewrite IH, set_nth_length. reflexivity. Qed.

Lemma copy_bwd_outside : forall n m dst src j, n <= dst -> (j < dst - n \/ dst <= j) ->
  nth j (copy_bwd m dst src n) EOB = nth j m EOB.
Proof.
  induction n as [|k IH]; intros m dst src j Hn H; cbn [copy_bwd]; [reflexivity|].
  rewrite IH by lia. apply nth_set_nth_other. lia.
Qed.

(** destination above source: every copied byte is the ORIGINAL byte of the source position *)
Lemma copy_bwd_spec : forall n m dst src i, src <= dst -> n <= src -> dst <= length m -> i < n ->
  nth (dst - 1 - i) (copy_bwd m dst src n) EOB = nth (src - 1 - i) m EOB.
Proof.
  induction n as [|k IH]; intros m dst src i Hle Hn Hlen Hi; [lia|].
  cbn [copy_bwd].
  destruct i as [|i].
  - rewrite !Nat.sub_0_r. rewrite copy_bwd_outside by lia. apply nth_set_nth_same. lia.
  - replace (dst - 1 - S i) with (dst - 1 - 1 - i) by lia. replace (src - 1 - S i) with (src - 1 - 1 - i) by lia.
    rewrite IH; [| lia | lia | rewrite set_nth_length; lia | lia].
    apply nth_set_nth_other. lia.
Qed.

Record ub := {
  u_mem : list byte;      (* yy_ch_buf *)
  u_size : nat;           (* yy_buf_size *)
  u_nch : nat;            (* yy_n_chars *)
  u_cp : nat              (* yy_c_buf_p - yy_ch_buf (hold character put back) *)
}.

Definition UInv (b : ub) : Prop :=
  length (u_mem b) = u_size b + 2 /\ u_nch b <= u_size b /\ u_cp b <= u_nch b /\
  nth (u_nch b) (u_mem b) 1%N = EOB /\ nth (S (u_nch b)) (u_mem b) 1%N = EOB.

(** the bytes from the scan pointer to the first end-of-buffer byte *)
Definition u_unread (b : ub) : list byte := firstn (u_nch b - u_cp b) (skipn (u_cp b) (u_mem b)).

Definition shift_up (b : ub) : ub :=
  let ntm := u_nch b + 2 in
  {| u_mem := copy_bwd (u_mem b) (u_size b + 2) ntm ntm;
     u_size := u_size b;
     u_nch := u_size b;
     u_cp := u_cp b + (u_size b + 2 - ntm) |}.

Definition store (b : ub) (c : byte) : ub :=
  {| u_mem := set_nth (u_mem b) (u_cp b - 1) c; u_size := u_size b; u_nch := u_nch b; u_cp := u_cp b - 1 |}.

(** [None]: "flex scanner push-back overflow" *)
Definition unput (b : ub) (c : byte) : option ub :=
  if u_cp b <? 2 then
    let b' := shift_up b in
    if u_cp b' <? 2 then None else Some (store b' c)
  else Some (store b c).

Fixpoint unputs (b : ub) (cs : list byte) : option ub :=
  match cs with
  | [] => Some b
  | c :: t => match unput b c with Some b' => unputs b' t | None => None end
  end.

Lemma nth_default_irrel (l : list byte) i d1 d2 : i < length l -> nth i l d1 = nth i l d2.
Proof. intros H. apply nth_indep. exact H. Qed.

Lemma list_eq_nth (a b : list byte) : length a = length b ->
  (forall i, i < length a -> nth i a EOB = nth i b EOB) -> a = b.
Proof.
  revert b. induction a as [|x a IH]; intros [|y b] Hl H; simpl in *; try discriminate; [reflexivity|].
  f_equal.
  - apply (H 0). lia.
  - apply IH; [lia|]. intros i Hi. apply (H (S i)). lia.
Qed.

Lemma unread_nth b i : UInv b -> i < u_nch b - u_cp b ->
  nth i (u_unread b) EOB = nth (u_cp b + i) (u_mem b) EOB.
Proof.
  intros _ Hi. unfold u_unread. rewrite nth_firstn_lt by exact Hi. apply nth_skipn_add.
Qed.

Lemma unread_length b : UInv b -> length (u_unread b) = u_nch b - u_cp b.
Proof.
  intros [Hl [Hn [Hc _]]]. unfold u_unread. rewrite firstn_length, skipn_length. lia.
Qed.

Lemma shift_up_inv b : UInv b -> UInv (shift_up b) /\ u_unread (shift_up b) = u_unread b.
Proof.
  intros Hinv. pose proof Hinv as [Hl [Hn [Hc [He1 He2]]]].
  set (ntm := u_nch b + 2).
  assert (Hcopy : forall i, i < ntm ->
            nth (u_size b + 2 - 1 - i) (u_mem (shift_up b)) EOB = nth (ntm - 1 - i) (u_mem b) EOB).
  { intros i Hi. unfold shift_up. cbn [u_mem]. apply copy_bwd_spec; subst ntm; lia. }
  assert (Hlen : length (u_mem (shift_up b)) = u_size b + 2).
  { unfold shift_up. cbn [u_mem]. rewrite copy_bwd_length. exact Hl. }
  split.
  - unfold UInv. cbn [shift_up u_size u_nch u_cp]. repeat split.
    + exact Hlen.
    + lia.
    + lia.
    + rewrite (nth_default_irrel _ _ 1%N EOB) by lia.
      specialize (Hcopy 1). replace (u_size b + 2 - 1 - 1) with (u_size b) in Hcopy by lia.
      rewrite Hcopy by (subst ntm; lia). subst ntm. replace (u_nch b + 2 - 1 - 1) with (u_nch b) by lia.
      rewrite <- He1. apply nth_default_irrel. lia.
    + rewrite (nth_default_irrel _ _ 1%N EOB) by lia.
      specialize (Hcopy 0). replace (u_size b + 2 - 1 - 0) with (S (u_size b)) in Hcopy by lia.
      rewrite Hcopy by (subst ntm; lia). subst ntm. replace (u_nch b + 2 - 1 - 0) with (S (u_nch b)) by lia.
      rewrite <- He2. apply nth_default_irrel. lia.
  - apply list_eq_nth.
    + unfold u_unread. rewrite !firstn_length, !skipn_length. cbn [shift_up u_nch u_cp u_mem u_size].
      rewrite copy_bwd_length. subst ntm. lia.
    + intros i Hi.
      assert (Hi' : i < u_nch b - u_cp b).
      { unfold u_unread in Hi. rewrite firstn_length, skipn_length in Hi. cbn [shift_up u_nch u_cp u_mem u_size] in Hi.
        rewrite copy_bwd_length in Hi. subst ntm. lia. }
      unfold u_unread at 1. rewrite nth_firstn_lt by (cbn [shift_up u_nch u_cp]; subst ntm; lia).
      rewrite nth_skipn_add. rewrite unread_nth by assumption.
      cbn [shift_up u_cp].
      specialize (Hcopy (u_nch b + 1 - u_cp b - i)).
      replace (u_size b + 2 - 1 - (u_nch b + 1 - u_cp b - i)) with (u_cp b + (u_size b + 2 - ntm) + i) in Hcopy by (subst ntm; lia).
      subst ntm. rewrite Hcopy by lia. f_equal. lia.
Qed.

Lemma store_inv b c : UInv b -> 1 <= u_cp b -> UInv (store b c) /\ u_unread (store b c) = c :: u_unread b.
Proof.
  intros Hinv Hcp. pose proof Hinv as [Hl [Hn [Hc [He1 He2]]]].
  split.
  - unfold UInv. cbn [store u_mem u_size u_nch u_cp]. rewrite set_nth_length. repeat split; try lia.
    + rewrite nth_set_nth_other by lia. exact He1.
    + rewrite nth_set_nth_other by lia. exact He2.
  - apply list_eq_nth.
    + unfold u_unread. cbn [length store u_mem u_nch u_cp]. rewrite !firstn_length, !skipn_length, set_nth_length. lia.
    + intros i Hi.
      assert (Hi' : i < u_nch b - (u_cp b - 1)).
      { unfold u_unread in Hi. cbn [store u_mem u_nch u_cp] in Hi. rewrite firstn_length, skipn_length, set_nth_length in Hi. lia. }
      unfold u_unread at 1. cbn [store u_mem u_nch u_cp].
      rewrite nth_firstn_lt by exact Hi'. rewrite nth_skipn_add.
      destruct i as [|i].
      * rewrite Nat.add_0_r. cbn [nth]. apply nth_set_nth_same. lia.
      * cbn [nth]. rewrite nth_set_nth_other by lia. rewrite unread_nth by (assumption || lia). f_equal. lia.
Qed.

(** C08/R4b: a successful yyunput(c) makes c the next u_unread byte, in front of the former u_unread bytes *)
Theorem unput_unread b c b' : UInv b -> unput b c = Some b' ->
  UInv b' /\ u_unread b' = c :: u_unread b /\ u_size b' = u_size b.
Proof.
  intros Hinv H. unfold unput in H.
  destruct (u_cp b <? 2) eqn:E1.
  - destruct (shift_up_inv b Hinv) as [Hinv' Hun].
    destruct (u_cp (shift_up b) <? 2) eqn:E2; [discriminate|]. apply Nat.ltb_ge in E2.
    inversion H; subst b'. destruct (store_inv (shift_up b) c Hinv') as [Hi Hu]; [lia|].
    split; [exact Hi|]. split; [rewrite Hu, Hun; reflexivity|reflexivity].
  - apply Nat.ltb_ge in E1. inversion H; subst b'. destruct (store_inv b c Hinv) as [Hi Hu]; [lia|].
    split; [exact Hi|]. split; [exact Hu|reflexivity].
Qed.

(** the fatal error is raised exactly when less than two bytes would stay free in front of the u_unread text *)
Theorem unput_overflow_iff b c : UInv b ->
  (unput b c = None <-> u_size b + u_cp b < u_nch b + 2).
Proof.
  intros [Hl [Hn [Hc _]]]. unfold unput.
  destruct (u_cp b <? 2) eqn:E1.
  - apply Nat.ltb_lt in E1. cbn [shift_up u_cp].
    destruct (u_cp b + (u_size b + 2 - (u_nch b + 2)) <? 2) eqn:E2.
    + apply Nat.ltb_lt in E2. split; [intros _; lia|reflexivity].
    + apply Nat.ltb_ge in E2. split; [discriminate|intros H; lia].
  - apply Nat.ltb_ge in E1. split; [discriminate|intros H; lia].
Qed.

(** every store of yyunput lies inside the array *)
Theorem unput_writes_inside b c b' : UInv b -> unput b c = Some b' ->
  length (u_mem b') = u_size b + 2 /\ u_cp b' < u_size b + 2.
Proof.
  intros Hinv H. destruct (unput_unread b c b' Hinv H) as [[Hl [Hn [Hc _]]] [_ Hs]].
  rewrite Hs in *. split; [exact Hl|lia].
Qed.

(** a run of unputs: what is u_unread afterwards is the pushed bytes, last pushed first *)
Theorem unputs_unread : forall cs b b', UInv b -> unputs b cs = Some b' ->
  UInv b' /\ u_unread b' = rev cs ++ u_unread b.
Proof.
  induction cs as [|c t IH]; intros b b' Hinv H; cbn [unputs] in H.
  - inversion H; subst. split; [assumption|reflexivity].
  - destruct (unput b c) as [b1|] eqn:E; [|discriminate].
    destruct (unput_unread b c b1 Hinv E) as [Hi [Hu _]].
    destruct (IH b1 b' Hi H) as [Hi' Hu']. split; [exact Hi'|].
    rewrite Hu', Hu. cbn [rev]. rewrite <- app_assoc. reflexivity.
Qed.

Example unput_example :
  let b := {| u_mem := [120; 97; 98; 0; 0; 7; 7]%N; u_size := 5; u_nch := 3; u_cp := 1 |} in
  UInv b /\ option_map u_unread (unputs b [49; 50]%N) = Some [50; 49; 97; 98]%N /\ unputs b [49; 50; 51]%N = None.
Proof. cbv zeta. split; [unfold UInv; cbn; repeat split; lia|]. split; vm_compute; reflexivity. Qed.

(** ** in-memory buffers: yy_scan_bytes copies the bytes and appends the two end-of-buffer bytes;
    yy_scan_buffer accepts a caller's array only if it ends with them *)
Definition scan_bytes (data : list byte) : ub :=
  {| u_mem := data ++ [EOB; EOB]; u_size := length data; u_nch := length data; u_cp := 0 |}.

Definition scan_buffer (mem : list byte) : option ub :=
  let n := length mem in
  if n <? 2 then None
  else if N.eqb (nth (n - 2) mem 1%N) EOB && N.eqb (nth (n - 1) mem 1%N) EOB
       then Some {| u_mem := mem; u_size := n - 2; u_nch := n - 2; u_cp := 0 |}
       else None.

Theorem scan_bytes_inv data : UInv (scan_bytes data) /\ u_unread (scan_bytes data) = data.
Proof.
  unfold UInv, u_unread, scan_bytes. cbn [u_mem u_size u_nch u_cp]. rewrite app_length. cbn [length].
  repeat split; try lia.
  - rewrite app_nth2 by lia. rewrite Nat.sub_diag. reflexivity.
  - rewrite app_nth2 by lia. replace (S (length data) - length data) with 1 by lia. reflexivity.
  - rewrite Nat.sub_0_r. cbn [skipn]. rewrite firstn_app, Nat.sub_diag, firstn_all. cbn [firstn]. apply app_nil_r.
Qed.

Theorem scan_buffer_of_scan_bytes data : scan_buffer (data ++ [EOB; EOB]) = Some (scan_bytes data).
Proof.
  unfold scan_buffer. rewrite app_length. cbn [length].
  destruct (length data + 2 <? 2) eqn:E; [apply Nat.ltb_lt in E; lia|].
  replace (length data + 2 - 2) with (length data) by lia. replace (length data + 2 - 1) with (S (length data)) by lia.
  rewrite app_nth2 by lia. rewrite Nat.sub_diag. cbn [nth].
  rewrite app_nth2 by lia. replace (S (length data) - length data) with 1 by lia. cbn [nth]. reflexivity.
Qed.

(** an array that does not end in two end-of-buffer bytes is refused *)
Theorem scan_buffer_refuses mem b : scan_buffer mem = Some b ->
  2 <= length mem /\ nth (length mem - 2) mem 1%N = EOB /\ nth (length mem - 1) mem 1%N = EOB /\ UInv b.
Proof.
  unfold scan_buffer. destruct (length mem <? 2) eqn:E; [discriminate|]. apply Nat.ltb_ge in E.
  destruct (N.eqb (nth (length mem - 2) mem 1%N) EOB) eqn:E1; [|discriminate].
  destruct (N.eqb (nth (length mem - 1) mem 1%N) EOB) eqn:E2; [|discriminate].
  apply N.eqb_eq in E1. apply N.eqb_eq in E2. cbn [andb]. intros H. inversion H; subst b.
  split; [exact E|]. split; [exact E1|]. split; [exact E2|].
  unfold UInv. cbn [u_mem u_size u_nch u_cp].
  split; [lia|]. split; [lia|]. split; [lia|]. split; [exact E1|].
  replace (S (length mem - 2)) with (length mem - 1) by lia. exact E2.
Qed.

(** right after yy_scan_bytes / yy_scan_string the buffer is full: the first yyunput already overflows *)
Theorem unput_after_scan_bytes_overflows data c : unput (scan_bytes data) c = None.
Proof.
  apply unput_overflow_iff; [apply scan_bytes_inv|]. unfold scan_bytes. cbn [u_size u_cp u_nch]. lia.
Qed.
