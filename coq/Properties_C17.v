(** Property C17 - 'rule cannot be matched' and default-rule warnings are exact. *)
From Coq Require Import List NArith PArith Bool FMapPositive.
Import ListNotations.
Require Import FlexV.Regex FlexV.SpecAuto FlexV.C01Proofs FlexV.Warn.

(** A verified closed set of specification states decides that a predicate holds after EVERY
    non-empty input from every start state ... *)
Theorem C17_closed_check_sound : forall pred, (forall a b, seqv a b -> pred a = pred b) ->
  forall starts q succ al, closed_check starts q succ al pred = true ->
  forall p s0, In (p, s0) starts ->
  forall b u, Forall (fun x => In x al) (b :: u) -> pred (SpecAuto.srun (b :: u) s0) = true.
Proof. exact closed_check_sound. Qed.
Print Assumptions C17_closed_check_sound.

(** ... in particular that a rule is never the selected one, for any start condition, line-start
    state and input: this is what justifies a 'rule cannot be matched' warning.  A rule flex does
    NOT warn about is justified by a concrete witness input on which the proved specification
    scanner selects it (C01_validator / spec_scan_selected). *)
Theorem C17_never_selected : forall starts q succ al r, closed_check starts q succ al (not_first r) = true ->
  forall p s0, In (p, s0) starts ->
  forall w k, Forall (fun x => In x al) w -> (1 <= k)%nat -> r <> 0%N ->
    (forall x, In x s0 -> fst x <> 0%N) ->
    ~ Selected s0 w r k.
Proof. exact never_selected. Qed.
Print Assumptions C17_never_selected.

Theorem C17_witness_means_selected : forall s0 w,
  (forall x, In x s0 -> fst x <> 0%N) ->
  let (r, k) := spec_scan s0 w in
  (r <> 0%N /\ Selected s0 w r k) \/ (r = 0%N /\ k = 0%nat /\ NoMatch s0 w).
Proof. exact spec_scan_selected. Qed.
Print Assumptions C17_witness_means_selected.
