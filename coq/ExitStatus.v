(** * ExitStatus: how flex folds the outcome of its own work and of the
    processes of its filter chain (m4, the header tee, the #line fixer) into the
    exit status (src/main.c flex_main(): the setjmp handler; FLEX_EXIT(n) is
    longjmp(n+1)).  Generator model G10, property C16.  The fold is modelled;
    that every stage really exits non-zero when its output is incomplete is
    checked against the real processes by the harness (write-failure injection
    on every output). *)
From Coq Require Import List Bool Arith Lia.
Import ListNotations.

Inductive child := Exited (code : nat) | Signaled.

Definition child_bad (c : child) : bool :=
  match c with Exited O => false | _ => true end.

(** the handler: [jmp] is the value delivered by longjmp, i.e. requested status + 1 *)
Fixpoint fold_children (jmp : nat) (cs : list child) : nat :=
  match cs with
  | [] => jmp
  | c :: t => fold_children (if child_bad c && Nat.leb jmp 1 then 2 else jmp) t
  end.

Definition final_status (requested : nat) (cs : list child) : nat := fold_children (S requested) cs - 1.

(** a process tree: every stage of the chain is a process that waits for the stages it forked *)
Inductive proc := Proc (own : nat) (children : list proc).

Fixpoint proc_status (p : proc) : nat :=
  match p with
  | Proc own cs => final_status own (map (fun c => Exited (proc_status c)) cs)
  end.

Fixpoint all_ok (p : proc) : bool :=
  match p with
  | Proc own cs => Nat.eqb own 0 && forallb all_ok cs
  end.

Lemma fold_children_ge1 : forall cs j, 1 <= j -> 1 <= fold_children j cs.
Proof.
  induction cs as [|c t IH]; intros j Hj; cbn [fold_children]; [exact Hj|].
  apply IH. destruct (child_bad c && Nat.leb j 1); lia.
Qed.

Lemma fold_children_1 : forall cs, fold_children 1 cs = 1 <-> forallb (fun c => negb (child_bad c)) cs = true.
Proof.
  induction cs as [|c t IH]; cbn [fold_children forallb]; [tauto|].
  destruct (child_bad c) eqn:E; cbn [andb negb Nat.leb].
  - split; [|discriminate]. intros H.
    assert (forall cs j, 2 <= j -> 2 <= fold_children j cs) as Hmono.
    { induction cs as [|c' t' IH']; intros j Hj; cbn [fold_children]; [exact Hj|].
      apply IH'. destruct (child_bad c' && Nat.leb j 1); lia. }
    specialize (Hmono t 2 (le_n 2)). lia.
  - exact IH.
Qed.

Lemma fold_children_big : forall cs j, 2 <= j -> fold_children j cs = j.
Proof.
  induction cs as [|c t IH]; intros j Hj; cbn [fold_children]; [reflexivity|].
  replace (Nat.leb j 1) with false by (symmetry; apply Nat.leb_gt; lia).
  rewrite andb_false_r. apply IH. exact Hj.
Qed.

(** flex exits 0 exactly when it asked for status 0 itself and every process it waited for exited 0 *)
Theorem final_zero_iff : forall req cs,
  final_status req cs = 0 <-> req = 0 /\ forallb (fun c => negb (child_bad c)) cs = true.
Proof.
  intros req cs. unfold final_status. destruct req as [|r].
  - rewrite <- fold_children_1. pose proof (fold_children_ge1 cs 1 (le_n 1)). split.
    + intros H0. split; [reflexivity|lia].
    + intros [_ H1]. lia.
  - rewrite fold_children_big by lia. split; [lia|]. intros [H _]. discriminate.
Qed.

(** a failure status requested by flex itself is never masked by the children *)
Theorem own_failure_kept : forall req cs, 1 <= req -> final_status req cs = req.
Proof. intros req cs H. unfold final_status. rewrite fold_children_big by lia. lia. Qed.

(** over the whole process tree: status 0 iff every stage finished its own work *)
Theorem tree_zero_iff : forall p, proc_status p = 0 <-> all_ok p = true.
Proof.
  fix IH 1. intros [own cs]. cbn [proc_status all_ok]. rewrite final_zero_iff.
  rewrite andb_true_iff, Nat.eqb_eq.
  assert (H : forallb (fun c => negb (child_bad c)) (map (fun c => Exited (proc_status c)) cs) = true <-> forallb all_ok cs = true).
  { induction cs as [|c t IHt]; cbn [map forallb]; [tauto|].
    rewrite !andb_true_iff, IHt. specialize (IH c).
    destruct (proc_status c) eqn:E; cbn [child_bad negb].
    - destruct IH as [IH1 _]. rewrite (IH1 eq_refl). tauto.
    - destruct (all_ok c); [destruct IH as [_ IH2]; specialize (IH2 eq_refl); discriminate|]. split; intros [? ?]; discriminate. }
  rewrite H. tauto.
Qed.
