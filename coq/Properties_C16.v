(** Property C16 - exit status honesty (the part a model can carry: the fold of the statuses of flex's own
    work and of its filter processes; robustness on arbitrary input files is decided by generated malformed
    inputs against a sanitizer build of flex, see DESIGN.md). *)
From Coq Require Import List Bool Arith.
Import ListNotations.
Require Import FlexV.ExitStatus.

Theorem C16_exit_zero_iff_requested_and_children_ok : forall req cs,
  final_status req cs = 0 <-> req = 0 /\ forallb (fun c => negb (child_bad c)) cs = true.
Proof. exact final_zero_iff. Qed.
Print Assumptions C16_exit_zero_iff_requested_and_children_ok.

Theorem C16_own_failure_never_masked : forall req cs, 1 <= req -> final_status req cs = req.
Proof. exact own_failure_kept. Qed.
Print Assumptions C16_own_failure_never_masked.

(** if every process of the chain waits for the processes it forked and folds their statuses like
    flex_main does, flex exits 0 iff every stage finished its own work *)
Theorem C16_process_tree_zero_iff_every_stage_ok : forall p, proc_status p = 0 <-> all_ok p = true.
Proof. exact tree_zero_iff. Qed.
Print Assumptions C16_process_tree_zero_iff_every_stage_ok.

Example C16_example :
  proc_status (Proc 0 [Proc 0 [Proc 1 []]; Proc 0 []]) = 1 /\ proc_status (Proc 0 [Proc 0 []; Proc 0 []]) = 0
  /\ final_status 0 [Exited 0; Signaled] = 1.
Proof. repeat split; reflexivity. Qed.
