(** * Scan: the match loop of the generated scanner over a list of bytes
    (end of list = the loop's buffer end; refills are the window machine's
    business), for any automaton [view].  [scan_best]: if the automaton's
    accepting numbers agree with a function [accf] of the prefix read, and a
    state in which the loop stops has no accepting continuation, the loop
    returns the longest prefix with a non-zero [accf] and that number. *)
From Coq Require Import List NArith ZArith Bool Lia.
Import ListNotations.
Require Import FlexV.Regex FlexV.Tables.

Definition accN (V : view) (i : ist) : N :=
  match v_acc V i with Some z => Z.to_N z | None => 0%N end.

Section Scan.
  Variable I : Type.
  Variable step : I -> byte -> I.
  Variable accN : I -> N.
  Variable stop : I -> bool.

  (** [n] = bytes consumed so far, [last] = (yy_act, length) of the last
      accepting state seen (the yy_last_accepting_* pair), (0,0) if none. *)
  Fixpoint gscan (i : I) (w : list byte) (n : nat) (last : N * nat) : N * nat :=
    let last' := if N.eqb (accN i) 0 then last else (accN i, n) in
    if stop i then last' else
    match w with
    | [] => last'
    | b :: w' => gscan (step i b) w' (S n) last'
    end.

  Definition girun (w : list byte) (i : I) : I := fold_left step w i.

  Variable accf : list byte -> N.
  Variable i0 : I.
  Variable A : byte -> Prop.        (* the alphabet *)

  Definition BestF (w : list byte) (res : N * nat) : Prop :=
    let (r, k) := res in
    (r = 0%N /\ k = 0 /\ forall m, m <= length w -> accf (firstn m w) = 0%N) \/
    (r <> 0%N /\ k <= length w /\ accf (firstn k w) = r /\
     forall m, k < m <= length w -> accf (firstn m w) = 0%N).

  (** the same, restricted to prefixes strictly shorter than [n] *)
  Definition BestBelow (n : nat) (w : list byte) (res : N * nat) : Prop :=
    let (r, k) := res in
    (r = 0%N /\ k = 0 /\ forall m, m < n -> accf (firstn m w) = 0%N) \/
    (r <> 0%N /\ k < n /\ k <= length w /\ accf (firstn k w) = r /\
     forall m, k < m < n -> accf (firstn m w) = 0%N).

  Hypothesis Hacc : forall u, Forall A u -> accN (girun u i0) = accf u.
  Hypothesis Hstop : forall u, stop (girun u i0) = true ->
                               forall b v, Forall A (u ++ b :: v) -> accf (u ++ b :: v) = 0%N.

  Lemma girun_app u b i : girun (u ++ [b]) i = step (girun u i) b.
  Proof. unfold girun. rewrite fold_left_app. reflexivity. Qed.

  (** one more prefix (the one of length [n]) has been looked at *)
  Lemma below_succ n w r k :
    n <= length w ->
    BestBelow n w (r, k) ->
    BestBelow (S n) w (if N.eqb (accf (firstn n w)) 0 then (r, k) else (accf (firstn n w), n)).
  Proof.
    intros Hn Hb. destruct (N.eqb (accf (firstn n w)) 0) eqn:E.
    - apply N.eqb_eq in E. destruct Hb as [(Hr & Hk & Hz)|(Hr & Hk & Hle & Ha & Hz)].
      + left. repeat split; auto. intros m Hm.
        destruct (Nat.eq_dec m n) as [->|Hne]; [assumption|apply Hz; lia].
      + right. repeat split; auto. intros m Hm.
        destruct (Nat.eq_dec m n) as [->|Hne]; [assumption|apply Hz; lia].
    - apply N.eqb_neq in E. right. repeat split; auto. intros m Hm. lia.
  Qed.

  Lemma below_all w res : BestBelow (S (length w)) w res -> BestF w res.
  Proof.
    destruct res as [r k]. intros [(Hr & Hk & Hz)|(Hr & Hk & Hle & Ha & Hz)].
    - left. repeat split; auto. intros m Hm. apply Hz. lia.
    - right. repeat split; auto. intros m Hm. apply Hz. lia.
  Qed.

  Lemma scan_best_gen : forall w pre last,
    Forall A (pre ++ w) ->
    BestBelow (length pre) (pre ++ w) last ->
    BestF (pre ++ w) (gscan (girun pre i0) w (length pre) last).
  Proof.
    induction w as [|b w IH]; intros pre [r k] HA Hb.
    - rewrite app_nil_r in *. simpl.
      assert (Hres : BestF pre (if N.eqb (accN (girun pre i0)) 0 then (r, k) else (accN (girun pre i0), length pre))).
      { apply below_all. rewrite Hacc by assumption.
        pose proof (below_succ (length pre) pre r k (Nat.le_refl _) Hb) as H.
        rewrite firstn_all in H. exact H. }
      destruct (stop (girun pre i0)); assumption.
    - cbn [gscan]. set (i := girun pre i0). set (n := length pre).
      assert (Hpre : firstn n (pre ++ b :: w) = pre).
      { unfold n. rewrite firstn_app, Nat.sub_diag, firstn_all. simpl. apply app_nil_r. }
      assert (Hb' : BestBelow (S n) (pre ++ b :: w)
                      (if N.eqb (accN i) 0 then (r, k) else (accN i, n))).
      { unfold i. rewrite Hacc by (apply Forall_app in HA; tauto).
        pose proof (below_succ n (pre ++ b :: w) r k) as H. rewrite Hpre in H.
        apply H; [rewrite app_length; unfold n; lia|assumption]. }
      destruct (stop i) eqn:Es.
      + (* the loop stops early: nothing longer can be accepted *)
        destruct (if N.eqb (accN i) 0 then (r, k) else (accN i, n)) as [r' k'].
        assert (Hext : forall m, S n <= m -> accf (firstn m (pre ++ b :: w)) = 0%N).
        { intros m Hm.
          assert (Hsplit : exists c v, firstn m (pre ++ b :: w) = pre ++ c :: v).
          { rewrite firstn_app. fold n. rewrite (firstn_all2 pre) by (fold n; lia).
            destruct (m - n) as [|d] eqn:Ed; [lia|]. simpl. eauto. }
          destruct Hsplit as [c [v Hcv]]. rewrite Hcv. apply Hstop; [assumption|].
          rewrite <- Hcv. apply Forall_forall. intros x Hx. rewrite Forall_forall in HA. apply HA.
          rewrite <- (firstn_skipn m (pre ++ b :: w)). apply in_or_app. left. assumption. }
        destruct Hb' as [(Hr & Hk & Hz)|(Hr & Hk & Hle & Ha & Hz)].
        * left. repeat split; auto. intros m Hm.
          destruct (Nat.lt_ge_cases m (S n)); [apply Hz|apply Hext]; lia.
        * right. repeat split; auto. intros m Hm.
          destruct (Nat.lt_ge_cases m (S n)); [apply Hz|apply Hext]; lia.
      + replace (pre ++ b :: w) with ((pre ++ [b]) ++ w) in * by (rewrite <- app_assoc; reflexivity).
        replace (step i b) with (girun (pre ++ [b]) i0) by (apply girun_app).
        replace (S n) with (length (pre ++ [b])) in * by (rewrite app_length; simpl; unfold n; lia).
        apply IH; assumption.
  Qed.

  Theorem scan_best w : Forall A w -> BestF w (gscan i0 w 0 (0%N, 0)).
  Proof.
    intros HA. apply (scan_best_gen w [] (0%N, 0)); [exact HA|]. simpl. left. repeat split; auto. intros m Hm. lia.
  Qed.
End Scan.

Definition scan (V : view) := gscan ist (v_step V) (accN V) (v_stop V).
Definition irun (V : view) := girun ist (v_step V).
