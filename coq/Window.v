(** * Window: the "window machine" - the control flow of refills without
    addresses.  The match loop runs over the bytes already obtained; when it
    reaches their end without having stopped, one more chunk is requested from
    the input source (as yy_get_next_buffer does) and the loop goes on; when
    the source is exhausted the best match so far is taken (EOB_ACT_LAST_MATCH).
    [wscan_eq]: for every chunking the result is the one of scanning the
    concatenation; [wscan_lazy]: a chunk is requested only while the loop has
    not stopped on everything obtained so far.  Layer R (abstract). *)
From Coq Require Import List NArith ZArith Bool Lia.
Import ListNotations.
Require Import FlexV.Regex FlexV.Tables FlexV.Scan.

Section Window.
  Variable I : Type.
  Variable step : I -> byte -> I.
  Variable accN : I -> N.
  Variable stop : I -> bool.

  Inductive sres := Done (res : N * nat) | More (i : I) (n : nat) (last : N * nat).

  (** the match loop over the bytes at hand *)
  Fixpoint scan_avail (i : I) (w : list byte) (n : nat) (last : N * nat) : sres :=
    let last' := if N.eqb (accN i) 0 then last else (accN i, n) in
    if stop i then Done last' else
    match w with
    | [] => More i n last
    | b :: w' => scan_avail (step i b) w' (S n) last'
    end.

  (** the loop with refills: returns the result and the number of chunks requested *)
  Fixpoint wscan (i : I) (avail : list byte) (rest : list (list byte)) (n : nat) (last : N * nat) : (N * nat) * nat :=
    match scan_avail i avail n last with
    | Done r => (r, 0)
    | More i' n' last' =>
        match rest with
        | [] => (if N.eqb (accN i') 0 then last' else (accN i', n'), 0)      (* end of input: last match *)
        | c :: rest' => let (r, p) := wscan i' c rest' n' last' in (r, S p)
        end
    end.

  Lemma scan_avail_app : forall w v i n last,
    gscan I step accN stop i (w ++ v) n last =
    match scan_avail i w n last with
    | Done r => r
    | More i' n' last' => gscan I step accN stop i' v n' last'
    end.
  Proof.
    induction w as [|b w IH]; intros v i n last; cbn [scan_avail app].
    - destruct (stop i) eqn:Es; [|reflexivity]. destruct v as [|c v]; cbn [gscan]; rewrite Es; reflexivity.
    - cbn [gscan]. destruct (stop i); [reflexivity|]. apply IH.
  Qed.

  (** R4a (scan level): the chunking of the input does not matter *)
  Theorem wscan_eq : forall rest avail i n last,
    fst (wscan i avail rest n last) = gscan I step accN stop i (avail ++ concat rest) n last.
  Proof.
    induction rest as [|c rest IH]; intros avail i n last; cbn [wscan concat].
    - rewrite app_nil_r. pose proof (scan_avail_app avail [] i n last) as H. rewrite app_nil_r in H. rewrite H.
      destruct (scan_avail i avail n last) as [r|i' n' last'] eqn:E; [reflexivity|].
      cbn [gscan fst]. destruct (stop i') eqn:Es; [|reflexivity].
      (* a state in which the loop stops cannot have been left through [More] *)
      exfalso. clear -E Es. revert E. generalize n last. revert i. induction avail as [|b w IHw]; intros i n0 l0 E; cbn [scan_avail] in E.
      + destruct (stop i) eqn:E2; [discriminate|]. inversion E; subst. congruence.
      + destruct (stop i); [discriminate|]. eapply IHw; eassumption.
    - rewrite scan_avail_app. destruct (scan_avail i avail n last) as [r|i' n' last']; [reflexivity|].
      specialize (IH c i' n' last'). destruct (wscan i' c rest n' last') as [r p]. cbn [fst] in *. exact IH.
  Qed.

  (** no chunk is requested once the loop has stopped on what was obtained:
      if [p] chunks were requested then on the data of any [q < p] chunks the loop had not stopped *)
  Theorem wscan_lazy : forall rest avail i n last q,
    q < snd (wscan i avail rest n last) ->
    exists i' n' last', scan_avail i (avail ++ concat (firstn q rest)) n last = More i' n' last'.
  Proof.
    induction rest as [|c rest IH]; intros avail i n last q Hq; cbn [wscan] in Hq.
    - destruct (scan_avail i avail n last); cbn in Hq; lia.
    - destruct (scan_avail i avail n last) as [r|i' n' last'] eqn:E; [cbn in Hq; lia|].
      destruct (wscan i' c rest n' last') as [r p] eqn:Ew. cbn [snd] in Hq.
      destruct q as [|q].
      + cbn [firstn concat]. rewrite app_nil_r. eauto.
      + cbn [firstn concat]. rewrite app_assoc.
        assert (Hq' : q < snd (wscan i' c rest n' last')) by (rewrite Ew; cbn; lia).
        destruct (IH c i' n' last' q Hq') as [i2 [n2 [l2 H2]]].
        exists i2, n2, l2. rewrite <- H2. rewrite <- app_assoc.
        (* scanning avail first leaves the loop in (i', n', last') *)
        clear -E. revert i n last E. induction avail as [|b w IHw]; intros i n last E; cbn [scan_avail app] in *.
        * destruct (stop i); [discriminate|]. inversion E; subst. reflexivity.
        * destruct (stop i); [discriminate|]. apply IHw. exact E.
  Qed.
End Window.

(** ** tokenising with refills: events of the window machine *)
Inductive wevent := WTok (r : N) (len : nat) | WPull (size : nat).

Section WTokens.
  Variable V : view.
  Variable adj : N -> option (bool * nat).      (* fixed trailing-context rewinds, as in [view_tokens_tc] *)

  Definition adjustw (r : N) (k : nat) : nat :=
    match adj r with
    | Some (true, n) => n
    | Some (false, n) => k - n
    | None => k
    end.

  Definition bolw (bol : bool) (text : list byte) : bool :=
    match text with [] => bol | _ => N.eqb (last text 0%N) 10 end.

  (** [buf]: bytes obtained and not yet consumed; [rest]: chunks the source will still deliver *)
  (** [eof]: the source has already reported end of input (it is asked only once) *)
  Fixpoint wtokens (fuel : nat) (sc : Z) (bol : bool) (eof : bool) (buf : list byte) (rest : list (list byte)) : list wevent :=
    match fuel with
    | O => []
    | S f =>
        match buf ++ concat rest with
        | [] => if eof then [] else [WPull 0]      (* the request that reports end of input *)
        | _ =>
            let '(res, p) := wscan ist (v_step V) (accN V) (v_stop V) (v_start V sc bol) buf rest 0 (0%N, 0) in
            let pulled := firstn p rest in
            let data := buf ++ concat pulled in
            let h := adjustw (fst res) (snd res) in
            (* a scan that ran into the end of the input asked once more and was told "end of input" *)
            let hit_end := Nat.eqb p (length rest) &&
                           (match scan_avail ist (v_step V) (accN V) (v_stop V) (v_start V sc bol) data 0 (0%N, 0) with
                            | More _ _ _ _ => true | Done _ _ => false end) in
            map (fun c => WPull (length c)) pulled ++
            (if hit_end && negb eof then [WPull 0] else []) ++
            match h with
            | O => [WTok (fst res) 0]
            | _ => WTok (fst res) h :: wtokens f sc (bolw bol (firstn h data)) (eof || hit_end) (skipn h data) (skipn p rest)
            end
        end
    end.
End WTokens.

(** ** the token stream does not depend on the chunking *)
Section WProofs.
  Variable I : Type.
  Variable step : I -> byte -> I.
  Variable accN : I -> N.
  Variable stop : I -> bool.

  Lemma gscan_bound : forall w i n last,
    snd (gscan I step accN stop i w n last) <= Nat.max (snd last) (n + length w).
  Proof.
    induction w as [|b w IH]; intros i n last; cbn [gscan].
    - destruct (N.eqb (accN i) 0); destruct (stop i); cbn; lia.
    - destruct (stop i).
      + destruct (N.eqb (accN i) 0); cbn; lia.
      + specialize (IH (step i b) (S n) (if N.eqb (accN i) 0 then last else (accN i, n))).
        destruct (N.eqb (accN i) 0); cbn [snd length] in *; lia.
  Qed.

  (** the result only depends on the chunks that were requested *)
  Lemma wscan_pulled : forall rest avail i n last,
    fst (wscan I step accN stop i avail rest n last) =
    gscan I step accN stop i (avail ++ concat (firstn (snd (wscan I step accN stop i avail rest n last)) rest)) n last.
  Proof.
    induction rest as [|c rest IH]; intros avail i n last.
    - rewrite (wscan_eq I step accN stop [] avail i n last), firstn_nil. reflexivity.
    - cbn [wscan]. destruct (scan_avail I step accN stop i avail n last) as [r|i' n' last'] eqn:E.
      + cbn [fst snd firstn concat]. rewrite app_nil_r.
        pose proof (scan_avail_app I step accN stop avail [] i n last) as H. rewrite app_nil_r, E in H. symmetry. exact H.
      + specialize (IH c i' n' last'). destruct (wscan I step accN stop i' c rest n' last') as [r p]. cbn [fst snd] in *.
        cbn [firstn concat]. rewrite app_assoc, <- app_assoc.
        rewrite (scan_avail_app I step accN stop avail (c ++ concat (firstn p rest)) i n last), E. exact IH.
  Qed.
End WProofs.

Fixpoint wtoks (l : list wevent) : list (N * nat) :=
  match l with
  | [] => []
  | WTok r h :: t => (r, h) :: wtoks t
  | WPull _ :: t => wtoks t
  end.

Lemma wtoks_app a b : wtoks (a ++ b) = wtoks a ++ wtoks b.
Proof. induction a as [|[r h|k] a IH]; simpl; auto. rewrite IH. reflexivity. Qed.

Lemma wtoks_pulls (l : list (list byte)) : wtoks (map (fun c => WPull (length c)) l) = [].
Proof. induction l; simpl; auto. Qed.

(** the reference: the same loop over the whole remaining input at once *)
Fixpoint ref_tokens (V : view) (adj : N -> option (bool * nat)) (fuel : nat) (sc : Z) (bol : bool) (w : list byte)
  : list (N * nat) :=
  match fuel with
  | O => []
  | S f =>
      match w with
      | [] => []
      | _ => let res := scan V (v_start V sc bol) w 0 (0%N, 0) in
             let h := adjustw adj (fst res) (snd res) in
             match h with
             | O => [(fst res, O)]
             | _ => (fst res, h) :: ref_tokens V adj f sc (bolw bol (firstn h w)) (skipn h w)
             end
      end
  end.

Theorem wtokens_chunking V adj : forall fuel sc bol eof buf rest,
  (forall r k, adjustw adj r k <= k) ->
  wtoks (wtokens V adj fuel sc bol eof buf rest) = ref_tokens V adj fuel sc bol (buf ++ concat rest).
Proof.
  induction fuel as [|f IH]; intros sc bol eof buf rest Hadj; [reflexivity|].
  cbn [wtokens ref_tokens].
  destruct (buf ++ concat rest) as [|x w] eqn:Ew2; [destruct eof; reflexivity|]. rewrite <- Ew2.
  pose proof (wscan_eq ist (v_step V) (accN V) (v_stop V) rest buf (v_start V sc bol) 0 (0%N, 0)) as Heq.
  pose proof (wscan_pulled ist (v_step V) (accN V) (v_stop V) rest buf (v_start V sc bol) 0 (0%N, 0)) as Hp.
  destruct (wscan ist (v_step V) (accN V) (v_stop V) (v_start V sc bol) buf rest 0 (0%N, 0)) as [res p] eqn:Ew.
  cbn [fst snd] in Heq, Hp.
  fold (scan V (v_start V sc bol) (buf ++ concat rest) 0 (0%N, 0)) in Heq. rewrite <- Heq.
  rewrite !wtoks_app, wtoks_pulls. cbn [app].
  assert (Hskip : forall (c : bool) (tl : list wevent), wtoks ((if c then [WPull 0] else []) ++ tl) = wtoks tl)
    by (intros [|] tl; reflexivity).
  rewrite <- wtoks_app, Hskip.
  destruct (adjustw adj (fst res) (snd res)) as [|h] eqn:Eh; [reflexivity|]. cbn [wtoks]. f_equal.
  pose proof (gscan_bound ist (v_step V) (accN V) (v_stop V) (buf ++ concat (firstn p rest)) (v_start V sc bol) 0 (0%N, 0)) as Hb.
  rewrite <- Hp in Hb. cbn [snd] in Hb. rewrite Nat.max_0_l, Nat.add_0_l in Hb.
  assert (Hh : S h <= length (buf ++ concat (firstn p rest))) by (specialize (Hadj (fst res) (snd res)); lia).
  assert (Hsplit : buf ++ concat rest = (buf ++ concat (firstn p rest)) ++ concat (skipn p rest))
    by (rewrite <- app_assoc, <- concat_app, firstn_skipn; reflexivity).
  rewrite IH by exact Hadj.
  set (D := buf ++ concat (firstn p rest)) in *. set (R := concat (skipn p rest)) in *.
  rewrite Hsplit. rewrite (firstn_app (S h) D R), (skipn_app (S h) D R).
  replace (S h - length D) with 0 by lia.
  change (firstn 0 R) with (@nil byte). change (skipn 0 R) with R.
  rewrite app_nil_r. reflexivity.
Qed.
