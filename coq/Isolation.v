(** * Isolation: instances that share no state can be interleaved at will (property C12).
    A system of scanner instances is a map from instance names to states; one
    step (a yylex call on one instance) changes that instance only and what it
    outputs depends on that instance's state only.  [interleaving_independent]:
    under EVERY schedule each instance produces exactly the outputs it produces
    when run alone for as many calls.  That the step of a generated reentrant
    scanner has this frame property is the object-level fact checked by the
    harness (no writable data outside the per-scanner structure; no race under
    ThreadSanitizer) - here it is the hypothesis built into [sys_step]. *)
From Coq Require Import List Arith Bool Lia.
Import ListNotations.

Section Isolation.
  Variable St : Type.           (* state of one instance: everything reached through yyscanner *)
  Variable Out : Type.          (* what one yylex call delivers *)
  Variable step : St -> St * Out.   (* one call *)

  Definition sys := nat -> St.

  Definition upd (s : sys) (i : nat) (x : St) : sys := fun j => if Nat.eqb j i then x else s j.

  (** a call on instance i *)
  Definition sys_step (s : sys) (i : nat) : sys * (nat * Out) :=
    let (x, o) := step (s i) in (upd s i x, (i, o)).

  Fixpoint sys_run (s : sys) (sched : list nat) : sys * list (nat * Out) :=
    match sched with
    | [] => (s, [])
    | i :: t => let (s1, e) := sys_step s i in
                let (s2, es) := sys_run s1 t in (s2, e :: es)
    end.

  (** the same instance alone: n calls *)
  Fixpoint alone (x : St) (n : nat) : St * list Out :=
    match n with
    | O => (x, [])
    | S k => let (x1, o) := step x in
                       let (x2, os) := alone x1 k in (x2, o :: os)
    end.

  Definition outputs_of (i : nat) (es : list (nat * Out)) : list Out :=
    map snd (filter (fun e => Nat.eqb (fst e) i) es).

  Definition calls_of (i : nat) (sched : list nat) : nat := length (filter (Nat.eqb i) sched).

  Lemma upd_same s i x : upd s i x i = x.
  Proof. unfold upd. rewrite Nat.eqb_refl. reflexivity. Qed.

  Lemma upd_other s i x j : j <> i -> upd s i x j = s j.
  Proof. intros H. unfold upd. destruct (Nat.eqb j i) eqn:E; [apply Nat.eqb_eq in E; contradiction|reflexivity]. Qed.

  Theorem interleaving_independent : forall sched s i,
    outputs_of i (snd (sys_run s sched)) = snd (alone (s i) (calls_of i sched)) /\
    fst (sys_run s sched) i = fst (alone (s i) (calls_of i sched)).
  Proof.
    induction sched as [|j t IH]; intros s i; [split; reflexivity|].
    cbn [sys_run]. unfold sys_step. destruct (step (s j)) as [x o] eqn:Ej.
    specialize (IH (upd s j x) i).
    destruct (sys_run (upd s j x) t) as [s2 es] eqn:Er. cbn [fst snd] in *.
    unfold calls_of. cbn [filter].
    destruct (Nat.eqb i j) eqn:E.
    - apply Nat.eqb_eq in E. subst j. cbn [length alone]. rewrite Ej.
      unfold outputs_of. cbn [filter fst]. rewrite Nat.eqb_refl. cbn [map snd].
      rewrite upd_same in IH.
      destruct IH as [IH1 IH2]. fold (calls_of i t).
      destruct (alone x (calls_of i t)) as [x2 os]. cbn [fst snd] in *. split; [f_equal; exact IH1|exact IH2].
    - unfold outputs_of. cbn [filter fst]. rewrite Nat.eqb_sym, E.
      apply Nat.eqb_neq in E. rewrite upd_other in IH by exact E. exact IH.
  Qed.

  (** two schedules that give every instance the same number of calls are indistinguishable per instance *)
  Corollary schedules_equivalent : forall s sch1 sch2 i, calls_of i sch1 = calls_of i sch2 ->
    outputs_of i (snd (sys_run s sch1)) = outputs_of i (snd (sys_run s sch2)).
  Proof.
    intros s sch1 sch2 i H. rewrite (proj1 (interleaving_independent sch1 s i)), (proj1 (interleaving_independent sch2 s i)), H. reflexivity.
  Qed.
End Isolation.

(** whereas one shared cell is enough to break it: two "instances" stepping a common counter *)
Example shared_state_breaks_it :
  let step2 (g : nat) := (S g, g) in
  (* instance 0 alone sees 0, 1; interleaved with instance 1 on the same cell it sees 0, 2 *)
  snd (alone nat nat step2 0 2) = [0; 1] /\ [0; 2] <> [0; 1].
Proof. split; [reflexivity|discriminate]. Qed.
