(** * RejectTok: token/event streams of scanners whose actions REJECT, for a
    small language of rejection policies; specification side and table side. *)
From Coq Require Import List NArith ZArith Bool Lia.
Import ListNotations.
Require Import FlexV.Regex FlexV.SpecAuto FlexV.Pat FlexV.Tables FlexV.Scan FlexV.C01Proofs FlexV.RScan
               FlexV.Tokenize FlexV.C07Proofs.
Local Open Scope N_scope.

Inductive policy :=
| RejNever
| RejAlways
| RejLenGt (n : nat)        (* REJECT when yyleng > n *)
| RejFirst (n : nat).       (* REJECT the first n times this rule's action runs *)

Definition counters := list (N * nat).

Fixpoint cget (c : counters) (r : N) : nat :=
  match c with
  | [] => O
  | (r', n) :: t => if N.eqb r r' then n else cget t r
  end.

Fixpoint cincr (c : counters) (r : N) : counters :=
  match c with
  | [] => [(r, 1%nat)]
  | (r', n) :: t => if N.eqb r r' then (r', S n) :: t else (r', n) :: cincr t r
  end.

Definition rejects (p : policy) (len : nat) (count : nat) : bool :=
  match p with
  | RejNever => false
  | RejAlways => true
  | RejLenGt n => Nat.ltb n len
  | RejFirst n => Nat.ltb count n
  end.

(** Walk the alternatives: each action that runs is an event; stop at the
    first action that does not reject. Returns events, counters, text length
    of the accepted alternative (0 when every alternative rejected). *)
Fixpoint walk (hl : N -> nat -> nat) (pol : N -> policy) (c : counters) (al : list (N * nat)) : list (N * nat) * counters * nat :=
  match al with
  | [] => ([], c, O)
  | (r, k) :: rest =>
      let c' := cincr c r in
      let h := hl r k in                     (* what the action sees: the head of a trailing-context rule *)
      if rejects (pol r) h (cget c r)
      then let '(ev, c2, n) := walk hl pol c' rest in ((r, h) :: ev, c2, n)
      else ([(r, h)], c', h)
  end.

(** rules treated as variable trailing context carry a head marker *)
Definition spec_start_r (p : program) (vars : list N) (sc : N) (bol : bool) : sstate :=
  spec_start p sc bol ++
  flat_map (fun ir : N * rule =>
              if memN (fst ir) vars && active p sc bol (snd ir)
              then [(fst ir + HEAD_MASK, denote (p_csize p) (r_fl (snd ir)) (r_head (snd ir)))] else [])
           (number_from 1 (p_rules p)).

Fixpoint rej_tokens (fuel : nat) (hl : N -> nat -> nat) (altf : bool -> list byte -> list (N * nat)) (pol : N -> policy)
         (c : counters) (bol : bool) (w : list byte) : list (N * nat) :=
  match fuel with
  | O => []
  | S f =>
      match w with
      | [] => []
      | _ =>
          (* alternatives of length 0 are never offered first: the default rule matches one byte *)
          let '(ev, c', n) := walk hl pol c (altf bol w) in
          match n with
          | O => ev
          | _ => ev ++ rej_tokens f hl altf pol c' (bol_after bol (firstn n w)) (skipn n w)
          end
      end
  end.

Require Import FlexV.GenParse.
Definition spec_head_len (p : program) (r : N) (k : nat) : nat :=
  match rule_of p r with
  | Some rl => match rule_kind rl with TcHead n => n | TcTail n => k - n | _ => k end
  | None => k
  end.

Definition spec_rej_tokens (fuel : nat) (p : program) (sc : N) (pol : N -> policy) (bol : bool) (w : list byte) :=
  rej_tokens fuel (spec_head_len p) (fun b u => salts (sobs_of (spec_start p sc b)) u) pol [] bol w.

Definition view_rej_tokens (fuel : nat) (t : rtab) (adj : N -> option (bool * nat)) (sc : N) (pol : N -> policy) (bol : bool) (w : list byte) :=
  rej_tokens fuel (adjust adj) (fun b u => ralts t (St (start_of (c_bol (r_c t)) (Z.of_N sc - 1) b)) u) pol [] bol w.

(** ** selection in scanners with variable trailing context (no REJECT in actions) *)
Definition racclRaw (t : rtab) (i : ist) : list N :=
  match raccl t i with Some l => map Z.to_N l | None => [] end.

Definition ralts_raw (t : rtab) (i0 : ist) (w : list byte) : list (N * nat) :=
  alts ist (cstep (r_c t)) (cstop (r_c t)) (racclRaw t) i0 w.

Fixpoint find_head (target : N) (al : list (N * nat)) : option nat :=
  match al with
  | [] => None
  | (e, k) :: rest => if N.eqb e target then Some k else find_head target rest
  end.

(** yy_find_action's loop with yy_looking_for_trail_begin: returns
    (rule, length of the whole match, length of the text given to the action). *)
Fixpoint rselect (al : list (N * nat)) : option (N * nat * nat) :=
  match al with
  | [] => None
  | (e, k) :: rest =>
      if HEAD_MASK <=? e then rselect rest
      else if TRAIL_MASK <=? e then
        match find_head (e - TRAIL_MASK + HEAD_MASK) rest with
        | Some j => Some (e - TRAIL_MASK, k, j)
        | None => None
        end
      else Some (e, k, k)
  end.

Fixpoint view_rtokens_tc (fuel : nat) (t : rtab) (adj : N -> option (bool * nat)) (sc : N) (bol : bool)
         (w : list byte) : list (N * nat) :=
  match fuel with
  | O => []
  | S f =>
      match w with
      | [] => []
      | _ =>
          match rselect (ralts_raw t (St (start_of (c_bol (r_c t)) (Z.of_N sc - 1) bol)) w) with
          | None => [(0, O)]
          | Some (r, k, j) =>
              let h := adjust adj r j in
              match h with
              | O => [(r, O)]
              | _ => (r, h) :: view_rtokens_tc f t adj sc (bol_after bol (firstn h w)) (skipn h w)
              end
          end
      end
  end.

(** ** REJECT inside rules with variable trailing context

    Table side: the find_rule loop over the raw accepting lists. An entry
    flagged YY_TRAILING_MASK starts the search for its head marker further
    down the state stack; the action is handed the text up to that marker;
    yyreject() comes back to the entry after the flagged one (yy_full_lp,
    yy_full_state, yy_full_match). *)
Fixpoint walk_raw (hl : N -> nat -> nat) (pol : N -> policy) (c : counters) (al : list (N * nat))
  : list (N * nat) * counters * nat :=
  match al with
  | [] => ([], c, O)
  | (e, k) :: rest =>
      if HEAD_MASK <=? e then walk_raw hl pol c rest
      else
        let r := if TRAIL_MASK <=? e then e - TRAIL_MASK else e in
        let oh := if TRAIL_MASK <=? e then find_head (r + HEAD_MASK) rest else Some (hl r k) in
        match oh with
        | None => ([(r, O)], c, O)       (* no head marker below: the tables are wrong (never with checked tables) *)
        | Some h =>
            let c' := cincr c r in
            if rejects (pol r) h (cget c r)
            then let '(ev, c2, n) := walk_raw hl pol c' rest in ((r, h) :: ev, c2, n)
            else ([(r, h)], c', h)
        end
  end.

Fixpoint rej_tokens_raw (fuel : nat) (hl : N -> nat -> nat) (altf : bool -> list byte -> list (N * nat)) (pol : N -> policy)
         (c : counters) (bol : bool) (w : list byte) : list (N * nat) :=
  match fuel with
  | O => []
  | S f =>
      match w with
      | [] => []
      | _ =>
          let '(ev, c', n) := walk_raw hl pol c (altf bol w) in
          match n with
          | O => ev
          | _ => ev ++ rej_tokens_raw f hl altf pol c' (bol_after bol (firstn n w)) (skipn n w)
          end
      end
  end.

Definition view_rej_tokens_tc (fuel : nat) (t : rtab) (adj : N -> option (bool * nat)) (sc : N) (pol : N -> policy) (bol : bool) (w : list byte) :=
  rej_tokens_raw fuel (adjust adj) (fun b u => ralts_raw t (St (start_of (c_bol (r_c t)) (Z.of_N sc - 1) b)) u) pol [] bol w.

(** Specification side: a validator for the events (rule, yyleng) a scanner
    printed. The alternatives are the specification's (rule, length of the
    whole match incl. trailing context) list; the text an action is handed
    must be a documented head of that match ([SplitOk]); whether the action
    rejects follows from the policy and the yyleng it saw. *)
Fixpoint rej_walk_v (p : program) (pol : N -> policy) (w : list byte) (c : counters) (al : list (N * nat))
         (evs : list (N * nat)) : option (list (N * nat) * counters * nat) :=
  match al with
  | [] => Some (evs, c, O)
  | (r, k) :: rest =>
      match evs with
      | [] => None
      | (r', h) :: evs' =>
          if N.eqb r r' && split_okb p r (firstn k w) h then
            if rejects (pol r) h (cget c r) then rej_walk_v p pol w (cincr c r) rest evs'
            else Some (evs', cincr c r, h)
          else None
      end
  end.

Fixpoint rej_validate (fuel : nat) (p : program) (sc : N) (pol : N -> policy) (c : counters) (bol : bool)
         (w : list byte) (evs : list (N * nat)) : bool :=
  match fuel with
  | O => false
  | S f =>
      match w with
      | [] => match evs with [] => true | _ => false end
      | _ =>
          match rej_walk_v p pol w c (salts (sobs_of (spec_start p sc bol)) w) evs with
          | None => false
          | Some (evs', c', n) =>
              match n with
              | O => match evs' with [] => true | _ => false end
              | _ => rej_validate f p sc pol c' (bol_after bol (firstn n w)) (skipn n w) evs'
              end
          end
      end
  end.

(** ** yylineno in scanners whose actions REJECT (property C09)

    Every event carries the line number the action must see: one plus the
    newlines of everything consumed before this token plus those of the text
    handed to this action - the text of alternatives rejected before does not
    count (it was never consumed). *)
Definition nl_count (u : list byte) : nat := length (filter (fun b => N.eqb b 10) u).

Fixpoint rej_tokens_ln (fuel : nat) (hl : N -> nat -> nat) (altf : bool -> list byte -> list (N * nat)) (pol : N -> policy)
         (c : counters) (bol : bool) (lines : nat) (w : list byte) : list (N * nat * nat) :=
  match fuel with
  | O => []
  | S f =>
      match w with
      | [] => []
      | _ =>
          let '(ev, c', n) := walk hl pol c (altf bol w) in
          let evl := map (fun rh : N * nat => (fst rh, snd rh, S (lines + nl_count (firstn (snd rh) w)))) ev in
          match n with
          | O => evl
          | _ => evl ++ rej_tokens_ln f hl altf pol c' (bol_after bol (firstn n w)) (lines + nl_count (firstn n w)) (skipn n w)
          end
      end
  end.

Definition spec_rej_tokens_ln (fuel : nat) (p : program) (sc : N) (pol : N -> policy) (bol : bool) (w : list byte) :=
  rej_tokens_ln fuel (spec_head_len p) (fun b u => salts (sobs_of (spec_start p sc b)) u) pol [] bol O w.
