(** * Regex: regular expressions over bytes, their denotation, and Antimirov
    partial derivatives.  Layer S (specification).  Definitions are executable;
    proofs are in this file because everything else depends on [pd_spec]. *)
From Coq Require Import List NArith Bool Lia.
Import ListNotations.
Local Open Scope N_scope.

Definition byte := N.

(** A character set is a bit mask: byte [b] belongs to [s] iff bit [b] is set. *)
Definition cset := N.
Definition cmem (s : cset) (b : byte) : bool := N.testbit s b.

Inductive re : Type :=
| Emp : re
| Eps : re
| Cls : cset -> re
| Cat : re -> re -> re
| Alt : re -> re -> re
| Star : re -> re.

Inductive Matches : re -> list byte -> Prop :=
| MEps : Matches Eps []
| MCls : forall s b, cmem s b = true -> Matches (Cls s) [b]
| MCat : forall a b u v, Matches a u -> Matches b v -> Matches (Cat a b) (u ++ v)
| MAltL : forall a b u, Matches a u -> Matches (Alt a b) u
| MAltR : forall a b u, Matches b u -> Matches (Alt a b) u
| MStar0 : forall a, Matches (Star a) []
| MStarS : forall a u v, Matches a u -> Matches (Star a) v -> Matches (Star a) (u ++ v).

Fixpoint re_eqb (x y : re) : bool :=
  match x, y with
  | Emp, Emp => true
  | Eps, Eps => true
  | Cls s, Cls t => N.eqb s t
  | Cat a b, Cat c d => re_eqb a c && re_eqb b d
  | Alt a b, Alt c d => re_eqb a c && re_eqb b d
  | Star a, Star c => re_eqb a c
  | _, _ => false
  end.

Fixpoint nullable (r : re) : bool :=
  match r with
  | Emp => false
  | Eps => true
  | Cls _ => false
  | Cat a b => nullable a && nullable b
  | Alt a b => nullable a || nullable b
  | Star _ => true
  end.

(** Smart concatenation: [Eps] on the left disappears (keeps derivative terms small). *)
Definition cat (a b : re) : re :=
  match a with
  | Eps => b
  | _ => Cat a b
  end.

(** Antimirov partial derivatives: the set (as a list) of terms [r'] such that
    [a :: w] is in [r] iff [w] is in some [r']. *)
Fixpoint pd (a : byte) (r : re) : list re :=
  match r with
  | Emp => []
  | Eps => []
  | Cls s => if cmem s a then [Eps] else []
  | Cat x y => map (fun x' => cat x' y) (pd a x) ++ (if nullable x then pd a y else [])
  | Alt x y => pd a x ++ pd a y
  | Star x => map (fun x' => cat x' (Star x)) (pd a x)
  end.

(** duplicate-free union (keeps the sets of terms small: without it the list
    can grow exponentially with the input length) *)
Fixpoint rdedup (l : list re) : list re :=
  match l with
  | [] => []
  | x :: t => let t' := rdedup t in if existsb (re_eqb x) t' then t' else x :: t'
  end.

Definition pd_set (a : byte) (l : list re) : list re := rdedup (flat_map (pd a) l).

Definition matchb (r : re) (w : list byte) : bool :=
  existsb nullable (fold_left (fun l a => pd_set a l) w [r]).

(** ** Proofs *)

Lemma re_eqb_eq x y : re_eqb x y = true <-> x = y.
Proof.
  revert y; induction x as [| |s|a IHa b IHb|a IHa b IHb|a IHa]; intros y; destruct y; simpl;
    try (split; [discriminate|discriminate]); try tauto.
  - rewrite N.eqb_eq. split; [intros ->; reflexivity | intros H; inversion H; reflexivity].
  - rewrite andb_true_iff, IHa, IHb. split; [intros [-> ->]; reflexivity | intros H; inversion H; auto].
  - rewrite andb_true_iff, IHa, IHb. split; [intros [-> ->]; reflexivity | intros H; inversion H; auto].
  - rewrite IHa. split; [intros ->; reflexivity | intros H; inversion H; auto].
Qed.

Lemma Matches_Emp_inv w : Matches Emp w -> False.
Proof. intros H; inversion H. Qed.
Lemma Matches_Eps_inv w : Matches Eps w -> w = [].
Proof. intros H; inversion H; reflexivity. Qed.
Lemma Matches_Cls_inv s w : Matches (Cls s) w -> exists b, w = [b] /\ cmem s b = true.
Proof. intros H; inversion H; subst; eauto. Qed.
Lemma Matches_Cat_inv a b w : Matches (Cat a b) w ->
  exists u v, w = u ++ v /\ Matches a u /\ Matches b v.
Proof. intros H; inversion H; subst; eauto. Qed.
Lemma Matches_Alt_inv a b w : Matches (Alt a b) w -> Matches a w \/ Matches b w.
Proof. intros H; inversion H; subst; auto. Qed.

Lemma nullable_spec r : nullable r = true <-> Matches r [].
Proof.
  induction r as [| |s|a IHa b IHb|a IHa b IHb|a IHa]; simpl.
  - split; [discriminate | intros H; destruct (Matches_Emp_inv _ H)].
  - split; [intros _; constructor | reflexivity].
  - split; [discriminate|]. intros H. apply Matches_Cls_inv in H. destruct H as [b [Hb _]]. discriminate.
  - rewrite andb_true_iff, IHa, IHb. split.
    + intros [Ha Hb]. change (@nil byte) with (@nil byte ++ []). constructor; assumption.
    + intros H. apply Matches_Cat_inv in H. destruct H as [u [v [Huv [Hu Hv]]]].
      symmetry in Huv. apply app_eq_nil in Huv. destruct Huv; subst; auto.
  - rewrite orb_true_iff, IHa, IHb. split.
    + intros [H|H]; [apply MAltL|apply MAltR]; assumption.
    + apply Matches_Alt_inv.
  - split; [intros _; constructor | reflexivity].
Qed.

Lemma Matches_cat a b w : Matches (cat a b) w <-> Matches (Cat a b) w.
Proof.
  destruct a; simpl; try tauto.
  split.
  - intros H. change w with ([] ++ w). constructor; [constructor | assumption].
  - intros H. apply Matches_Cat_inv in H. destruct H as [u [v [-> [Hu Hv]]]].
    apply Matches_Eps_inv in Hu. subst. assumption.
Qed.

(** A non-empty match of [Star a] starts with a non-empty match of [a]. *)
Lemma Matches_Star_cons a c w : Matches (Star a) (c :: w) ->
  exists u v, w = u ++ v /\ Matches a (c :: u) /\ Matches (Star a) v.
Proof.
  intros H. remember (Star a) as r eqn:Hr. remember (c :: w) as cw eqn:Hcw.
  revert a c w Hr Hcw.
  induction H as [| | | | | |a' u v Hu _ Hv IHv]; intros a0 c w Hr Hcw; try discriminate.
  inversion Hr; subst a'. destruct u as [|c' u].
  - simpl in Hcw. eapply IHv; eauto.
  - simpl in Hcw. inversion Hcw; subst. exists u, v. auto.
Qed.

Lemma pd_spec r : forall a w, Matches r (a :: w) <-> exists r', In r' (pd a r) /\ Matches r' w.
Proof.
  induction r as [| |s|x IHx y IHy|x IHx y IHy|x IHx]; intros a w; simpl.
  - split; [intros H; destruct (Matches_Emp_inv _ H) | intros [r' [[] _]]].
  - split; [intros H; apply Matches_Eps_inv in H; discriminate | intros [r' [[] _]]].
  - split.
    + intros H. apply Matches_Cls_inv in H. destruct H as [b [Hb Hm]]. inversion Hb; subst.
      rewrite Hm. exists Eps. split; [left; reflexivity | constructor].
    + intros [r' [Hin Hm]]. destruct (cmem s a) eqn:E; [|destruct Hin].
      destruct Hin as [<-|[]]. apply Matches_Eps_inv in Hm. subst. constructor. assumption.
  - split.
    + intros H. apply Matches_Cat_inv in H. destruct H as [u [v [Huv [Hu Hv]]]].
      destruct u as [|c u].
      * simpl in Huv. subst v. apply nullable_spec in Hu. rewrite Hu.
        apply IHy in Hv. destruct Hv as [r' [Hin Hm]]. exists r'. split; [|assumption].
        apply in_or_app. right. assumption.
      * simpl in Huv. inversion Huv; subst. apply IHx in Hu. destruct Hu as [x' [Hin Hm]].
        exists (cat x' y). split.
        -- apply in_or_app. left. apply in_map_iff. exists x'. auto.
        -- apply Matches_cat. constructor; assumption.
    + intros [r' [Hin Hm]]. apply in_app_or in Hin. destruct Hin as [Hin|Hin].
      * apply in_map_iff in Hin. destruct Hin as [x' [<- Hin]].
        apply Matches_cat in Hm. apply Matches_Cat_inv in Hm. destruct Hm as [u [v [-> [Hu Hv]]]].
        change (a :: u ++ v) with ((a :: u) ++ v). constructor; [|assumption].
        apply IHx. eauto.
      * destruct (nullable x) eqn:E; [|destruct Hin].
        change (a :: w) with ([] ++ a :: w). constructor.
        -- apply nullable_spec. assumption.
        -- apply IHy. eauto.
  - split.
    + intros H. apply Matches_Alt_inv in H. destruct H as [H|H].
      * apply IHx in H. destruct H as [r' [Hin Hm]]. exists r'. split; [apply in_or_app; auto|assumption].
      * apply IHy in H. destruct H as [r' [Hin Hm]]. exists r'. split; [apply in_or_app; auto|assumption].
    + intros [r' [Hin Hm]]. apply in_app_or in Hin. destruct Hin as [Hin|Hin].
      * apply MAltL. apply IHx. eauto.
      * apply MAltR. apply IHy. eauto.
  - split.
    + intros H. apply Matches_Star_cons in H. destruct H as [u [v [-> [Hu Hv]]]].
      apply IHx in Hu. destruct Hu as [x' [Hin Hm]]. exists (cat x' (Star x)). split.
      * apply in_map_iff. exists x'. auto.
      * apply Matches_cat. constructor; assumption.
    + intros [r' [Hin Hm]]. apply in_map_iff in Hin. destruct Hin as [x' [<- Hin]].
      apply Matches_cat in Hm. apply Matches_Cat_inv in Hm. destruct Hm as [u [v [-> [Hu Hv]]]].
      change (a :: u ++ v) with ((a :: u) ++ v). constructor; [|assumption].
      apply IHx. eauto.
Qed.

Lemma rdedup_In x l : In x (rdedup l) <-> In x l.
Proof.
  induction l as [|y t IH]; simpl; [tauto|].
  destruct (existsb (re_eqb y) (rdedup t)) eqn:E.
  - rewrite IH. split; [auto|]. intros [<-|H]; [|assumption].
    apply existsb_exists in E. destruct E as [z [Hz Heq]]. apply re_eqb_eq in Heq. subst z. apply IH. assumption.
  - simpl. rewrite IH. tauto.
Qed.

Lemma pd_set_spec l a w :
  (exists r, In r l /\ Matches r (a :: w)) <-> (exists r', In r' (pd_set a l) /\ Matches r' w).
Proof.
  unfold pd_set. split.
  - intros [r [Hin Hm]]. apply pd_spec in Hm. destruct Hm as [r' [Hin' Hm']].
    exists r'. split; [|assumption]. apply rdedup_In. apply in_flat_map. eauto.
  - intros [r' [Hin Hm]]. rewrite rdedup_In in Hin. apply in_flat_map in Hin. destruct Hin as [r [Hin Hin']].
    exists r. split; [assumption|]. apply pd_spec. eauto.
Qed.

Lemma fold_pd_spec w : forall l,
  (exists r, In r l /\ Matches r w) <->
  (exists r', In r' (fold_left (fun l a => pd_set a l) w l) /\ Matches r' []).
Proof.
  induction w as [|a w IH]; intros l; simpl.
  - tauto.
  - rewrite <- IH. apply pd_set_spec.
Qed.

Theorem matchb_spec r w : matchb r w = true <-> Matches r w.
Proof.
  unfold matchb. rewrite existsb_exists.
  transitivity (exists r', In r' (fold_left (fun l a => pd_set a l) w [r]) /\ Matches r' []).
  - split; intros [x [Hin Hn]]; exists x; (split; [assumption|]); apply nullable_spec; assumption.
  - rewrite <- fold_pd_spec. split.
    + intros [x [[<-|[]] Hm]]. assumption.
    + intros Hm. exists r. split; [left; reflexivity | assumption].
Qed.
