(** Property C02 - independence of table representation / refusal table. *)
From Coq Require Import List NArith ZArith Bool.
Import ListNotations.
Require Import FlexV.Regex FlexV.SpecAuto FlexV.Pat FlexV.Tables FlexV.Scan FlexV.C01Proofs FlexV.C02Proofs
               FlexV.GenOptions FlexV.NfaSim FlexV.NfaProofs.

(** Two table sets (compressed, -Cf, -CF, with or without classes, interactive
    or batch loop - any [view]) that both pass the lock-step check against the
    same rule set select the same rule and length on EVERY input. *)
Theorem C02_representation_independent : forall p sc bol V1 m1 V2 m2,
  check_view V1 (alphabet (p_csize p)) m1 (spec_start p sc bol) (v_start V1 (Z.of_N sc - 1) bol) = true ->
  check_view V2 (alphabet (p_csize p)) m2 (spec_start p sc bol) (v_start V2 (Z.of_N sc - 1) bol) = true ->
  forall w, Forall (fun b => (b < p_csize p)%N) w -> w <> [] ->
    scan V1 (v_start V1 (Z.of_N sc - 1) bol) w 0 (0%N, 0%nat) =
    scan V2 (v_start V2 (Z.of_N sc - 1) bol) w 0 (0%N, 0%nat).
Proof. exact repr_independent. Qed.
Print Assumptions C02_representation_independent.

(** The option-compatibility decisions of the generator model equal the
    documented table on every one of the 6144 option sets. *)
Theorem C02_refusals : forall o, model o = documented o.
Proof. exact model_documented. Qed.
Print Assumptions C02_refusals.

Theorem C02_refusals_enumeration_complete : forall o, In o all_optsets.
Proof. exact all_optsets_complete. Qed.
Print Assumptions C02_refusals_enumeration_complete.

Example C02_example_refuse : model {| o_full := true; o_fast := false; o_meta := false; o_inter := Unspec; o_lex := false;
  o_cxx := false; o_reent := false; o_bison := false; o_array := false; o_reject := true; o_vartrail := false;
  o_lineno := false |} = Refuse.
Proof. reflexivity. Qed.
Example C02_example_override : model {| o_full := false; o_fast := false; o_meta := true; o_inter := Unspec; o_lex := false;
  o_cxx := true; o_reent := false; o_bison := false; o_array := true; o_reject := false; o_vartrail := false;
  o_lineno := false |} = Accept false true.
Proof. reflexivity. Qed.

(** Equivalence classes (ecs.c, yy_ec): when no transition of the NFA tells two
    bytes of one class apart ([ec_consistent], computed on the NFA and the yy_ec
    table flex emitted), then words that agree class by class drive the subset
    construction through the same sets of NFA states: a DFA over classes loses
    nothing. *)
Theorem C02_equivalence_classes_respect_the_nfa : forall a ec al,
  ec_consistent a ec al = true ->
  forall w1 w2, Forall2 (fun b1 b2 => In b1 al /\ In b2 al /\ ec b1 = ec b2) w1 w2 ->
  forall X, nrun a w1 X = nrun a w2 X.
Proof. exact ec_consistent_run. Qed.
Print Assumptions C02_equivalence_classes_respect_the_nfa.

(** The same at the level of the token: the match loop run over the NFA selects
    the same rule and the same length for inputs that agree class by class,
    from any state of the loop and with any remembered accepting pair. *)
Theorem C02_equivalence_classes_preserve_the_token : forall a ec al,
  ec_consistent a ec al = true ->
  forall w1 w2, Forall2 (fun b1 b2 => In b1 al /\ In b2 al /\ ec b1 = ec b2) w1 w2 ->
  forall i n last, scan (nview a) i w1 n last = scan (nview a) i w2 n last.
Proof. exact ec_consistent_scan. Qed.
Print Assumptions C02_equivalence_classes_preserve_the_token.

(** Translating every byte to its class first (the yy_ec lookup of the generated
    scanner) does not change the token. *)
Theorem C02_scanning_class_representatives_is_scanning_bytes : forall a ec al,
  ec_consistent a ec al = true ->
  forall w, Forall (fun b => In b al) w ->
  forall i n last, scan (nview a) i (map (ec_rep ec al) w) n last = scan (nview a) i w n last.
Proof. exact ec_rep_scan. Qed.
Print Assumptions C02_scanning_class_representatives_is_scanning_bytes.
