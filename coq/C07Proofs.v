(** * C07Proofs: REJECT scanners - lock-step on full accepting lists and the
    order of alternatives. *)
From Coq Require Import List NArith ZArith Bool Lia Sorted FMapPositive.
Import ListNotations.
Require Import FlexV.Regex FlexV.SpecAuto FlexV.Lockstep FlexV.Pat FlexV.Tables FlexV.Scan FlexV.C01Proofs FlexV.RScan.
Local Open Scope N_scope.

Definition TRAIL_MASK : N := 8192.     (* YY_TRAILING_MASK 0x2000, from flexdef.h via SourceFacts *)
Definition HEAD_MASK : N := 16384.     (* YY_TRAILING_HEAD_MASK 0x4000 *)

(** an accepting-list entry without its "variable trailing context" flag *)
Definition norm_entry (e : N) : N :=
  if (TRAIL_MASK <=? e) && (e <? HEAD_MASK) then e - TRAIL_MASK else e.

(** the flag is present exactly on (full matches of) the rules in [vars] *)
Definition flag_ok (vars : list N) (e : N) : bool :=
  if e <? TRAIL_MASK then negb (memN e vars)
  else if e <? HEAD_MASK then memN (e - TRAIL_MASK) vars
  else memN (e - HEAD_MASK) vars.

Fixpoint listN_eqb (a b : list N) : bool :=
  match a, b with
  | [], [] => true
  | x :: a', y :: b' => N.eqb x y && listN_eqb a' b'
  | _, _ => false
  end.

Lemma listN_eqb_eq a : forall b, listN_eqb a b = true -> a = b.
Proof.
  induction a as [|x a IH]; intros [|y b]; simpl; try discriminate; [reflexivity|].
  intros H. apply andb_true_iff in H. destruct H as [H1 H2]. apply N.eqb_eq in H1. subst. f_equal. auto.
Qed.

Definition racclN (t : rtab) (i : ist) : list N :=
  match raccl t i with Some l => map (fun z => norm_entry (Z.to_N z)) l | None => [] end.

Definition ok_r (t : rtab) (vars : list N) (al : list byte) (s : sstate) (i : ist) : bool :=
  match raccl t i with
  | Some l => forallb (fun z => (0 <=? z)%Z) l &&
              listN_eqb (map (fun z => norm_entry (Z.to_N z)) l) (sobs s) &&
              forallb (fun z => flag_ok vars (Z.to_N z)) l
  | None => false
  end && (if cstop (r_c t) i then sdead al s else true).

Definition check_rview (t : rtab) (vars : list N) (al : list byte) (m : relmap sstate ist) (s0 : sstate) (i0 : ist) : bool :=
  check sstate ist sstep (cstep (r_c t)) seqb (ok_r t vars al) ikey al m s0 i0.

Lemma ok_r_compat t vars al a b i : seqv a b -> ok_r t vars al a i = ok_r t vars al b i.
Proof. intros H. unfold ok_r. rewrite (sobs_compat _ _ H), (sdead_compat al _ _ H). reflexivity. Qed.

Theorem check_rview_sound t vars al m s0 i0 : check_rview t vars al m s0 i0 = true ->
  forall w, Forall (fun b => In b al) w ->
    ok_r t vars al (SpecAuto.srun w s0) (fold_left (cstep (r_c t)) w i0) = true.
Proof.
  intros H w Hw.
  exact (check_sound sstate ist sstep (cstep (r_c t)) seqv seqv_sym seqv_trans sstep_compat
           seqb seqb_sound (ok_r t vars al) (ok_r_compat t vars al) ikey ikey_inj al m s0 i0 H w Hw).
Qed.

(** The alternatives a REJECT scanner walks through, as the tables give them. *)
Definition ralts (t : rtab) (i0 : ist) (w : list byte) : list (N * nat) :=
  alts ist (cstep (r_c t)) (cstop (r_c t)) (racclN t) i0 w.

Definition sobs_of (s0 : sstate) (u : list byte) : list N := sobs (SpecAuto.srun u s0).

Theorem reject_alternatives t vars al m s0 i0 :
  check_rview t vars al m s0 i0 = true ->
  forall w, Forall (fun b => In b al) w ->
    ralts t i0 w = salts (sobs_of s0) w.
Proof.
  intros Hck w Hw. pose proof (check_rview_sound t vars al m s0 i0 Hck) as Hok.
  unfold ralts. apply (alts_spec ist (cstep (r_c t)) (cstop (r_c t)) (racclN t) (sobs_of s0) i0 (fun b => In b al)).
  - intros u Hu. specialize (Hok u Hu). unfold ok_r in Hok. apply andb_true_iff in Hok. destruct Hok as [Hok _].
    unfold racclN, run, sobs_of. destruct (raccl t (fold_left (cstep (r_c t)) u i0)) as [l|]; [|discriminate].
    apply andb_true_iff in Hok. destruct Hok as [Hok _]. apply andb_true_iff in Hok. destruct Hok as [_ Hok].
    apply listN_eqb_eq. assumption.
  - intros u Hs b v Huv.
    assert (Hu : Forall (fun b => In b al) u) by (apply Forall_app in Huv; tauto).
    assert (Hb : In b al). { apply Forall_app in Huv. destruct Huv as [_ Hbv]. inversion Hbv; assumption. }
    specialize (Hok u Hu). unfold ok_r in Hok. apply andb_true_iff in Hok. destruct Hok as [_ Hok].
    unfold run in Hs. rewrite Hs in Hok. unfold sobs_of, SpecAuto.srun. rewrite fold_left_app.
    change (fold_left sstep (b :: v) (fold_left sstep u s0)) with (SpecAuto.srun (b :: v) (SpecAuto.srun u s0)).
    rewrite (sdead_srun al _ Hok b v Hb). reflexivity.
  - assumption.
Qed.

(** What that list is: every (rule, length) pair with the rule matching the
    prefix of that length, by decreasing length, then by rule number. *)
Theorem alternatives_complete s0 w r k :
  In (r, k) (salts (sobs_of s0) w) <-> ((k <= length w)%nat /\ rule_matches s0 r (firstn k w)).
Proof.
  rewrite salts_In. unfold sobs_of. rewrite sobs_srun. unfold rule_matches. tauto.
Qed.

Theorem alternatives_ordered s0 w : StronglySorted alt_lt (salts (sobs_of s0) w).
Proof. apply salts_sorted. intros u. apply sobs_sorted. Qed.
