(** * C04Proofs: a 7-bit scanner and an 8-bit scanner built from the same
    rules agree on 7-bit input (specification level): [denote 128 p] and
    [denote 256 p] match the same words of bytes below 128. *)
From Coq Require Import List NArith Bool Lia.
Import ListNotations.
Require Import FlexV.Regex FlexV.Pat.
Local Open Scope N_scope.

Definition low (w : list byte) : Prop := Forall (fun b => b < 128) w.

Definition sets_agree (s1 s2 : cset) : Prop := forall b, b < 128 -> cmem s1 b = cmem s2 b.

Inductive rsim : re -> re -> Prop :=
| SEmp : rsim Emp Emp
| SEps : rsim Eps Eps
| SCls : forall s1 s2, sets_agree s1 s2 -> rsim (Cls s1) (Cls s2)
| SCat : forall a1 a2 b1 b2, rsim a1 a2 -> rsim b1 b2 -> rsim (Cat a1 b1) (Cat a2 b2)
| SAlt : forall a1 a2 b1 b2, rsim a1 a2 -> rsim b1 b2 -> rsim (Alt a1 b1) (Alt a2 b2)
| SStar : forall a1 a2, rsim a1 a2 -> rsim (Star a1) (Star a2).

Lemma rsim_sym r1 r2 : rsim r1 r2 -> rsim r2 r1.
Proof.
  induction 1; constructor; auto. intros b Hb. symmetry. auto.
Qed.

Lemma low_app u v : low (u ++ v) <-> low u /\ low v.
Proof. unfold low. apply Forall_app. Qed.

Lemma rsim_matches_fwd r1 w : Matches r1 w -> forall r2, rsim r1 r2 -> low w -> Matches r2 w.
Proof.
  induction 1 as [|s b Hb|a b u v Hu IHu Hv IHv|a b u Hu IHu|a b u Hu IHu|a|a u v Hu IHu Hv IHv];
    intros r2 Hs Hl; inversion Hs; subst.
  - constructor.
  - constructor. inversion Hl; subst. rewrite <- (H0 b) by assumption. assumption.
  - apply low_app in Hl. destruct Hl. constructor; auto.
  - apply MAltL. auto.
  - apply MAltR. auto.
  - constructor.
  - apply low_app in Hl. destruct Hl. constructor; [auto|]. apply IHv; [constructor; assumption|assumption].
Qed.

Theorem rsim_matches r1 r2 w : rsim r1 r2 -> low w -> (Matches r1 w <-> Matches r2 w).
Proof.
  intros Hs Hl. split; intros H.
  - eapply rsim_matches_fwd; eauto.
  - eapply rsim_matches_fwd; eauto. apply rsim_sym. assumption.
Qed.

(** ** bit-level facts *)
Lemma full_low csize b : 128 <= csize -> b < 128 -> N.testbit (full csize) b = true.
Proof. intros Hc Hb. unfold full. apply N.ones_spec_low. lia. Qed.

Lemma agree_lor a1 a2 b1 b2 : sets_agree a1 a2 -> sets_agree b1 b2 -> sets_agree (N.lor a1 b1) (N.lor a2 b2).
Proof. intros Ha Hb x Hx. unfold cmem in *. rewrite !N.lor_spec, Ha, Hb by assumption. reflexivity. Qed.
Lemma agree_land a1 a2 b1 b2 : sets_agree a1 a2 -> sets_agree b1 b2 -> sets_agree (N.land a1 b1) (N.land a2 b2).
Proof. intros Ha Hb x Hx. unfold cmem in *. rewrite !N.land_spec, Ha, Hb by assumption. reflexivity. Qed.
Lemma agree_ldiff a1 a2 b1 b2 : sets_agree a1 a2 -> sets_agree b1 b2 -> sets_agree (N.ldiff a1 b1) (N.ldiff a2 b2).
Proof. intros Ha Hb x Hx. unfold cmem in *. rewrite !N.ldiff_spec, Ha, Hb by assumption. reflexivity. Qed.
Lemma agree_refl a : sets_agree a a.
Proof. intros x _. reflexivity. Qed.
Lemma agree_full : sets_agree (full 128) (full 256).
Proof. intros x Hx. unfold cmem. rewrite !full_low by lia. reflexivity. Qed.

Local Opaque full posix range single p_alpha char_set.

Lemma citem_agree fl it : sets_agree (citem_set 128 fl it) (citem_set 256 fl it).
Proof.
  destruct it as [c|lo hi|neg k]; cbn [citem_set].
  - apply agree_refl.
  - destruct (f_i fl && _); apply agree_refl.
  - destruct (f_i fl && ((k =? 6) || (k =? 10))); [apply agree_refl|].
    destruct neg; [|apply agree_refl]. apply agree_ldiff; [apply agree_full|apply agree_refl].
Qed.

Lemma items_agree fl items :
  sets_agree (fold_right (fun it acc => N.lor (citem_set 128 fl it) acc) 0 items)
             (fold_right (fun it acc => N.lor (citem_set 256 fl it) acc) 0 items).
Proof.
  induction items as [|it t IH]; cbn [fold_right]; [apply agree_refl|]. apply agree_lor; [apply citem_agree|assumption].
Qed.

Lemma cexpr_agree fl e : sets_agree (cexpr_set 128 fl e) (cexpr_set 256 fl e).
Proof.
  induction e as [neg items|a IHa b IHb|a IHa b IHb]; cbn [cexpr_set].
  - destruct neg.
    + apply agree_ldiff; [apply agree_full|]. apply agree_land; [apply agree_full|apply items_agree].
    + apply agree_land; [apply agree_full|apply items_agree].
  - apply agree_ldiff; assumption.
  - apply agree_lor; assumption.
Qed.

(** ** smart constructors and repetition respect similarity *)
Lemma rsim_catre a1 a2 b1 b2 : rsim a1 a2 -> rsim b1 b2 -> rsim (catre a1 b1) (catre a2 b2).
Proof.
  intros Ha Hb. inversion Ha; subst; inversion Hb; subst; simpl; try assumption; try (constructor; assumption);
    try (constructor; [constructor; assumption|constructor; assumption]).
Qed.

Lemma rsim_rep r1 r2 n : rsim r1 r2 -> rsim (rep r1 n) (rep r2 n).
Proof.
  intros H. induction n as [|n IH]; simpl; [constructor|].
  destruct n; [assumption|]. constructor; assumption.
Qed.

Lemma rsim_upto r1 r2 k : rsim r1 r2 -> rsim (upto r1 k) (upto r2 k).
Proof.
  intros H. induction k as [|k IH]; simpl; [constructor|]. constructor; [constructor|]. constructor; assumption.
Qed.

Lemma rsim_str fl bs :
  rsim (fold_right (fun c acc => catre (Cls (char_set fl c)) acc) Eps bs)
       (fold_right (fun c acc => catre (Cls (char_set fl c)) acc) Eps bs).
Proof.
  induction bs as [|c t IH]; cbn [fold_right]; [constructor|]. apply rsim_catre; [constructor; apply agree_refl|assumption].
Qed.

Theorem denote_sim p : forall fl, rsim (denote 128 fl p) (denote 256 fl p).
Proof.
  induction p as [c| |e|bs|a IHa b IHb|a IHa b IHb|a IHa|a IHa|a IHa|a IHa k|a IHa k|a IHa k m|ion ioff son soff a IHa];
    intros fl; cbn [denote].
  - constructor. apply agree_refl.
  - constructor. destruct (f_s fl); [apply agree_full|]. apply agree_ldiff; [apply agree_full|apply agree_refl].
  - constructor. apply cexpr_agree.
  - apply rsim_str.
  - constructor; auto.
  - constructor; auto.
  - constructor; auto.
  - constructor; [auto|constructor; auto].
  - constructor; [auto|constructor].
  - apply rsim_rep. auto.
  - apply rsim_catre; [apply rsim_rep; auto|constructor; auto].
  - apply rsim_catre; [apply rsim_rep; auto|apply rsim_upto; auto].
  - apply IHa.
Qed.

Theorem seven_eight_agree p fl w : low w ->
  (Matches (denote 128 fl p) w <-> Matches (denote 256 fl p) w).
Proof. intros Hl. apply rsim_matches; [apply denote_sim|assumption]. Qed.

(** a NUL byte is matched by patterns like any other byte: the matcher and the
    specification automaton make no case distinction on the byte value *)
Example nul_is_ordinary :
  matchb (denote 256 fl0 (PCat (PChar 97) (PCat (PChar 0) (PStar (PCls (CSet true [CChar 10])))))) [97; 0; 0; 98; 0] = true.
Proof. vm_compute. reflexivity. Qed.
