(** * NfaTotal: on a well-formed NFA the subset simulation is total - the closure
    iteration reaches its fixed point within the fuel it is given (at most one
    round per NFA state), so the [None] / [Bad] escape of NfaSim.v never occurs. *)
From Coq Require Import List NArith ZArith Bool Lia.
Import ListNotations.
Require Import FlexV.Regex FlexV.Tables FlexV.NfaSim FlexV.NfaProofs.
Local Open Scope N_scope.

Definition InRange (a : nfa) (X : N) : Prop :=
  forall q, N.testbit X q = true -> 1 <= q <= N.of_nat (nstates a).

Definition card (a : nfa) (X : N) : nat := length (members a X).

Lemma wf_succ_range a : wf_nfa a = true -> forall p nd, node a p = Some nd ->
  n_t1 nd <= N.of_nat (nstates a) /\ n_t2 nd <= N.of_nat (nstates a).
Proof.
  unfold wf_nfa. intros H p nd Hnd. apply andb_true_iff in H. destruct H as [_ H].
  rewrite forallb_forall in H. specialize (H nd (nth1_In _ _ _ Hnd)).
  apply andb_true_iff in H. unfold inrange in H. destruct H as [H1 H2].
  apply N.leb_le in H1. apply N.leb_le in H2. split; assumption.
Qed.

Lemma eps_succ_range a : wf_nfa a = true -> forall p q, In q (eps_succ a p) -> 1 <= q <= N.of_nat (nstates a).
Proof.
  intros Hwf p q Hin. unfold eps_succ in Hin. destruct (node a p) as [nd|] eqn:E; [|destruct Hin].
  destruct (wf_succ_range a Hwf p nd E) as [H1 H2].
  destruct (n_sym nd); try (destruct Hin; fail).
  apply nonzero_In in Hin. destruct Hin as [Hin Hnz]. simpl in Hin. destruct Hin as [<-|[<-|[]]]; lia.
Qed.

Lemma chr_succ_range a : wf_nfa a = true -> forall p b q, In q (chr_succ a p b) -> 1 <= q <= N.of_nat (nstates a).
Proof.
  intros Hwf p b q Hin. unfold chr_succ in Hin. destruct (node a p) as [nd|] eqn:E; [|destruct Hin].
  destruct (wf_succ_range a Hwf p nd E) as [H1 H2].
  destruct (sym_has a (n_sym nd) b); [|destruct Hin].
  apply nonzero_In in Hin. destruct Hin as [Hin Hnz]. simpl in Hin. destruct Hin as [<-|[]]. lia.
Qed.

Lemma expand_InRange a X : wf_nfa a = true -> InRange a X -> InRange a (expand a X).
Proof.
  intros Hwf HX q Hq. apply expand_spec in Hq. destruct Hq as [Hq|[p [_ Hin]]].
  - apply HX. exact Hq.
  - eapply eps_succ_range; eassumption.
Qed.

Lemma move_InRange a X b : wf_nfa a = true -> InRange a (move a X b).
Proof.
  intros Hwf q Hq. apply move_spec in Hq. destruct Hq as [p [_ Hin]]. eapply chr_succ_range; eassumption.
Qed.

Lemma filter_length_le {A} (f g : A -> bool) l : (forall x, f x = true -> g x = true) ->
  (length (filter f l) <= length (filter g l))%nat.
Proof.
  intros H. induction l as [|x t IH]; simpl; [lia|].
  destruct (f x) eqn:Ef.
  - rewrite (H x Ef). simpl. lia.
  - destruct (g x); simpl; lia.
Qed.

Lemma filter_length_lt {A} (f g : A -> bool) l : (forall x, f x = true -> g x = true) ->
  (exists x, In x l /\ f x = false /\ g x = true) ->
  (length (filter f l) < length (filter g l))%nat.
Proof.
  intros H [x0 [Hin [Hf Hg]]]. induction l as [|x t IH]; [destruct Hin|]. simpl.
  destruct Hin as [->|Hin].
  - rewrite Hf, Hg. simpl. pose proof (filter_length_le f g t H). lia.
  - specialize (IH Hin). destruct (f x) eqn:Ef.
    + rewrite (H x Ef). simpl. lia.
    + destruct (g x); simpl; lia.
Qed.

Lemma filter_length_all {A} (f : A -> bool) l : (length (filter f l) <= length l)%nat.
Proof. induction l as [|x t IH]; simpl; [lia|]. destruct (f x); simpl; lia. Qed.

Lemma card_le a X : (card a X <= nstates a)%nat.
Proof.
  unfold card, members. etransitivity; [apply filter_length_all|]. rewrite map_length, seq_length. lia.
Qed.

(** two sets inside the range that agree on every state of the range are equal *)
Lemma InRange_eq a X Y : InRange a X -> InRange a Y ->
  (forall q, 1 <= q <= N.of_nat (nstates a) -> N.testbit X q = N.testbit Y q) -> X = Y.
Proof.
  intros HX HY H. apply N.bits_inj. intros q.
  destruct (N.testbit X q) eqn:EX.
  - symmetry. rewrite <- (H q (HX q EX)). exact EX.
  - destruct (N.testbit Y q) eqn:EY; [|reflexivity].
    rewrite (H q (HY q EY)) in EX. congruence.
Qed.

Lemma grow_card a X Y : InRange a X -> InRange a Y ->
  (forall q, N.testbit X q = true -> N.testbit Y q = true) -> X <> Y ->
  (card a X < card a Y)%nat.
Proof.
  intros HX HY Hsub Hne. unfold card, members. apply filter_length_lt; [exact Hsub|].
  (* a state of the range in Y and not in X, found by a finite search *)
  set (l := map N.of_nat (seq 1 (nstates a))).
  destruct (existsb (fun q => negb (N.testbit X q) && N.testbit Y q) l) eqn:E.
  - apply existsb_exists in E. destruct E as [q [Hin Hq]]. apply andb_true_iff in Hq.
    destruct Hq as [H1 H2]. apply negb_true_iff in H1. exists q. tauto.
  - exfalso. apply Hne. apply (InRange_eq a X Y HX HY). intros q Hq.
    assert (Hin : In q l).
    { unfold l. apply in_map_iff. exists (N.to_nat q). split; [apply N2Nat.id|]. apply in_seq. lia. }
    destruct (N.testbit X q) eqn:EX.
    + symmetry. apply Hsub. exact EX.
    + destruct (N.testbit Y q) eqn:EY; [|reflexivity]. exfalso.
      assert (Ht : existsb (fun q => negb (N.testbit X q) && N.testbit Y q) l = true).
      { apply existsb_exists. exists q. split; [exact Hin|]. rewrite EX, EY. reflexivity. }
      congruence.
Qed.

Lemma eclose_reaches_fixed_point a : wf_nfa a = true -> forall f X, InRange a X ->
  (nstates a - card a X < f)%nat -> closedb a (eclose a f X) = true.
Proof.
  intros Hwf f. induction f as [|f IH]; intros X HX Hf; [lia|]. simpl.
  destruct (expand a X =? X) eqn:E.
  - unfold closedb. exact E.
  - apply N.eqb_neq in E. apply IH; [apply expand_InRange; assumption|].
    assert (Hlt : (card a X < card a (expand a X))%nat).
    { apply grow_card; [exact HX|apply expand_InRange; assumption| |congruence].
      intros q Hq. apply expand_spec. left. exact Hq. }
    pose proof (card_le a (expand a X)). lia.
Qed.

Lemma eclosed_total a X : wf_nfa a = true -> InRange a X -> exists C, eclosed a X = Some C /\ InRange a C.
Proof.
  intros Hwf HX. unfold eclosed.
  set (C0 := eclose a (Datatypes.S (nstates a)) X).
  assert (Hc : closedb a C0 = true).
  { apply eclose_reaches_fixed_point; [exact Hwf|exact HX|]. pose proof (card_le a X). lia. }
  rewrite Hc. exists C0. split; [reflexivity|].
  intros q Hq. destruct (eclose_sound a _ X q Hq) as [p [Hp Hpath]].
  clear - Hwf HX Hp Hpath. remember [] as w eqn:Hw. revert Hp.
  induction Hpath as [s|s s' w q Hin Hpath IH|s s' b w q Hin Hpath IH]; intros Hp.
  - apply HX. exact Hp.
  - pose proof (eps_succ_range a Hwf s s' Hin) as Hr. clear IH.
    (* every state after the first step lies in the range *)
    assert (Hgen : forall s1 w1 q1, Path a s1 w1 q1 -> w1 = [] -> 1 <= s1 <= N.of_nat (nstates a) -> 1 <= q1 <= N.of_nat (nstates a)).
    { clear - Hwf. intros s1 w1 q1 H. induction H as [s|s s' w q Hin H IH|s s' b w q Hin H IH]; intros Hw Hs.
      - exact Hs.
      - apply IH; [exact Hw|]. eapply eps_succ_range; eassumption.
      - discriminate. }
    apply (Hgen s' w q Hpath Hw Hr).
  - discriminate.
Qed.

(** ** totality *)
Theorem subset_simulation_total a : wf_nfa a = true ->
  exists X0, nstart a = Some X0 /\ InRange a X0 /\
    forall w X, InRange a X -> exists X', nrun a w X = Some X' /\ InRange a X'.
Proof.
  intros Hwf.
  assert (Hs : InRange a (set_of [n_start a])).
  { intros q Hq. apply set_of_spec in Hq. destruct Hq as [<-|[]].
    unfold wf_nfa in Hwf. apply andb_true_iff in Hwf. destruct Hwf as [Hwf _].
    apply andb_true_iff in Hwf. destruct Hwf as [H1 H2]. unfold inrange in H1.
    apply N.leb_le in H1. apply negb_true_iff in H2. apply N.eqb_neq in H2. lia. }
  destruct (eclosed_total a _ Hwf Hs) as [X0 [H0 HR0]].
  exists X0. split; [exact H0|]. split; [exact HR0|].
  intros w. induction w as [|b w IH]; intros X HX; simpl.
  - exists X. split; [reflexivity|exact HX].
  - unfold nstep. destruct (eclosed_total a (move a X b) Hwf (move_InRange a X b Hwf)) as [X1 [H1 HR1]].
    rewrite H1. apply IH. exact HR1.
Qed.
