(** * M4Quote: how user code survives the m4 pass (generator model G12, property C20).
    flex wraps every region of user code in the m4 quotes [[ ]] and rewrites the
    quote sequences the user wrote.  Two rewritings exist in the source:
    scheme A (scan.l ESCAPED_QSTART / ESCAPED_QEND, used in actions and code blocks)
      [[  ->  []][[[]][[          ]]  ->  ]]][[]]][[
    scheme B (main.c escaped_qstart / escaped_qend, used for %top blocks and section 3)
      [[  ->  ]]M4_YY_NOOP[M4_YY_NOOP[M4_YY_NOOP[[
      ]]  ->  ]]M4_YY_NOOP]M4_YY_NOOP]M4_YY_NOOP[[
    [m4] models GNU m4's scanner after changequote([[,]]) with comments off: outside
    quotes words are looked up (only M4_YY_NOOP, defined as the empty text, is
    assumed to be a macro) and [[ opens a quoted string; inside, quotes nest and
    nothing is expanded.  [user_code_verbatim_*]: for EVERY byte string the wrapped,
    escaped text expands to exactly that string and m4 is back outside quotes.
    The escape strings are read from the source on every run (SourceFacts.v);
    the m4 model is compared with the real m4 by the harness. *)
From Coq Require Import List NArith Bool Lia.
Import ListNotations.
Require Import FlexV.Regex.
Local Open Scope N_scope.

Definition LB : byte := 91.
Definition RB : byte := 93.

Definition is_word_start (a : byte) : bool :=
  (N.leb 65 a && N.leb a 90) || (N.leb 97 a && N.leb a 122) || N.eqb a 95.
Definition is_word_char (a : byte) : bool := is_word_start a || (N.leb 48 a && N.leb a 57).

(** "M4_YY_NOOP" *)
Definition NOOP : list byte := [77; 52; 95; 89; 89; 95; 78; 79; 79; 80].

Fixpoint list_eqb (x y : list byte) : bool :=
  match x, y with
  | [], [] => true
  | a :: x', b :: y' => N.eqb a b && list_eqb x' y'
  | _, _ => false
  end.

(** a word seen outside quotes: the one macro that is defined expands to nothing *)
Definition flush (w : list byte) : list byte := if list_eqb w NOOP then [] else w.

Inductive mstate := Top (w : list byte) | Q (depth : nat).

(** the output, and whether m4 ends outside quotes (otherwise: "end of file in string") *)
Fixpoint m4 (st : mstate) (inp : list byte) : list byte * bool :=
  match inp with
  | [] => match st with Top w => (flush w, true) | Q _ => ([], false) end
  | a :: t =>
      match st with
      | Q d =>
          match t with
          | b :: r =>
              if N.eqb a LB && N.eqb b LB then let (o, e) := m4 (Q (S d)) r in (LB :: LB :: o, e)
              else if N.eqb a RB && N.eqb b RB then
                     match d with
                     | O => m4 (Top []) r
                     | S d' => let (o, e) := m4 (Q d') r in (RB :: RB :: o, e)
                     end
              else let (o, e) := m4 (Q d) t in (a :: o, e)
          | [] => ([a], false)
          end
      | Top w =>
          if (match w with [] => is_word_start a | _ => is_word_char a end) then m4 (Top (w ++ [a])) t
          else
            match t with
            | b :: r =>
                if N.eqb a LB && N.eqb b LB then let (o, e) := m4 (Q O) r in (flush w ++ o, e)
                else let (o, e) := m4 (Top []) t in (flush w ++ a :: o, e)
            | [] => (flush w ++ [a], true)
            end
      end
  end.

(** flex's rewriting: its scanner takes the leftmost [[ or ]] *)
Section Escape.
  Variables QS QE : list byte.

  Fixpoint escape (u : list byte) : list byte :=
    match u with
    | [] => []
    | a :: t =>
        match t with
        | b :: r =>
            if N.eqb a LB && N.eqb b LB then QS ++ escape r
            else if N.eqb a RB && N.eqb b RB then QE ++ escape r
            else a :: escape t
        | [] => [a]
        end
    end.
End Escape.

(** the strings of the two schemes (compared with the source by SourceFacts / the harness) *)
Definition QS_A : list byte := [91; 93; 93; 91; 91; 91; 93; 93; 91; 91].          (* []][[[]][[ *)
Definition QE_A : list byte := [93; 93; 93; 91; 91; 93; 93; 93; 91; 91].          (* ]]][[]]][[ *)
Definition QS_B : list byte := [93; 93] ++ NOOP ++ [91] ++ NOOP ++ [91] ++ NOOP ++ [91; 91].
Definition QE_B : list byte := [93; 93] ++ NOOP ++ [93] ++ NOOP ++ [93] ++ NOOP ++ [91; 91].

Definition wrap (body : list byte) : list byte := LB :: LB :: body ++ [RB; RB].

Definition pre (p : list byte) (x : list byte * bool) : list byte * bool := (p ++ fst x, snd x).

Lemma pre_nil x : pre [] x = x.
Proof. destruct x; reflexivity. Qed.

Lemma pre_pre p q x : pre p (pre q x) = pre (p ++ q) x.
Proof. unfold pre. cbn [fst snd]. rewrite app_assoc. reflexivity. Qed.

Lemma let_pre (x : list byte * bool) p : (let (o, e) := x in (p ++ o, e)) = pre p x.
Proof. destruct x; reflexivity. Qed.

Lemma m4_q_unfold d (a b : byte) (r : list byte) : m4 (Q d) (a :: b :: r) =
  if N.eqb a LB && N.eqb b LB then let (o, e) := m4 (Q (S d)) r in (LB :: LB :: o, e)
  else if N.eqb a RB && N.eqb b RB then
         match d with
         | O => m4 (Top []) r
         | S d' => let (o, e) := m4 (Q d') r in (RB :: RB :: o, e)
         end
  else let (o, e) := m4 (Q d) (b :: r) in (a :: o, e).
Proof. reflexivity. Qed.

Lemma m4_top_unfold (a b : byte) (r : list byte) : is_word_start a = false -> m4 (Top []) (a :: b :: r) =
  if N.eqb a LB && N.eqb b LB then let (o, e) := m4 (Q O) r in (flush [] ++ o, e)
  else let (o, e) := m4 (Top []) (b :: r) in (flush [] ++ a :: o, e).
Proof. intros H. cbn [m4]. rewrite H. reflexivity. Qed.

(** inside quotes, a byte that does not form a quote with its successor is copied *)
Lemma q_copy (a c : byte) (s : list byte) : (N.eqb a LB && N.eqb c LB = false) -> (N.eqb a RB && N.eqb c RB = false) ->
  m4 (Q O) (a :: c :: s) = pre [a] (m4 (Q O) (c :: s)).
Proof.
  intros H1 H2. rewrite m4_q_unfold, H1, H2. apply (let_pre _ [a]).
Qed.

(** ] outside quotes is an ordinary byte *)
Lemma top_rb s : m4 (Top []) (RB :: s) = pre [RB] (m4 (Top []) s).
Proof.
  destruct s as [|b r]; [reflexivity|].
  rewrite m4_top_unfold by reflexivity. change (N.eqb RB LB) with false. cbn [andb].
  change (flush []) with (@nil byte). cbn [app]. apply (let_pre _ [RB]).
Qed.

(** the closing quote of the region *)
Lemma q_close s : m4 (Q O) (RB :: RB :: s) = m4 (Top []) s.
Proof. reflexivity. Qed.

(** ** the escape sequences, seen by m4 inside a quoted region: they come out as [[ and ]] and m4 is inside quotes again *)
Lemma qs_a s : m4 (Q O) (QS_A ++ s) = pre [LB; LB] (m4 (Q O) s).
Proof. unfold QS_A. cbn. destruct (m4 (Q O) s); reflexivity. Qed.

Lemma qe_a s : m4 (Q O) (QE_A ++ s) = pre [RB; RB] (m4 (Q O) s).
Proof. unfold QE_A. cbn. destruct (m4 (Q O) s); reflexivity. Qed.

Lemma qs_b s : m4 (Q O) (QS_B ++ s) = pre [LB; LB] (m4 (Q O) s).
Proof. unfold QS_B, NOOP. cbn. destruct (m4 (Q O) s); reflexivity. Qed.

Lemma qe_b s : m4 (Q O) (QE_B ++ s) = pre [RB; RB] (m4 (Q O) s).
Proof. unfold QE_B, NOOP. cbn. destruct (m4 (Q O) s); reflexivity. Qed.

(** scheme B only: a ] written just before [[ or ]] pairs up with the first ] of the escape sequence;
    the text still comes out right *)
Lemma rb_qs_b s : m4 (Q O) (RB :: QS_B ++ s) = pre [RB; LB; LB] (m4 (Q O) s).
Proof. unfold QS_B, NOOP. cbn. destruct (m4 (Q O) s); reflexivity. Qed.

Section Verbatim.
  Variables QS QE : list byte.
  Hypothesis Hqs : forall s, m4 (Q O) (QS ++ s) = pre [LB; LB] (m4 (Q O) s).
  Hypothesis Hqe : forall s, m4 (Q O) (QE ++ s) = pre [RB; RB] (m4 (Q O) s).
  (** what a single ] followed by an escaped [[ does (scheme A: QS does not begin with ]; scheme B: [rb_qs_b]) *)
  Hypothesis Hrbqs : forall s, m4 (Q O) (RB :: QS ++ s) = pre [RB; LB; LB] (m4 (Q O) s).
  Hypothesis Hqs_ne : QS <> [].
  Hypothesis Hqe_ne : QE <> [].
  (** the escape sequence for ]] does not begin with [ *)
  Hypothesis Hqe_hd : forall r, QE = LB :: r -> False.

  Notation esc := (escape QS QE).

  Lemma esc_unfold a b r : esc (a :: b :: r) =
    if N.eqb a LB && N.eqb b LB then QS ++ esc r
    else if N.eqb a RB && N.eqb b RB then QE ++ esc r
    else a :: esc (b :: r).
  Proof. reflexivity. Qed.

  (** the main lemma: inside the region's quotes, the escaped text followed by the closing quote
      comes out as the text, and m4 goes on outside quotes with what follows *)
  Lemma region : forall (n : nat) u tail, (length u <= n)%nat ->
    m4 (Q O) (esc u ++ RB :: RB :: tail) = pre u (m4 (Top []) tail).
  Proof.
    induction n as [|n IH]; intros u tail Hn.
    - destruct u; [|cbn in Hn; lia]. cbn [escape app]. rewrite q_close, pre_nil. reflexivity.
    - destruct u as [|a [|b r]].
      + cbn [escape app]. rewrite q_close, pre_nil. reflexivity.
      + (* a single byte before the closing quote *)
        cbn [escape app].
        destruct (N.eqb_spec a RB) as [Ea|Ea].
        * subst a. (* ]]] : the first two close, the third is copied outside quotes *)
          rewrite q_close, top_rb. reflexivity.
        * rewrite q_copy.
          -- rewrite q_close. reflexivity.
          -- change (N.eqb RB LB) with false. apply andb_false_r.
          -- apply andb_false_intro1. apply N.eqb_neq. exact Ea.
      + rewrite esc_unfold.
        destruct (N.eqb a LB && N.eqb b LB) eqn:E1.
        * rewrite <- app_assoc, Hqs, IH by (cbn [length] in Hn; lia).
          apply andb_true_iff in E1. destruct E1 as [Ea Eb]. apply N.eqb_eq in Ea, Eb. subst. rewrite pre_pre. reflexivity.
        * destruct (N.eqb a RB && N.eqb b RB) eqn:E2.
          -- rewrite <- app_assoc, Hqe, IH by (cbn [length] in Hn; lia).
             apply andb_true_iff in E2. destruct E2 as [Ea Eb]. apply N.eqb_eq in Ea, Eb. subst. rewrite pre_pre. reflexivity.
          -- (* a is copied, unless it is a ] that meets the ] at the head of an escape sequence *)
             cbn [app].
             assert (IHt : m4 (Q O) (esc (b :: r) ++ RB :: RB :: tail) = pre (b :: r) (m4 (Top []) tail))
               by (apply IH; cbn [length] in *; lia).
             (* the head of esc (b :: r) ++ ... *)
             destruct r as [|c r'].
             ++ (* u = [a; b] *)
                cbn [escape app] in *.
                assert (H1 : N.eqb a LB && N.eqb b LB = false) by exact E1.
                assert (H2 : N.eqb a RB && N.eqb b RB = false) by exact E2.
                rewrite (q_copy a b _ H1 H2), IHt, pre_pre. reflexivity.
             ++ rewrite esc_unfold in *.
                destruct (N.eqb b LB && N.eqb c LB) eqn:E3.
                ** (* a [[ follows *)
                   apply andb_true_iff in E3. destruct E3 as [Eb Ec]. apply N.eqb_eq in Eb, Ec. subst b c.
                   destruct (N.eqb_spec a RB) as [Ea|Ea].
                   --- subst a. rewrite <- app_assoc. rewrite Hrbqs.
                       rewrite IH by (cbn [length] in Hn; lia). rewrite pre_pre. reflexivity.
                   --- destruct QS as [|q qs] eqn:EQ; [contradiction|].
                       cbn [app] in *.
                       assert (H1 : N.eqb a LB && N.eqb q LB = false).
                       { destruct (N.eqb a LB) eqn:Ea2; [|reflexivity]. cbn [andb] in E1.
                         change (N.eqb LB LB) with true in E1. discriminate. }
                       assert (H2 : N.eqb a RB && N.eqb q RB = false)
                         by (apply andb_false_intro1; apply N.eqb_neq; exact Ea).
                       rewrite (q_copy a q _ H1 H2), IHt, pre_pre. reflexivity.
                ** destruct (N.eqb b RB && N.eqb c RB) eqn:E4.
                   --- (* a ]] follows: b = ], so a is not ] *)
                       apply andb_true_iff in E4. destruct E4 as [Eb Ec]. apply N.eqb_eq in Eb, Ec. subst b c.
                       destruct QE as [|q qe] eqn:EQ; [contradiction|].
                       cbn [app] in *.
                       assert (H2 : N.eqb a RB && N.eqb q RB = false).
                       { destruct (N.eqb a RB) eqn:Ea2; [|reflexivity]. cbn [andb] in E2.
                         change (N.eqb RB RB) with true in E2. discriminate. }
                       assert (H1 : N.eqb a LB && N.eqb q LB = false).
                       { destruct (N.eqb a LB) eqn:Ea2; [|reflexivity]. cbn [andb].
                         apply N.eqb_neq. intros Hq. subst q. exact (Hqe_hd qe eq_refl). }
                       rewrite (q_copy a q _ H1 H2), IHt, pre_pre. reflexivity.
                   --- (* an ordinary byte follows *)
                       cbn [app] in *.
                       assert (H1 : N.eqb a LB && N.eqb b LB = false) by exact E1.
                       assert (H2 : N.eqb a RB && N.eqb b RB = false) by exact E2.
                       rewrite (q_copy a b _ H1 H2), IHt, pre_pre. reflexivity.
  Qed.

  Theorem verbatim : forall u, m4 (Top []) (wrap (esc u)) = (u, true).
  Proof.
    intros u. unfold wrap. cbn [m4]. change (is_word_start LB) with false. cbv iota.
    change (N.eqb LB LB) with true. cbn [andb].
    rewrite (region (length u) u [] (le_n _)). cbn [m4 pre fst snd flush list_eqb app]. rewrite app_nil_r. reflexivity.
  Qed.
End Verbatim.

Lemma rb_qs_a s : m4 (Q O) (RB :: QS_A ++ s) = pre [RB; LB; LB] (m4 (Q O) s).
Proof. unfold QS_A. cbn. destruct (m4 (Q O) s); reflexivity. Qed.

(** actions, %{ %} blocks and indented code (scheme A) *)
Theorem user_code_verbatim_A : forall u, m4 (Top []) (wrap (escape QS_A QE_A u)) = (u, true).
Proof.
  apply (verbatim QS_A QE_A qs_a qe_a rb_qs_a); try discriminate.
Qed.

(** %top blocks and the user code section (scheme B) *)
Theorem user_code_verbatim_B : forall u, m4 (Top []) (wrap (escape QS_B QE_B u)) = (u, true).
Proof.
  apply (verbatim QS_B QE_B qs_b qe_b rb_qs_b); try discriminate.
Qed.

(** a rewriting that merely doubled the brackets would not do: the theorem is about these very strings *)
Example naive_escape_fails :
  m4 (Top []) (wrap (escape [LB; LB; LB; LB] [RB; RB; RB; RB] [RB; RB; 120])) <> ([RB; RB; 120], true).
Proof. cbv. discriminate. Qed.
