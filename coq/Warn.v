(** * Warn: deciding "rule cannot be matched" on the specification automaton.
    An untrusted search proposes a finite set of specification states with a
    successor table; [closed_check] verifies that it contains the start states,
    is closed under every byte, and that a predicate holds of every successor.
    [closed_check_sound]: the predicate then holds after EVERY non-empty input
    from every start state. *)
From Coq Require Import List NArith PArith Bool FMapPositive Lia.
Import ListNotations.
Require Import FlexV.Regex FlexV.SpecAuto FlexV.C01Proofs.

Definition qmap := PositiveMap.t sstate.

Definition closed_check (starts : list (positive * sstate)) (q : qmap) (succ : positive -> byte -> positive)
           (al : list byte) (pred : sstate -> bool) : bool :=
  forallb (fun ps => match PositiveMap.find (fst ps) q with Some s => seqb (snd ps) s | None => false end) starts &&
  forallb (fun ks =>
             forallb (fun b => let s' := sstep (snd ks) b in
                               pred s' &&
                               match PositiveMap.find (succ (fst ks) b) q with Some t => seqb s' t | None => false end) al)
          (PositiveMap.elements q).

Section Sound.
  Variable pred : sstate -> bool.
  Hypothesis pred_compat : forall a b, seqv a b -> pred a = pred b.

  Definition InQ (q : qmap) (s : sstate) : Prop := exists k t, PositiveMap.find k q = Some t /\ seqv t s.

  Lemma closed_step starts q succ al : closed_check starts q succ al pred = true ->
    forall s b, In b al -> InQ q s -> pred (sstep s b) = true /\ InQ q (sstep s b).
  Proof.
    unfold closed_check. intros H s b Hb [k [t [Hf Heq]]].
    apply andb_true_iff in H. destruct H as [_ H]. rewrite forallb_forall in H.
    specialize (H (k, t) (PositiveMap.elements_correct q k Hf)). cbn [fst snd] in H.
    rewrite forallb_forall in H. specialize (H b Hb). apply andb_true_iff in H. destruct H as [Hp Hs].
    pose proof (sstep_compat _ _ b Heq) as Hc. split.
    - rewrite <- (pred_compat _ _ Hc). exact Hp.
    - destruct (PositiveMap.find (succ k b) q) as [t'|] eqn:E; [|discriminate].
      exists (succ k b), t'. split; [exact E|]. apply seqb_sound in Hs. eapply seqv_trans; [apply seqv_sym; exact Hs|exact Hc].
  Qed.

  Theorem closed_check_sound starts q succ al : closed_check starts q succ al pred = true ->
    forall p s0, In (p, s0) starts ->
    forall b u, Forall (fun x => In x al) (b :: u) -> pred (SpecAuto.srun (b :: u) s0) = true.
  Proof.
    intros H p s0 Hin b u Hall.
    assert (H0 : InQ q s0).
    { unfold closed_check in H. apply andb_true_iff in H. destruct H as [H _]. rewrite forallb_forall in H.
      specialize (H _ Hin). cbn [fst snd] in H. destruct (PositiveMap.find p q) as [t|] eqn:E; [|discriminate].
      exists p, t. split; [exact E|]. apply seqv_sym. apply seqb_sound. exact H. }
    (* generalise: after a non-empty word the predicate holds and we stay in Q *)
    assert (Hgen : forall u s b, InQ q s -> Forall (fun x => In x al) (b :: u) ->
                     pred (SpecAuto.srun (b :: u) s) = true).
    { clear -H pred_compat. induction u as [|c u IH]; intros s b Hs Hall; inversion Hall as [|? ? Hb Hu]; subst.
      - destruct (closed_step _ _ _ _ H s b Hb Hs) as [Hp _]. exact Hp.
      - destruct (closed_step _ _ _ _ H s b Hb Hs) as [_ Hq]. change (SpecAuto.srun (b :: c :: u) s) with (SpecAuto.srun (c :: u) (sstep s b)).
        apply IH; assumption. }
    apply Hgen; assumption.
  Qed.
End Sound.

(** the two predicates used for the warnings *)
Definition not_first (r : N) (s : sstate) : bool := negb (N.eqb (hd 0%N (sobs s)) r).
Definition not_among (r : N) (s : sstate) : bool := negb (existsb (N.eqb r) (sobs s)).

Lemma not_first_compat r a b : seqv a b -> not_first r a = not_first r b.
Proof. intros H. unfold not_first. rewrite (sobs_compat _ _ H). reflexivity. Qed.
Lemma not_among_compat r a b : seqv a b -> not_among r a = not_among r b.
Proof. intros H. unfold not_among. rewrite (sobs_compat _ _ H). reflexivity. Qed.

(** If the check passes with [not_first r], rule [r] is never the selected rule:
    for every start state, after every non-empty word some other rule (or none) comes first. *)
Theorem never_selected starts q succ al r : closed_check starts q succ al (not_first r) = true ->
  forall p s0, In (p, s0) starts ->
  forall w k, Forall (fun x => In x al) w -> (1 <= k)%nat -> r <> 0%N ->
    (forall x, In x s0 -> fst x <> 0%N) ->
    ~ Selected s0 w r k.
Proof.
  intros Hc p s0 Hin w k Hw Hk Hr Hnz (Hle & Hm & Hmin & _).
  destruct (firstn k w) as [|b u] eqn:E.
  - assert (length (firstn k w) = k) by (apply firstn_length_le; exact Hle). rewrite E in H. simpl in H. lia.
  - assert (Hall : Forall (fun x => In x al) (b :: u)).
    { rewrite <- E. apply Forall_forall. intros x Hx. rewrite Forall_forall in Hw. apply Hw.
      rewrite <- (firstn_skipn k w). apply in_or_app. left. exact Hx. }
    pose proof (closed_check_sound (not_first r) (not_first_compat r) starts q succ al Hc p s0 Hin b u Hall) as Hp.
    unfold not_first in Hp. apply negb_true_iff in Hp. apply N.eqb_neq in Hp. apply Hp.
    (* r matches and is minimal, so it is the head of the sorted observation *)
    assert (Hin' : In r (sobs (SpecAuto.srun (b :: u) s0))) by (apply sobs_srun; exact Hm).
    destruct (sobs (SpecAuto.srun (b :: u) s0)) as [|a t] eqn:Es; [destruct Hin'|]. cbn [hd].
    assert (Ha : In a (sobs (SpecAuto.srun (b :: u) s0))) by (rewrite Es; left; reflexivity).
    apply sobs_srun in Ha. specialize (Hmin a Ha).
    pose proof (sobs_sorted (SpecAuto.srun (b :: u) s0)) as Hs. rewrite Es in Hs.
    destruct Hin' as [->|Hin']; [reflexivity|].
    inversion Hs as [|? ? _ Hall']; subst. rewrite Forall_forall in Hall'. specialize (Hall' _ Hin'). lia.
Qed.
