(** Property C06 - line anchors and trailing context. *)
From Coq Require Import List NArith ZArith Bool.
Import ListNotations.
Require Import FlexV.Regex FlexV.SpecAuto FlexV.Pat FlexV.Tables FlexV.Scan FlexV.C01Proofs FlexV.Tokenize
               FlexV.C07Proofs FlexV.RejectTok FlexV.GenParse FlexV.C06Proofs.

(** Token streams accepted by the validator are documented tokenisations in
    which a trailing-context rule competes with head+trail (inside [Selected],
    through [rule_re]) and hands the action a head [h] with
    head matching the first [h] bytes and the trail matching the rest. *)
Theorem C06_validator_sound : forall p sc toks bol w,
  validate p sc bol w toks = true -> DocTok p sc bol w toks.
Proof. exact validate_sound. Qed.
Print Assumptions C06_validator_sound.

Theorem C06_trailing_competes_with_total_length : forall p sc bol i rl t u,
  rule_of p i = Some rl -> r_trail rl = Some t ->
  In (i, rule_re (p_csize p) rl) (spec_start p sc bol) ->
  (Matches (rule_re (p_csize p) rl) u <->
   exists h, (h <= length u)%nat /\ Matches (denote (p_csize p) (r_fl rl) (r_head rl)) (firstn h u) /\
             Matches (denote (p_csize p) (r_fl rl) t) (skipn h u)).
Proof. exact trailing_competes_with_total_length. Qed.
Print Assumptions C06_trailing_competes_with_total_length.

(** ^ rules are not among the candidates unless the scanner is at the beginning of a line. *)
Theorem C06_bol_rules_only_at_bol : forall p sc i re rl,
  In (i, re) (spec_start p sc false) -> rule_of p i = Some rl -> r_bol rl = false.
Proof. exact bol_rules_only_at_bol. Qed.
Print Assumptions C06_bol_rules_only_at_bol.

(** What flex calls a fixed-length part has exactly that length in every match,
    so the rewind it emits (yy_cp -= n, or yy_cp = yy_bp + n) is THE documented split. *)
Theorem C06_fixed_len_sound : forall csize p fl n w,
  fixed_len p = Some n -> Matches (denote csize fl p) w -> length w = n.
Proof. exact fixed_len_sound. Qed.
Print Assumptions C06_fixed_len_sound.

Theorem C06_fixed_tail_split : forall p r rl t n u,
  rule_of p r = Some rl -> r_trail rl = Some t -> fixed_len t = Some n ->
  Matches (rule_re (p_csize p) rl) u -> SplitOk p r u (length u - n).
Proof. exact fixed_tail_split. Qed.
Print Assumptions C06_fixed_tail_split.

Theorem C06_fixed_head_split : forall p r rl t n u,
  rule_of p r = Some rl -> r_trail rl = Some t -> fixed_len (r_head rl) = Some n ->
  Matches (rule_re (p_csize p) rl) u -> SplitOk p r u n.
Proof. exact fixed_head_split. Qed.
Print Assumptions C06_fixed_head_split.

(** Variable trailing context: in a verified REJECT-table set the head marker
    of a rule is present after reading [u] iff the rule's head matches [u]. *)
Theorem C06_head_marker_meaning : forall p vars sc bol u i,
  (HEAD_MASK <= i)%N ->
  (forall x, In x (spec_start p sc bol) -> (fst x < HEAD_MASK)%N) ->
  (In i (sobs (SpecAuto.srun u (spec_start_r p vars sc bol))) <->
   exists j rl, i = (j + HEAD_MASK)%N /\ In (j, rl) (number_from 1 (p_rules p)) /\ memN j vars = true /\
                active p sc bol rl = true /\ Matches (denote (p_csize p) (r_fl rl) (r_head rl)) u).
Proof. exact head_marker_meaning. Qed.
Print Assumptions C06_head_marker_meaning.
