(** Property C20 - user code is copied verbatim (the m4 pass): for EVERY byte string placed in a region of
    user code, the text flex hands to m4 expands to exactly that string.  The #line part of the property is
    decided on the emitted files (__LINE__ read back from compiled scanners), see DESIGN.md. *)
From Coq Require Import List NArith Bool.
Import ListNotations.
Require Import FlexV.Regex FlexV.M4Quote FlexV.SourceFacts.

(** actions, %{ %} blocks, indented code: scan.l ESCAPED_QSTART / ESCAPED_QEND *)
Theorem C20_user_code_verbatim_actions_and_blocks : forall u, m4 (Top []) (wrap (escape QS_A QE_A u)) = (u, true).
Proof. exact user_code_verbatim_A. Qed.
Print Assumptions C20_user_code_verbatim_actions_and_blocks.

(** %top blocks and the user code section: main.c escaped_qstart / escaped_qend *)
Theorem C20_user_code_verbatim_top_and_section3 : forall u, m4 (Top []) (wrap (escape QS_B QE_B u)) = (u, true).
Proof. exact user_code_verbatim_B. Qed.
Print Assumptions C20_user_code_verbatim_top_and_section3.

(** the strings the theorems are about are the ones in the source now (SourceFacts.v is regenerated on every run) *)
Theorem C20_source_uses_these_strings :
  F_ESCAPED_QSTART_A = QS_A /\ F_ESCAPED_QEND_A = QE_A /\ F_ESCAPED_QSTART_B = QS_B /\ F_ESCAPED_QEND_B = QE_B.
Proof. repeat split; reflexivity. Qed.
Print Assumptions C20_source_uses_these_strings.

(** not vacuous: a rewriting that merely doubled the brackets fails on "]]x" *)
Theorem C20_naive_rewriting_fails :
  m4 (Top []) (wrap (escape [LB; LB; LB; LB] [RB; RB; RB; RB] [RB; RB; 120%N])) <> ([RB; RB; 120%N], true).
Proof. exact naive_escape_fails. Qed.
Print Assumptions C20_naive_rewriting_fails.
