(** * Buffers: the specification of multiple input buffers (yy_create_buffer,
    yy_scan_string / bytes / buffer, yy_switch_to_buffer, yypush_buffer_state,
    yypop_buffer_state, yy_flush_buffer, yy_delete_buffer) over lists of bytes,
    and the independence of buffers.  Layer S. *)
From Coq Require Import List NArith ZArith Bool Lia.
Import ListNotations.
Require Import FlexV.Regex FlexV.SpecAuto FlexV.Pat FlexV.Tables FlexV.Scan FlexV.C01Proofs FlexV.Tokenize
               FlexV.GenParse FlexV.Stream.
Local Open Scope N_scope.

Record sbuf := {
  b_data : list byte;     (* unread input of this buffer *)
  b_fetched : bool;       (* a file buffer whose text has already been read into the buffer *)
  b_file : bool;          (* made by yy_create_buffer from a FILE (otherwise an in-memory copy / user buffer) *)
  b_bol : bool;
  b_line : Z
}.

Record bm := {
  m_bufs : list (N * sbuf);      (* live buffers by handle *)
  m_stack : list (option N);     (* the buffer stack, current buffer first; None = slot emptied by yy_delete_buffer *)
  m_sc : N
}.

Inductive bop :=
| BCreate (id : N) (content : list byte)       (* yy_create_buffer on a fresh FILE with this content; does not switch *)
| BScan (id : N) (content : list byte)         (* yy_scan_string / yy_scan_bytes / yy_scan_buffer: private copy (or in place), switches *)
| BSwitch (id : N)
| BPush (id : N)
| BPop
| BFlush (id : N)
| BDelete (id : N)
| BLex (k : nat)                               (* up to k calls of yylex (each action returns) *)
| BLexPop (k : nat).                           (* the same with a yywrap() that pops the buffer stack and returns 0 while a buffer lies below *)

Inductive bevent :=
| BTok (buf : N) (r : N) (text : list byte) (line : Z) (bol : bool)
| BEof (buf : N)
| BNoBuffer.

Fixpoint bget (l : list (N * sbuf)) (id : N) : option sbuf :=
  match l with
  | [] => None
  | (i, b) :: t => if N.eqb i id then Some b else bget t id
  end.

Fixpoint bset (l : list (N * sbuf)) (id : N) (b : sbuf) : list (N * sbuf) :=
  match l with
  | [] => [(id, b)]
  | (i, x) :: t => if N.eqb i id then (i, b) :: t else (i, x) :: bset t id b
  end.

Fixpoint bdel (l : list (N * sbuf)) (id : N) : list (N * sbuf) :=
  match l with
  | [] => []
  | (i, x) :: t => if N.eqb i id then t else (i, x) :: bdel t id
  end.

Definition fresh (content : list byte) (file : bool) : sbuf :=
  {| b_data := content; b_fetched := negb file; b_file := file; b_bol := true; b_line := 1 |}.

Definition set_top (st : list (option N)) (x : option N) : list (option N) :=
  match st with
  | [] => [x]
  | _ :: t => x :: t
  end.

Definition current (m : bm) : option N := match m_stack m with Some i :: _ => Some i | _ => None end.

(** one token from the current buffer *)
Definition lex1 (p : program) (lineno : bool) (m : bm) : bm * list bevent * bool :=
  match current m with
  | None => (m, [BNoBuffer], false)
  | Some id =>
      match bget (m_bufs m) id with
      | None => (m, [BNoBuffer], false)
      | Some b =>
          match b_data b with
          | [] => (* end of this buffer: yywrap says "no more", yylex returns 0; the buffer is restarted (at BOL) *)
              ({| m_bufs := bset (m_bufs m) id {| b_data := []; b_fetched := true; b_file := b_file b; b_bol := true; b_line := b_line b |};
                  m_stack := m_stack m; m_sc := m_sc m |}, [BEof id], false)
          | _ =>
              let (r, k) := spec_scan (spec_start p (m_sc m) (b_bol b)) (b_data b) in
              let h := head_len p r k in
              match h with
              | O => (m, [BNoBuffer], false)
              | _ =>
                  let text := firstn h (b_data b) in
                  let line := if lineno then (b_line b + nl_count text)%Z else b_line b in
                  let b' := {| b_data := skipn h (b_data b); b_fetched := true; b_file := b_file b;
                               b_bol := bol_after (b_bol b) text; b_line := line |} in
                  ({| m_bufs := bset (m_bufs m) id b'; m_stack := m_stack m; m_sc := m_sc m |},
                   [BTok id r text line (b_bol b')], true)
              end
          end
      end
  end.

Fixpoint lexk (p : program) (lineno : bool) (k : nat) (m : bm) : bm * list bevent :=
  match k with
  | O => (m, [])
  | S k' => let '(m', ev, go) := lex1 p lineno m in
            if go then let (m'', ev') := lexk p lineno k' m' in (m'', ev ++ ev') else (m', ev)
  end.

(** yywrap() of an include-style scanner: at the end of the current buffer, if another buffer lies
    below it on the stack, yypop_buffer_state() (the exhausted buffer is deleted) and "go on" *)
Definition pop_state (m : bm) : bm :=
  match m_stack m with
  | [] => m
  | top :: t => {| m_bufs := match top with Some i => bdel (m_bufs m) i | None => m_bufs m end; m_stack := t; m_sc := m_sc m |}
  end.

Definition exhausted (m : bm) : bool :=
  match current m with
  | Some id => match bget (m_bufs m) id with
               | Some b => match b_data b with [] => true | _ => false end
               | None => false
               end
  | None => false
  end.

Fixpoint lexp1 (p : program) (lineno : bool) (fuel : nat) (m : bm) : bm * list bevent * bool :=
  match fuel with
  | O => lex1 p lineno m
  | S f =>
      match m_stack m with
      | Some _ :: Some _ :: _ => if exhausted m then lexp1 p lineno f (pop_state m) else lex1 p lineno m
      | _ => lex1 p lineno m
      end
  end.

Fixpoint lexpk (p : program) (lineno : bool) (k : nat) (m : bm) : bm * list bevent :=
  match k with
  | O => (m, [])
  | S k' => let '(m', ev, go) := lexp1 p lineno (length (m_stack m)) m in
            if go then let (m'', ev') := lexpk p lineno k' m' in (m'', ev ++ ev') else (m', ev)
  end.

Definition bstep (p : program) (lineno : bool) (m : bm) (o : bop) : bm * list bevent :=
  match o with
  | BCreate id c => ({| m_bufs := bset (m_bufs m) id (fresh c true); m_stack := m_stack m; m_sc := m_sc m |}, [])
  | BScan id c => ({| m_bufs := bset (m_bufs m) id (fresh c false); m_stack := set_top (m_stack m) (Some id); m_sc := m_sc m |}, [])
  | BSwitch id => ({| m_bufs := m_bufs m; m_stack := set_top (m_stack m) (Some id); m_sc := m_sc m |}, [])
  | BPush id => ({| m_bufs := m_bufs m;
                    m_stack := match m_stack m with
                               | [] => [Some id]
                               | None :: t => Some id :: t          (* an empty top slot is reused *)
                               | st => Some id :: st
                               end;
                    m_sc := m_sc m |}, [])
  | BPop =>
      match m_stack m with
      | [] => (m, [])
      | top :: t =>
          ({| m_bufs := match top with Some i => bdel (m_bufs m) i | None => m_bufs m end;   (* the popped buffer is deleted *)
              m_stack := t; m_sc := m_sc m |}, [])
      end
  | BFlush id =>
      match bget (m_bufs m) id with
      | Some b =>
          (* discards only text that is already in the buffer; the buffer is at BOL again *)
          ({| m_bufs := bset (m_bufs m) id {| b_data := if b_fetched b then [] else b_data b; b_fetched := b_fetched b;
                                               b_file := b_file b; b_bol := true; b_line := b_line b |};
              m_stack := m_stack m; m_sc := m_sc m |}, [])
      | None => (m, [])
      end
  | BDelete id =>
      ({| m_bufs := bdel (m_bufs m) id;
          m_stack := match m_stack m with
                     | Some i :: t => if N.eqb i id then None :: t else m_stack m
                     | st => st
                     end;
          m_sc := m_sc m |}, [])
  | BLex k => lexk p lineno k m
  | BLexPop k => lexpk p lineno k m
  end.

Fixpoint brun (p : program) (lineno : bool) (m : bm) (ops : list bop) : list bevent :=
  match ops with
  | [] => []
  | o :: t => let (m', ev) := bstep p lineno m o in ev ++ brun p lineno m' t
  end.

Definition binit : bm := {| m_bufs := []; m_stack := []; m_sc := 1 |}.

(** ** independence *)
Lemma bget_bset_other l id id' b : id <> id' -> bget (bset l id b) id' = bget l id'.
Proof.
  intros Hne. induction l as [|[i x] t IH]; cbn [bset bget].
  - destruct (N.eqb id id') eqn:E; [apply N.eqb_eq in E; contradiction|reflexivity].
  - destruct (N.eqb i id) eqn:E1; cbn [bget].
    + apply N.eqb_eq in E1. subst i. destruct (N.eqb id id') eqn:E2; [apply N.eqb_eq in E2; contradiction|reflexivity].
    + destruct (N.eqb i id'); [reflexivity|exact IH].
Qed.

Lemma bget_bset_same l id b : bget (bset l id b) id = Some b.
Proof.
  induction l as [|[i x] t IH]; cbn [bset bget].
  - rewrite N.eqb_refl. reflexivity.
  - destruct (N.eqb i id) eqn:E; cbn [bget]; rewrite E; [reflexivity|exact IH].
Qed.

Lemma bget_bdel_other l id id' : id <> id' -> bget (bdel l id) id' = bget l id'.
Proof.
  intros Hne. induction l as [|[i x] t IH]; cbn [bdel bget]; [reflexivity|].
  destruct (N.eqb i id) eqn:E1.
  - apply N.eqb_eq in E1. subst i. destruct (N.eqb id id') eqn:E2; [apply N.eqb_eq in E2; contradiction|reflexivity].
  - cbn [bget]. destruct (N.eqb i id'); [reflexivity|exact IH].
Qed.

Lemma lex1_other p ln m id' : current m <> Some id' ->
  bget (m_bufs (fst (fst (lex1 p ln m)))) id' = bget (m_bufs m) id'.
Proof.
  intros Hc. unfold lex1. destruct (current m) as [id|] eqn:Ec; [|reflexivity].
  assert (Hne : id <> id') by congruence.
  destruct (bget (m_bufs m) id) as [b|]; [|reflexivity].
  destruct (b_data b) as [|c d]; cbn [fst m_bufs]; [apply bget_bset_other; exact Hne|].
  destruct (spec_scan _ (c :: d)) as [r k]. destruct (head_len p r k); cbn [fst m_bufs]; [reflexivity|].
  apply bget_bset_other. exact Hne.
Qed.

Lemma lex1_stack p ln m : m_stack (fst (fst (lex1 p ln m))) = m_stack m.
Proof.
  unfold lex1. destruct (current m); [|reflexivity]. destruct (bget (m_bufs m) n) as [b|]; [|reflexivity].
  destruct (b_data b) as [|c d]; [reflexivity|]. destruct (spec_scan _ (c :: d)) as [r k]. destruct (head_len p r k); reflexivity.
Qed.

Lemma lexk_other p ln k : forall m id', current m <> Some id' ->
  bget (m_bufs (fst (lexk p ln k m))) id' = bget (m_bufs m) id'.
Proof.
  induction k as [|k IH]; intros m id' Hc; cbn [lexk]; [reflexivity|].
  pose proof (lex1_other p ln m id' Hc) as H1. pose proof (lex1_stack p ln m) as Hs.
  destruct (lex1 p ln m) as [[m' ev] go]. cbn [fst] in *. destruct go; [|exact H1].
  assert (Hc' : current m' <> Some id') by (unfold current in *; rewrite Hs; exact Hc).
  specialize (IH m' id' Hc'). destruct (lexk p ln k m') as [m'' ev']. cbn [fst] in *. congruence.
Qed.

(** A buffer that an operation neither names nor scans from keeps its unread input,
    its beginning-of-line status and its line number - whatever the operation. *)
Definition names (o : bop) (id : N) : Prop :=
  match o with
  | BCreate i _ | BScan i _ | BFlush i | BDelete i => i = id
  | BSwitch _ | BPush _ => False
  | BPop | BLex _ => False
  | BLexPop _ => True            (* may reach every stacked buffer: see [lexpop_off_stack_untouched] *)
  end.

Theorem other_buffers_untouched p ln m o id :
  ~ names o id -> current m <> Some id ->
  bget (m_bufs (fst (bstep p ln m o))) id = bget (m_bufs m) id.
Proof.
  intros Hn Hc. destruct o as [i c|i c|i|i| |i|i|k|k]; cbn [bstep fst m_bufs names] in *; [| | | | | | | |contradiction].
  - apply bget_bset_other. congruence.
  - apply bget_bset_other. congruence.
  - reflexivity.
  - reflexivity.
  - destruct (m_stack m) as [|top t] eqn:Es; [reflexivity|]. cbn [fst m_bufs].
    destruct top as [j|]; [|reflexivity]. apply bget_bdel_other. unfold current in Hc. rewrite Es in Hc. congruence.
  - destruct (bget (m_bufs m) i); cbn [fst m_bufs]; [|reflexivity]. apply bget_bset_other. congruence.
  - apply bget_bdel_other. congruence.
  - apply lexk_other. exact Hc.
Qed.

(** switching away from a buffer and back resumes exactly where it stopped *)
Theorem switch_and_back p ln m a b : bget (m_bufs m) a <> None -> a <> b ->
  let m1 := fst (bstep p ln m (BSwitch b)) in
  let m2 := fst (bstep p ln m1 (BSwitch a)) in
  bget (m_bufs m2) a = bget (m_bufs m) a /\ current m2 = Some a.
Proof.
  intros _ _. cbn [bstep fst m_bufs]. split; [reflexivity|].
  unfold current. cbn [m_stack]. destruct (m_stack m); reflexivity.
Qed.

(** yy_scan_string / yy_scan_bytes scan exactly the given bytes *)
Theorem scan_gives_exactly_the_bytes p ln m id c :
  let m1 := fst (bstep p ln m (BScan id c)) in
  current m1 = Some id /\ exists b, bget (m_bufs m1) id = Some b /\ b_data b = c /\ b_bol b = true.
Proof.
  cbn [bstep fst m_bufs]. split.
  - unfold current. cbn [m_stack]. destruct (m_stack m); reflexivity.
  - eexists. split; [apply bget_bset_same|]. split; reflexivity.
Qed.

(** popping returns to the buffer pushed before *)
Theorem push_pop_returns p ln m id top t : m_stack m = Some top :: t ->
  let m1 := fst (bstep p ln m (BPush id)) in
  let m2 := fst (bstep p ln m1 BPop) in
  m_stack m2 = m_stack m.
Proof. intros Hs. cbn [bstep fst m_stack]. rewrite Hs. reflexivity. Qed.

(** yy_flush_buffer discards only text already in the buffer *)
Theorem flush_keeps_unread_file_text p ln m id b : bget (m_bufs m) id = Some b -> b_fetched b = false ->
  exists b', bget (m_bufs (fst (bstep p ln m (BFlush id)))) id = Some b' /\ b_data b' = b_data b.
Proof.
  intros Hb Hf. cbn [bstep]. rewrite Hb. cbn [fst m_bufs]. eexists. split; [apply bget_bset_same|]. cbn. rewrite Hf. reflexivity.
Qed.

(** ** popping inside yywrap() *)
Definition on_stack (m : bm) (id : N) : Prop := In (Some id) (m_stack m).

Lemma lexp1_off_stack p ln : forall fuel m id, ~ on_stack m id ->
  bget (m_bufs (fst (fst (lexp1 p ln fuel m)))) id = bget (m_bufs m) id /\ ~ on_stack (fst (fst (lexp1 p ln fuel m))) id.
Proof.
  assert (Hlex : forall m id, ~ on_stack m id ->
            bget (m_bufs (fst (fst (lex1 p ln m)))) id = bget (m_bufs m) id /\ ~ on_stack (fst (fst (lex1 p ln m))) id).
  { intros m id Hn. split.
    - apply lex1_other. unfold current, on_stack in *. destruct (m_stack m) as [|[i|] t]; try congruence.
      intros E. inversion E; subst. apply Hn. left. reflexivity.
    - unfold on_stack. rewrite lex1_stack. exact Hn. }
  induction fuel as [|f IH]; intros m id Hn; cbn [lexp1]; [apply Hlex; exact Hn|].
  destruct (m_stack m) as [|[a|] [|[b|] t]] eqn:Es; try (apply Hlex; exact Hn).
  destruct (exhausted m); [|apply Hlex; exact Hn].
  assert (Hn' : ~ on_stack (pop_state m) id).
  { unfold on_stack, pop_state in *. rewrite Es in *. cbn [m_stack]. intros H. apply Hn. right. exact H. }
  destruct (IH (pop_state m) id Hn') as [H1 H2]. split; [|exact H2].
  rewrite H1. unfold pop_state. rewrite Es. cbn [m_bufs]. apply bget_bdel_other.
  intros E. subst. apply Hn. unfold on_stack. rewrite Es. left. reflexivity.
Qed.

(** a buffer that is not on the stack is out of reach of yylex, however many buffers yywrap() pops *)
Theorem lexpop_off_stack_untouched p ln : forall k m id, ~ on_stack m id ->
  bget (m_bufs (fst (bstep p ln m (BLexPop k)))) id = bget (m_bufs m) id.
Proof.
  cbn [bstep]. induction k as [|k IH]; intros m id Hn; cbn [lexpk]; [reflexivity|].
  destruct (lexp1_off_stack p ln (length (m_stack m)) m id Hn) as [H1 H2].
  destruct (lexp1 p ln (length (m_stack m)) m) as [[m' ev] go]. cbn [fst] in *.
  destruct go; [|exact H1].
  specialize (IH m' id H2). destruct (lexpk p ln k m') as [m'' ev']. cbn [fst] in *. congruence.
Qed.

(** popping in yywrap() resumes the buffer pushed before exactly where it stopped: the step is the
    ordinary step of the machine in which the exhausted buffer has been popped *)
Theorem wrap_pop_resumes p ln m a b t fuel :
  m_stack m = Some a :: Some b :: t -> exhausted m = true -> a <> b ->
  lexp1 p ln (S fuel) m = lexp1 p ln fuel (pop_state m) /\
  m_stack (pop_state m) = Some b :: t /\
  bget (m_bufs (pop_state m)) b = bget (m_bufs m) b.
Proof.
  intros Hs He Hab. cbn [lexp1]. rewrite Hs, He. split; [reflexivity|].
  unfold pop_state. rewrite Hs. cbn [m_stack m_bufs]. split; [reflexivity|].
  apply bget_bdel_other. exact Hab.
Qed.
