(** * GenOptions: the option-compatibility decisions of the generator
    (main.c [check_options], [readin]) as a total function over option sets,
    and the documented table it must equal.  Layer G. *)
From Coq Require Import List Bool.
Import ListNotations.

Inductive trit := Unspec | TTrue | TFalse.

Record optset := {
  o_full : bool;        (* -Cf / %option full *)
  o_fast : bool;        (* -CF / %option fast *)
  o_meta : bool;        (* meta-equivalence classes requested (-Cm) *)
  o_inter : trit;       (* -I / -B / neither *)
  o_lex : bool;         (* -l lex compatibility *)
  o_cxx : bool;         (* -+ *)
  o_reent : bool;       (* reentrant *)
  o_bison : bool;       (* bison-bridge *)
  o_array : bool;       (* %array *)
  o_reject : bool;      (* some action uses REJECT *)
  o_vartrail : bool;    (* some rule has variable-length head and trail *)
  o_lineno : bool       (* %option yylineno *)
}.

Inductive outcome :=
| Refuse                      (* error message, no scanner *)
| Accept (array : bool) (warn_array : bool).  (* scanner generated; is yytext an array; was %array overridden *)

Definition outcome_eqb (a b : outcome) : bool :=
  match a, b with
  | Refuse, Refuse => true
  | Accept x y, Accept x' y' => Bool.eqb x x' && Bool.eqb y y'
  | _, _ => false
  end.

(** ** model of the code: the tests in the order main.c makes them *)
Definition model (o : optset) : outcome :=
  (* check_options *)
  if o_lex o && o_cxx o then Refuse else
  if o_lex o && (o_full o || o_fast o) then Refuse else
  if o_lex o && (o_reent o || o_bison o) then Refuse else
  let array1 := if o_lex o then true else o_array o in
  let lineno1 := if o_lex o then true else o_lineno o in
  let inter1 := match o_inter o with
                | Unspec => if o_full o || o_fast o then TFalse else TTrue
                | t => t
                end in
  if (o_full o || o_fast o) && o_meta o then Refuse else
  if (o_full o || o_fast o) && (match inter1 with TFalse => false | _ => true end) then Refuse else
  if (o_full o || o_fast o) && o_lex o then Refuse else
  if o_full o && o_fast o then Refuse else
  if o_cxx o && o_fast o then Refuse else
  let warn := o_cxx o && array1 in
  let array2 := if o_cxx o then false else array1 in
  if o_cxx o && o_reent o then Refuse else
  if o_cxx o && o_bison o then Refuse else
  (* readin, after the rules have been parsed *)
  let reject := o_reject o || o_vartrail o in
  if (o_full o || o_fast o) && reject then Refuse else
  Accept array2 warn.

(** ** the documented table, one clause per statement of the manual *)
Definition documented (o : optset) : outcome :=
  let tbl := o_full o || o_fast o in
  let refused :=
    (o_full o && o_fast o)                         (* -Cf and -CF are mutually exclusive *)
    || (tbl && o_meta o)                           (* -Cm makes no sense with full tables *)
    || (tbl && match o_inter o with TTrue => true | _ => false end)   (* -I cannot be combined with -Cf/-CF *)
    || (tbl && (o_reject o || o_vartrail o))       (* REJECT / variable trailing context need compressed tables *)
    || (o_lex o && (o_cxx o || tbl || o_reent o || o_bison o))  (* -l excludes C++, full tables, reentrant, bison-bridge *)
    || (o_cxx o && (o_fast o || o_reent o || o_bison o))        (* C++ excludes -CF, reentrant, bison-bridge *)
  in
  if refused then Refuse
  else Accept ((o_array o || o_lex o) && negb (o_cxx o))   (* %array is overridden for C++ ... *)
              (o_cxx o && (o_array o || o_lex o)).        (* ... with a warning *)

Definition bools := [false; true].
Definition trits := [Unspec; TTrue; TFalse].

Definition all_optsets : list optset :=
  flat_map (fun a => flat_map (fun b => flat_map (fun c => flat_map (fun d => flat_map (fun e =>
  flat_map (fun f => flat_map (fun g => flat_map (fun h => flat_map (fun i => flat_map (fun j =>
  flat_map (fun k => map (fun l =>
    {| o_full := a; o_fast := b; o_meta := c; o_inter := d; o_lex := e; o_cxx := f; o_reent := g;
       o_bison := h; o_array := i; o_reject := j; o_vartrail := k; o_lineno := l |})
  bools) bools) bools) bools) bools) bools) bools) bools) trits) bools) bools) bools.

Lemma in_bools b : In b bools.
Proof. destruct b; simpl; auto. Qed.
Lemma in_trits t : In t trits.
Proof. destruct t; simpl; auto. Qed.

Lemma all_optsets_complete : forall o, In o all_optsets.
Proof.
  intros [a b c d e f g h i j k l]. unfold all_optsets.
  apply in_flat_map; exists a; split; [apply in_bools|].
  apply in_flat_map; exists b; split; [apply in_bools|].
  apply in_flat_map; exists c; split; [apply in_bools|].
  apply in_flat_map; exists d; split; [apply in_trits|].
  apply in_flat_map; exists e; split; [apply in_bools|].
  apply in_flat_map; exists f; split; [apply in_bools|].
  apply in_flat_map; exists g; split; [apply in_bools|].
  apply in_flat_map; exists h; split; [apply in_bools|].
  apply in_flat_map; exists i; split; [apply in_bools|].
  apply in_flat_map; exists j; split; [apply in_bools|].
  apply in_flat_map; exists k; split; [apply in_bools|].
  apply in_map_iff; exists l; split; [reflexivity|apply in_bools].
Qed.

Lemma model_documented_all : forallb (fun o => outcome_eqb (model o) (documented o)) all_optsets = true.
Proof. vm_compute. reflexivity. Qed.

Lemma outcome_eqb_eq a b : outcome_eqb a b = true -> a = b.
Proof.
  destruct a as [|x y], b as [|x' y']; simpl; try discriminate; try reflexivity.
  intros H. apply andb_true_iff in H. destruct H as [H1 H2].
  apply eqb_prop in H1. apply eqb_prop in H2. subst. reflexivity.
Qed.

Theorem model_documented : forall o, model o = documented o.
Proof.
  intros o. apply outcome_eqb_eq.
  pose proof model_documented_all as H. rewrite forallb_forall in H.
  apply H. apply all_optsets_complete.
Qed.
