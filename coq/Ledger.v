(** * Ledger: a checker for allocation traces (yyalloc / yyrealloc / yyfree as
    observed through user-supplied allocators) and what its verdict means. *)
From Coq Require Import List NArith Bool Lia.
Import ListNotations.
Local Open Scope N_scope.

Inductive aev :=
| AAlloc (p : N)                 (* yyalloc returned p (0 = failure) *)
| ARealloc (old new : N)         (* yyrealloc(old) returned new (0 = failure, old stays valid) *)
| AFree (p : N).                 (* yyfree(p) *)

Definition memp (p : N) (l : list N) : bool := existsb (N.eqb p) l.
Fixpoint remp (p : N) (l : list N) : list N :=
  match l with [] => [] | x :: t => if N.eqb x p then t else x :: remp p t end.

Fixpoint run_ledger (live : list N) (tr : list aev) : option (list N) :=
  match tr with
  | [] => Some live
  | AAlloc p :: t => if N.eqb p 0 then run_ledger live t else if memp p live then None else run_ledger (p :: live) t
  | ARealloc o n :: t =>
      if N.eqb o 0 then (if N.eqb n 0 then run_ledger live t else if memp n live then None else run_ledger (n :: live) t)
      else if memp o live then
        (if N.eqb n 0 then run_ledger live t
         else if memp n (remp o live) then None else run_ledger (n :: remp o live) t)
      else None
  | AFree p :: t => if N.eqb p 0 then run_ledger live t else if memp p live then run_ledger (remp p live) t else None
  end.

Definition ledger_ok (tr : list aev) : bool :=
  match run_ledger [] tr with Some [] => true | _ => false end.

(** the property, as a relation: [Led live tr live'] - starting with [live] allocated, every
    pointer passed to yyfree / yyrealloc in [tr] is live at that moment (so it came from
    yyalloc / yyrealloc and has not been freed since), and [live'] is what remains *)
Inductive Led : list N -> list aev -> list N -> Prop :=
| LNil : forall l, Led l [] l
| LAllocFail : forall l t l', Led l t l' -> Led l (AAlloc 0 :: t) l'
| LAlloc : forall l p t l', p <> 0 -> ~ In p l -> Led (p :: l) t l' -> Led l (AAlloc p :: t) l'
| LReallocNew : forall l n t l', n <> 0 -> ~ In n l -> Led (n :: l) t l' -> Led l (ARealloc 0 n :: t) l'
| LReallocNewFail : forall l t l', Led l t l' -> Led l (ARealloc 0 0 :: t) l'
| LRealloc : forall l o n t l', o <> 0 -> In o l -> n <> 0 -> ~ In n (remp o l) -> Led (n :: remp o l) t l' -> Led l (ARealloc o n :: t) l'
| LReallocFail : forall l o t l', o <> 0 -> In o l -> Led l t l' -> Led l (ARealloc o 0 :: t) l'
| LFreeNull : forall l t l', Led l t l' -> Led l (AFree 0 :: t) l'
| LFree : forall l p t l', p <> 0 -> In p l -> Led (remp p l) t l' -> Led l (AFree p :: t) l'.

Lemma memp_In p l : memp p l = true <-> In p l.
Proof.
  unfold memp. rewrite existsb_exists. split.
  - intros [x [Hin Heq]]. apply N.eqb_eq in Heq. subst. exact Hin.
  - intros H. exists p. split; [exact H|apply N.eqb_refl].
Qed.

Lemma memp_false p l : memp p l = false -> ~ In p l.
Proof. intros H Hin. apply memp_In in Hin. congruence. Qed.

Theorem run_ledger_sound tr : forall live live', run_ledger live tr = Some live' -> Led live tr live'.
Proof.
  induction tr as [|e t IH]; intros live live' H; cbn [run_ledger] in H.
  - inversion H; subst. constructor.
  - destruct e as [p|o n|p].
    + destruct (N.eqb p 0) eqn:E0.
      * apply N.eqb_eq in E0. subst. apply LAllocFail. auto.
      * apply N.eqb_neq in E0. destruct (memp p live) eqn:Em; [discriminate|]. apply LAlloc; auto using memp_false.
    + destruct (N.eqb o 0) eqn:Eo.
      * apply N.eqb_eq in Eo. subst o. destruct (N.eqb n 0) eqn:En.
        -- apply N.eqb_eq in En. subst. apply LReallocNewFail. auto.
        -- apply N.eqb_neq in En. destruct (memp n live) eqn:Em; [discriminate|]. apply LReallocNew; auto using memp_false.
      * apply N.eqb_neq in Eo. destruct (memp o live) eqn:Emo; [|discriminate]. apply memp_In in Emo.
        destruct (N.eqb n 0) eqn:En.
        -- apply N.eqb_eq in En. subst. apply LReallocFail; auto.
        -- apply N.eqb_neq in En. destruct (memp n (remp o live)) eqn:Em; [discriminate|]. apply LRealloc; auto using memp_false.
    + destruct (N.eqb p 0) eqn:E0.
      * apply N.eqb_eq in E0. subst. apply LFreeNull. auto.
      * apply N.eqb_neq in E0. destruct (memp p live) eqn:Em; [|discriminate]. apply memp_In in Em. apply LFree; auto.
Qed.

(** a trace the checker accepts frees exactly what it allocated *)
Theorem ledger_ok_sound tr : ledger_ok tr = true -> Led [] tr [].
Proof.
  unfold ledger_ok. destruct (run_ledger [] tr) as [[|x l]|] eqn:E; try discriminate. intros _. apply run_ledger_sound. exact E.
Qed.
