(** * EofAssign: which <<EOF>> rule a start condition gets (parse.y, EOF_OP and
    build_eof_action over sceof[]).  Rules are taken in source order; a rule
    with a scope claims the listed conditions that have no <<EOF>> action yet
    (for the others flex prints "multiple <<EOF>> rules" and keeps the earlier
    one), an unqualified rule claims every condition that has none yet. *)
From Coq Require Import List NArith Bool.
Import ListNotations.
Local Open Scope N_scope.

Section EofAssign.
  Variable A : Type.

  (** [None] = unqualified; [Some l] = <l1,...,ln><<EOF>> *)
  Definition eof_covers (scope : option (list N)) (sc : N) : bool :=
    match scope with None => true | Some l => existsb (N.eqb sc) l end.

  Fixpoint eof_pass (rules : list (option (list N) * A)) (asg : N -> option A) : N -> option A :=
    match rules with
    | [] => asg
    | (scope, act) :: t =>
      eof_pass t (fun sc => match asg sc with
                            | Some a => Some a
                            | None => if eof_covers scope sc then Some act else None
                            end)
    end.

  Definition eof_assign (rules : list (option (list N) * A)) : N -> option A :=
    eof_pass rules (fun _ => None).

  Lemma eof_pass_spec rules : forall asg sc,
    eof_pass rules asg sc =
    match asg sc with
    | Some a => Some a
    | None => option_map snd (find (fun r => eof_covers (fst r) sc) rules)
    end.
  Proof.
    induction rules as [|[scope act] t IH]; intros asg sc; simpl.
    - destruct (asg sc); reflexivity.
    - rewrite IH. destruct (asg sc) as [a|]; [reflexivity|].
      destruct (eof_covers scope sc); reflexivity.
  Qed.

  (** every condition gets the first rule, in source order, that covers it *)
  Theorem eof_assign_first rules sc :
    eof_assign rules sc = option_map snd (find (fun r => eof_covers (fst r) sc) rules).
  Proof. unfold eof_assign. rewrite eof_pass_spec. reflexivity. Qed.

  (** an unqualified rule applies to exactly the conditions lacking their own
      (none of the rules before it covers them); the others keep theirs,
      and nothing after it changes anything *)
  Theorem eof_unqualified_exact pre act post sc :
    eof_assign (pre ++ (None, act) :: post) sc =
    match eof_assign pre sc with Some a => Some a | None => Some act end.
  Proof.
    rewrite !eof_assign_first.
    induction pre as [|[scope a] t IH]; simpl; [reflexivity|].
    destruct (eof_covers scope sc); [reflexivity|exact IH].
  Qed.

  (** without an unqualified rule a condition no scope lists has no action
      (the default: yyterminate) *)
  Theorem eof_unlisted_default rules sc :
    Forall (fun r => exists l, fst r = Some l /\ ~ In sc l) rules -> eof_assign rules sc = None.
  Proof.
    intros H. rewrite eof_assign_first. induction H as [|[scope a] t [l [Hl Hn]] _ IH]; simpl; [reflexivity|].
    simpl in Hl. subst scope. simpl.
    destruct (existsb (N.eqb sc) l) eqn:E; [|exact IH].
    apply existsb_exists in E. destruct E as [x [Hx Hq]]. apply N.eqb_eq in Hq. subst x. contradiction.
  Qed.
End EofAssign.

Arguments eof_assign {A} rules _.

Example eof_assign_ex :
  let rules := [(Some [2], 10%nat); (None, 20%nat); (Some [3], 30%nat)] in
  map (eof_assign rules) [1; 2; 3] = [Some 20%nat; Some 10%nat; Some 20%nat].
Proof. vm_compute. reflexivity. Qed.
