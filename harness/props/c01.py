"""C01 - longest match, first rule, pattern language."""
import os
import sys

import engine
import patgen
import rulesets
import scanner
from common import Check, Rng, Scratch, BuildError, build_flex

PROP = "C01"
TABLE_OPTS = [[], [], [], ["-Cf"], ["-Ce"], ["-C"], ["-Cm"], ["-Cfe"]]


def large_program(rng, kind):
    """Rule sets that force the generator's arrays to be reallocated."""
    rules = []
    scs = []
    if kind == 'keywords':          # > INITIAL_MAX_RULES (100) rules, many DFA states
        words = set()
        while len(words) < 125:
            words.add(tuple(rng.pick([97, 98, 99, 100, 101]) for _ in range(rng.rng(2, 7))))
        for w in sorted(words):
            rules.append({'head': ('str', list(w)), 'bol': False, 'scs': None, 'trail': None})
        rules.append({'head': ('plus', ('cls', ('set', False, [('rg', 97, 122)]))), 'bol': False, 'scs': None, 'trail': None})
    elif kind == 'classes':         # > INITIAL_MAX_CCLS (100) classes, > 500 class-table bytes
        for i in range(112):
            lo = 33 + (i % 60)
            items = [('rg', lo, lo + 3 + (i % 5)), ('ch', 200 - i % 50), ('ch', 10 + i % 3)]
            rules.append({'head': ('cat', ('cls', ('set', i % 7 == 0, items)), ('c', 48 + i % 10)), 'bol': False, 'scs': None, 'trail': None})
    elif kind == 'conditions':      # > INITIAL_MAX_SCS (40) start conditions
        scs = [("SC%d" % (i + 2), i % 2 == 0) for i in range(44)]
        for i in range(44):
            rules.append({'head': ('cat', ('c', 97 + i % 5), ('c', 97 + (i // 5) % 5)), 'bol': i % 9 == 0,
                          'scs': [i + 2] if i % 3 else [1, i + 2], 'trail': None})
        rules.append({'head': ('plus', ('c', 97)), 'bol': False, 'scs': '*', 'trail': None})
    elif kind == 'dfa':             # > INITIAL_MAX_DFAS (1000) DFA states, long epsilon chains
        ab = ('cls', ('set', False, [('ch', 97), ('ch', 98)]))
        rules.append({'head': ('cat', ('star', ab), ('cat', ('c', 97), ('rep', ab, 9))), 'bol': False, 'scs': None, 'trail': None})
        rules.append({'head': ('plus', ('c', 98)), 'bol': False, 'scs': None, 'trail': None})
    elif kind == 'nfa':             # > INITIAL_MNS (2000) NFA states via counted repetition
        abc = ('alt', ('str', [97, 98]), ('alt', ('c', 99), ('str', [98, 97, 99])))
        rules.append({'head': ('cat', ('reprange', abc, 1, 60), ('c', 100)), 'bol': False, 'scs': None, 'trail': None})
        rules.append({'head': ('rep', ('opt', ('str', [97, 98, 99, 100, 101])), 40), 'bol': False, 'scs': None, 'trail': None})
        rules.append({'head': ('plus', ('cls', ('set', False, [('rg', 97, 101)]))), 'bol': False, 'scs': None, 'trail': None})
    return {'csize': 256, 'caseins': False, 'scs': scs, 'rules': rules}


def build_cases(rng, tier):
    cases = []
    n = 320 if tier == "quick" else 5000
    for i in range(n):
        r = rng.fork("small%d" % i)
        cases.append(engine.make_case("s%d" % i, r, flex_opts=r.pick(TABLE_OPTS),
                                      ninputs=5 if tier == "quick" else 8))
    # POSIX / AT&T precedence of the counted repeat (%option posix-compat): {n,m} applies to the whole series before it
    import rulesets
    for i in range(24 if tier == "quick" else 300):
        r = rng.fork("posix%d" % i)
        # (posix-compat switches flex's own extensions off: no (?flags: ) groups, no {-} / {+} class operations)
        def simple(depth):
            k = r.pick(['c', 'c', 'str', 'cls', 'cat', 'alt', 'plus', 'star', 'opt', 'reprange'] if depth > 0 else ['c', 'str', 'cls'])
            if k == 'c':
                return ('c', r.pick([97, 98, 99, 120, 121, 122, 48, 32]))
            if k == 'str':
                return ('str', [r.pick([97, 98, 99, 48]) for _ in range(r.rng(2, 3))])
            if k == 'cls':
                lo_ = r.pick([97, 120, 48])
                return ('cls', ('set', r.chance(20), [('rg', lo_, lo_ + r.rng(0, 2)), ('ch', r.pick([10, 65, 57]))]))
            if k in ('cat', 'alt'):
                return (k, simple(depth - 1), simple(depth - 1))
            if k == 'reprange':
                a_ = r.rng(1, 2)
                return ('reprange', simple(depth - 1), a_, a_ + r.rng(0, 2))
            return (k, simple(depth - 1))
        rules_ = []
        for _ in range(r.rng(1, 4)):
            h = simple(r.pick([1, 2, 2]))
            tries = 0
            while patgen.nullable(h) and tries < 6:
                h = simple(2)
                tries += 1
            rules_.append({'head': h, 'bol': r.chance(15), 'scs': None, 'trail': None})
        prog = {'csize': 256, 'caseins': False, 'scs': [], 'rules': rules_}
        prog['posix'] = True
        lo = r.pick([0, 0, 1, 2])
        hi = lo + r.rng(1, 3)
        body = ('cat', ('c', 97), ('c', 98)) if r.chance(60) else ('cls', ('set', False, [('ch', 120), ('ch', 121)]))
        rep = r.pick([('reprange', body, lo, hi), ('rep', body, hi), ('repmin', body, max(lo, 1)), ('reprange', body, 0, hi)])
        prog['rules'].insert(r.below(len(prog['rules']) + 1),
                             {'head': ('cat', rep, ('c', r.pick([99, 122]))), 'bol': False, 'scs': None, 'trail': None})
        c = engine.make_case("p%d" % i, r, prog=prog, flex_opts=r.pick(TABLE_OPTS), extra_options=["posix-compat"], ninputs=4)
        c['inputs'].append([97, 98, 97, 98, 99, 32, 97, 98, 97, 98, 97, 98, 99, 32, 120, 121, 122, 99, 10])
        cases.append(c)
    # syntax corners written by hand (text, tree the manual gives it): ']' and '-' as first / last members of a bracket expression,
    # pattern comments (?# ), escaped delimiters
    def S(neg, *members):
        return ('cls', ('set', neg, [('ch', m) for m in members]))
    CORNERS = [
        ("[]a]+", ('plus', S(False, 93, 97))),
        ("[^]a]b", ('cat', S(True, 93, 97), ('c', 98))),
        ("[-a]c", ('cat', S(False, 45, 97), ('c', 99))),
        ("[a-]d", ('cat', S(False, 97, 45), ('c', 100))),
        ("[^-a]e", ('cat', S(True, 45, 97), ('c', 101))),
        ("a(?#note)b", ('cat', ('c', 97), ('c', 98))),
        ("(?#lead)z+", ('plus', ('c', 122))),
        ("x(?# a|b )*", ('star', ('c', 120))),
        ("[[:alnum:]]{2}", ('rep', ('cls', ('set', False, [('px', False, 0)])), 2)),
        ('"a]b"', ('str', [97, 93, 98])),
        ("\\]\\-", ('cat', ('c', 93), ('c', 45))),
        ("[\\]x]y", ('cat', S(False, 93, 120), ('c', 121))),
        ("[a\\-c]w", ('cat', S(False, 97, 45, 99), ('c', 119))),
    ]
    for i in range(16 if tier == "quick" else 200):
        r = rng.fork("corner%d" % i)
        k = r.rng(3, 6)
        picks = []
        while len(picks) < k:
            e = r.pick(CORNERS)
            if e not in picks:
                picks.append(e)
        prog = {'csize': 256, 'caseins': False, 'scs': [],
                'rules': [{'head': h, 'bol': False, 'scs': None, 'trail': None} for _, h in picks],
                'pats': [t for t, _ in picks]}
        c = engine.make_case("k%d" % i, r, prog=prog, flex_opts=r.pick(TABLE_OPTS), ninputs=4)
        c['inputs'].append([93, 97, 93, 98, 45, 99, 97, 45, 100, 93, 101, 97, 98, 122, 122, 120, 120, 49, 50, 97, 93, 98, 93, 45, 120, 121, 45, 119, 10])
        cases.append(c)
    kinds = ['keywords', 'classes', 'conditions', 'dfa', 'nfa']
    reps = 1 if tier == "quick" else 6
    for k in kinds:
        for j in range(reps):
            r = rng.fork("large-%s-%d" % (k, j))
            prog = large_program(r, k)
            c = engine.make_case("L%s%d" % (k, j), r, prog=prog, flex_opts=r.pick([[], ["-Cf"], ["-Ce"]]) if j else [],
                                 ninputs=4, maxlen=400)
            c['fuel'] = 400000
            if k == 'conditions':
                c['run_scs'] = [1, 2, 3, 20, 45]
            cases.append(c)
    return cases


def main(tier):
    ck = Check(PROP, tier)
    rng = Rng(ck.seed).fork(PROP)
    if not engine.ensure_built():
        ck.violation("setup", "the Rocq development or its extraction no longer builds",
                     {"theorem": "whole development"}, no_input=True)
        return ck.finish({"obligations": 1, "discharged": 0, "checker_cmd": "bin/setup", "trusted_base": []})
    nob, ngood, details = engine.obligations(ck, "Properties_C01.v")
    stats = {}
    cases = []
    results = []
    with Scratch("c01") as scratch:
        try:
            flex = build_flex(scratch)
        except BuildError as ex:
            sys.stderr.write(str(ex) + "\n")
            print("ERROR: /repo does not build; nothing can be checked")
            return 2
        import nfacheck
        cases = build_cases(rng, tier)
        results = engine.run_cases(flex, scratch, cases)
        engine.judge(ck, flex, scratch, cases, results, stats)
        # the NFA printed by flex -T judged by the proved lock-step checker (no scanner compiled)
        ncases = nfacheck.nfa_cases(rng.fork("nfa"), tier)
        nresults = engine.parallel_map(nfacheck.nfa_worker, ncases)
        nfacheck.judge_nfa(ck, ncases, nresults, stats)
    # coverage numbers measured on this run
    ls_ok = sum(1 for r in results for l in r['lockstep'] if " OK " in l)
    ls_all = sum(len(r['lockstep']) for r in results)
    pairs = sum(int(l.rsplit("pairs=", 1)[1]) for r in results for l in r['lockstep'] if "pairs=" in l)
    streams = sum(len(r['streams']) for r in results)
    distinct = set()
    for c, r in zip(cases, results):
        rules_seen = set(t[0] for st in r['streams'] for t in st['real'])
        if (r.get('lastdfa') or 0) >= 3 and len(rules_seen) >= 2:
            distinct.add(engine.prog_key(c))
    sizes = {}
    for r in results:
        b = (r.get('lastdfa') or 0)
        bucket = "<10" if b < 10 else "<50" if b < 50 else "<200" if b < 200 else "<1000" if b < 1000 else ">=1000"
        sizes[bucket] = sizes.get(bucket, 0) + 1
    optsh = {}
    for c in cases:
        k = " ".join(c['flex_opts'])
        optsh[k] = optsh.get(k, 0) + 1
    sample = cases[0]
    cov = {
        "obligations": nob, "discharged": ngood,
        "checker_cmd": "make -C coq Properties_C01.vo && coqc Properties_C01.v (Print Assumptions); extracted check_view run on the tables flex emitted",
        "trusted_base": ["Coq 8.16.1 kernel (coqc, vm_compute)", "extraction (ExtrOcamlBasic only) + ocamlfind ocamlopt",
                         "extract/driver.ml (S-expression reader, untrusted relation search)",
                         "harness: pattern printer, table reader (harness/tables.py), scanner driver template",
                         "gcc, m4"],
        "theorems": details,
        "evaluations": len(cases), "distinct_nontrivial": len(distinct),
        "nfa_rule": "rule sets without anchors, trailing context and start conditions (flags, definitions, class operations and counted "
                    "repetitions included): the NFA printed by flex -T is related to the specification automaton by the proved checker; "
                    "class contents are taken from the specification side, so this judges nfa.c and the machine-building reductions of parse.y",
        "rule": "random rule sets (grammar weighted to syntax corners) x table option; distinct = distinct (program, options); "
                "non-trivial = DFA with >= 3 states and >= 2 different rules matched in the observed streams",
        "lockstep_queries": ls_all, "lockstep_ok": ls_ok, "lockstep_pairs_checked": pairs,
        "lockstep_inconclusive": stats.get('inconclusive', 0),
        "nfa_dumps_checked": stats.get('nfa_checked', 0), "nfa_states_total": stats.get('nfa_states_total', 0),
        "nfa_lockstep_pairs_checked": stats.get('nfa_pairs_checked', 0),
        "printed_dfas_checked": stats.get('dfa_dumps_checked', 0), "equivalence_class_tables_checked": stats.get('ec_tables_checked', 0),
        "token_streams_validated": streams,
        "dfa_size_histogram": sizes, "option_histogram": optsh,
        "problem_kinds": stats.get('problem_kinds', {}),
        "samples": [{"spec_rules": sample['text'].split("%%")[1].strip().splitlines()[:6], "flex_opts": sample['flex_opts'],
                     "input_hex": bytes(sample['inputs'][0]).hex()[:80],
                     "lockstep": results[0]['lockstep'][:2]}],
    }
    return ck.finish(cov, assumptions=[
        "text -> tree (scan.l/parse.y) is covered by correspondence only: the printer of harness/patgen.py is trusted",
        "the compiled scanner is tied to the table model by differential execution (view_tokens vs real tokens)",
    ])


def replay(path):
    import json
    with open(path) as f:
        rec = json.load(f)
    print(json.dumps({k: rec.get(k) for k in ('what', 'flex_opts', 'input_hex', 'observed_tokens', 'how')}, indent=1))
    print(rec.get('spec', ''))
    return 0
