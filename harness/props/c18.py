"""C18 - scanner generation is deterministic and reproducible."""
import hashlib
import os
import re
import shutil

import engine
import rulesets
import scanner
from common import Rng, run, Scratch, build_flex, Check, parallel_map

PROP = "C18"
_FLEX = None
_ROOT = None

TABLE_OPTS = [[], ["-Cf"], ["-CF"], ["-Ce"], ["-Cm"], ["-C"], ["-Cem"], ["-Cfe"], ["-CFe"], ["-Ca"], ["-Cae"], ["-Cfa"], ["-CFa"]]
ENVS = [
    {},                                                         # the reference run
    {"MALLOC_PERTURB_": "85"},                                  # freshly allocated and freed memory filled with 0xAA / 0x55
    {"MALLOC_PERTURB_": "170"},
    {"MALLOC_PERTURB_": "255", "MALLOC_TOP_PAD_": "1048576"},
    {"MALLOC_PERTURB_": "1", "MALLOC_MMAP_THRESHOLD_": "64", "TZ": "Pacific/Kiritimati", "LANG": "C", "HOME": "/nonexistent",
     "PADDING_TO_MOVE_THE_STACK": "x" * 3000},
    {"MALLOC_ARENA_MAX": "1", "MALLOC_TRIM_THRESHOLD_": "0", "TMPDIR": "/dev/shm", "LC_ALL": "POSIX"},
]


def normalise_names(data, names):
    """#line directives and M4_YY_OUTFILE_NAME carry the output file name: the only permitted difference between -o and -t."""
    for n in names:
        data = data.replace(n.encode(), b"<OUT>")
    data = data.replace(b"<stdout>", b"<OUT>")
    return data


def one(job):
    idx, text, be, opts, want_header, want_tables = job
    wd = os.path.join(_ROOT, "d%d" % idx)
    os.makedirs(wd, exist_ok=True)
    with open(os.path.join(wd, "s.l"), "w") as f:
        f.write(text)
    problems = []
    ref = None
    nruns = 0
    ext = ".cc" if be == 'cxx' else ".c"
    for ei, env in enumerate(ENVS):
        sub = os.path.join(wd, "e%d" % ei)
        os.makedirs(sub, exist_ok=True)
        args = list(opts)
        if want_header:
            args.append("--header-file=s.h")
        if want_tables:
            args.append("--tables-file=s.tbl")
        # same relative names in every run (run inside its own directory)
        shutil.copy(os.path.join(wd, "s.l"), os.path.join(sub, "s.l"))
        rc, out, err = run([_FLEX] + args + ["-o", "s" + ext, "s.l"], cwd=sub, timeout=60, env=env)
        nruns += 1
        if rc != 0:
            if ei == 0:
                return {'idx': idx, 'problems': [], 'skipped': err.decode(errors="replace")[:120], 'runs': nruns}
            problems.append("run %d (%s) exits %s, the reference run exits 0: %s" % (ei, env, rc, err.decode(errors='replace')[:100]))
            continue
        outs = {}
        for fn in ["s" + ext] + (["s.h"] if want_header else []) + (["s.tbl"] if want_tables else []):
            try:
                with open(os.path.join(sub, fn), "rb") as f:
                    outs[fn] = f.read()
            except OSError:
                outs[fn] = None
        outs['stderr'] = err
        if ref is None:
            ref = outs
        else:
            for fn in outs:
                if outs[fn] != ref[fn]:
                    a, b = ref[fn] or b"", outs[fn] or b""
                    k = next((i for i in range(min(len(a), len(b))) if a[i] != b[i]), min(len(a), len(b)))
                    line = a[:k].count(b"\n") + 1
                    problems.append("%s differs between the reference run and the run with %s: first difference at byte %d (line %d): %r vs %r" % (
                        fn, {x: (y if len(y) < 20 else y[:8] + "...") for x, y in env.items()}, k, line, a[max(0, k - 20):k + 20], b[max(0, k - 20):k + 20]))
    # named file versus stdout
    if ref is not None:
        rc, out, err = run([_FLEX] + list(opts) + ["-t", "s.l"], cwd=os.path.join(wd, "e0"), timeout=60)
        nruns += 1
        if rc == 0:
            a = normalise_names(ref["s" + ext], ["s" + ext])
            b = normalise_names(out, ["s" + ext])
            if want_header:
                pass        # (with a header requested the scanner text is the same; the header name is part of both)
            if a != b and not want_header and not want_tables:
                k = next((i for i in range(min(len(a), len(b))) if a[i] != b[i]), min(len(a), len(b)))
                problems.append("-o file and -t differ beyond the file name: byte %d: %r vs %r" % (k, a[max(0, k - 30):k + 30], b[max(0, k - 30):k + 30]))
        else:
            problems.append("flex -t exits %s where -o exits 0" % rc)
    shutil.rmtree(wd, ignore_errors=True)
    return {'idx': idx, 'problems': problems, 'runs': nruns, 'spec': text, 'opts': opts, 'header': want_header, 'tables': want_tables}


def vg(job):
    idx, text, opts = job
    wd = os.path.join(_ROOT, "v%d" % idx)
    os.makedirs(wd, exist_ok=True)
    with open(os.path.join(wd, "s.l"), "w") as f:
        f.write(text)
    rc, out, err = run(["valgrind", "-q", "--error-exitcode=57", "--undef-value-errors=yes", "--track-origins=no", "--child-silent-after-fork=yes",
                        _FLEX] + opts + ["-o", "s.c", "s.l"], cwd=wd, timeout=300)
    errs = err.decode(errors="replace")
    problems = []
    m = re.search(r"==\d+== (Conditional jump or move depends on uninitialised value|Use of uninitialised value|Syscall param [^\n]* uninitialised[^\n]*|Invalid (read|write)[^\n]*)", errs)
    if m:
        where = re.findall(r"==\d+==\s+(?:at|by) 0x[0-9A-F]+: (\w+)", errs)[:4]
        problems.append("valgrind: %s in %s" % (m.group(1), " < ".join(where)))
    shutil.rmtree(wd, ignore_errors=True)
    return {'idx': idx, 'problems': problems, 'spec': text, 'opts': opts, 'vg': True, 'rc': rc}


def _dispatch(job):
    try:
        if job[0] == 'V':
            return vg(job[1:])
        return one(job[1:])
    except Exception as ex:
        import traceback
        return {'idx': -1, 'problems': ["harness-error " + repr(ex) + traceback.format_exc()[-300:]], 'harness': True}


def main(tier):
    global _FLEX, _ROOT
    ck = Check(PROP, tier)
    rng = Rng(ck.seed).fork(PROP)
    nob, ngood, details = engine.obligations(ck, "Properties_C18.v")
    assumptions = ["PARTIAL: the theorem covers the transition store (nxt/chk) of the generator; byte identity of complete outputs is decided by "
                   "repeated runs under perturbed allocators and environments, which is not a proof",
                   "time and process id: flex output contains neither (checked implicitly: runs happen at different times with different pids)",
                   "valgrind's definedness checker is run on a sample of the specifications only (it is slow)"]
    boot = {}
    with Scratch("c18") as scratch:
        _FLEX = build_flex(scratch)
        _ROOT = scratch.sub("cases")
        jobs = []
        n = 70 if tier == "quick" else 2000
        for i in range(n):
            r = rng.fork("d%d" % i)
            be = r.weighted([('nr', 5), ('r', 3), ('c99', 2), ('cxx', 2)])
            prog = rulesets.gen_program(r.fork("p"), trailing=r.chance(30), max_scs=2, csize=256)
            text = scanner.make_spec(prog, r.fork("print"), options=(["case-insensitive"] if prog.get('caseins') else []), backend=be)
            opts = list(r.pick(TABLE_OPTS)) + ["-8"] + r.pick([[], [], ["-L"], ["-d"], ["-i"], ["-b"], ["-s"]])
            if be == 'cxx' and any("F" in o for o in opts):
                opts = ["-Cf", "-8"]
            want_header = be in ('nr', 'r') and r.chance(35)
            want_tables = be in ('nr', 'r') and r.chance(30)
            jobs.append(('D', i, text, be, opts, want_header, want_tables))
        nv = 6 if tier == "quick" else 120
        for i in range(nv):
            r = rng.fork("v%d" % i)
            prog = rulesets.gen_program(r.fork("p"), trailing=r.chance(30), max_scs=2, csize=256)
            text = scanner.make_spec(prog, r.fork("print"), options=(["case-insensitive"] if prog.get('caseins') else []), backend='nr')
            jobs.append(('V', i, text, list(r.pick(TABLE_OPTS)) + ["-8"] + (["--tables-file=s.tbl"] if r.chance(40) else [])))
        results = parallel_map(_dispatch, jobs)
        # the bootstrap: flex's own scanner regenerated by the flex built from it
        src = os.path.join(os.path.dirname(_FLEX))
        rc, out, err = run(["make", "-C", src, "stage2compare"], timeout=600)
        boot['rc'] = rc
        boot['log'] = (out.decode(errors="replace") + err.decode(errors="replace"))[-600:]
        if rc != 0 or "differ" in boot['log']:
            ck.violation("bootstrap-differs", "stage1scan.c and stage2scan.c differ (make stage2compare): " + boot['log'][-300:],
                         {'how': "make -C src stage2compare in a copy of the tree", 'log': boot['log']})
    stats = {'flex_runs': 0, 'specs': 0, 'skipped': 0, 'valgrind_runs': 0}
    for r in results:
        if r.get('harness'):
            for p in r['problems']:
                ck.violation("harness:" + hashlib.sha256(p.encode()).hexdigest()[:8], p, {}, no_input=True)
            continue
        if r.get('vg'):
            stats['valgrind_runs'] += 1
            for p in r['problems']:
                ck.violation("valgrind:" + re.sub(r"0x[0-9A-Fa-f]+", "", p)[:80], p, {'spec': r['spec'], 'flex_args': r['opts'],
                             'how': "valgrind --undef-value-errors=yes flex <args> -o s.c s.l"})
            continue
        stats['specs'] += 1
        stats['flex_runs'] += r.get('runs', 0)
        if r.get('skipped'):
            stats['skipped'] += 1
        for p in r['problems'][:2]:
            ck.violation("nondeterministic:" + hashlib.sha256((r['spec'] + p[:40]).encode()).hexdigest()[:10], p,
                         {'spec': r['spec'], 'flex_args': r['opts'] + (["--header-file=s.h"] if r['header'] else []) + (["--tables-file=s.tbl"] if r['tables'] else []),
                          'how': "run flex twice in empty directories with the environments named in the message and cmp the outputs"})
    cov = {"level": "proof", "obligations": nob, "discharged": ngood, "theorems": details,
           "checker_cmd": "make -C coq Properties_C18.vo; flex rebuilt from /repo run under 6 allocator/environment settings",
           "trusted_base": ["Coq 8.16.1 kernel", "harness", "glibc MALLOC_PERTURB_ / malloc tunables", "valgrind memcheck"],
           "evaluations": stats['flex_runs'] + stats['valgrind_runs'], "distinct_nontrivial": stats['specs'] - stats['skipped'],
           "rule": "generated specifications x 13 table options x back ends x header / tables file: scanner, header and tables file compared byte "
                   "by byte over 6 runs (MALLOC_PERTURB_ 85/170/255/1, mmap threshold, arena and trim tunables, moved stack, other TZ/LANG/HOME) "
                   "and -o against -t (names normalised); valgrind definedness on a sample; make stage2compare (bootstrap); non-trivial = "
                   "flex accepted the specification",
           "bootstrap_stage2compare_rc": boot.get('rc'), **stats}
    return ck.finish(cov, assumptions=assumptions)


replay = engine.std_replay
