"""C08 - yymore, yyless, yyunput, yyinput."""
import engine
import streamprog

PROP = "C08"
OPTS = [[], [], ["-Cf"], ["-CF"], ["-Ce"], ["-B"], ["-Cm"], ["-I"]]


def build_cases(rng, tier):
    n = 260 if tier == "quick" else 5000
    cases = []
    for i in range(n):
        r = rng.fork("ed%d" % i)
        be = r.weighted([('nr', 4), ('r', 2), ('c99', 2), ('cxx', 2)])
        opts = r.pick(OPTS)
        if be == 'cxx' and "-CF" in opts:
            opts = ["-Cf"]
        c = streamprog.gen_stream_case(r, "e%d" % i, {'edit'} if i % 4 else {'edit', 'wrap'}, backend=be, flex_opts=opts)
        if i % 5 == 2:
            # %array keeps the yymore() text in the yytext array: full tables (back-up case of the action switch), yyless after yymore
            be = r.weighted([('nr', 4), ('r', 3), ('c99', 3)])
            c = streamprog.gen_stream_case(r, "e%d" % i, {'edit', 'more'} if i % 10 == 2 else {'edit', 'more', 'wrap'}, backend=be,
                                           flex_opts=r.pick([["-Cf"], ["-CF"], ["-Cfe"], ["-CFe"], [], ["-Cm"]]))
            c['extra_options'] = ["array"]
        elif r.chance(30):
            c['extra_options'] = ["array"]
        c['cc_extra'] = r.pick([[], [], ["-DYY_BUF_SIZE=16"], ["-DYY_BUF_SIZE=64"], ["-DYY_BUF_SIZE=7"]]) if be in ('nr', 'r', 'cxx') else []
        cases.append(c)
    return cases


def main(tier):
    return engine.stream_main(
        PROP, tier, "Properties_C08.v", build_cases,
        "action programs choosing yyless (constant and length-relative arguments), yyunput (incl. newline, NUL, 8-bit), yyinput "
        "(across sources supplied by yywrap and at end of input), yymore, yysetbol per rule x %pointer/%array x back end x table option x "
        "small buffer sizes; every event (rule, yyleng, hash of yytext, yyinput value) is compared with the stream machine; "
        "non-trivial = DFA >= 3 states and >= 2 rules matched",
        ["yyless / yymore after yyunput or yyinput in the same action are not generated (yytext is not defined then)",
         "every action gives back fewer bytes than its token has (termination)",
         "refinement of the buffer layout (R4b) is covered by correspondence only: C08 theorems are laws of the oracle"])


replay = engine.std_replay
