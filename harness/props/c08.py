"""C08 - yymore, yyless, yyunput, yyinput."""
import engine
import streamprog

PROP = "C08"
OPTS = [[], [], ["-Cf"], ["-CF"], ["-Ce"], ["-B"], ["-Cm"], ["-I"]]


def build_cases(rng, tier):
    n = 260 if tier == "quick" else 5000
    cases = []
    for i in range(n):
        r = rng.fork("ed%d" % i)
        be = r.weighted([('nr', 4), ('r', 2), ('c99', 2), ('cxx', 2)])
        opts = r.pick(OPTS)
        if be == 'cxx' and "-CF" in opts:
            opts = ["-Cf"]
        c = streamprog.gen_stream_case(r, "e%d" % i, {'edit'} if i % 4 else {'edit', 'wrap'}, backend=be, flex_opts=opts)
        if i % 5 == 2:
            # %array keeps the yymore() text in the yytext array: full tables (back-up case of the action switch), yyless after yymore
            be = r.weighted([('nr', 4), ('r', 3), ('c99', 3)])
            c = streamprog.gen_stream_case(r, "e%d" % i, {'edit', 'more'} if i % 10 == 2 else {'edit', 'more', 'wrap'}, backend=be,
                                           flex_opts=r.pick([["-Cf"], ["-CF"], ["-Cfe"], ["-CFe"], [], ["-Cm"]]))
            c['extra_options'] = ["array"]
        elif r.chance(30):
            c['extra_options'] = ["array"]
        c['cc_extra'] = r.pick([[], [], ["-DYY_BUF_SIZE=16"], ["-DYY_BUF_SIZE=64"], ["-DYY_BUF_SIZE=7"]]) if be in ('nr', 'r', 'cxx') else []
        if be == 'c99':
            # the c99 back end takes its buffer size from an option: small buffers put tokens (and text kept by yymore) across refills
            bs = r.pick([None, 16, 64, 7, 16])
            if bs:
                c['extra_options'] = list(c.get('extra_options') or []) + ["bufsize=%d" % bs]
        if i % 7 == 3:
            # in-memory sources (yy_scan_bytes; further ones supplied the same way by yywrap), %pointer, actions with yymore():
            # the end of such a buffer is not followed by a read
            be = r.pick(['nr', 'r'])
            c = streamprog.gen_stream_case(r, "e%d" % i, {'edit', 'more'} if i % 2 else {'edit', 'more', 'wrap'}, backend=be,
                                           flex_opts=r.pick([[], ["-Cf"], ["-Ce"], ["-B"], ["-I"]]))
            c['cc_extra'] = []
        if i % 7 == 5:
            # %pointer + yymore() with buffers so small that the text kept by yymore lies across refills (c99: %option bufsize)
            be = r.pick(['c99', 'c99', 'nr', 'r', 'cxx'])
            c = streamprog.gen_stream_case(r, "e%d" % i, {'edit', 'more'}, backend=be, flex_opts=r.pick([[], ["-Ce"], ["-B"], ["-I"], ["-Cm"]]))
            bs = r.pick([7, 16, 16, 33])
            if be == 'c99':
                c['extra_options'] = ["bufsize=%d" % bs]
                c['cc_extra'] = []
            else:
                c['cc_extra'] = ["-DYY_BUF_SIZE=%d" % bs]
        if c['backend'] in ('nr', 'r') and (i % 7 == 3 or r.chance(15)) and not c.get('runs'):
            c['runs'] = [{'sessions': [srcs], 'mode': 'b'} for srcs in c['sources']]
        cases.append(c)
    return cases


# ------------------------------------------------------------------ yyunput on the buffer as addresses (coq/Unput.v)
def unput_cases(rng, tier):
    """One scanner per (back end, buffer size); runs over (file length, position of the token, number of unputs)."""
    cases = []
    sizes = [4, 5, 8, 13] if tier == "quick" else [3, 4, 5, 6, 8, 13, 16, 31]
    for be in ('nr', 'r', 'c99', 'cxx'):
        for n in sizes:
            r = rng.fork("unput-%s-%d" % (be, n))
            runs = []
            for L in range(1, n):
                for pos in sorted(set([0, L - 1, r.below(L)])):
                    for k in sorted(set([0, 1, 2, n - L - 1, n - L, n - L + 1, n - L + pos, n - L + pos + 1, n + 1, r.below(n + 3)])):
                        if 0 <= k <= n + 3:
                            runs.append((L, pos, k))
            if be == 'cxx':
                # the C++ class reads character by character unless the scanner is a batch scanner; a batch scanner looks one
                # byte beyond the token, so the token must not be the last byte buffered (that would be a refill at end of input)
                runs = [(L, pos, k) for (L, pos, k) in runs if pos < L - 1]
            cases.append({'id': "u%s%d" % (be, n), 'kind': 'unput', 'backend': be, 'bufsize': n, 'runs': runs, 'seed': r.s,
                          'flex_opts': ["-8", "-B"] if be == 'cxx' else ["-8"], 'text': '', 'focus': ['unput-grid'], 'extra_options': [], 'sources': []})
    return cases


UNPUT_MAIN = r"""
int main(int argc, char **argv)
{
    static char data[4096]; int n; FILE *f = fopen(argv[1], "rb");
    %(DECL)s
    if (!f) return 2;
    %(INIT)s
    if (getenv("UNPUT_BYTES")) { n = (int) fread(data, 1, sizeof data, f); fclose(f); yy_scan_bytes(data, n %(S)s); }
    else %(SETIN)s;
    %(LEX)s;
    %(FINI)s
    return 0;
}
"""


def unput_worker(case):
    import os
    import scanner
    import backends
    from common import run, Rng
    wd = os.path.join(engine._ROOT, "c%s" % case['id'])
    os.makedirs(wd, exist_ok=True)
    res = {'problems': [], 'lockstep': [], 'streams': [], 'id': case['id'], 'unput_runs': 0, 'unput_overflows': 0}
    be, n = case['backend'], case['bufsize']
    try:
        prog = {'csize': 256, 'caseins': False, 'scs': [], 'rules': [{'head': ('c', 120), 'bol': False, 'scs': None, 'trail': None}]}
        act = ('tok(1); { static int k = -1; int i; if (k < 0) k = atoi(getenv("UNPUT_K")); '
               'for (i = 0; i < k; i++) { yyunput(49 + i % 9); } }')
        options = ["bufsize=%d" % n] if be == 'c99' else []
        epi = None
        if be in ('nr', 'r'):
            sub = {'nr': dict(DECL="", INIT="", S="", SETIN="yyin = f", LEX="yylex()", FINI="yylex_destroy();"),
                   'r': dict(DECL="yyscan_t s;", INIT="if (yylex_init(&s)) return 3;", S=", s", SETIN="yyset_in(f, s)", LEX="yylex(s)",
                             FINI="yylex_destroy(s);")}[be]
            epi = backends.EMIT + UNPUT_MAIN % sub
        text = scanner.make_spec(prog, Rng(case['seed']).fork("print"), options=options, actions={0: act}, backend=be, epilogue=epi)
        text = text.replace(" nounput", "")
        res['text'] = text
        with open(os.path.join(wd, "s.l"), "w") as f:
            f.write(text)
        cfile = "s." + backends.BACKENDS[be]['ext']
        rc, out, err = scanner.run_flex(engine._FLEX, "s.l", cfile, case['flex_opts'], wd)
        if rc != 0:
            res['problems'].append(('flex-error', err.decode(errors='replace')[:300]))
            return res
        rc, out, err = scanner.compile_c(cfile, "s.exe", wd, extra=(["-DYY_BUF_SIZE=%d" % n] if be != 'c99' else []) +
                                         ["-I" + os.path.dirname(engine._FLEX)], backend=be)
        if rc != 0:
            res['problems'].append(('compile-error', err.decode(errors='replace')[:400]))
            return res
        queries, reals = [], []
        allruns = [(L, pos, k, False) for (L, pos, k) in case['runs']]
        if epi:
            # the same grid on a buffer made by yy_scan_bytes: it is exactly as large as its content (coq/Unput.v scan_bytes)
            allruns += [(L, pos, k, True) for (L, pos, k) in case['runs'] if L <= 9 and k <= L + 2]
        for (L, pos, k, inmem) in allruns:
            data = [97] * pos + [120] + [98] * (L - pos - 1)
            ip = os.path.join(wd, "in.bin")
            with open(ip, "wb") as f:
                f.write(bytes(data))
            env = {"UNPUT_K": str(k)}
            if inmem:
                env["UNPUT_BYTES"] = "1"
            rc, out, err = run([os.path.join(wd, "s.exe"), ip], timeout=20, env=env)
            toks = scanner.parse_tokens(out)
            overflow = b"push-back overflow" in err
            if rc != 0 and not overflow:
                res['problems'].append(('scanner-abnormal', "bufsize=%d file=%s unputs=%d rc=%s stderr=%s" % (n, bytes(data).hex(), k, rc, err[:200])))
                continue
            reals.append((L, pos, k, overflow, [t[2] for t in toks[pos + 1:]] if not overflow else None, toks[:pos + 1], inmem))
            cs = [49 + i % 9 for i in range(k)]
            queries.append("(unputrun %d %d %d (%s) (%s))" % (L if inmem else n, L, pos + 1, " ".join(map(str, data)), " ".join(map(str, cs))))
        case_sx = "(case %s\n(queries (%s)))\n" % (scanner.sx_program(prog), "\n".join(queries))
        rc, out, err = scanner.run_driver(case_sx, wd, timeout=120)
        if rc != 0:
            res['problems'].append(('driver-error', "rc=%s %s" % (rc, err[:300])))
            return res
        lines = [l for l in out.splitlines() if l.startswith("unputrun")]
        for (L, pos, k, overflow, hashes, head, inmem), line in zip(reals, lines):
            res['unput_runs'] += 1
            parts = line.split()
            m_over = parts[1] == "OVERFLOW"
            desc = "back end %s, %s, %d bytes buffered, token x at offset %d, %d x yyunput" % (
                be, "buffer of yy_scan_bytes" if inmem else "buffer size %d" % n, L, pos, k)
            if m_over != overflow:
                res['problems'].append(('unput-overflow-mismatch', "%s: the scanner %s, the buffer model (coq/Unput.v, unput_overflow_iff) says %s" % (
                    desc, "stops with 'push-back overflow'" if overflow else "goes on", "overflow" if m_over else "there is room")))
                continue
            if overflow:
                res['unput_overflows'] += 1
                continue
            want = [scanner.fnv([int(x)]) for x in parts[2:]]
            if hashes != want:
                res['problems'].append(('unput-content-mismatch', "%s: bytes scanned after the unputs differ from the model (unputs_unread): "
                                        "model %s" % (desc, parts[2:])))
    except Exception as ex:
        import traceback
        res['problems'].append(('harness-error', repr(ex) + traceback.format_exc()[-300:]))
    return res


def worker(case):
    if case.get('kind') == 'unput':
        return unput_worker(case)
    return engine.stream_worker(case)


def judge(ck, flex, scratch, cases, results, stats):
    sc = [(c, r) for c, r in zip(cases, results) if c.get('kind') != 'unput']
    engine.judge_stream(ck, flex, scratch, [c for c, _ in sc], [r for _, r in sc], stats)
    stats['unput_grid_runs'] = sum(r.get('unput_runs', 0) for r in results)
    stats['unput_grid_overflows_agreed'] = sum(r.get('unput_overflows', 0) for r in results)
    for c, r in zip(cases, results):
        if c.get('kind') != 'unput':
            continue
        c['text'] = r.get('text', '')
        for kind, msg in r['problems']:
            stats.setdefault('problem_kinds', {})
            stats['problem_kinds'][kind] = stats['problem_kinds'].get(kind, 0) + 1
        if not r['problems']:
            continue
        kind, msg = r['problems'][0]
        ck.violation("%s:%s%d" % (kind, c['backend'], c['bufsize']), msg[:600],
                     {'spec': c['text'], 'flex_opts': c['flex_opts'], 'backend': c['backend'], 'bufsize': c['bufsize'],
                      'detail': [list(p) for p in r['problems'][:4]],
                      'correspondence': 'coq/Unput.v (unputs, extracted) vs compiled scanner',
                      'how': "flex -8 -o s.c s.l; cc -DYY_BUF_SIZE=<n> (c99: %option bufsize); UNPUT_K=<k> ./s file; the action of x calls yyunput k times"},
                     no_input=kind in ('harness-error', 'driver-error'))


SECT3_SPEC = r"""%%option noyywrap nounput noinput%s
%%{
#include <stdio.h>
static void cut_(int n);
%%}
%%%%
abc      { printf("<%%s:%%d>", yytext, (int) yyleng); cut_(1); printf("[%%s:%%d]", yytext, (int) yyleng); }
[a-z]+   { printf("(%%s)", yytext); }
.|\n     { }
%%%%
static void cut_(int n) { yyless(n); }
int main(void) { yy_scan_string("abc abcd"); yylex(); printf("|"); return 0; }
"""


def sect3_yyless_probe(ck, flex, scratch, stats):
    """yyless called from a function of the user-code section (the skeleton redefines the macro for that section): the text given
    back is scanned again.  With %array the redefined macro points the scanner into the yytext array - a known finding."""
    import os
    from common import run
    import scanner
    for arr in ("", " array"):
        wd = scratch.sub("sect3" + arr.strip())
        with open(os.path.join(wd, "s.l"), "w") as f:
            f.write(SECT3_SPEC % arr)
        rc, out, err = scanner.run_flex(flex, "s.l", "s.c", ["-8"], wd)
        prob = None
        if rc != 0:
            prob = "flex fails: " + err.decode(errors="replace")[:200]
        else:
            rc, o, e = scanner.compile_c("s.c", "s.exe", wd)
            if rc != 0:
                prob = "does not compile: " + e.decode(errors="replace")[:200]
            else:
                rc, o, e = run([os.path.join(wd, "s.exe")], timeout=10)
                want = b"<abc:3>[a:1](bc)(abcd)|"
                if rc != 0 or o != want:
                    prob = "expected %r, the scanner printed %r (rc %s)" % (want, o[:80], rc)
        stats['sect3_yyless_probes'] = stats.get('sect3_yyless_probes', 0) + 1
        if prob:
            key = "yyless-in-user-code-section-with-array" if arr else "yyless-in-user-code-section"
            ck.violation(key, "yyless() called from a function of the user-code section (%s yytext): %s" % ("%array" if arr else "%pointer", prob),
                         {'spec': SECT3_SPEC % arr, 'flex_opts': ["-8"], 'input_hex': b"abc abcd".hex(),
                          'how': "flex -8 -o s.c s.l; cc; ./s.exe (the input is compiled in)"})


def build_all(rng, tier):
    return build_cases(rng, tier) + unput_cases(rng.fork("unput"), tier)


def main(tier):
    orig = engine.judge
    engine.judge = judge
    try:
        return engine.standard_main(
            PROP, tier, "Properties_C08.v", build_all,
            "action programs choosing yyless (constant and length-relative arguments), yyunput (incl. newline, NUL, 8-bit), yyinput "
            "(across sources supplied by yywrap and at end of input), yymore, yysetbol per rule x %pointer/%array x back end x table option x "
            "small buffer sizes; every event (rule, yyleng, hash of yytext, yyinput value) is compared with the stream machine; "
            "yyunput grid: (back end, buffer size, bytes buffered, offset of the token, number of unputs) compared with the buffer model "
            "coq/Unput.v (push-back overflow exactly when the model says so, bytes scanned afterwards = model's unread bytes); "
            "non-trivial = DFA >= 3 states and >= 2 rules matched",
            ["yyless / yymore after yyunput or yyinput in the same action are not generated (yytext is not defined then)",
             "every action gives back fewer bytes than its token has (termination)",
             "the buffer layout is modelled for the refill (coq/BufLayout.v) and for yyunput (coq/Unput.v) and tied by correspondence"],
            worker=worker, post=lambda ck, flex, scratch, cases, results, stats: (sect3_yyless_probe(ck, flex, scratch, stats), {k: stats.get(k, 0) for k in ['unput_grid_runs', 'unput_grid_overflows_agreed', 'sect3_yyless_probes']})[1])
    finally:
        engine.judge = orig


def _old_main(tier):
    return engine.stream_main(
        PROP, tier, "Properties_C08.v", build_cases,
        "action programs choosing yyless (constant and length-relative arguments), yyunput (incl. newline, NUL, 8-bit), yyinput "
        "(across sources supplied by yywrap and at end of input), yymore, yysetbol per rule x %pointer/%array x back end x table option x "
        "small buffer sizes; every event (rule, yyleng, hash of yytext, yyinput value) is compared with the stream machine; "
        "non-trivial = DFA >= 3 states and >= 2 rules matched",
        ["yyless / yymore after yyunput or yyinput in the same action are not generated (yytext is not defined then)",
         "every action gives back fewer bytes than its token has (termination)",
         "refinement of the buffer layout (R4b) is covered by correspondence only: C08 theorems are laws of the oracle"])


replay = engine.std_replay
