"""C11 - multiple input buffers."""
import os

import bufprog
import engine
import rulesets
from common import Rng

PROP = "C11"
OPTS = [[], [], ["-Cf"], ["-CF"], ["-Ce"], ["-B"], ["-Cm"]]


def build_cases(rng, tier):
    n = 160 if tier == "quick" else 3000
    maxlen = 60 if tier == "quick" else 400
    cases = []
    for i in range(n):
        r = rng.fork("bf%d" % i)
        be = r.weighted([('nr', 4), ('r', 4), ('c99', 2)])
        prog = rulesets.gen_program(r, trailing=False, max_scs=0, csize=256)
        hs = [bufprog.gen_history(r.fork("h%d" % k), prog, r.pick([10, 25, maxlen]), deep=(k == 2)) for k in range(3)]
        if i % 8 == 3:
            hs.append(bufprog.gen_tower(r.fork("tower"), prog, r.pick([10, 12, 18, 19])))
        cases.append({'id': "b%d" % i, 'prog': prog, 'backend': be, 'flex_opts': list(r.pick(OPTS)) + ["-8"], 'lineno': r.chance(60),
                      'histories': hs, 'seed': r.s, 'text': ''})
    return cases


def worker(case):
    wd = os.path.join(engine._ROOT, "c%s" % case['id'])
    try:
        res = bufprog.eval_buf_case(engine._FLEX, wd, case)
    except Exception as ex:
        res = {'problems': [('harness-error', repr(ex))], 'lockstep': [], 'streams': []}
    res['id'] = case['id']
    return res


def scan_buffer_probe(ck, flex, scratch, cases, results, stats):
    """yy_scan_buffer must return NULL for a buffer that does not end in two NULs."""
    import scanner
    from common import run
    wd = scratch.sub("probe")
    prog = cases[0]['prog']
    bad = 0
    n = 0
    for be in ('nr', 'r', 'c99'):
        text = bufprog.make_spec(prog, Rng(5).fork(be), be, False)
        with open(os.path.join(wd, "p.l"), "w") as f:
            f.write(text)
        if scanner.run_flex(flex, "p.l", "p.c", ["-8"], wd)[0] != 0:
            continue
        if scanner.compile_c("p.c", "p.exe", wd, extra=["-I" + os.path.dirname(flex)], backend=be)[0] != 0:
            continue
        for content in (b"abc", b"", b"a\0b"):
            with open(os.path.join(wd, "f0.bin"), "wb") as f:
                f.write(content)
            with open(os.path.join(wd, "ops.txt"), "w") as f:
                f.write("N %s\n" % os.path.join(wd, "f0.bin"))
            rc, out, err = run([os.path.join(wd, "p.exe"), os.path.join(wd, "ops.txt")], timeout=20)
            n += 1
            if b"N 1" not in out:
                bad += 1
                ck.violation("scan-buffer-accepts-unterminated:%s" % be, "yy_scan_buffer accepted a buffer not ending in two NULs (back end %s, content %r): %s" % (
                    be, content, out[:60]), {'spec': text, 'backend': be})
    return {"scan_buffer_unterminated_probes": n, "scan_buffer_unterminated_accepted": bad}


def main(tier):
    engine._orig_judge11 = engine.judge
    engine.judge = engine.judge_stream
    try:
        return engine.standard_main(
            PROP, tier, "Properties_C11.v", build_cases,
            "histories (10..60 operations quick, ..400 thorough; 3 per program) over yy_create_buffer (buffer sizes 1..16384) / "
            "yy_scan_string / yy_scan_bytes / yy_scan_buffer / switch / push (to depth > 9, beyond the initial stack allocation) / pop / "
            "flush / delete (incl. the current buffer) / yylex(k) on non-reentrant, reentrant (with per-buffer yylineno) and c99 "
            "scanners; every token is labelled with its buffer and compared with the extracted model (coq/Buffers.v); "
            "non-trivial = DFA >= 3 states and >= 2 rules matched",
            ["only histories the manual permits are generated (no use of a deleted buffer, no buffer twice in the stack, pop only with "
             "two or more buffers stacked)",
             "buffer operations happen between yylex calls and, for yypop_buffer_state, inside yywrap() (include-style scanners); pushes from inside actions are not generated",
             "the C++ class has a different buffer API (streams) and is not driven here"],
            worker=worker, post=scan_buffer_probe)
    finally:
        engine.judge = engine._orig_judge11


replay = engine.std_replay
