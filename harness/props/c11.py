"""C11 - multiple input buffers."""
import os

import bufprog
import engine
import rulesets
from common import Rng

PROP = "C11"
OPTS = [[], [], ["-Cf"], ["-CF"], ["-Ce"], ["-B"], ["-Cm"]]


def build_cases(rng, tier):
    n = 160 if tier == "quick" else 3000
    maxlen = 60 if tier == "quick" else 400
    cases = []
    for i in range(n):
        r = rng.fork("bf%d" % i)
        be = r.weighted([('nr', 4), ('r', 4), ('c99', 2)])
        if i % 6 == 4:
            be = 'cxx'          # the C++ class: buffers from streams only (no yy_scan_*), yywrap as an overridden virtual member
        prog = rulesets.gen_program(r, trailing=False, max_scs=0, csize=256)
        hs = [bufprog.gen_history(r.fork("h%d" % k), prog, r.pick([10, 25, maxlen]), deep=(k == 2), files_only=(be == 'cxx')) for k in range(3)]
        if i % 8 == 3:
            hs.append(bufprog.gen_tower(r.fork("tower"), prog, r.pick([10, 12, 18, 19])))
        if be == 'cxx' or i % 16 == 7:
            hs.append(bufprog.gen_reopen_history(r.fork("reopen"), prog, r.pick([2, 3, 4])))
        if i % 8 in (5, 1):
            # includes by yy_switch_to_buffer with a yywrap() that deletes the exhausted buffer and switches back
            hs.append(bufprog.gen_include_tower(r.fork("inc"), prog, r.pick([2, 3, 5, 9])))
        fo = list(r.pick(OPTS))
        if be == 'cxx':
            # (flex refuses -CF with -+, as documented; the C++ class reads character by character unless the scanner is a batch
            # scanner: the histories' notion of "the whole file is buffered" needs block reads)
            fo = [o for o in fo if o not in ("-CF", "-B")] + ["-B"]
        cases.append({'id': "b%d" % i, 'prog': prog, 'backend': be, 'flex_opts': fo + ["-8"], 'lineno': r.chance(60),
                      'histories': hs, 'seed': r.s, 'text': ''})
    return cases


# ------------------------------------------------------------------ the buffer stack as an array (coq/StackGrow.v)
STACK_MAIN = r"""
int main(int argc, char **argv)
{
    const char *p; int n = 0;
    %(DECL)s
    %(INIT)s
    for (p = argv[1]; *p; p++) {
        if (*p == 'P') { yypush_buffer_state(yy_create_buffer(stdin, 16 %(S)s) %(S)s); n++; }
        else yypop_buffer_state(%(S1)s);
        printf("K %%d %%d\n", (int) %(TOP)s, (int) %(MAX)s);
    }
    %(FINI)s
    return 0;
}
"""


def stack_cases(rng, tier):
    cases = []
    n = 6 if tier == "quick" else 40
    for i in range(n):
        r = rng.fork("stk%d" % i)
        hs = ["P" * 20 + "O" * 21, "P" * 9 + "O" * 3 + "P" * 12 + "O" * 20]
        for _ in range(3):
            h, depth = "", 0
            for _ in range(r.rng(10, 60)):
                if depth == 0 or r.chance(62):
                    h += "P"
                    depth += 1
                else:
                    h += "O"
                    depth -= 1
            hs.append(h)
        cases.append({'id': "k%d" % i, 'kind': 'stackgrid', 'backend': ['nr', 'r'][i % 2], 'histories': hs, 'seed': r.s,
                      'flex_opts': list(r.pick([[], ["-Cf"], ["-Ce"]])) + ["-8"], 'text': '', 'prog': None})
    return cases


def stack_worker(case):
    import os
    import scanner
    import backends
    from common import run, Rng
    wd = os.path.join(engine._ROOT, "c%s" % case['id'])
    os.makedirs(wd, exist_ok=True)
    res = {'problems': [], 'lockstep': [], 'streams': [], 'id': case['id'], 'stack_ops': 0}
    be = case['backend']
    try:
        prog = {'csize': 256, 'caseins': False, 'scs': [], 'rules': [{'head': ('c', 120), 'bol': False, 'scs': None, 'trail': None}]}
        sub = {'nr': dict(DECL="", INIT="", S="", S1="", TOP="yy_buffer_stack_top", MAX="yy_buffer_stack_max", FINI="yylex_destroy();"),
               'r': dict(DECL="yyscan_t s;", INIT="if (yylex_init(&s)) return 3;", S=", s", S1="s",
                         TOP="((struct yyguts_t *) s)->yy_buffer_stack_top", MAX="((struct yyguts_t *) s)->yy_buffer_stack_max",
                         FINI="yylex_destroy(s);")}[be]
        text = scanner.make_spec(prog, Rng(case['seed']).fork("print"), epilogue=backends.EMIT + STACK_MAIN % sub, backend=be)
        res['text'] = text
        with open(os.path.join(wd, "s.l"), "w") as f:
            f.write(text)
        rc, out, err = scanner.run_flex(engine._FLEX, "s.l", "s.c", case['flex_opts'], wd)
        if rc != 0:
            res['problems'].append(('flex-error', err.decode(errors='replace')[:300]))
            return res
        rc, out, err = scanner.compile_c("s.c", "s.exe", wd, backend=be)
        if rc != 0:
            res['problems'].append(('compile-error', err.decode(errors='replace')[:400]))
            return res
        queries, reals = [], []
        for h in case['histories']:
            rc, out, err = run([os.path.join(wd, "s.exe"), h], timeout=20)
            if rc != 0:
                res['problems'].append(('scanner-abnormal', "history %s rc=%s %s" % (h, rc, err[:160])))
                continue
            reals.append((h, [tuple(int(x) for x in l.split()[1:3]) for l in out.decode().splitlines() if l.startswith("K ")]))
            ops, nid = [], 0
            for ch in h:
                if ch == 'P':
                    nid += 1
                    ops.append(str(nid))
                else:
                    ops.append("0")
            queries.append("(stacktrace (%s))" % " ".join(ops))
        rc, out, err = scanner.run_driver("(case %s\n(queries (%s)))\n" % (scanner.sx_program(prog), "\n".join(queries)), wd, timeout=60)
        if rc != 0:
            res['problems'].append(('driver-error', "rc=%s %s" % (rc, err[:300])))
            return res
        lines = [l for l in out.splitlines() if l.startswith("stacktrace")]
        for (h, real), line in zip(reals, lines):
            model = [tuple(int(x) for x in t.split(":")) for t in line.split()[1:]]
            res['stack_ops'] += len(real)
            if real != model:
                k = next((i for i in range(min(len(real), len(model))) if real[i] != model[i]), min(len(real), len(model)))
                res['problems'].append(('buffer-stack-bookkeeping', "history %s: after operation %d the scanner has (top, capacity) = %s, the model "
                                        "(coq/StackGrow.v) %s" % (h, k + 1, real[k] if k < len(real) else None, model[k] if k < len(model) else None)))
    except Exception as ex:
        import traceback
        res['problems'].append(('harness-error', repr(ex) + traceback.format_exc()[-300:]))
    return res


def worker(case):
    if case.get('kind') == 'stackgrid':
        return stack_worker(case)
    wd = os.path.join(engine._ROOT, "c%s" % case['id'])
    try:
        res = bufprog.eval_buf_case(engine._FLEX, wd, case)
    except Exception as ex:
        res = {'problems': [('harness-error', repr(ex))], 'lockstep': [], 'streams': []}
    res['id'] = case['id']
    return res


def scan_buffer_probe(ck, flex, scratch, cases, results, stats):
    """yy_scan_buffer must return NULL for a buffer that does not end in two NULs."""
    import scanner
    from common import run
    wd = scratch.sub("probe")
    prog = cases[0]['prog']
    bad = 0
    n = 0
    for be in ('nr', 'r', 'c99'):
        text = bufprog.make_spec(prog, Rng(5).fork(be), be, False)
        with open(os.path.join(wd, "p.l"), "w") as f:
            f.write(text)
        if scanner.run_flex(flex, "p.l", "p.c", ["-8"], wd)[0] != 0:
            continue
        if scanner.compile_c("p.c", "p.exe", wd, extra=["-I" + os.path.dirname(flex)], backend=be)[0] != 0:
            continue
        for content in (b"abc", b"", b"a\0b"):
            with open(os.path.join(wd, "f0.bin"), "wb") as f:
                f.write(content)
            with open(os.path.join(wd, "ops.txt"), "w") as f:
                f.write("N %s\n" % os.path.join(wd, "f0.bin"))
            rc, out, err = run([os.path.join(wd, "p.exe"), os.path.join(wd, "ops.txt")], timeout=20)
            n += 1
            if b"N 1" not in out:
                bad += 1
                ck.violation("scan-buffer-accepts-unterminated:%s" % be, "yy_scan_buffer accepted a buffer not ending in two NULs (back end %s, content %r): %s" % (
                    be, content, out[:60]), {'spec': text, 'backend': be})
    return {"scan_buffer_unterminated_probes": n, "scan_buffer_unterminated_accepted": bad}


def judge(ck, flex, scratch, cases, results, stats):
    sc = [(c, r) for c, r in zip(cases, results) if c.get('kind') != 'stackgrid']
    engine.judge_stream(ck, flex, scratch, [c for c, _ in sc], [r for _, r in sc], stats)
    stats['buffer_stack_operations_compared'] = sum(r.get('stack_ops', 0) for r in results)
    for c, r in zip(cases, results):
        if c.get('kind') != 'stackgrid':
            continue
        c['text'] = r.get('text', '')
        for kind, msg in r['problems']:
            stats.setdefault('problem_kinds', {})
            stats['problem_kinds'][kind] = stats['problem_kinds'].get(kind, 0) + 1
        if not r['problems']:
            continue
        kind, msg = r['problems'][0]
        ck.violation("%s:%s" % (kind, c['backend']), msg[:600],
                     {'spec': c['text'], 'flex_opts': c['flex_opts'], 'backend': c['backend'], 'detail': [list(p) for p in r['problems'][:3]],
                      'correspondence': 'coq/StackGrow.v (trace, extracted) vs yy_buffer_stack_top / yy_buffer_stack_max of the compiled scanner',
                      'how': "flex -o s.c s.l; cc; ./s PPPOP...: P = yypush_buffer_state(yy_create_buffer(stdin, 16)), O = yypop_buffer_state(); "
                             "after every operation the driver prints K <top> <max>"},
                     no_input=kind in ('harness-error', 'driver-error'))


def build_all(rng, tier):
    return build_cases(rng, tier) + stack_cases(rng.fork("stackgrid"), tier)


def post_all(ck, flex, scratch, cases, results, stats):
    d = scan_buffer_probe(ck, flex, scratch, [c for c in cases if c.get('kind') != 'stackgrid'], results, stats) or {}
    d['buffer_stack_operations_compared'] = stats.get('buffer_stack_operations_compared', 0)
    return d


def main(tier):
    engine._orig_judge11 = engine.judge
    engine.judge = judge
    try:
        return engine.standard_main(
            PROP, tier, "Properties_C11.v", build_all,
            "the buffer stack as an array: (top, capacity) after every push / pop of generated histories compared with coq/StackGrow.v "
            "(C11_stack_index_inside_the_array, C11_push_is_cons, C11_pop_returns_to_the_buffer_below); "
            "histories (10..60 operations quick, ..400 thorough; 3 per program) over yy_create_buffer (buffer sizes 1..16384) / "
            "yy_scan_string / yy_scan_bytes / yy_scan_buffer / switch / push (to depth > 9, beyond the initial stack allocation) / pop / "
            "flush / delete (incl. the current buffer) / yylex(k) on non-reentrant, reentrant (with per-buffer yylineno) and c99 "
            "scanners; every token is labelled with its buffer and compared with the extracted model (coq/Buffers.v); "
            "non-trivial = DFA >= 3 states and >= 2 rules matched",
            ["only histories the manual permits are generated (no use of a deleted buffer, no buffer twice in the stack, pop only with "
             "two or more buffers stacked)",
             "buffer operations happen between yylex calls and, for yypop_buffer_state, inside yywrap() (include-style scanners); pushes from inside actions are not generated",
             "the C++ class has a different buffer API (streams) and is not driven here"],
            worker=worker, post=post_all)
    finally:
        engine.judge = engine._orig_judge11


replay = engine.std_replay
