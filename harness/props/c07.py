"""C07 - REJECT visits every alternative in the documented order."""
import os

import engine
import rulesets
import tokcase
from common import Rng

PROP = "C07"
OPTS = [[], [], ["-Ce"], ["-Cm"], ["-C"], ["-B"], ["-I"], ["-Cf"], ["-CF"], ["-Ca"]]


def build_cases(rng, tier):
    n = 220 if tier == "quick" else 3000
    cases = []
    for i in range(n):
        r = rng.fork("rj%d" % i)
        be = r.weighted([('nr', 5), ('r', 2), ('c99', 2), ('cxx', 2)])
        prog = rulesets.gen_program(r, trailing=(i % 3 == 0))
        import patgen
        if i % 6 != 0:                # every sixth case keeps variable trailing context (judged by the validator)
            for rl in prog['rules']:
                if rl.get('trail') not in (None, '$') and patgen.fixed_len(rl['head']) is None and patgen.fixed_len(rl['trail']) is None:
                    rl['trail'] = None
        elif r.chance(70):
            # make sure a rule with variable head and variable trail is there, and that it rejects
            a, b = r.pick([(97, 98), (48, 97), (98, 98)])
            prog['rules'].insert(r.below(len(prog['rules']) + 1),
                                 {'head': ('plus', ('c', a)), 'bol': False, 'scs': None, 'trail': ('star', ('c', b))})
        nr = len(prog['rules'])
        pols = {}
        for j in range(1, nr + 1):
            pols[j] = r.pick([('never',), ('always',), ('lengt', r.rng(0, 3)), ('first', r.rng(1, 3)), ('never',), ('always',)])
        if not any(p[0] != 'never' for p in pols.values()):
            pols[1] = ('always',)
        if i % 6 == 0:
            for j, rl in enumerate(prog['rules']):
                if rl.get('trail') not in (None, '$') and patgen.fixed_len(rl['head']) is None and patgen.fixed_len(rl['trail']) is None \
                        and pols[j + 1][0] == 'never':
                    pols[j + 1] = r.pick([('always',), ('first', 2), ('lengt', 1)])
        opts = list(r.pick(OPTS))
        if be == 'cxx' and "-CF" in opts:
            opts = ["-Cf"]
        opts.append("-8" if prog['csize'] == 256 else "-7")
        inputs = rulesets.gen_inputs(prog, r.fork("in"), count=4, maxlen=80)
        cases.append({'id': "j%d" % i, 'prog': prog, 'policies': pols, 'flex_opts': opts, 'inputs': inputs, 'backend': be,
                      'spelling': r.pick(['REJECT', 'yyreject()', 'yyreject ( )']), 'seed': r.s, 'text': '',
                      'run_scs': list(range(1, 2 + len(prog.get('scs', []))))})
    return cases


def worker(case):
    wd = os.path.join(engine._ROOT, "c%s" % case['id'])
    try:
        res = tokcase.eval_reject_case(engine._FLEX, wd, case['prog'], case['policies'], Rng(case['seed']).fork("print"),
                                       case['flex_opts'], case['inputs'], backend=case['backend'], spelling=case['spelling'],
                                       run_scs=case['run_scs'])
    except Exception as ex:
        res = {'problems': [('harness-error', repr(ex))], 'lockstep': [], 'streams': []}
    res['id'] = case['id']
    return res


def judge_reject(ck, flex, scratch, cases, results, stats):
    """REJECT programs have their own observation (events); failures are reported with the event streams."""
    for c, r in zip(cases, results):
        c['text'] = r.get('text', '')
    n = 0
    for c, r in zip(cases, results):
        for kind, msg in r['problems']:
            stats.setdefault('problem_kinds', {})
            stats['problem_kinds'][kind] = stats['problem_kinds'].get(kind, 0) + 1
        probs = [p for p in r['problems'] if p[0] != 'inconclusive']
        if not probs:
            continue
        n += 1
        if n > 8:
            continue
        kind, msg = probs[0]
        noinput = kind.startswith('lockstep') or kind in ('model-mismatch', 'harness-error', 'driver-error', 'tables-unreadable')
        what = {"token-mismatch": "actions ran in an order different from the documented REJECT order",
                "reject-not-detected": "an action uses the documented reject call but the scanner has no REJECT support",
                "compile-error": "generated REJECT scanner does not compile",
                "missing-refusal": "flex accepted REJECT together with full tables",
                "flex-error": "flex refuses a documented REJECT program"}.get(kind, kind)
        ck.violation("%s:%s" % (kind, engine.prog_key(c)), "%s: %s" % (what, msg[:300]),
                     {'spec': c['text'], 'flex_opts': c['flex_opts'], 'backend': c['backend'], 'policies': c['policies'],
                      'detail': [list(p) for p in probs[:4]],
                      'theorem': 'C07_alternatives_from_tables (premise check_rview = true)' if kind.startswith('lockstep') else None,
                      'how': "flex <opts> -o s.c s.l; cc; ./s input sc-1; one line rule:yyleng:hash per action executed"},
                     no_input=noinput)


def main(tier):
    import common
    ck_holder = {}

    def post(ck, flex, scratch, cases, results, stats):
        vs = [st for r in results for st in r.get('streams', []) if st.get('variable_trailing')]
        return {"event_streams_with_variable_trailing_context_validated": len(vs),
                "of_which_with_a_reject_inside_such_a_rule": sum(1 for r in results if r.get('var_rules') and
                                                                 any(st.get('variable_trailing') and len(st['real']) > 1 for st in r.get('streams', []))),
                "scanners_with_variable_trailing_context_and_REJECT": sum(1 for r in results if r.get('var_rules'))}

    # standard_main's judge understands plain token cases; REJECT programs use their own judge
    orig = engine.judge
    engine.judge = judge_reject
    try:
        return engine.standard_main(
            PROP, tier, "Properties_C07.v", build_cases,
            "random rule sets whose actions reject always / never / by length / the first n times (REJECT and yyreject() spellings) x "
            "table option x back end; the sequence of executed actions (rule, yyleng) is compared with the specification's walk through "
            "salts (proved complete and ordered) and with the walk through the emitted yy_acclist tables; "
            "non-trivial = DFA >= 3 states and >= 2 rules executed",
            ["REJECT inside rules with variable trailing context: the text handed to the action may be any documented head of the match "
             "(validator rej_validate, coq/C07VarProofs.v); rule sets for which flex prints 'dangerous trailing context' are excluded (C06)",
             "the overflow clause (token outgrowing the non-growing buffer) is exercised in C03"],
            worker=worker, post=post)
    finally:
        engine.judge = orig


replay = engine.std_replay
