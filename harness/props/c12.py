"""C12 - scanner instances are isolated from each other and safe to run in parallel."""
import hashlib
import os
import re
import shutil

import backends
import engine
import rulesets
import scanner
from common import Rng, run, Scratch, build_flex, Check, parallel_map

PROP = "C12"
_FLEX = None
_ROOT = None

TOP_C = r"""
#include <stdio.h>
#include <stdlib.h>
#include <string.h>
#include <pthread.h>
#define MAXI 8
static __thread int g_cur;
static char *g_out[MAXI]; static size_t g_len[MAXI], g_cap[MAXI];
static void emit_tok(int r, const char *t, int n)
{
    unsigned h = 2166136261u; int i; char line[64]; size_t k;
    for (i = 0; i < n; i++) { h ^= (unsigned char) t[i]; h *= 16777619u; }
    k = (size_t) snprintf(line, sizeof line, "%d:%d:%u\n", r, n, h);
    if (g_len[g_cur] + k + 1 > g_cap[g_cur]) { g_cap[g_cur] = (g_cap[g_cur] + k + 1) * 2; g_out[g_cur] = (char *) realloc(g_out[g_cur], g_cap[g_cur]); }
    memcpy(g_out[g_cur] + g_len[g_cur], line, k + 1); g_len[g_cur] += k;
}
"""

MAIN_C = r"""
static yyscan_t g_sc[MAXI]; static yyscan_t g_aux; static int g_n;
static void *runner(void *arg)
{
    int i = (int) (long) arg;
    g_cur = i;
    while (yylex(g_sc[i]) != 0) ;
    return 0;
}
int main(int argc, char **argv)
{
    int i, done[MAXI]; FILE *f[MAXI]; const char *p; pthread_t th[MAXI];
    g_n = argc - 3;
    for (i = 0; i < g_n; i++) {
        f[i] = fopen(argv[3 + i], "rb"); if (!f[i]) return 2;
        if (yylex_init(&g_sc[i])) return 3;
        yyset_in(f[i], g_sc[i]); done[i] = 0;
    }
#ifdef USE_TABLES
    {   /* the serialized tables are loaded once, through an instance that scans nothing, and released at the very end */
        FILE *tf = fopen(getenv("C12_TABLES"), "rb");
        if (!tf || yylex_init(&g_aux) || yytables_fload(tf, g_aux) != 0) return 4;
        fclose(tf);
    }
#endif
    if (argv[1][0] == 'e') {
        /* lifetimes overlap: an instance is destroyed as soon as its input is exhausted, the others go on */
        for (p = argv[2]; *p; p++) { i = *p - '0'; if (i < g_n && !done[i]) { g_cur = i; if (yylex(g_sc[i]) == 0) { done[i] = 1; yylex_destroy(g_sc[i]); fclose(f[i]); } } }
        for (i = 0; i < g_n; i++) { g_cur = i; while (!done[i]) if (yylex(g_sc[i]) == 0) { done[i] = 1; yylex_destroy(g_sc[i]); fclose(f[i]); } }
#ifdef USE_TABLES
        yytables_destroy(g_aux); yylex_destroy(g_aux);
#endif
        for (i = 0; i < g_n; i++) printf("== %d\n%s", i, g_out[i] ? g_out[i] : "");
        return 0;
    }
    if (argv[1][0] == 't') {
        for (i = 0; i < g_n; i++) pthread_create(&th[i], 0, runner, (void *) (long) i);
        for (i = 0; i < g_n; i++) pthread_join(th[i], 0);
    } else {
        for (p = argv[2]; *p; p++) { i = *p - '0'; if (i < g_n && !done[i]) { g_cur = i; if (yylex(g_sc[i]) == 0) done[i] = 1; } }
        for (i = 0; i < g_n; i++) { g_cur = i; while (!done[i]) if (yylex(g_sc[i]) == 0) done[i] = 1; }
    }
    for (i = 0; i < g_n; i++) { yylex_destroy(g_sc[i]); fclose(f[i]); }
#ifdef USE_TABLES
    yytables_destroy(g_aux); yylex_destroy(g_aux);
#endif
    for (i = 0; i < g_n; i++) printf("== %d\n%s", i, g_out[i] ? g_out[i] : "");
    return 0;
}
"""

MAIN_CXX = r"""
#include <fstream>
static yyFlexLexer *g_lx[MAXI]; static int g_n;
static void *runner(void *arg)
{
    int i = (int) (long) arg;
    g_cur = i;
    while (g_lx[i]->yylex() != 0) ;
    return 0;
}
int main(int argc, char **argv)
{
    int i, done[MAXI]; std::ifstream *f[MAXI]; const char *p; pthread_t th[MAXI];
    g_n = argc - 3;
    for (i = 0; i < g_n; i++) { f[i] = new std::ifstream(argv[3 + i], std::ios::binary); g_lx[i] = new yyFlexLexer(f[i], 0); done[i] = 0; }
    if (argv[1][0] == 't') {
        for (i = 0; i < g_n; i++) pthread_create(&th[i], 0, runner, (void *) (long) i);
        for (i = 0; i < g_n; i++) pthread_join(th[i], 0);
    } else {
        for (p = argv[2]; *p; p++) { i = *p - '0'; if (i < g_n && !done[i]) { g_cur = i; if (g_lx[i]->yylex() == 0) done[i] = 1; } }
        for (i = 0; i < g_n; i++) { g_cur = i; while (!done[i]) if (g_lx[i]->yylex() == 0) done[i] = 1; }
    }
    for (i = 0; i < g_n; i++) { delete g_lx[i]; delete f[i]; }
    for (i = 0; i < g_n; i++) printf("== %d\n%s", i, g_out[i] ? g_out[i] : "");
    return 0;
}
"""


def make_spec(prog, rng, be, tables=False):
    nrules = len(prog['rules'])
    if be == 'c99':
        top = "\n%{\n#define _GNU_SOURCE 1\n" + TOP_C + "#define tok(r) emit_tok(r, yyget_text(yyscanner), (int) yyget_leng(yyscanner))\n%}\n"
        main = MAIN_C
    elif be == 'cxx':
        top = "\n%{\n" + TOP_C + "#define tok(r) emit_tok(r, yytext, (int) yyleng)\n#define yyecho() tok(%d)\n%%}\n" % (nrules + 1)
        main = MAIN_CXX
    else:
        top = "\n%{\n" + TOP_C + "#define tok(r) emit_tok(r, yytext, (int) yyleng)\n#define yyecho() tok(%d)\n%%}\n" % (nrules + 1)
        main = MAIN_C
    # per-instance state beyond the input position: text kept by yymore() across calls, yyless(), %array, yylineno
    feat = rng.fork("feat")
    use_more = feat.chance(50)
    more = "yymore(yyscanner);" if be == 'c99' else "yymore();"
    actions = {}
    for i in range(nrules):
        a = "tok(%d);" % (i + 1)
        if use_more and feat.chance(40):
            a += " " + more                    # (the request is pending when this call returns: another instance may run in between)
        elif feat.chance(15) and be != 'c99':
            a += " if (yyleng > 1) yyless(1);"
        actions[i] = a + " return 1;"
    options = (["case-insensitive"] if prog.get('caseins') else [])
    if use_more and be == 'c99':
        options.append("yymore")
    if feat.chance(30) and be != 'cxx':
        options.append("array")
    if feat.chance(40):
        options.append("yylineno")
    if tables:
        options.append('tables-file="t.tables"')
        top = top.replace("#include <stdio.h>", "#define USE_TABLES 1\n#include <stdio.h>", 1)
    text = scanner.make_spec(prog, rng, options=options, actions=actions, prologue=top,
                             epilogue=main, backend=be)
    if be == 'c99':
        # the c99 back end has no yyecho macro to override: a catch-all rule makes the default rule unreachable
        text = text.replace("\n%%\n" + main, "\n<*>.|\\n\t{ tok(%d); return 1; }\n%%%%\n" % (nrules + 1) + main, 1)
    return text


def parse(out):
    res = {}
    cur = None
    for line in out.decode(errors="replace").splitlines():
        if line.startswith("== "):
            cur = int(line[3:])
            res[cur] = []
        elif cur is not None:
            res[cur].append(line)
    return res


# with --tables-file the tables are pointers filled once by yytables_fload() and shared by all instances (manual, "Loading and
# Unloading Serialized Tables"): they are the documented exception to "no state outside the scanner object"
TABLE_POINTERS = {"yy_accept", "yy_base", "yy_chk", "yy_def", "yy_ec", "yy_meta", "yy_nxt", "yy_NUL_trans", "yy_acclist",
                  "yy_rule_can_match_eol", "yy_start_state_list", "yy_transition", "yydmap"}


def writable_globals(wd, obj, csrc, tables=False):
    """symbols in writable sections, except the harness's own (g_*) and tables of pointers to constant data that the source
    declares 'static const ... *name[]' (relocated, never assigned: yy_start_state_list)"""
    rc, out, err = run(["nm", obj], cwd=wd, timeout=30)
    with open(os.path.join(wd, csrc), errors="replace") as f:
        body = f.read()
    bad = []
    for l in out.decode().splitlines():
        p = l.split()
        if len(p) >= 3 and p[1] in "BbDdCc" and "g_" not in p[2] and not p[2].startswith("__") and not p[2].startswith("_ZSt") and "completed" not in p[2]:
            if re.search(r"^static const [^;=\n]*\*\s*%s\s*\[" % re.escape(p[2]), body, re.M) and not re.search(r"\b%s\s*\[[^\]]*\]\s*=[^=]" % re.escape(p[2]), body.split("{", 1)[1] if False else ""):
                continue
            if tables and p[2] in TABLE_POINTERS:
                continue
            bad.append("%s %s" % (p[1], p[2]))
    return bad


def one(job):
    idx, seed, be, opts = job
    rng = Rng(seed)
    wd = os.path.join(_ROOT, "i%d" % idx)
    os.makedirs(wd, exist_ok=True)
    prog = rulesets.gen_program(rng.fork("p"), trailing=rng.chance(25), max_scs=0, csize=256)
    tables = be == 'r' and idx % 3 == 1          # tables shared by all instances: loaded once from a --tables-file
    text = make_spec(prog, rng.fork("print"), be, tables=tables)
    ext = backends.BACKENDS[be]['ext']
    with open(os.path.join(wd, "s.l"), "w") as f:
        f.write(text)
    problems = []
    rc, out, err = scanner.run_flex(_FLEX, "s.l", "s." + ext, opts, wd)
    if rc != 0:
        shutil.rmtree(wd, ignore_errors=True)
        return {'idx': idx, 'spec': text, 'opts': opts, 'backend': be, 'problems': [], 'skipped': err.decode(errors='replace')[:100]}
    inc = ["-I" + os.path.dirname(_FLEX)]
    rc, o, e = scanner.compile_c("s." + ext, "s.exe", wd, extra=inc + ["-pthread"], backend=be)
    if rc != 0:
        shutil.rmtree(wd, ignore_errors=True)
        return {'idx': idx, 'spec': text, 'opts': opts, 'backend': be, 'problems': ["does not compile: " + e.decode(errors='replace')[:300]]}
    # object facts: no writable data outside the per-scanner structure
    rc, o, e = scanner.compile_c("s." + ext, "s.o", wd, extra=inc + ["-c", "-pthread"], backend=be)
    if rc == 0:
        bad = writable_globals(wd, "s.o", "s." + ext, tables=tables)
        if bad:
            problems.append("the object of a reentrant scanner has writable global data: %s" % bad[:6])
    n = rng.rng(2, 5)
    inputs = rulesets.gen_inputs(prog, rng.fork("in"), count=n, maxlen=rng.pick([30, 120, 400]))
    files = []
    for i, w in enumerate(inputs):
        p = os.path.join(wd, "in%d.bin" % i)
        with open(p, "wb") as f:
            f.write(bytes(w))
        files.append(p)
    exe = os.path.join(wd, "s.exe")
    alone = {}
    tenv = {"C12_TABLES": os.path.join(wd, "t.tables")}
    for i in range(n):
        rc, out, err = run([exe, "s", "", files[i]], timeout=30, env=tenv)
        if rc != 0:
            problems.append("instance %d alone exits %s: %s" % (i, rc, err.decode(errors='replace')[:100]))
        alone[i] = parse(out).get(0, [])
    nsched = 0
    for k in range(3):
        total = sum(len(alone[i]) for i in range(n)) + 4
        sched = "".join(str(rng.below(n)) for _ in range(rng.rng(1, total)))
        if k == 2:
            sched = "".join(str(i) for i in range(n)) * (total // n + 1)        # strict round robin
        # the C drivers also run every schedule with overlapping lifetimes (mode e: an instance is destroyed when it is done)
        # the round-robin run gets its heap blocks pre-filled with a byte pattern (glibc MALLOC_PERTURB_): a scanner object
        # must not depend on what the memory held before (for instance the state of an instance destroyed earlier)
        penv = dict(tenv, MALLOC_PERTURB_="90") if k == 2 else tenv
        rc, out, err = run([exe, "e" if (be != 'cxx' and k == 1) else "s", sched] + files, timeout=30, env=penv)
        nsched += 1
        got = parse(out)
        for i in range(n):
            if got.get(i) != alone[i]:
                a, b = alone[i], got.get(i, [])
                j = next((x for x in range(min(len(a), len(b))) if a[x] != b[x]), min(len(a), len(b)))
                problems.append("instance %d of %d under schedule %s...: token %d is %s, alone it is %s (rc=%s)" % (
                    i, n, sched[:40], j, b[j] if j < len(b) else "<none>", a[j] if j < len(a) else "<none>", rc))
                break
    # threads, under ThreadSanitizer
    rc, o, e = scanner.compile_c("s." + ext, "t.exe", wd, extra=inc + ["-pthread", "-fsanitize=thread", "-g", "-O1"], backend=be)
    if rc == 0:
        rc, out, err = run([os.path.join(wd, "t.exe"), "t", ""] + files, timeout=120,
                           env=dict(tenv, TSAN_OPTIONS="halt_on_error=0:exitcode=66"))
        errs = err.decode(errors="replace")
        m = re.search(r"WARNING: ThreadSanitizer: ([^\n]*)", errs)
        if m:
            where = re.findall(r"#\d+ (\w+) ", errs)[:5]
            problems.append("ThreadSanitizer: %s in %s" % (m.group(1), " < ".join(where)))
        got = parse(out)
        for i in range(n):
            if got.get(i) != alone[i] and not m:
                problems.append("instance %d run in its own thread differs from its run alone (rc=%s)" % (i, rc))
                break
    else:
        problems.append("does not compile with -fsanitize=thread: " + e.decode(errors='replace')[:200])
    shutil.rmtree(wd, ignore_errors=True)
    return {'idx': idx, 'spec': text, 'opts': opts, 'backend': be, 'problems': problems[:4], 'instances': n, 'schedules': nsched,
            'tokens': sum(len(v) for v in alone.values())}


def prefixes(job):
    """two scanners with different prefixes in one program"""
    idx, seed = job
    rng = Rng(seed)
    wd = os.path.join(_ROOT, "x%d" % idx)
    os.makedirs(wd, exist_ok=True)
    problems = []
    kinds = [rng.pick(['nr', 'r']), rng.pick(['nr', 'r'])]
    outs = []
    syms = []
    for k, (pre, be) in enumerate(zip(("aa", "bb"), kinds)):
        rules = ["x+", "y", "[0-9]+", "z{2}"] if k == 0 else ["xy", "x", "[0-9]", "z+"]
        rng2 = rng.fork("r%d" % k)
        text = "%%option noyywrap nounput noinput prefix=\"%s\"%s%s\n%%{\n#include <stdio.h>\n%%}\n%%%%\n" % (
            pre, " reentrant" if be == 'r' else "", rng2.pick(["", " array", " yylineno", " stack"]))
        for i, r in enumerate(rules):
            text += "%s\t{ printf(\"%s %d %%d\\n\", (int) yyleng); }\n" % (r, pre, i + 1)
        text += ".|\\n\t{ }\n%%\n"
        if be == 'r':
            text += "void run_%s(const char *s) { yyscan_t sc; yylex_init(&sc); yy_scan_string(s, sc); yylex(sc); yylex_destroy(sc); }\n" % pre
        else:
            text += "void run_%s(const char *s) { yy_scan_string(s); yylex(); yylex_destroy(); }\n" % pre
        with open(os.path.join(wd, pre + ".l"), "w") as f:
            f.write(text)
        rc, out, err = scanner.run_flex(_FLEX, pre + ".l", pre + ".c", list(rng2.pick([[], ["-Cf"], ["-CF"], ["-Ce"]])) + ["-8"], wd)
        if rc != 0:
            return {'idx': idx, 'problems': ["flex fails on the prefix probe: " + err.decode(errors='replace')[:200]], 'spec': text, 'opts': [], 'backend': be}
        rc, o, e = run(["gcc", "-w", "-c", pre + ".c"], cwd=wd, timeout=60)
        if rc != 0:
            return {'idx': idx, 'problems': ["prefix probe does not compile: " + e.decode(errors='replace')[:200]], 'spec': text, 'opts': [], 'backend': be}
        rc, o, e = run(["nm", "-g", "--defined-only", pre + ".o"], cwd=wd, timeout=30)
        syms.append(set(l.split()[-1] for l in o.decode().splitlines() if l.strip()))
    common = (syms[0] & syms[1])
    if common:
        problems.append("scanners with prefixes aa and bb (%s, %s) both define %s" % (kinds[0], kinds[1], sorted(common)[:6]))
    for s, pre in zip(syms, ("aa", "bb")):
        stray = [x for x in s if not x.startswith(pre) and not x.startswith("run_")]
        if stray:
            problems.append("scanner with prefix %s defines external symbols without it: %s" % (pre, sorted(stray)[:6]))
    with open(os.path.join(wd, "m.c"), "w") as f:
        f.write("void run_aa(const char *); void run_bb(const char *);\nint main(void) { run_aa(\"xxy12zz\"); run_bb(\"xxy12zz\"); run_aa(\"zzx\"); return 0; }\n")
    rc, o, e = run(["gcc", "-w", "-o", "m.exe", "m.c", "aa.o", "bb.o"], cwd=wd, timeout=60)
    if rc != 0:
        problems.append("the two scanners do not link into one program: " + e.decode(errors='replace')[:300])
    else:
        rc, o, e = run([os.path.join(wd, "m.exe")], timeout=20)
        want = "aa 1 2\naa 2 1\naa 3 2\naa 4 2\nbb 1 2\nbb 2 1\nbb 3 1\nbb 3 1\nbb 4 2\naa 4 2\naa 1 1\n"
        # (bb: "xxy12zz" -> x, xy, 1, 2, zz)
        want = "aa 1 2\naa 2 1\naa 3 2\naa 4 2\nbb 2 1\nbb 1 2\nbb 3 1\nbb 3 1\nbb 4 2\naa 4 2\naa 1 1\n"
        if o.decode() != want:
            problems.append("two-prefix program prints %r, expected %r" % (o.decode(), want))
    shutil.rmtree(wd, ignore_errors=True)
    return {'idx': idx, 'problems': problems, 'spec': "(prefix probe aa/bb, kinds %s)" % kinds, 'opts': [], 'backend': "+".join(kinds), 'prefix': True}


def _dispatch(job):
    try:
        if job[0] == 'X':
            return prefixes(job[1:])
        return one(job[1:])
    except Exception as ex:
        import traceback
        return {'idx': -1, 'problems': ["harness-error " + repr(ex) + traceback.format_exc()[-400:]], 'harness': True, 'spec': '', 'opts': [], 'backend': ''}


def main(tier):
    global _FLEX, _ROOT
    ck = Check(PROP, tier)
    rng = Rng(ck.seed).fork(PROP)
    nob, ngood, details = engine.obligations(ck, "Properties_C12.v")
    assumptions = ["the theorem is about systems whose steps touch one instance only; that generated scanners are such systems is checked on "
                   "the compiled objects (no writable data outside the per-scanner structure) and under ThreadSanitizer, not proved",
                   "thread schedules are whatever the OS produces during the runs (ThreadSanitizer reports races independently of the schedule "
                   "that happened); interleavings on one thread are generated"]
    with Scratch("c12") as scratch:
        _FLEX = build_flex(scratch)
        _ROOT = scratch.sub("cases")
        jobs = []
        n = 40 if tier == "quick" else 1200
        for i in range(n):
            r = rng.fork("i%d" % i)
            be = r.weighted([('r', 5), ('c99', 3), ('cxx', 3)])
            opts = list(r.pick([[], [], ["-Cf"], ["-CF"], ["-Ce"], ["-Cm"], ["-B"], ["-I"]])) + ["-8"]
            if be == 'cxx' and any("F" in o for o in opts):
                opts = ["-Cf", "-8"]
            jobs.append(('I', i, r.s, be, opts))
        for i in range(6 if tier == "quick" else 60):
            jobs.append(('X', 1000 + i, rng.fork("x%d" % i).s))
        results = parallel_map(_dispatch, jobs)
    stats = {'scanners': 0, 'instances': 0, 'schedules': 0, 'tokens': 0, 'prefix_programs': 0, 'skipped': 0}
    for r in results:
        if r.get('harness'):
            for p in r['problems']:
                ck.violation("harness:" + hashlib.sha256(p.encode()).hexdigest()[:8], p, {}, no_input=True)
            continue
        if r.get('prefix'):
            stats['prefix_programs'] += 1
        elif r.get('skipped'):
            stats['skipped'] += 1
        else:
            stats['scanners'] += 1
            stats['instances'] += r.get('instances', 0)
            stats['schedules'] += r.get('schedules', 0)
            stats['tokens'] += r.get('tokens', 0)
        for p in r['problems']:
            key = "isolation:%s:%s" % (r['backend'], re.sub(r"[^a-zA-Z]+", "-", p)[:60])
            ck.violation(key, "[%s, flex %s] %s" % (r['backend'], " ".join(r['opts']), p),
                         {'spec': r['spec'], 'flex_args': r['opts'], 'backend': r['backend'],
                          'how': "flex; cc -pthread; ./s s <schedule digits> in0 in1 ... (one yylex call of instance d per digit) or ./s t '' in0 ... (one thread per instance, -fsanitize=thread)"})
    cov = {"level": "proof", "obligations": nob, "discharged": ngood, "theorems": details,
           "checker_cmd": "make -C coq Properties_C12.vo; flex rebuilt from /repo",
           "trusted_base": ["Coq 8.16.1 kernel", "harness", "gcc ThreadSanitizer", "nm"],
           "evaluations": stats['schedules'] + stats['scanners'] + stats['prefix_programs'], "distinct_nontrivial": stats['scanners'],
           "rule": "reentrant C, c99 and C++ scanners from generated rule sets x table options: 2-5 instances on different inputs, 3 generated "
                   "interleavings of single yylex calls on one thread (incl. strict round robin) compared per instance with the run alone; the "
                   "same instances each in its own thread under ThreadSanitizer; nm: no writable data in the object of a reentrant scanner; two "
                   "scanners with different prefixes (reentrant or not) linked into one program: disjoint external symbols, each keeps its "
                   "tables; non-trivial = every scanner", **stats}
    return ck.finish(cov, assumptions=assumptions)


replay = engine.std_replay
