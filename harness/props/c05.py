"""C05 - start conditions activate the documented rules; the state stack is a LIFO."""
import engine
import streamprog
from common import Rng

PROP = "C05"
OPTS = [[], ["-Cf"], ["-CF"], ["-Ce"], ["-B"], ["-Cm"]]
BACKENDS = ['nr', 'nr', 'r', 'c99', 'cxx']


def many_conditions(rng, n):
    """Programs with up to 45 start conditions (crossing INITIAL_MAX_SCS), <*> rules, lists, exclusive/inclusive mix."""
    scs = [("SC%d" % (i + 2), rng.chance(50)) for i in range(n)]
    rules = []
    for i in range(rng.rng(n // 2 + 2, n + 6)):
        head = ('cat', ('c', 97 + i % 4), ('c', 97 + (i // 4) % 4)) if rng.chance(70) else ('plus', ('c', 97 + i % 4))
        x = rng.below(100)
        if x < 12:
            s = '*'
        elif x < 30:
            s = None
        else:
            s = sorted(set(rng.rng(1, n + 1) for _ in range(rng.rng(1, 3))))
        rules.append({'head': head, 'bol': rng.chance(15), 'scs': s, 'trail': None})
        if isinstance(s, list) and len(s) >= 2 and rng.chance(60):
            # a rule that follows in the outer scope after the nested one is closed (written with scopes by make_spec)
            for _ in range(rng.rng(1, 2)):
                h2 = ('cat', ('c', 97 + rng.below(4)), ('c', 101 + rng.below(3)))
                rules.append({'head': h2, 'bol': rng.chance(15), 'scs': s[:1], 'trail': None})
    prog = {'csize': 256, 'caseins': False, 'scs': scs, 'rules': rules, 'scoped': True}
    if n >= 2 and rng.chance(60):
        prog['scnames'] = colliding_names(rng, n)
    return prog


def _flex_hash(name, size=101):
    h = 0
    for ch in name.encode():
        h = ((h << 1) + ch) % size
    return h


def colliding_names(rng, n):
    """Names for some of the conditions 2..n+1: pairs (X, X<suffix>) with the same value of flex's symbol hash, the shorter one
    declared first, and names differing in one character only."""
    names = {}
    free = list(range(2, n + 2))
    letters = "ABCDEFGHJKLMNPQRSTUVWXYZ_0123456789"
    for _ in range(rng.rng(1, 3)):
        if len(free) < 2:
            break
        i = free.pop(rng.below(len(free)))
        j = free.pop(rng.below(len(free)))
        i, j = min(i, j), max(i, j)
        base = rng.pick(["STR", "COM", "C", "S", "STRING", "Q", "IN"]) + ("" if not names else str(len(names)))
        want = _flex_hash(base)
        found = None
        for a in letters:
            for b in letters:
                for c in [""] + list(letters):
                    cand = base + "_" + a + b + c
                    if _flex_hash(cand) == want:
                        found = cand
                        break
                if found:
                    break
            if found:
                break
        if found:
            names[i] = base
            names[j] = found
    return names


def build_cases(rng, tier):
    cases = []
    # (a) activation: lock-step of every (condition, BOL) start state + token streams started in each condition
    na = 60 if tier == "quick" else 1500
    for i in range(na):
        r = rng.fork("act%d" % i)
        n = r.pick([1, 2, 3, 5, 9, 20, 44]) if i % 10 else 44
        prog = many_conditions(r, n)
        c = engine.make_case("a%d" % i, r, prog=prog, flex_opts=r.pick(OPTS), backend=r.pick(['nr', 'r', 'c99', 'cxx'] if "-CF" not in OPTS else ['nr']),
                             ninputs=3, maxlen=40)
        if c['backend'] == 'cxx' and "-CF" in c['flex_opts']:
            c['flex_opts'] = ["-Cf", "-8"]
        c['run_scs'] = sorted(set([1, n + 1] + [r.rng(1, n + 1) for _ in range(3)]))
        c['kind'] = 'tok'
        cases.append(c)
    # (b) histories of yybegin / yy_push_state / yy_pop_state / yy_top_state from actions and EOF actions
    nb = 150 if tier == "quick" else 3000
    for i in range(nb):
        r = rng.fork("stk%d" % i)
        c = streamprog.gen_stream_case(r, "s%d" % i, {'stack', 'eof'} if i % 3 else {'stack'}, backend=r.pick(BACKENDS),
                                       flex_opts=r.pick(OPTS[:1] + OPTS[3:]))
        c['kind'] = 'stream'
        cases.append(c)
    return cases


def worker(case):
    if case['kind'] == 'tok':
        return engine._work(case)
    return engine.stream_worker(case)


def judge(ck, flex, scratch, cases, results, stats):
    tok = [(c, r) for c, r in zip(cases, results) if c['kind'] == 'tok']
    stm = [(c, r) for c, r in zip(cases, results) if c['kind'] == 'stream']
    engine._orig_judge(ck, flex, scratch, [c for c, _ in tok], [r for _, r in tok], stats)
    engine.judge_stream(ck, flex, scratch, [c for c, _ in stm], [r for _, r in stm], stats)


def main(tier):
    engine._orig_judge = engine.judge
    engine.judge = judge
    try:
        return engine.standard_main(
            PROP, tier, "Properties_C05.v", build_cases,
            "(a) programs with 1..45 start conditions (inclusive/exclusive, <*>, lists): every (condition, BOL) start state of the "
            "emitted tables is lock-stepped against the documented set of active rules, and scanners are started in several conditions; "
            "(b) action programs making yybegin/push/pop/top calls (incl. underflow) compared event by event with the stream machine; "
            "non-trivial = DFA >= 3 states and >= 2 rules matched",
            ["start-condition scopes are exercised through their prefix-equivalent printing in the thorough tier",
             "out-of-memory while growing the stack belongs to C14"],
            worker=worker)
    finally:
        engine.judge = engine._orig_judge


replay = engine.std_replay
