"""C15 - serialized tables round-trip and follow the documented file format."""
import hashlib
import os
import re

import backends
import engine
import rulesets
import scanner
import tables
from common import Rng, run

PROP = "C15"
REPRS = [[], ["-Ce"], ["-Cm"], ["-C"], ["-Cf"], ["-CF"], ["-Cfe"], ["-CFe"], ["-Ca"], ["-Cfa"]]
IDS = {1: 'yy_accept', 2: 'yy_base', 3: 'yy_chk', 4: 'yy_def', 5: 'yy_ec', 6: 'yy_meta', 7: 'yy_NUL_trans', 8: 'yy_nxt',
       9: 'yy_rule_can_match_eol', 10: 'start_state_list', 11: 'transition', 12: 'yy_acclist'}

MAIN_LOAD = backends.EMIT + r"""
int main(int argc, char **argv)
{
    FILE *fp = fopen(argv[1], "rb");
    int rc;
    if (!fp) return 3;
    rc = yytables_fload(fp);
    fclose(fp);
    printf("FLOAD %d\n", rc);
    if (rc != 0) { fflush(stdout); return 0; }
    if (argc > 2) {
        yyin = fopen(argv[2], "rb");
        if (!yyin) return 2;
        yylex();
    }
    printf("DESTROY %d\n", yytables_destroy());
    fflush(stdout);
    return 0;
}
"""


def spec_for(prog, rng, prefix, extra_opts, main):
    nrules = len(prog['rules'])
    opts = ["noyywrap", "nounput", "noinput"] + list(extra_opts)
    if prefix != "yy":
        opts.append('prefix="%s"' % prefix)
    if prog.get('caseins'):
        opts.append("case-insensitive")
    defs = {}
    pats = [scanner.print_rule_pattern(r, rng, defs) for r in prog['rules']]
    out = ["%option " + " ".join(opts), backends.prologue('nr', nrules + 1)]
    for name in defs:
        out.append("%s %s" % (name, defs[name]))
    for i, (name, excl) in enumerate(prog.get('scs', [])):
        out.append("%s SC%d" % ("%x" if excl else "%s", i + 2))
    out.append("%%")
    for i, p in enumerate(pats):
        out.append("%s\t{ tok(%d); }" % (p, i + 1))
    out.append("%%")
    out.append(main.replace("yytables_fload", prefix + "tables_fload").replace("yytables_destroy", prefix + "tables_destroy")
               .replace("yyin", prefix + "in").replace("yylex()", prefix + "lex()") if prefix != "yy" else main)
    return "\n".join(out) + "\n"


def decode(path, name, wd):
    case = "(case (csize 256) (nsc 1) (excl ()) (rules ()) (queries ((tablesfile %s %s))))" % (path, name)
    rc, out, err = scanner.run_driver(case, wd, name="dec.sx", timeout=120)
    res = {'status': None, 'tables': [], 'reencode': None}
    for line in out.splitlines():
        if line.startswith("tablesfile "):
            res['status'] = line.split()[1]
        elif line.startswith("table id="):
            m = re.match(r"table id=(\d+) flags=(\d+) hilen=(\d+) lolen=(\d+) data=(.*)$", line)
            res['tables'].append({'id': int(m.group(1)), 'flags': int(m.group(2)), 'hilen': int(m.group(3)), 'lolen': int(m.group(4)),
                                  'data': [int(x) for x in m.group(5).split(",")] if m.group(5) else []})
        elif line.startswith("reencode"):
            res['reencode'] = "identical=true" in line
    return res


def worker(case):
    wd = os.path.join(engine._ROOT, "c%s" % case['id'])
    os.makedirs(wd, exist_ok=True)
    res = {'problems': [], 'lockstep': [], 'streams': [], 'id': case['id']}
    flex = engine._FLEX
    try:
        prog = case['prog']
        rng = Rng(case['seed'])
        opts = case['flex_opts']
        # (A) scanner with serialized tables, (B) the same with in-code tables
        xo = list(case.get('extra_options') or [])
        textA = spec_for(prog, rng.fork("p"), "yy", ['tables-file="t.tables"'] + xo, MAIN_LOAD)
        textB = spec_for(prog, rng.fork("p"), "yy", xo, backends.epilogue('nr', len(prog['rules']) + 1))
        res['text'] = textA
        with open(os.path.join(wd, "a.l"), "w") as f:
            f.write(textA)
        with open(os.path.join(wd, "b.l"), "w") as f:
            f.write(textB)
        rc, out, err = run([flex] + opts + ["-o", "a.c", "a.l"], cwd=wd, timeout=60)
        if rc != 0:
            import tokcase
            exp = tokcase.expected_refusal(prog, opts, 'nr', wd)
            if exp and any(m in err.decode(errors='replace') for m in exp):
                res['refusal_documented'] = True
                return res
            res['problems'].append(('flex-error', err.decode(errors='replace')[:300]))
            return res
        rc, out, err = run([flex] + opts + ["-o", "b.c", "b.l"], cwd=wd, timeout=60)
        if rc != 0:
            res['problems'].append(('flex-error', "in-code variant: " + err.decode(errors='replace')[:300]))
            return res
        tpath = os.path.join(wd, "t.tables")
        if not os.path.exists(tpath):
            res['problems'].append(('no-tables-file', "flex exited 0 without writing the tables file"))
            return res
        with open(os.path.join(wd, "b.c"), errors="replace") as f:
            tb = tables.parse_scanner(f.read())
        res['lastdfa'] = tb.get('lastdfa')
        # 1. the file, read by the proved decoder, against the in-code tables
        dec = decode(tpath, "yytables", wd)
        if dec['status'] != 'found':
            res['problems'].append(('file-not-decodable', "proved decoder says: %s" % dec['status']))
            return res
        if not dec['reencode']:
            res['problems'].append(('format-deviation', "re-encoding the decoded sets with the documented layout does not reproduce the file"))
        for t in dec['tables']:
            name = IDS.get(t['id'])
            if name is None:
                res['problems'].append(('unknown-table-id', str(t['id'])))
                continue
            if name == 'transition':
                want = [v for pair in zip(tb['transition']['verify'], tb['transition']['nxt']) for v in pair] if 'transition' in tb else None
            elif name == 'start_state_list':
                want = tb.get('start_state_list')
            else:
                want = tb['arrays'][name]['data'] if name in tb['arrays'] else None
            if want is None:
                res['problems'].append(('table-without-in-code-twin', name))
            elif list(want) != t['data']:
                k = next((i for i, (a, b) in enumerate(zip(want, t['data'])) if a != b), min(len(want), len(t['data'])))
                res['problems'].append(('table-differs', "%s: file and in-code tables differ at index %d (lengths %d / %d)" % (
                    name, k, len(t['data']), len(want))))
        res['tables_compared'] = len(dec['tables'])
        # 2. the loaded scanner against the in-code scanner
        san = ["-fsanitize=address,undefined", "-fno-sanitize-recover=all", "-g"] if case.get('asan') else []
        rc, out, err = run(["gcc", "-std=gnu11", "-w", "-O0"] + san + ["-o", "a.exe", "a.c"], cwd=wd, timeout=180)
        if rc != 0:
            res['problems'].append(('compile-error', err.decode(errors='replace')[:400]))
            return res
        rc, out, err = run(["gcc", "-std=gnu11", "-w", "-O0", "-o", "b.exe", "b.c"], cwd=wd, timeout=180)
        if rc != 0:
            res['problems'].append(('compile-error', "in-code variant: " + err.decode(errors='replace')[:400]))
            return res
        env = {"ASAN_OPTIONS": "detect_leaks=1:exitcode=77"}
        for ii, w in enumerate(case['inputs']):
            ip = os.path.join(wd, "in%d.bin" % ii)
            with open(ip, "wb") as f:
                f.write(bytes(w))
            ra, oa, ea = run([os.path.join(wd, "a.exe"), tpath, ip], timeout=30, env=env)
            rb, ob, eb = run([os.path.join(wd, "b.exe"), ip], timeout=30)
            la = [l for l in oa.decode(errors='replace').splitlines()]
            if ra != 0 or not la or la[0] != "FLOAD 0":
                res['problems'].append(('load-failed', "rc=%s first=%s stderr=%s" % (ra, la[:1], ea.decode(errors='replace')[:300])))
                continue
            toks_a = [l for l in la if re.match(r"^\d+:\d+:\d+$", l)]
            toks_b = [l for l in ob.decode(errors='replace').splitlines() if re.match(r"^\d+:\d+:\d+$", l)]
            res['streams'].append({'input': bytes(w).hex(), 'sc': 1, 'real': [tuple(int(x) for x in l.split(":")[:2]) for l in toks_a],
                                   'valid': toks_a == toks_b, 'text_ok': True})
            if toks_a != toks_b:
                res['problems'].append(('loaded-differs-from-in-code', "input=%s loaded=%s in-code=%s" % (bytes(w).hex()[:80], toks_a[:8], toks_b[:8])))
            if not any(l.startswith("DESTROY 0") for l in la):
                res['problems'].append(('destroy-failed', str(la[-2:])))
        # 3. truncated and corrupted files are refused, without crashing
        with open(tpath, "rb") as f:
            raw = f.read()
        offsets = sorted(set(list(range(0, min(len(raw), 48))) + list(range(48, len(raw), 8 if case['tier'] == 'quick' else 1))))
        if case['tier'] == 'quick':
            offsets = offsets[:48] + offsets[48::max(1, len(offsets) // 40)]
        elif len(offsets) > 3000:
            # (every offset of a file of several hundred kilobytes would take hours: the header densely, the body sampled)
            offsets = offsets[:600] + offsets[600::max(1, len(offsets) // 1500)]
        bad = 0
        for k in offsets:
            tp = os.path.join(wd, "trunc.tables")
            with open(tp, "wb") as f:
                f.write(raw[:k])
            ra, oa, ea = run([os.path.join(wd, "a.exe"), tp], timeout=20, env=env)
            first = oa.decode(errors='replace').splitlines()[:1]
            loaded_ok = first == ["FLOAD 0"]
            clean = (ra == 0 and first and first[0].startswith("FLOAD ")) or (ra == 2 and b"AddressSanitizer" not in ea and b"runtime error" not in ea)
            if loaded_ok or not clean:
                bad += 1
                res['problems'].append(('truncation-accepted' if loaded_ok else 'truncation-crash',
                                        "file cut at %d of %d bytes: rc=%s out=%s stderr=%s" % (k, len(raw), ra, first, ea.decode(errors='replace')[:200])))
                if bad > 2:
                    break
        res['truncations'] = len(offsets)
        for flip in (0, 3):
            tp = os.path.join(wd, "magic.tables")
            b = bytearray(raw)
            b[flip] ^= 0x5A
            with open(tp, "wb") as f:
                f.write(bytes(b))
            ra, oa, ea = run([os.path.join(wd, "a.exe"), tp], timeout=20, env=env)
            first = oa.decode(errors='replace').splitlines()[:1]
            if first == ["FLOAD 0"] or ra not in (0, 2):
                res['problems'].append(('bad-magic-accepted', "byte %d flipped: rc=%s out=%s" % (flip, ra, first)))
    except Exception as ex:
        res['problems'].append(('harness-error', repr(ex)))
    return res


def concat_worker(case):
    """Two or three scanners with different prefixes, their sets concatenated in every order."""
    import itertools
    wd = os.path.join(engine._ROOT, "c%s" % case['id'])
    os.makedirs(wd, exist_ok=True)
    res = {'problems': [], 'lockstep': [], 'streams': [], 'id': case['id'], 'text': ''}
    flex = engine._FLEX
    try:
        names = ["aa", "bb", "cc"][:len(case['progs'])]
        expected = {}
        for nm, prog in zip(names, case['progs']):
            rng = Rng(case['seed']).fork(nm)
            text = spec_for(prog, rng, nm, ['tables-file="%s.tables"' % nm], MAIN_LOAD)
            res['text'] += text
            with open(os.path.join(wd, nm + ".l"), "w") as f:
                f.write(text)
            rc, out, err = run([flex] + case['flex_opts'] + ["-o", nm + ".c", nm + ".l"], cwd=wd, timeout=60)
            if rc != 0:
                res['problems'].append(('flex-error', err.decode(errors='replace')[:300]))
                return res
            rc, out, err = run(["gcc", "-std=gnu11", "-w", "-O0", "-o", nm + ".exe", nm + ".c"], cwd=wd, timeout=180)
            if rc != 0:
                res['problems'].append(('compile-error', err.decode(errors='replace')[:400]))
                return res
            ip = os.path.join(wd, "in.bin")
            with open(ip, "wb") as f:
                f.write(bytes(case['input']))
            ra, oa, ea = run([os.path.join(wd, nm + ".exe"), os.path.join(wd, nm + ".tables"), ip], timeout=30)
            expected[nm] = oa
        for order in itertools.permutations(names):
            cat = os.path.join(wd, "cat.tables")
            with open(cat, "wb") as f:
                for nm in order:
                    with open(os.path.join(wd, nm + ".tables"), "rb") as g:
                        f.write(g.read())
            for nm in names:
                ra, oa, ea = run([os.path.join(wd, nm + ".exe"), cat, os.path.join(wd, "in.bin")], timeout=30)
                if oa != expected[nm]:
                    res['problems'].append(('concatenation', "order %s: scanner %s behaves differently (first line %s)" % (
                        "".join(order), nm, oa.decode(errors='replace').splitlines()[:1])))
                # the proved decoder finds each set by name too
            for nm in names:
                dec = decode(cat, nm + "tables", wd)
                if dec['status'] != 'found' or not dec['reencode']:
                    res['problems'].append(('concatenation-decoder', "order %s: set %stables: %s reencode=%s" % ("".join(order), nm, dec['status'], dec['reencode'])))
        res['orders'] = 6 if len(names) == 3 else 2
        res['streams'] = [{'input': bytes(case['input']).hex(), 'sc': 1, 'real': [(1, 1), (2, 1)], 'valid': True, 'text_ok': True}]
        res['lastdfa'] = 5
    except Exception as ex:
        res['problems'].append(('harness-error', repr(ex)))
    return res


def verify_worker(case):
    """%option tables-verify: success exactly when file and in-code tables agree."""
    wd = os.path.join(engine._ROOT, "c%s" % case['id'])
    os.makedirs(wd, exist_ok=True)
    res = {'problems': [], 'lockstep': [], 'streams': [], 'id': case['id'], 'text': ''}
    flex = engine._FLEX
    try:
        outs = {}
        for tag, prog in (("good", case['prog']), ("other", case['other'])):
            rng = Rng(case['seed']).fork(tag)
            text = spec_for(prog, rng, "yy", ['tables-file="%s.tables"' % tag, "tables-verify"], MAIN_LOAD)
            res['text'] += text
            with open(os.path.join(wd, tag + ".l"), "w") as f:
                f.write(text)
            rc, out, err = run([flex] + case['flex_opts'] + ["-o", tag + ".c", tag + ".l"], cwd=wd, timeout=60)
            if rc != 0:
                res['problems'].append(('flex-error', err.decode(errors='replace')[:300]))
                return res
            rc, out, err = run(["gcc", "-std=gnu11", "-w", "-O0", "-o", tag + ".exe", tag + ".c"], cwd=wd, timeout=180)
            if rc != 0:
                res['problems'].append(('compile-error', "tables-verify scanner: " + err.decode(errors='replace')[:400]))
                return res
        same = open(os.path.join(wd, "good.tables"), "rb").read() == open(os.path.join(wd, "other.tables"), "rb").read()
        for exe, tf, should_pass in (("good", "good", True), ("good", "other", same), ("other", "other", True), ("other", "good", same)):
            ra, oa, ea = run([os.path.join(wd, exe + ".exe"), os.path.join(wd, tf + ".tables")], timeout=30)
            first = oa.decode(errors='replace').splitlines()[:1]
            passed = (ra == 0 and first == ["FLOAD 0"])
            if passed != should_pass:
                res['problems'].append(('verify-wrong', "scanner %s verifying file of %s: expected %s, got rc=%s out=%s stderr=%s" % (
                    exe, tf, "success" if should_pass else "failure", ra, first, ea.decode(errors='replace')[:160])))
        res['streams'] = [{'input': '', 'sc': 1, 'real': [(1, 1), (2, 1)], 'valid': True, 'text_ok': True}]
        res['lastdfa'] = 5
    except Exception as ex:
        res['problems'].append(('harness-error', repr(ex)))
    return res


def dispatch(case):
    return {'rt': worker, 'cat': concat_worker, 'ver': verify_worker}[case['kind']](case)


def build_cases(rng, tier):
    cases = []
    n = 36 if tier == "quick" else 240
    for i in range(n):
        r = rng.fork("rt%d" % i)
        prog = rulesets.gen_program(r, trailing=(i % 5 == 0), max_scs=1, csize=256)
        repr_ = list(REPRS[i % len(REPRS)])
        extra = []
        if i % 4 == 1:
            # yy_acclist with its YY_TRAILING_MASK / YY_TRAILING_HEAD_MASK entries: a rule with variable head and trail
            a, b = r.pick([(97, 98), (48, 97), (98, 98)])
            prog['rules'].insert(r.below(len(prog['rules']) + 1),
                                 {'head': ('plus', ('c', a)), 'bol': False, 'scs': None, 'trail': ('cat', ('star', ('c', b)), ('c', 120))})
            repr_ = list(r.pick([[], ["-Ce"], ["-Cm"], ["-C"], ["-Ca"], ["-Cem"]]))
        elif i % 4 == 3 and not any(('f' in o or 'F' in o) for o in repr_):
            extra = ["reject"]            # plain REJECT tables (yy_acclist without flags)
        elif i % 4 == 2:
            # element widths: the file copy of a table is written with the smallest width that holds its values; keyword sets
            # make the number of states cross 127/128 and 255/256 (state numbers sit in yy_nxt of -Cf, yy_transition of -CF, yy_def ...)
            nk = r.pick([12, 25, 40, 70])
            words = set()
            while len(words) < nk:
                words.add(tuple(r.pick([97, 98, 99, 100, 101]) for _ in range(r.rng(3, 6))))
            prog = {'csize': 256, 'caseins': False, 'scs': [], 'rules':
                    [{'head': ('str', list(w)), 'bol': False, 'scs': None, 'trail': None} for w in sorted(words)] +
                    [{'head': ('plus', ('cls', ('set', False, [('rg', 97, 122)]))), 'bol': False, 'scs': None, 'trail': None}]}
            # (with -Ca the in-code tables are 32 bits wide while the file keeps the smallest width: negative 16-bit entries
            # must be sign-extended by the loader)
            repr_ = list([["-Cfa"], ["-CFa"], ["-Cfea"], ["-Cf"], ["-CF"], ["-CFe"], ["-Cae"], ["-Ce"], ["-CFea"], []][(i // 4) % 10])
            r.pick([0])
        cases.append({'id': "t%d" % i, 'kind': 'rt', 'prog': prog, 'seed': r.s, 'flex_opts': repr_ + ["-8"], 'extra_options': extra,
                      'inputs': rulesets.gen_inputs(prog, r.fork("in"), count=2, maxlen=80),
                      # (-CF reads yy_transition past its end on some bytes, in-code and loaded alike: that is C13's finding, not a loader defect)
                      'asan': i % 3 == 0 and not any('F' in o for o in REPRS[i % len(REPRS)]), 'tier': tier,
                      'text': '', 'backend': 'nr'})
    # the width boundaries themselves: 126 rules make YY_END_OF_BUFFER - the largest entry of yy_accept - exactly 128, the first value
    # that does not fit a signed byte (125 rules: 127 fits; 127 rules: 129)
    for i, nr_ in enumerate([126, 125, 127, 126] if tier == "quick" else [126, 125, 127, 126, 126, 254, 255, 256]):
        r = rng.fork("edge%d" % i)
        words = []
        k = 0
        while len(words) < nr_ - 1:
            w = [97 + (k // 676) % 26, 97 + (k // 26) % 26, 97 + k % 26, 48 + k % 10]
            words.append(w)
            k += 7
        prog = {'csize': 256, 'caseins': False, 'scs': [], 'rules':
                [{'head': ('str', w), 'bol': False, 'scs': None, 'trail': None} for w in words] +
                [{'head': ('plus', ('cls', ('set', False, [('rg', 97, 122)]))), 'bol': False, 'scs': None, 'trail': None}]}
        cases.append({'id': "e%d" % i, 'kind': 'rt', 'prog': prog, 'seed': r.s, 'flex_opts': [[], ["-Cf"], ["-Ce"], ["-CF"]][i % 4] + ["-8"], 'extra_options': [],
                      'inputs': rulesets.gen_inputs(prog, r.fork("in"), count=2, maxlen=60), 'asan': i % 2 == 0, 'tier': tier,
                      'text': '', 'backend': 'nr'})
    # tables whose entries need 32 bits in the file (offsets in yy_base / yy_def beyond 32767): wide rows that do not compress
    from props import c02
    for i in range(1 if tier == "quick" else 2):
        r = rng.fork("wide32_%d" % i)
        prog = c02.wide_program(r)
        cases.append({'id': "w%d" % i, 'kind': 'rt', 'prog': prog, 'seed': r.s, 'flex_opts': [["-C"], ["-Cm"], ["-Ca"]][i % 3] + ["-8"], 'extra_options': [],
                      'inputs': rulesets.gen_inputs(prog, r.fork("in"), count=2, maxlen=120), 'asan': i % 2 == 0, 'tier': tier,
                      'text': '', 'backend': 'nr'})
    for i in range(6 if tier == "quick" else 40):
        r = rng.fork("cat%d" % i)
        progs = [rulesets.gen_program(r.fork("p%d" % k), max_scs=0, csize=256) for k in range(2 + i % 2)]
        cases.append({'id': "k%d" % i, 'kind': 'cat', 'progs': progs, 'seed': r.s, 'flex_opts': list(REPRS[(i * 3) % len(REPRS)]) + ["-8"],
                      'input': rulesets.gen_inputs(progs[0], r.fork("in"), count=1, maxlen=60)[0], 'text': '', 'backend': 'nr',
                      'prog': progs[0], 'inputs': []})
    for i in range(6 if tier == "quick" else 40):
        r = rng.fork("ver%d" % i)
        cases.append({'id': "v%d" % i, 'kind': 'ver', 'prog': rulesets.gen_program(r.fork("a"), max_scs=0, csize=256),
                      'other': rulesets.gen_program(r.fork("b"), max_scs=0, csize=256), 'seed': r.s,
                      'flex_opts': list(REPRS[(i * 2) % 6]) + ["-8"], 'text': '', 'backend': 'nr', 'inputs': []})
    return cases


def judge(ck, flex, scratch, cases, results, stats):
    for c, r in zip(cases, results):
        c['text'] = r.get('text', '')
    stats['tables_compared'] = sum(r.get('tables_compared', 0) for r in results)
    stats['truncations'] = sum(r.get('truncations', 0) for r in results)
    stats['orders'] = sum(r.get('orders', 0) for r in results)
    for c, r in zip(cases, results):
        for kind, msg in r['problems']:
            stats.setdefault('problem_kinds', {})
            stats['problem_kinds'][kind] = stats['problem_kinds'].get(kind, 0) + 1
        for kind, msg in r['problems'][:2]:
            key = "%s:%s" % (kind, hashlib.sha256((c['text'] + msg[:80]).encode()).hexdigest()[:10])
            ck.violation(key, "%s: %s" % (kind, msg[:400]),
                         {'spec': c['text'], 'flex_opts': c['flex_opts'], 'kind': c['kind'],
                          'how': "flex <opts> -o a.c a.l (writes the tables file); gcc a.c; ./a <tables file> [input]"},
                         no_input=kind in ('harness-error', 'format-deviation'))


def main(tier):
    engine._orig_judge15 = engine.judge
    engine.judge = judge
    try:
        def post(ck, flex, scratch, cases, results, stats):
            return {"tables_compared_with_in_code": stats.get('tables_compared', 0), "truncated_files_tried": stats.get('truncations', 0),
                    "concatenation_orders_tried": stats.get('orders', 0)}
        return engine.standard_main(
            PROP, tier, "Properties_C15.v", build_cases,
            "rule sets x every table representation (compressed +/- ecs/meta/align, -Cf, -CF, REJECT tables): the --tables-file is read by "
            "the proved decoder, compared table by table with the in-code tables, re-encoded with the documented layout (must reproduce "
            "the file byte for byte), loaded by the real yytables_fload (token streams = in-code scanner; a third under ASan+UBSan with leak "
            "check for yytables_destroy), truncated at every header offset and every 8th body offset, magic corrupted; sets of 2-3 "
            "scanners concatenated in all orders; tables-verify scanners on matching and foreign files; non-trivial = DFA >= 3 states",
            ["the reentrant / C++ loaders share the code of the non-reentrant one and are not driven separately in the quick tier"],
            worker=dispatch, post=post)
    finally:
        engine.judge = engine._orig_judge15


replay = engine.std_replay
