"""C06 - line anchors and trailing context."""
import engine
from common import Rng

PROP = "C06"
OPTS = [[], [], ["-Cf"], ["-CF"], ["-Ce"], ["-Cm"], ["-B"], ["-B", "-C"], ["-Cfe"], ["-I", "-Cem"]]


def build_cases(rng, tier):
    n = 300 if tier == "quick" else 5000
    cases = []
    for i in range(n):
        r = rng.fork("tc%d" % i)
        be = r.weighted([('nr', 5), ('r', 2), ('c99', 2), ('cxx', 2)])
        opts = r.pick(OPTS)
        if be == 'cxx' and "-CF" in opts:
            opts = ["-Cf"]
        c = engine.make_case("t%d" % i, r, gen_kwargs={'trailing': True, 'bol_pct': 35, 'bars': 18 if i % 2 else 0}, flex_opts=opts, backend=be,
                             ninputs=5 if tier == "quick" else 8)
        cases.append(c)
    return cases


def classify(case, kind, msg):
    # KNOWN_FINDINGS.json: the c99 back end cannot generate a scanner when a rule uses the '|' action
    if kind == 'flex-error' and case.get('backend') == 'c99' and "end of file in string" in msg \
            and any(r.get('bar') for r in case['prog']['rules']):
        return "c99-bar-action-m4-error"
    # KNOWN_FINDINGS.json: YY_RULE_SETUP is not emitted for the shared action of  `r1 |` / `r2$ action`
    rules = case['prog']['rules']
    if kind in ('token', 'lockstep') and any(rules[i].get('bar') and rules[i + 1].get('trail') == '$' for i in range(len(rules) - 1)):
        return "dollar-rule-after-bar-no-rule-setup"
    return None


def main(tier):
    engine.CLASSIFY = classify
    return engine.standard_main(
        PROP, tier, "Properties_C06.v", build_cases,
        "random rule sets with ^, $ and r/s (fixed and variable head/trail, competing rules) x table option x back end; "
        "every token of the compiled scanner is judged by the proved validator (competes with head+trail, action sees a head "
        "split with head and trail matching); rule sets for which flex warns 'dangerous trailing context' are excluded as the property says; "
        "non-trivial = DFA >= 3 states and >= 2 rules matched",
        ["with '|' actions the scanner can only report the rule whose action text runs; the validator checks owner(selected rule)",
         "for ambiguous splits the validator accepts any split with head and trail matching"])


replay = engine.std_replay
