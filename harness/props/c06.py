"""C06 - line anchors and trailing context."""
import engine
from common import Rng

PROP = "C06"
OPTS = [[], [], ["-Cf"], ["-CF"], ["-Ce"], ["-Cm"], ["-B"], ["-B", "-C"], ["-Cfe"], ["-I", "-Cem"]]


def build_cases(rng, tier):
    n = 300 if tier == "quick" else 5000
    cases = []
    for i in range(n):
        r = rng.fork("tc%d" % i)
        be = r.weighted([('nr', 5), ('r', 2), ('c99', 2), ('cxx', 2)])
        opts = r.pick(OPTS)
        if be == 'cxx' and "-CF" in opts:
            opts = ["-Cf"]
        c = engine.make_case("t%d" % i, r, gen_kwargs={'trailing': True, 'bol_pct': 35}, flex_opts=opts, backend=be,
                             ninputs=5 if tier == "quick" else 8)
        cases.append(c)
    return cases


def main(tier):
    return engine.standard_main(
        PROP, tier, "Properties_C06.v", build_cases,
        "random rule sets with ^, $ and r/s (fixed and variable head/trail, competing rules) x table option x back end; "
        "every token of the compiled scanner is judged by the proved validator (competes with head+trail, action sees a head "
        "split with head and trail matching); rule sets for which flex warns 'dangerous trailing context' are excluded as the property says; "
        "non-trivial = DFA >= 3 states and >= 2 rules matched",
        ["'|' actions (continued actions making fixed context variable) are generated only in the thorough tier of C09/C06 growth",
         "for ambiguous splits the validator accepts any split with head and trail matching"])


replay = engine.std_replay
