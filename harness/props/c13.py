"""C13 - generated scanners are memory-safe and release everything they allocate (partial)."""
import hashlib
import os
import re

import bufprog
import engine
import rulesets
import scanner
import streamprog
from common import Rng, run

PROP = "C13"
OPTS = [[], [], ["-Cf"], ["-CF"], ["-Ce"], ["-B"], ["-Cm"], ["-CFe"]]
SAN = ["-fsanitize=address,undefined", "-fno-sanitize-recover=all", "-g", "-fno-omit-frame-pointer"]
ENV = {"ASAN_OPTIONS": "detect_leaks=1:exitcode=77:abort_on_error=0", "UBSAN_OPTIONS": "print_stacktrace=1:halt_on_error=1:exitcode=78"}

ALLOC = {
    'nr': r"""
static FILE *g_led;
static void led_open(void) { if (!g_led) { const char *p = getenv("LEDGER"); g_led = fopen(p ? p : "/dev/null", "w"); } }
void *yyalloc(yy_size_t n) { void *p = malloc(n); led_open(); fprintf(g_led, "a %lu\n", (unsigned long) p); return p; }
void *yyrealloc(void *q, yy_size_t n) { unsigned long o = (unsigned long) q; void *p = realloc(q, n); led_open(); fprintf(g_led, "r %lu %lu\n", o, (unsigned long) p); return p; }
void yyfree(void *p) { led_open(); fprintf(g_led, "f %lu\n", (unsigned long) p); free(p); }
""",
    'r': r"""
static FILE *g_led;
static void led_open(void) { if (!g_led) { const char *p = getenv("LEDGER"); g_led = fopen(p ? p : "/dev/null", "w"); } }
void *yyalloc(yy_size_t n, yyscan_t s) { void *p = malloc(n); led_open(); fprintf(g_led, "a %lu\n", (unsigned long) p); return p; }
void *yyrealloc(void *q, yy_size_t n, yyscan_t s) { unsigned long o = (unsigned long) q; void *p = realloc(q, n); led_open(); fprintf(g_led, "r %lu %lu\n", o, (unsigned long) p); return p; }
void yyfree(void *p, yyscan_t s) { led_open(); fprintf(g_led, "f %lu\n", (unsigned long) p); free(p); }
""",
}
ALLOC['c99'] = ALLOC['r'].replace("yy_size_t", "size_t")


def build_cases(rng, tier):
    cases = []
    n = 60 if tier == "quick" else 1500
    for i in range(n):
        r = rng.fork("mem%d" % i)
        be = r.weighted([('nr', 4), ('r', 3), ('c99', 2)])
        prog = rulesets.gen_program(r, trailing=False, max_scs=0, csize=256)
        hs = []
        for k in range(2):
            ops, files = bufprog.gen_history(r.fork("h%d" % k), prog, r.pick([10, 25, 40]), deep=(k == 1))
            if be == 'nr' and r.chance(50):
                # destroy and use the scanner again as if fresh
                ops2, files2 = bufprog.gen_history(r.fork("h%d_again" % k), prog, 12)
                off = len(files)
                ops2 = [((o[0], o[1], o[2] + off) + tuple(o[3:])) if o[0] in ('C', 'S', 'B', 'U') else o for o in ops2]
                ops = ops + [('X',)] + ops2
                files = files + files2
            hs.append((ops, files))
        cases.append({'id': "m%d" % i, 'kind': 'buf', 'prog': prog, 'backend': be, 'flex_opts': list(r.pick(OPTS)) + ["-8"],
                      'lineno': r.chance(50), 'histories': hs, 'seed': r.s, 'text': '',
                      'extra_options': ["noyyalloc", "noyyrealloc", "noyyfree"]})
    m = 60 if tier == "quick" else 1500
    for i in range(m):
        r = rng.fork("ed%d" % i)
        be = r.weighted([('nr', 4), ('r', 2), ('c99', 2), ('cxx', 2)])
        opts = r.pick(OPTS)
        if be == 'cxx' and any("F" in o for o in opts):
            opts = ["-Cf"]
        focus = {'edit', 'stack', 'eof', 'wrap'} if i % 2 else {'edit', 'lineno', 'trail'}
        if i % 3 == 0:
            focus = {'edit', 'more'}
        c = streamprog.gen_stream_case(r, "e%d" % i, focus, backend=be, flex_opts=opts)
        if i % 6 == 5:
            # 'a destroyed non-reentrant scanner can be used again as if fresh': several sessions with yylex_destroy() between
            # them, the start-condition stack in use (it may be left non-empty by a session)
            c = streamprog.gen_stream_case(r, "e%d" % i, {'stack', 'eof', 'post'}, backend='nr', flex_opts=opts)
            be = 'nr'
            for rn in (c.get('runs') or []):
                rn['mode'] = 'd'
        c['kind'] = 'stream'
        sizes = [[], ["-DYY_BUF_SIZE=16"], ["-DYY_BUF_SIZE=3"], ["-DYY_BUF_SIZE=64"]] if i % 3 else [["-DYY_BUF_SIZE=3"], ["-DYY_BUF_SIZE=8"], ["-DYY_BUF_SIZE=2"]]
        c['cc_extra'] = SAN + (r.pick(sizes) if be != 'c99' else [])
        if r.chance(30) or (i % 3 == 0 and r.chance(70)):
            c['extra_options'] = ["array"]
        cases.append(c)
    # token cases: lock-step check of the emitted tables (premise of the *_lookups_in_range theorems) and the compiled scanner
    # under the sanitizers, every table representation, REJECT and trailing context included
    k = 60 if tier == "quick" else 1500
    for i in range(k):
        r = rng.fork("tok%d" % i)
        be = r.weighted([('nr', 4), ('r', 2), ('c99', 2), ('cxx', 2)])
        opts = list(r.pick(OPTS + [["-Ca"], ["-Cfe"], ["-I"], ["-Cam"]]))
        if be == 'cxx' and any("F" in o for o in opts):
            opts = ["-Cf"]
        c = engine.make_case("t%d" % i, r, gen_kwargs={'trailing': (i % 3 == 0) and not any("f" in o.lower() for o in opts)},
                             flex_opts=opts, backend=be, extra_options=(["array"] if r.chance(25) else []))
        c['kind'] = 'tok'
        # (scanners that use REJECT - variable trailing context - cannot grow their buffer: documented fatal error, default size there)
        small = be != 'c99' and not any(rl.get('trail') is not None for rl in c['prog']['rules'])
        c['cc_extra'] = SAN + (r.pick([[], ["-DYY_BUF_SIZE=8"], ["-DYY_BUF_SIZE=2"], ["-DYY_BUF_SIZE=16"]]) if small else [])
        cases.append(c)
    return cases


def sanitizer_report(errs):
    m = re.search(r"(ERROR: AddressSanitizer: [^\n]*|ERROR: LeakSanitizer: [^\n]*|runtime error: [^\n]*)", errs)
    return m.group(1) if m else None


def worker(case):
    wd = os.path.join(engine._ROOT, "c%s" % case['id'])
    try:
        if case['kind'] == 'tok':
            return engine._work(case)
        if case['kind'] == 'buf':
            collect = []
            env = dict(ENV)
            env["LEDGER"] = "per-history"
            res = bufprog.eval_buf_case(engine._FLEX, wd, case, cc_extra=SAN, env=env, alloc=ALLOC[case['backend']], collect=collect)
            ledgers = []
            if collect:
                for hi, rc, out, err in collect:
                    lp = os.path.join(wd, "h%d" % hi, "ledger.txt")
                    errs = err.decode(errors="replace")
                    rep = sanitizer_report(errs)
                    if rep or rc != 0:
                        res.setdefault('detail', {})[hi] = {'ops': [list(o) for o in case['histories'][hi][0]],
                                                            'files': [bytes(w).hex() for w in case['histories'][hi][1]], 'stderr': errs[:6000]}
                    if rep:
                        res['problems'].append(('sanitizer', "history %d: %s | ops=%s" % (hi, rep, case['histories'][hi][0][:30])))
                    elif rc != 0:
                        res['problems'].append(('scanner-abnormal', "history %d rc=%s stderr=%s" % (hi, rc, errs[:200])))
                    evs = []
                    if os.path.exists(lp):
                        with open(lp) as f:
                            for line in f:
                                p = line.split()
                                if p and p[0] == 'a':
                                    evs.append("(a %s)" % p[1])
                                elif p and p[0] == 'r':
                                    evs.append("(r %s %s)" % (p[1], p[2]))
                                elif p and p[0] == 'f':
                                    evs.append("(f %s)" % p[1])
                    ledgers.append(evs)
                sx = "(case (csize 256) (nsc 1) (excl ()) (rules ()) (queries (%s)))" % " ".join("(ledger (%s))" % " ".join(e) for e in ledgers)
                rc, out, err = scanner.run_driver(sx, wd, name="ledger.sx", timeout=60)
                verdicts = [l.split()[1] for l in out.splitlines() if l.startswith("ledger ")]
                res['ledger_events'] = sum(len(e) for e in ledgers)
                for hi, v in enumerate(verdicts):
                    if v != "true" and collect[hi][1] == 0:
                        res.setdefault('detail', {})[hi] = {'ops': [list(o) for o in case['histories'][hi][0]],
                                                            'files': [bytes(w).hex() for w in case['histories'][hi][1]], 'ledger': ledgers[hi]}
                        res['problems'].append(('ledger', "history %d: allocation trace rejected by the proved ledger checker (leak, double free or foreign pointer); %d events; ops=%s" % (
                            hi, len(ledgers[hi]), case['histories'][hi][0][:30])))
                if len(verdicts) != len(ledgers):
                    res['problems'].append(('harness-error', "ledger verdicts missing: %s" % err[:200]))
        else:
            case['env'] = ENV
            res = streamprog.eval_stream_case(engine._FLEX, wd, case)
            for st in res.get('san_stderr', []):
                rep = sanitizer_report(st)
                if rep:
                    res['problems'].append(('sanitizer', rep))
    except Exception as ex:
        res = {'problems': [('harness-error', repr(ex))], 'lockstep': [], 'streams': []}
    res['id'] = case['id']
    return res


def judge(ck, flex, scratch, cases, results, stats):
    tok = [(c, r) for c, r in zip(cases, results) if c['kind'] == 'tok']
    engine._orig_judge13(ck, flex, scratch, [c for c, _ in tok], [r for _, r in tok], stats)
    rest = [(c, r) for c, r in zip(cases, results) if c['kind'] != 'tok']
    cases = [c for c, _ in rest]
    results = [r for _, r in rest]
    for c, r in zip(cases, results):
        c['text'] = r.get('text', '')
    stats['ledger_events'] = sum(r.get('ledger_events', 0) for r in results)
    for c, r in zip(cases, results):
        for kind, msg in r['problems']:
            stats.setdefault('problem_kinds', {})
            stats['problem_kinds'][kind] = stats['problem_kinds'].get(kind, 0) + 1
        probs = [p for p in r['problems'] if p[0] != 'inconclusive']
        # behavioural mismatches belong to C08/C11; here only memory errors, leaks and abnormal ends count
        probs = [p for p in probs if p[0] in ('sanitizer', 'ledger', 'scanner-abnormal', 'compile-error', 'flex-error', 'harness-error', 'driver-error')
                 or (p[0] == 'event-mismatch' and ('AddressSanitizer' in p[1] or 'runtime error' in p[1] or 'LeakSanitizer' in p[1]))]
        for kind, msg in probs[:2]:
            key = "%s:%s" % (kind, hashlib.sha256((c['text'] + msg[:120]).encode()).hexdigest()[:10])
            ck.violation(key, "%s: %s" % (kind, msg[:500]),
                         {'spec': c['text'], 'flex_opts': c['flex_opts'], 'backend': c['backend'], 'kind': c['kind'],
                          'detail': r.get('detail'), 'sources': c.get('sources'), 'runs': c.get('runs'),
                          'cc': "gcc/g++ " + " ".join(SAN + (c.get('cc_extra') or [])),
                          'how': "compile the generated scanner with the sanitizer flags and replay the history / sources"},
                         no_input=kind in ('harness-error', 'driver-error'))


YYLMAX_SPEC = r"""%%option noyywrap nounput noinput array yylmax=%(K)d %(opts)s
%%%%
a+	{ printf("A %%d\n", (int) %(leng)s); }
b	{ printf("B %%d\n", (int) %(leng)s); %(more)s }
\n	{ printf("N %%d\n", (int) %(leng)s); }
%%%%
int main(int argc, char **argv)
{
    FILE *f = fopen(argv[1], "rb");
    %(run)s
    return 0;
}
"""


def yylmax_probe(ck, flex, scratch):
    """%array: a token of yyleng (incl. the yymore prefix) >= YYLMAX must end in the documented fatal error, yyleng = YYLMAX - 1 must
    scan; no write beyond yytext either way (boundary of the guard in YY_DO_BEFORE_ACTION)."""
    wd = scratch.sub("yylmax")
    rng = Rng(ck.seed).fork("yylmax")
    n = bad = 0
    for be in ('nr', 'r', 'c99'):
        for use_more in (False, True):
            K = rng.pick([8, 13, 32, 100])
            if be == 'nr':
                opts, leng, more, run_ = "", "yyleng", "yymore();", "yyin = f; while (yylex()) ; yylex_destroy();"
            elif be == 'r':
                opts, leng, more = "reentrant", "yyleng", "yymore();"
                run_ = "yyscan_t s; yylex_init(&s); yyset_in(f, s); while (yylex(s)) ; yylex_destroy(s);"
            else:
                opts, leng, more = 'emit="c99"' + (" yymore" if use_more else ""), "yyget_leng(yyscanner)", "yymore(yyscanner);"
                run_ = "yyscan_t s; yylex_init(&s); yyset_in(f, s); while (yylex(s)) ; yylex_destroy(s);"
            text = YYLMAX_SPEC % {'K': K, 'opts': opts, 'leng': leng, 'more': more if use_more else "", 'run': run_}
            tag = "%s%d" % (be, int(use_more))
            with open(os.path.join(wd, tag + ".l"), "w") as f:
                f.write(text)
            rc, out, err = scanner.run_flex(flex, tag + ".l", tag + ".c", ["-8"], wd)
            if rc != 0:
                ck.violation("yylmax-probe-flex:" + tag, "flex refuses the yylmax probe: " + err.decode(errors='replace')[:200], {'spec': text})
                continue
            rc, out, err = scanner.compile_c(tag + ".c", tag + ".exe", wd, extra=SAN + ["-I" + os.path.dirname(flex)], backend=be)
            if rc != 0:
                ck.violation("yylmax-probe-cc:" + tag, "yylmax probe does not compile: " + err.decode(errors='replace')[:300], {'spec': text})
                continue
            for total in (K - 2, K - 1, K, K + 1):
                for prefix in ([0] if not use_more else [0, 1, 3]):
                    if prefix >= total:
                        continue
                    data = b"b" * prefix + b"a" * (total - prefix) + b"\n"
                    inp = os.path.join(wd, "in.bin")
                    with open(inp, "wb") as f:
                        f.write(data)
                    rc, out, err = run([os.path.join(wd, tag + ".exe"), inp], timeout=20, env=ENV)
                    errs = err.decode(errors="replace")
                    n += 1
                    rep = sanitizer_report(errs)
                    fatal = "token too large, exceeds" in errs
                    want_fatal = total >= K
                    got = out.decode(errors="replace").split()
                    ok = (not rep) and (fatal == want_fatal) and (want_fatal or ("A %d" % total) in out.decode(errors="replace"))
                    if not ok:
                        bad += 1
                        ck.violation("yylmax-boundary:%s:%d" % (tag, total - K),
                                     "%%array, yylmax=%d, back end %s, scanner %s yymore(): token of %d bytes (yymore prefix %d): %s; rc=%s, fatal message %s (expected %s)" % (
                                         K, be, "using" if use_more else "without", total, prefix, rep or "no sanitizer report", rc, fatal, want_fatal),
                                     {'spec': text, 'input_hex': data.hex(), 'flex_opts': ["-8"], 'backend': be, 'cc': "gcc " + " ".join(SAN)})
    return {"yylmax_boundary_probes": n, "yylmax_boundary_wrong": bad}


def main(tier):
    engine._orig_judge13 = engine.judge
    engine.judge = judge
    try:
        def post(ck, flex, scratch, cases, results, stats):
            extra = yylmax_probe(ck, flex, scratch)
            return {**extra, "ledger_events_checked": stats.get('ledger_events', 0),
                    "sanitizers": "AddressSanitizer + LeakSanitizer + UndefinedBehaviorSanitizer (gcc 12)"}
        return engine.standard_main(
            PROP, tier, "Properties_C13.v", build_cases,
            "(0) token cases: lock-step (= range) check of the emitted tables of every representation + compiled scanner under the "
            "sanitizers with buffer sizes 2..16; (a) buffer histories (create / scan_* / switch / push / pop / flush / delete / yylex, incl. yylex_destroy followed by reuse of the "
            "non-reentrant scanner) with user-supplied yyalloc/yyrealloc/yyfree that log every call: the trace is judged by the extracted, "
            "proved ledger checker; (b) stream-editing programs (yyless/yyunput/yyinput/yymore, state stack, EOF, several sources, tiny "
            "buffers, %array) on 4 back ends; everything compiled with ASan+LSan+UBSan; non-trivial = DFA >= 3 states and >= 2 rules matched",
            ["PARTIAL: undefined behaviour that neither the modelled index ranges nor the sanitizers see is not covered",
             "reads of uninitialised memory are only caught where they change behaviour (valgrind runs are in the thorough tier of C18)",
             "sanitizer silence is supporting evidence; a sanitizer report is a concrete failing input"],
            worker=worker, post=post)
    finally:
        engine.judge = engine._orig_judge13


def replay(path):
    """Rebuilds flex from /repo, the scanner of the record with the sanitizers, and replays the failing histories."""
    import json
    from common import Scratch, build_flex
    with open(path) as f:
        rec = json.load(f)
    print(json.dumps({k: rec.get(k) for k in rec if k not in ('spec', 'detail')}, indent=1, default=str))
    if rec.get('kind') != 'buf' or not rec.get('detail'):
        print(rec.get('spec', ''))
        return 0
    with Scratch("c13replay") as scratch:
        flex = build_flex(scratch)
        wd = scratch.sub("w")
        with open(os.path.join(wd, "s.l"), "w") as f:
            f.write(rec['spec'])
        rc, out, err = scanner.run_flex(flex, "s.l", "s.c", rec['flex_opts'], wd)
        if rc != 0:
            print("flex failed:", err.decode(errors="replace"))
            return 1
        rc, out, err = scanner.compile_c("s.c", "s.exe", wd, extra=SAN + ["-I" + os.path.dirname(flex)], backend=rec['backend'])
        if rc != 0:
            print("compile failed:", err.decode(errors="replace")[:2000])
            return 1
        bad = 0
        for hi, d in rec['detail'].items():
            hd = os.path.join(wd, "h%s" % hi)
            os.makedirs(hd, exist_ok=True)
            for fi, hx in enumerate(d['files']):
                with open(os.path.join(hd, "f%d.bin" % fi), "wb") as f:
                    f.write(bytes.fromhex(hx))
            ops = [tuple(o) for o in d['ops']]
            with open(os.path.join(hd, "ops.txt"), "w") as f:
                f.write(bufprog.ops_text(ops, hd))
            env = dict(ENV, LEDGER=os.path.join(hd, "ledger.txt"))
            rc, out, err = run([os.path.join(wd, "s.exe"), os.path.join(hd, "ops.txt")], timeout=30, env=env)
            print("history %s: rc=%s" % (hi, rc))
            print(bufprog.ops_text(ops, "."))
            print(err.decode(errors="replace")[:5000])
            if rc != 0:
                bad = 1
        return bad
