"""C02 - behaviour independent of table representation, API flavour, back end;
unsupported combinations refused."""
import os
import re
import sys

import engine
import rulesets
import scanner
from common import Check, Rng, Scratch, BuildError, build_flex, run, parallel_map, DRIVER

PROP = "C02"

TABLES = ["-C", "-Ce", "-Cm", "-Cem", "-Cf", "-CF", "-Cfe", "-CFe", "-Ca", "-Cae", "-Cam", "-Caem", "-Caf", "-CaF", "-Cafe", "-CaFe"]
BACKENDS = ["nr", "r", "c99", "cxx", "go"]


def valid_combo(tbl, mode, backend, array):
    full = "f" in tbl or "F" in tbl
    if full and mode == "-I":
        return False
    if backend == "cxx" and "F" in tbl:
        return False
    return True


def combos(rng, n):
    allc = []
    for tbl in TABLES:
        for bits in ("-7", "-8"):
            for mode in ("", "-B", "-I"):
                for array in (False, True):
                    for be in BACKENDS:
                        if valid_combo(tbl, mode, be, array):
                            allc.append((tbl, bits, mode, array, be))
    if n >= len(allc):
        return allc
    # every single value of every dimension appears at least once, the rest is random
    chosen = []
    need = [(0, t) for t in TABLES] + [(4, b) for b in BACKENDS] + [(2, m) for m in ("", "-B", "-I")] + [(1, "-7"), (1, "-8"), (3, True)]
    pool = rng.shuffle(allc)
    for dim, val in need:
        for c in pool:
            if c[dim] == val and c not in chosen:
                chosen.append(c)
                break
        if len(chosen) >= n:
            break
    for c in pool:
        if len(chosen) >= n:
            break
        if c not in chosen:
            chosen.append(c)
    return chosen[:n]


def build_cases(rng, tier):
    nsets = 20 if tier == "quick" else 30
    ncomb = 24 if tier == "quick" else 10 ** 6
    cases = []
    for i in range(nsets):
        r = rng.fork("set%d" % i)
        prog7 = rulesets.gen_program(r, csize=128)
        inputs = rulesets.gen_inputs(prog7, r.fork("inputs"), count=4, maxlen=120)
        for j, (tbl, bits, mode, array, be) in enumerate(combos(r.fork("combos"), ncomb)):
            prog = dict(prog7)
            prog['csize'] = 128 if bits == "-7" else 256
            opts = [tbl, bits] + ([mode] if mode else [])
            c = engine.make_case("m%d_%d" % (i, j), r.fork("case%d" % j), prog=prog, flex_opts=opts,
                                 extra_options=(["array"] if array else []), backend=be)
            c['inputs'] = inputs
            c['combo'] = (tbl, bits, mode, array, be)
            c['set'] = i
            cases.append(c)
    # states stored as differences against a template: two prefixes followed by wide classes that differ in a few members,
    # among them the highest one (a jam where the template has a transition), under the compressed table options
    for i in range(6 if tier == "quick" else 40):
        r = rng.fork("tmpl%d" % i)
        wide = list(range(65, 91)) + list(range(97, 123))
        pre = r.shuffle([112, 113, 114, 115])[:r.rng(2, 3)]
        rules = []
        alts = None
        for j, pch in enumerate(pre):
            members = list(wide)
            if j > 0:
                drop = set(r.shuffle(members)[:r.rng(1, 3)]) | {max(members)}
                if r.chance(50):
                    drop.add(min(members))
                members = [c for c in members if c not in drop]
            node = ('cat', ('c', pch), ('cls', ('set', False, [('ch', c) for c in members])))
            alts = node if alts is None else ('alt', alts, node)
        rules.append({'head': ('cat', alts, ('plus', ('cls', ('set', False, [('rg', 48, 57)])))), 'bol': False, 'scs': None, 'trail': None})
        rules.append({'head': ('str', [pre[-1], 65, 59]), 'bol': False, 'scs': None, 'trail': None})
        rules.append({'head': ('plus', ('cls', ('set', False, [('rg', 48, 57)]))), 'bol': False, 'scs': None, 'trail': None})
        prog = {'csize': 256, 'caseins': False, 'scs': [], 'rules': rules}
        inputs = rulesets.gen_inputs(prog, r.fork("inputs"), count=3, maxlen=60)
        inputs.append([pre[-1], 122, 49, 50, 32, pre[-1], 65, 59, pre[0], 122, 55, 10, pre[-1], 90, 57])
        for j, tbl in enumerate(["-C", "-Ce", "-Cm", "-Cem"]):
            c = engine.make_case("t%d_%d" % (i, j), r.fork("case%d" % j), prog=prog, flex_opts=[tbl, "-8"], backend=r.pick(['nr', 'r', 'c99']))
            c['inputs'] = inputs
            c['combo'] = (tbl, "-8", None, False, c['backend'])
            c['set'] = 3000 + i
            cases.append(c)
    # neither -7 nor -8: the manual's default is an 8-bit scanner, except 7 bit for -Cf / -CF without equivalence classes
    for i, tbl in enumerate(TABLES):
        r = rng.fork("dflt%d" % i)
        seven = ("f" in tbl or "F" in tbl) and "e" not in tbl
        prog = rulesets.gen_program(r, csize=128 if seven else 256)
        if not seven:
            prog['rules'].append({'head': ('plus', ('cls', ('set', False, [('rg', 128, 255)]))), 'bol': False, 'scs': None, 'trail': None})
        c = engine.make_case("d%d" % i, r.fork("case"), prog=prog, flex_opts=[tbl, "-8"], backend=r.pick(['nr', 'r', 'c99']))
        c['flex_opts'] = [tbl]
        c['inputs'] = rulesets.gen_inputs(prog, r.fork("inputs"), count=3, maxlen=60) + ([[97, 200, 233, 98, 255, 10, 128]] if not seven else [])
        c['combo'] = (tbl, "default-bits", None, False, c['backend'])
        c['set'] = 2000 + i
        cases.append(c)
    # few states, wide rows that do not compress: the offsets kept in yy_base / yy_def run far beyond 16 bits
    # (the widths of the emitted arrays are chosen per table from its largest value)
    for i in range(2 if tier == "quick" else 12):
        r = rng.fork("wide%d" % i)
        prog = wide_program(r)
        inputs = rulesets.gen_inputs(prog, r.fork("inputs"), count=3, maxlen=200)
        for j, tbl in enumerate(["-C", "-Cm"] if tier == "quick" else ["-C", "-Cm", "-Ca", "-Cam"]):
            c = engine.make_case("w%d_%d" % (i, j), r.fork("case%d" % j), prog=prog, flex_opts=[tbl, "-8"], backend=r.pick(['nr', 'r', 'c99']))
            c['inputs'] = inputs
            c['combo'] = (tbl, "-8", None, False, c['backend'])
            c['set'] = 1000 + i
            c['fuel'] = 400000
            cases.append(c)
    return cases


def wide_program(rng):
    alpha = [c for c in list(range(0x30, 0x7f)) + list(range(0xa0, 0xff)) if chr(c) not in '"\\[]^-']
    firsts = rng.shuffle(alpha)[:rng.pick([110, 150])]
    rules = []
    for i, c in enumerate(firsts):
        for j in range(3):
            st = sorted(rng.shuffle(alpha)[:rng.pick([70, 80, 90])])
            head = ('cat', ('c', c), ('cat', ('c', firsts[(i + j * 7 + 1) % len(firsts)]), ('plus', ('cls', ('set', False, [('ch', x) for x in st])))))
            rules.append({'head': head, 'bol': False, 'scs': None, 'trail': None})
    return {'csize': 256, 'caseins': False, 'scs': [], 'rules': rules}


# ------------------------------------------------------------------ refusal table
REFUSAL_SPEC = """%%option noyywrap nounput noinput%(opts)s
%%{
#define YYSTYPE int
%%}
%(array)s
%%%%
%(vartrail)s
%(reject)s
d	{ }
%%%%
"""


def optset_cmd(o):
    cl = "-C" + ("f" if o['full'] else "") + ("F" if o['fast'] else "") + ("m" if o['meta'] else "")
    opts = [cl]
    if o['inter'] == 1:
        opts.append("-I")
    elif o['inter'] == 2:
        opts.append("-B")
    if o['lex']:
        opts.append("-l")
    if o['cxx']:
        opts.append("-+")
    popts = ""
    if o['reent']:
        popts += " reentrant"
    if o['bison']:
        popts += " bison-bridge"
    if o['lineno']:
        popts += " yylineno"
    text = REFUSAL_SPEC % {
        'opts': popts, 'array': "%array" if o['array'] else "",
        'vartrail': "a+/b+	{ }" if o['vartrail'] else "",
        'reject': "c	{ REJECT; }" if o['reject'] else "",
    }
    return opts, text


_FLEX = None
_DIR = None


def _run_opt(item):
    idx, o, expect = item
    opts, text = optset_cmd(o)
    wd = os.path.join(_DIR, "o%d" % (idx % 64))
    os.makedirs(wd, exist_ok=True)
    lf = os.path.join(wd, "o%d.l" % idx)
    with open(lf, "w") as f:
        f.write(text)
    out = os.path.join(wd, "o%d.c" % idx)
    rc, so, se = run([_FLEX] + opts + ["-o", out, lf], cwd=wd, timeout=60)
    se = se.decode(errors="replace")
    got = None
    compiled = None
    if rc == 0:
        try:
            with open(out, errors="replace") as f:
                src = f.read()
        except OSError:
            src = ""
        arr = "M4_MODE_YYTEXT_IS_ARRAY" in src
        warn = "%array incompatible" in se
        got = "accept array=%d warn=%d" % (1 if arr else 0, 1 if warn else 0)
        if idx % 23 == 0:
            cc = ["g++", "-std=gnu++17", "-I" + os.path.dirname(_FLEX)] if o['cxx'] else ["gcc", "-std=gnu11"]
            r2, _, e2 = run(cc + ["-w", "-c", "-o", out + ".o", out], cwd=wd, timeout=120)
            compiled = (r2 == 0, e2.decode(errors="replace")[:300])
    elif rc == "timeout":
        got = "timeout"
    else:
        got = "refuse" if se.strip() else "refuse-silent"
    for p in (lf, out, out + ".o"):
        try:
            os.remove(p)
        except OSError:
            pass
    return idx, got, se[:200], compiled


def refusal_table(ck, flex, scratch, stats):
    global _FLEX, _DIR
    _FLEX = flex
    _DIR = scratch.sub("opts")
    case = "(case (csize 256) (nsc 1) (excl ()) (rules ()) (queries ((optmodel))))"
    rc, out, err = scanner.run_driver(case, _DIR, "opt.sx")
    items = []
    for idx, line in enumerate(out.splitlines()):
        m = re.match(r"opt (.*?) (refuse|accept array=\d warn=\d)$", line)
        o = {k: int(v) for k, v in (kv.split("=") for kv in m.group(1).split())}
        items.append((idx, o, m.group(2)))
    results = parallel_map(_run_opt, items)
    bad = 0
    compiled = 0
    for (idx, o, expect), (_, got, se, comp) in zip(items, results):
        if comp is not None:
            compiled += 1
            if not comp[0]:
                opts, text = optset_cmd(o)
                ck.violation("accepted-does-not-compile:" + " ".join(opts), "flex accepted option set %s but the scanner does not compile" % o,
                             {'flex_opts': opts, 'spec': text, 'compiler_stderr': comp[1]})
        if got != expect:
            bad += 1
            opts, text = optset_cmd(o)
            key = "refusal:" + ",".join("%s=%d" % kv for kv in sorted(o.items()) if kv[1])
            ck.violation(key, "option set %s: documented outcome '%s', flex gave '%s' (%s)" % (
                " ".join(opts), expect, got, se.strip()[:80]),
                {'flex_opts': opts, 'spec': text, 'expected': expect, 'observed': got, 'stderr': se,
                 'theorem': 'C02_refusals (model o = documented o) vs flex'})
    stats['optsets'] = len(items)
    stats['optsets_disagree'] = bad
    stats['optsets_compiled'] = compiled
    return items


def main(tier):
    ck = Check(PROP, tier)
    rng = Rng(ck.seed).fork(PROP)
    if not engine.ensure_built():
        ck.violation("setup", "the Rocq development or its extraction no longer builds", {"theorem": "whole development"}, no_input=True)
        return ck.finish({"obligations": 1, "discharged": 0, "checker_cmd": "bin/setup", "trusted_base": []})
    nob, ngood, details = engine.obligations(ck, "Properties_C02.v")
    stats = {}
    cases, results = [], []
    with Scratch("c02") as scratch:
        try:
            flex = build_flex(scratch)
        except BuildError as ex:
            sys.stderr.write(str(ex) + "\n")
            print("ERROR: /repo does not build; nothing can be checked")
            return 2
        refusal_table(ck, flex, scratch, stats)
        cases = build_cases(rng, tier)
        results = engine.run_cases(flex, scratch, cases)
        engine.judge(ck, flex, scratch, cases, results, stats)
        # cross-representation agreement of the observed streams, per rule set and input
        bysets = {}
        for c, r in zip(cases, results):
            for st in r['streams']:
                bysets.setdefault((c['set'], st['input'], st['sc']), []).append((c['combo'], tuple(map(tuple, st['real'])), c))
        cross = 0
        for key, lst in bysets.items():
            ref = lst[0]
            for combo, toks, c in lst[1:]:
                cross += 1
                if toks != ref[1]:
                    ck.violation("cross:%s:%s" % (engine.prog_key(c), key[1][:20]),
                                 "token streams differ between %s and %s" % (ref[0], combo),
                                 engine.replay_record(c, {'input_hex': key[1], 'start_condition': key[2], 'other_combo': ref[0],
                                                          'tokens_this': toks[:50], 'tokens_other': ref[1][:50]}))
                    break
        stats['cross_comparisons'] = cross
        # in-code versus serialized tables (the loader and the file format are C15's subject; here: the same rule set, the same
        # inputs, tables loaded by yytables_fload versus tables compiled in - for rule sets with trailing context and REJECT tables)
        sys.path.insert(0, os.path.dirname(os.path.abspath(__file__)))
        import c15
        scases = []
        for i in range(8 if tier == "quick" else 60):
            r = rng.fork("ser%d" % i)
            prog = rulesets.gen_program(r, trailing=(i % 2 == 0), max_scs=1, csize=256)
            extra = []
            tbl = r.pick(TABLES)
            if i % 3 == 0:
                a, b = r.pick([(97, 98), (48, 97), (98, 98)])
                prog['rules'].insert(r.below(len(prog['rules']) + 1),
                                     {'head': ('plus', ('c', a)), 'bol': False, 'scs': None, 'trail': ('cat', ('star', ('c', b)), ('c', 120))})
                tbl = r.pick(["-C", "-Ce", "-Cm", "-Cem", "-Ca", "-Caem"])
            elif i % 3 == 1 and "f" not in tbl and "F" not in tbl:
                extra = ["reject"]
            scases.append({'id': "ser%d" % i, 'kind': 'rt', 'prog': prog, 'seed': r.s, 'flex_opts': [tbl, "-8"], 'extra_options': extra,
                           'inputs': rulesets.gen_inputs(prog, r.fork("in"), count=3, maxlen=80), 'asan': False, 'tier': tier,
                           'text': '', 'backend': 'nr'})
        sresults = parallel_map(c15.worker, scases)
        stats['serialized_vs_incode_scanners'] = len(scases)
        for c, r in zip(scases, sresults):
            for kind, msg in r['problems'][:1]:
                stats.setdefault('problem_kinds', {})
                stats['problem_kinds'][kind] = stats['problem_kinds'].get(kind, 0) + 1
                ck.violation("serialized:%s:%s" % (kind, engine.prog_key(c)),
                             "in-code and serialized tables differ (%s): %s" % (kind, msg[:400]),
                             {'spec': r.get('text', ''), 'flex_opts': c['flex_opts'], 'backend': 'nr', 'detail': [list(p) for p in r['problems'][:3]],
                              'how': "flex <opts> -o a.c a.l with %option tables-file=\"t.tables\" (scanner loads t.tables with yytables_fload) "
                                     "versus the same rules with in-code tables; same inputs"},
                             no_input=kind in ('harness-error',))
        # equivalence classes (yy_ec) against the NFA flex printed, the printed DFA, the NFA itself (coq/NfaSim.v): rule sets
        # with equivalence classes only
        import nfacheck
        ncases = nfacheck.nfa_cases(rng.fork("ec"), tier)
        ncases = [c for c in ncases if not any(o in ("-Cf", "-CF") for o in c['flex_opts'])][:(40 if tier == "quick" else 800)]
        nresults = parallel_map(nfacheck.nfa_worker, ncases)
        nfacheck.judge_nfa(ck, ncases, nresults, stats)
    ls_ok = sum(1 for r in results for l in r['lockstep'] if " OK " in l)
    ls_all = sum(len(r['lockstep']) for r in results)
    combos_seen = {}
    for c in cases:
        k = "%s %s %s %s %s" % c['combo']
        combos_seen[k] = combos_seen.get(k, 0) + 1
    distinct = set((c['set'], c['combo']) for c, r in zip(cases, results) if (r.get('lastdfa') or 0) >= 3)
    cov = {
        "obligations": nob, "discharged": ngood,
        "checker_cmd": "make -C coq Properties_C02.vo && coqc Properties_C02.v; extracted check_view on every combination's tables; extracted GenOptions.model vs flex on all 6144 option sets",
        "trusted_base": ["Coq 8.16.1 kernel (coqc, vm_compute)", "extraction + OCaml driver", "harness printers / table reader / back-end templates", "gcc, g++, m4"],
        "theorems": details,
        "evaluations": len(cases) + stats.get('optsets', 0),
        "equivalence_class_tables_checked": stats.get('ec_tables_checked', 0), "nfa_dumps_checked": stats.get('nfa_checked', 0),
        "distinct_nontrivial": len(distinct),
        "rule": "rule sets x (table option, 7/8 bit, -B/-I, %array, back end) combinations, each lock-stepped against the same specification; "
                "distinct = (rule set, combination) with a DFA of >= 3 states; plus the exhaustive option-compatibility table",
        "lockstep_queries": ls_all, "lockstep_ok": ls_ok,
        "cross_stream_comparisons": stats.get('cross_comparisons', 0),
        "option_sets_run": stats.get('optsets', 0), "option_sets_disagreeing": stats.get('optsets_disagree', 0),
        "option_sets_compiled": stats.get('optsets_compiled', 0),
        "serialized_vs_incode_scanners": stats.get('serialized_vs_incode_scanners', 0),
        "exhaustive_option_table": True,
        "combination_histogram_size": len(combos_seen),
        "problem_kinds": stats.get('problem_kinds', {}),
        "samples": [{"combo": list(cases[0]['combo']), "flex_opts": cases[0]['flex_opts'],
                     "rules": cases[0]['text'].split("%%")[1].strip().splitlines()[:5]},
                    {"option_set": "-CfF -I", "expected": "refuse"}],
    }
    return ck.finish(cov, assumptions=[
        "serialized tables: 8 (quick) / 60 (thorough) rule sets are built with --tables-file and compared with their in-code twins here; "
        "the file format, the loader's failure modes and all table representations are the subject of C15",
    ])


def replay(path):
    import json
    with open(path) as f:
        rec = json.load(f)
    print(json.dumps({k: rec.get(k) for k in rec if k != 'spec'}, indent=1, default=str))
    print(rec.get('spec', ''))
    return 0
