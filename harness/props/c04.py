"""C04 - NUL and 8-bit bytes are ordinary input characters."""
import os

import engine
import patgen
import rulesets
import scanner
from common import Rng, run

PROP = "C04"
OPTS = [[], ["-Cf"], ["-CF"], ["-Ce"], ["-C"], ["-Cm"], ["-B"], ["-B", "-Ce"], ["-B", "-C"], ["-I"], ["-Cfe"], ["-CFe"], ["-Ca"]]


def nul_program(rng):
    """Rule sets whose patterns mention NUL and high bytes (or deliberately do not)."""
    mention = rng.chance(65)
    alpha = [0, 0, 97, 98, 255, 128, 200, 10] if mention else [97, 98, 99, 10, 32]
    g = patgen.Gen(rng, csize=256, alphabet=alpha, max_depth=rng.pick([2, 3]))
    rules = []
    for _ in range(rng.rng(1, 6)):
        h = g.pat()
        tries = 0
        while patgen.nullable(h) and tries < 6:
            h = g.pat()
            tries += 1
        rules.append({'head': h, 'bol': rng.chance(15), 'scs': None, 'trail': None})
    return {'csize': 256, 'caseins': False, 'scs': [], 'rules': rules}


def nul_last_class_program(rng, k):
    """NUL shares the LAST equivalence class with the bytes no rule singles out (here 0x80-0xff): the low bytes are all
    named by a range starting at \\x01, k letters get classes of their own, so that the number of classes sweeps over the
    powers of two as k varies (a full table has a separate yy_NUL_trans only if NUL is alone in the last class)."""
    letters = rng.shuffle(list(range(97, 123)))[:k]
    rules = [{'head': ('c', c), 'bol': False, 'scs': None, 'trail': None} for c in letters]
    rules.append({'head': ('plus', ('cls', ('set', False, [('rg', 97, 122)]))), 'bol': False, 'scs': None, 'trail': None})
    rules.append({'head': ('cls', ('set', False, [('rg', 1, rng.pick([127, 127, 100, 200]))])), 'bol': False, 'scs': None, 'trail': None})
    if rng.chance(50):
        rules.append({'head': ('alt', ('any',), ('c', 10)), 'bol': False, 'scs': None, 'trail': None})
    return {'csize': 256, 'caseins': False, 'scs': [], 'rules': rules}


def nul7_program(rng):
    """7-bit scanners (-7): NUL is a 7-bit character; it is mentioned only inside bracket classes (plain, negated, ranges
    starting at \\0), so that its place among the equivalence classes is decided by the class machinery alone."""
    rules = []
    pool = [('cls', ('set', True, [('ch', 0), ('ch', 10)])),                       # [^\0\n]
            ('cls', ('set', False, [('ch', 0), ('ch', 10)])),                      # [\0\n]
            ('cls', ('set', False, [('rg', 0, rng.pick([8, 31, 64]))])),           # [\0-\x1f]
            ('cls', ('set', True, [('ch', 0)])),                                   # [^\0]
            ('cls', ('set', False, [('ch', 0), ('rg', 97, 99)])),
            ('cls', ('set', True, [('rg', 0, 9), ('rg', 11, 96)]))]
    for h in rng.shuffle(pool)[:rng.rng(2, 4)]:
        if rng.chance(50):
            h = ('plus', h)
        rules.append({'head': h, 'bol': False, 'scs': None, 'trail': None})
    if rng.chance(50):
        rules.append({'head': ('str', [97, 98]), 'bol': False, 'scs': None, 'trail': None})
    return {'csize': 128, 'caseins': False, 'scs': [], 'rules': rules}


def nul_template_program(rng):
    """Loops over wide classes that contain NUL next to rules with negated classes: with meta-equivalence classes but
    no equivalence classes (-Cm) NUL is class 256 and has to find its way into the templates of the compressed table."""
    g = patgen.Gen(rng, csize=256, alphabet=[0, 32, 48, 65, 97, 98, 255], max_depth=2)
    sep = rng.pick([32, 48, 97, 10])
    items = [('rg', 0, rng.rng(1, 120))]
    for _ in range(rng.rng(0, 2)):
        lo = rng.rng(60, 250)
        items.append(('rg', lo, min(255, lo + rng.rng(0, 20))))
    body = ('cat', ('cls', ('set', False, items)), ('c', sep))
    if rng.chance(30):
        body = ('cat', ('c', sep), ('cls', ('set', False, items)))
    loop = ('plus', body)
    if rng.chance(40):
        loop = ('plus', loop)
    if rng.chance(30):
        loop = ('reprange', body, 1, rng.rng(2, 4))
    rules = [{'head': loop, 'bol': False, 'scs': None, 'trail': None}]
    for _ in range(rng.rng(1, 4)):
        if rng.chance(50):
            neg = ('cls', ('set', True, g.items()))
            h = ('cat', neg, g.pat(1)) if rng.chance(60) else ('alt', ('c', rng.pick([98, 99, 0])), ('cat', neg, g.pat(1)))
        else:
            h = g.pat()
        tries = 0
        while patgen.nullable(h) and tries < 6:
            h = g.pat()
            tries += 1
        rules.append({'head': h, 'bol': rng.chance(15), 'scs': None, 'trail': None})
    rules = rng.shuffle(rules)
    return {'csize': 256, 'caseins': False, 'scs': [], 'rules': rules}


def nul_inputs(prog, rng, count):
    outs = rulesets.gen_inputs(prog, rng, count=count, maxlen=rng.pick([40, 120]))
    res = []
    for w in outs:
        w = list(w)
        # sprinkle NULs and high bytes at random positions (incl. first and last)
        for _ in range(rng.rng(1, 8)):
            pos = rng.below(len(w) + 1)
            w.insert(pos, rng.pick([0, 0, 0, 255, 128]))
        if rng.chance(30):
            w.append(0)
        if rng.chance(30):
            w.insert(0, 0)
        res.append(w)
    res.append([0])
    res.append([0, 0, 0])
    return res


def build_cases(rng, tier):
    n = 260 if tier == "quick" else 4000
    cases = []
    for i in range(n):
        r = rng.fork("nul%d" % i)
        be = r.weighted([('nr', 5), ('r', 2), ('c99', 2), ('cxx', 2)])
        opts = list(r.pick(OPTS))
        if be == 'cxx' and any("F" in o for o in opts):
            opts = ["-Cf"]
        prog = nul_program(r)
        if i % 4 == 3:
            prog = nul_template_program(r)
            opts = list(r.pick([["-Cm"], ["-Cm"], ["-Cam"], ["-Cm", "-B"], ["-Cm", "-I"], ["-Cem"], ["-C"]]))
        lastclass = i % 8 == 5
        if lastclass:
            prog = nul_last_class_program(r, (i // 8) % 16)
            opts = list(r.pick([["-Cfe"], ["-Cfe"], ["-Cfae"], ["-CFe"], ["-Ce"], ["-Cem"]]))
            if be == 'cxx' and any("F" in o for o in opts):
                opts = ["-Cfe"]
        seven = i % 8 == 1
        if seven:
            prog = nul7_program(r)
            opts = list(r.pick([[], [], ["-Cfe"], ["-Cem"], ["-I"], ["-Cf"], ["-CF"], ["-Ce"]]))
            if be == 'cxx' and any("F" in o for o in opts):
                opts = ["-Cfe"]
        c = engine.make_case("n%d" % i, r, prog=prog, flex_opts=opts + (["-7"] if seven else ["-8"]), backend=be,
                             extra_options=(["array"] if r.chance(20) else []))
        c['inputs'] = nul_inputs(prog, r.fork("in"), 4)
        if seven:
            c['inputs'] = [[b for b in w if b < 128] for w in c['inputs']] + [[97, 98, 0, 99, 100, 10, 0, 0, 120, 10]]
        if lastclass:
            c['inputs'].append([97, 98, 192, 99, 100, 10, 233, 10, 192, 193, 120, 0, 200, 0, 0, 255, 10])
        if be != 'c99':
            c['cc_extra'] = r.pick([[], ["-DYY_BUF_SIZE=8"], ["-DYY_BUF_SIZE=3"], ["-DYY_BUF_SIZE=16"], ["-DYY_BUF_SIZE=1"]])
        cases.append(c)
    return cases


def seven_bit_refusals(ck, flex, scratch, cases, results, stats):
    """flex -7 must refuse patterns that need 8-bit characters, and accept the others."""
    rng = Rng(ck.seed).fork("7bit")
    wd = scratch.sub("sevenbit")
    n = 40
    wrong = 0
    forms = ["\\x%02x", "[\\x%02x]", "[a\\x%02x]", "\"\\x%02x\"", "[^\\x%02x]", "a|\\%03o"]
    # the boundary first: 0x80 is the first byte a 7-bit scanner cannot hold, 0x7f the last it can
    fixed = [(128, True, f) for f in forms] + [(255, True, f) for f in forms[:3]] + [(127, False, f) for f in forms[:3]]
    n += len(fixed)
    for i in range(n):
        need8 = i % 2 == 0
        c = rng.rng(128, 255) if need8 else rng.rng(1, 127)
        form = rng.pick(forms)
        if i < len(fixed):
            c, need8, form = fixed[i]
        pat = form % c
        text = "%%option noyywrap\n%%%%\n%s\t{ }\n%%%%\n" % pat
        lf = os.path.join(wd, "r%d.l" % i)
        with open(lf, "w") as f:
            f.write(text)
        tbl = rng.pick(["-Cem", "-Cf", "-CF", "-C"])
        rc, out, err = run([flex, "-7", tbl, "-o", os.path.join(wd, "r%d.c" % i), lf], timeout=30)
        refused = rc != 0 and b"-8 flag" in err          # the documented diagnostic: 'scanner requires -8 flag to use the character ...'
        if refused != need8:
            wrong += 1
            ck.violation("7bit-refusal:%s" % form, "flex -7 %s pattern %s (needs 8 bit: %s): rc=%s stderr=%s" % (
                tbl, pat, need8, rc, err.decode(errors='replace')[:120]),
                {'spec': text, 'flex_opts': ["-7", tbl], 'expected': 'refuse' if need8 else 'accept'})
    return {"seven_bit_refusal_probes": n, "seven_bit_refusal_wrong": wrong}


def main(tier):
    return engine.standard_main(
        PROP, tier, "Properties_C04.v", build_cases,
        "rule sets that mention NUL / bytes >= 0x80 (65%) or do not (35%), plus loops over wide classes containing NUL under -Cm/-Cam "
        "(NUL as meta-equivalence class 256) x every table representation x batch/interactive x back end x "
        "%array x buffer sizes 1..16 (so NULs fall on refill boundaries, token ends and back-ups); inputs sprinkled with NULs incl. first "
        "and last byte; lock-step over the full 256-byte alphabet + proved validator on real token streams; -7 refusals probed; "
        "non-trivial = DFA >= 3 states and >= 2 rules matched",
        ["NULs in pushed-back text and yyinput reads are exercised by C08's programs (yyunput(0), yyinput over NULs)",
         "8-bit bytes fed to a 7-bit scanner are documented as unsupported and not generated"],
        post=seven_bit_refusals)


replay = engine.std_replay
