"""C14 - allocation and read failures are reported, never absorbed; interrupted reads are retried."""
import hashlib
import os
import re

import bufprog
import engine
import rulesets
import scanner
import streamprog
import tables
import tokcase
from common import Rng, run

PROP = "C14"
SAN = ["-fsanitize=address,undefined", "-fno-sanitize-recover=all", "-g", "-fno-omit-frame-pointer"]
ENV = {"ASAN_OPTIONS": "detect_leaks=0:exitcode=77:abort_on_error=0:allocator_may_return_null=1", "UBSAN_OPTIONS": "halt_on_error=1:exitcode=78"}
OPTS = [[], [], ["-Cf"], ["-CF"], ["-Ce"], ["-B"], ["-Cm"], ["-I"], ["-I"]]

# ---------------------------------------------------------------- read faults
# yyin is a stream whose low-level read function follows a schedule: "d<n>" delivers up to n bytes, "e" fails with
# EINTR (nothing transferred), "x" fails with EIO (and keeps failing).  After the schedule the rest is delivered.
FAULT_TOP = r"""
#include <errno.h>
#include <sys/types.h>
static char *g_fdata; static long g_flen, g_fpos; static const char *g_sched; static int g_dead;
static long g_left;          /* bytes still to deliver for the current "d" item (a request may be smaller than the item) */
static ssize_t fault_read(void *c, char *buf, size_t size)
{
    long n;
    (void) c;
    if (g_dead) { errno = EIO; return -1; }
    if (g_left == 0) {
        while (*g_sched == ',') g_sched++;
        if (*g_sched == 'e') { g_sched++; errno = EINTR; return -1; }
        if (*g_sched == 'x') { g_dead = 1; errno = EIO; return -1; }
        if (*g_sched == 'd') g_left = strtol(g_sched + 1, (char **) &g_sched, 10); else g_left = g_flen - g_fpos;
    }
    n = (long) size;
    if (n > g_left) n = g_left;
    if (n > g_flen - g_fpos) n = g_flen - g_fpos;
    if (g_fpos >= g_flen) { g_left = 0; return 0; }
    memcpy(buf, g_fdata + g_fpos, (size_t) n); g_fpos += n; g_left -= n;
    return (ssize_t) n;
}
static FILE *fault_open(const char *path, const char *mode)
{
    FILE *f = (fopen)(path, mode); cookie_io_functions_t io = { fault_read, 0, 0, 0 }; FILE *r;
    (void) mode;
    if (!f) return 0;
    fseek(f, 0, SEEK_END); g_flen = ftell(f); fseek(f, 0, SEEK_SET);
    g_fdata = (char *) malloc((size_t) g_flen + 1);
    if (g_flen && fread(g_fdata, 1, (size_t) g_flen, f) != (size_t) g_flen) return 0;
    fclose(f);
    g_sched = getenv("FAULT_SCHED"); if (!g_sched) g_sched = "";
    r = fopencookie(NULL, "r", io);
    if (r && getenv("FAULT_UNBUF")) setvbuf(r, NULL, _IONBF, 0);
    return r;
}
#define fopen(p, m) fault_open(p, m)
"""


def gen_schedule(rng, n, kind):
    """kind: 'eintr' (only interrupted reads), 'error' (a real error somewhere), 'mixed'"""
    items = []
    pos = 0
    err_at = rng.rng(0, max(0, n)) if kind in ('error', 'mixed') else None
    while pos < n and len(items) < 40:
        if err_at is not None and pos >= err_at:
            break
        if kind in ('eintr', 'mixed') and rng.chance(35):
            items.append('e')
            continue
        k = rng.pick([1, 1, 2, 3, 5, 8, 13, 100])
        if err_at is not None:
            k = min(k, err_at - pos) or 1
        k = min(k, n - pos)
        items.append('d%d' % k)
        pos += k
    if err_at is not None:
        if kind == 'mixed' and rng.chance(50):
            items.append('e')
        items.append('x')
    elif rng.chance(40):
        items.append('e')          # interrupted just before the end-of-input indication
    return items


def sched_sx(items, data):
    out = []
    pos = 0
    for it in items:
        if it == 'e':
            out.append("e")
        elif it == 'x':
            out.append("x")
            return "(" + " ".join(out) + ")"
        else:
            k = int(it[1:])
            chunk = data[pos:pos + k]
            pos += len(chunk)
            if chunk:
                out.append("(d " + " ".join(str(b) for b in chunk) + ")")
    rest = data[pos:]
    if rest:
        out.append("(d " + " ".join(str(b) for b in rest) + ")")
    return "(" + " ".join(out) + ")"


def read_worker(case):
    wd = os.path.join(engine._ROOT, "c%s" % case['id'])
    os.makedirs(wd, exist_ok=True)
    res = {'problems': [], 'lockstep': [], 'streams': [], 'id': case['id'], 'flex_opts': case['flex_opts']}
    prog, be = case['prog'], case['backend']
    text = scanner.make_spec(prog, Rng(case['seed']).fork("print"), options=list(case.get('extra_options') or []) +
                             (["case-insensitive"] if prog.get('caseins') else []), extra_top=FAULT_TOP, backend=be)
    if be != 'c99':
        text = "%top{\n#define _GNU_SOURCE 1\n}\n" + text
    res['text'] = text
    with open(os.path.join(wd, "s.l"), "w") as f:
        f.write(text)
    rc, out, err = scanner.run_flex(engine._FLEX, "s.l", "s.c", case['flex_opts'], wd)
    if rc != 0:
        res['problems'].append(('flex-error', err.decode(errors="replace")[:300]))
        return res
    rc, out, err = scanner.compile_c("s.c", "s.exe", wd, extra=SAN + ["-I" + os.path.dirname(engine._FLEX)], backend=be)
    if rc != 0:
        res['problems'].append(('compile-error', err.decode(errors="replace")[:600]))
        return res
    with open(os.path.join(wd, "s.c"), errors="replace") as f:
        t = tables.parse_scanner(f.read())
    res['lastdfa'] = t.get('lastdfa')
    queries = []
    runs = []
    for ri, (data, items, unbuf) in enumerate(case['runs']):
        ip = os.path.join(wd, "in%d.bin" % ri)
        with open(ip, "wb") as f:
            f.write(bytes(data))
        env = dict(ENV, FAULT_SCHED=",".join(items))
        if unbuf:
            env['FAULT_UNBUF'] = "1"
        rc, out, err = run([os.path.join(wd, "s.exe"), ip, "0"], timeout=20, env=env)
        runs.append((rc, scanner.parse_tokens(out), err.decode(errors="replace")))
        queries.append("(faultrun t 1 %s %s)" % (tables.adj_sexp(t), sched_sx(items, data)))
    return res, queries, runs


def eval_read_case(case):
    r = read_worker(case)
    if isinstance(r, dict):
        return r
    res, queries, runs = r
    wd = os.path.join(engine._ROOT, "c%s" % case['id'])
    with open(os.path.join(wd, "s.c"), errors="replace") as f:
        t = tables.parse_scanner(f.read())
    sx = "(case %s\n%s\n(queries (%s)))\n" % (scanner.sx_program(case['prog']), tables.tables_sexp(t, "t"), "\n".join(queries))
    rc, out, err = scanner.run_driver(sx, wd, timeout=120)
    if rc == "timeout":
        res['problems'].append(('inconclusive', 'driver timeout'))
        return res
    if rc != 0:
        res['problems'].append(('driver-error', "rc=%s %s" % (rc, err[:300])))
        return res
    lines = [l for l in out.splitlines() if l.startswith("faultrun ")]
    if len(lines) != len(runs):
        res['problems'].append(('driver-error', "faultrun answers missing: %s" % out[:200]))
        return res
    for (data, items, unbuf), (rrc, rtoks, rerr), line in zip(case['runs'], runs, lines):
        mev = line.split()[1:]
        mtoks = [(int(x.split(":")[1]), int(x.split(":")[2])) for x in mev if x.startswith("T:")]
        mfatal = "F" in mev
        real = [(tk[0], tk[1]) for tk in rtoks]
        rfatal = "input in flex scanner failed" in rerr
        rep = re.search(r"(ERROR: AddressSanitizer: [^\n]*|runtime error: [^\n]*)", rerr)
        # a real error: the scanner may stop as soon as it learns of it (text obtained by the failing request may stay unscanned), but
        # what it delivered must be the first tokens of the true stream (C14_tokens_before_failure_are_true_tokens); interruptions only:
        # the whole stream, nothing lost or duplicated
        if mfatal:
            ok = (not rep) and real == mtoks[:len(real)] and rfatal and rrc == 2
        else:
            ok = (not rep) and real == mtoks and not rfatal and rrc == 0
        res['streams'].append({'input': bytes(data).hex(), 'sc': 1, 'real': real, 'valid': ok, 'text_ok': True})
        if not ok:
            k = 0
            while k < len(real) and k < len(mtoks) and real[k] == mtoks[k]:
                k += 1
            only_eintr = 'x' not in items
            res['problems'].append(('read-fault', {
                'msg': "schedule %s%s on %d bytes (input %s): scanner rc=%s fatal=%s tokens=%d, model fatal=%s tokens=%d, first difference at token %d: real=%s model=%s%s stderr=%s" % (
                    ",".join(items), " unbuffered" if unbuf else "", len(data), bytes(data).hex()[:80], rrc, rfatal, len(real), mfatal, len(mtoks), k,
                    real[k:k + 2], mtoks[k:k + 2], (" " + rep.group(1)) if rep else "", rerr[:120].replace("\n", " ")),
                'only_eintr': only_eintr, 'spurious_fatal': rfatal and not mfatal, 'interactive': "always-interactive" in (case.get('extra_options') or []),
                'sched': ",".join(items), 'input_hex': bytes(data).hex(), 'unbuf': unbuf}))
    return res


# ---------------------------------------------------------------- allocation faults
COUNTDOWN = {
    'nr': r"""
static long g_acount; static long g_failk = -1; static int g_ainit;
static void a_report(void);
static int a_fail(void) { if (!g_ainit) { const char *p = getenv("FAILK"); g_failk = p ? atol(p) : -1; g_ainit = 1; atexit(a_report); } g_acount++; return g_acount == g_failk; }
static void a_report(void) { const char *p = getenv("ACOUNT"); if (p) { FILE *f = (fopen)(p, "w"); if (f) { fprintf(f, "%ld\n", g_acount); fclose(f); } } }
void *yyalloc(yy_size_t n) { if (a_fail()) return NULL; return malloc(n); }
void *yyrealloc(void *q, yy_size_t n) { if (a_fail()) return NULL; return realloc(q, n); }
void yyfree(void *p) { free(p); }
""",
}
COUNTDOWN['r'] = COUNTDOWN['nr'].replace("yyalloc(yy_size_t n)", "yyalloc(yy_size_t n, yyscan_t s)").replace(
    "yyrealloc(void *q, yy_size_t n)", "yyrealloc(void *q, yy_size_t n, yyscan_t s)").replace("yyfree(void *p)", "yyfree(void *p, yyscan_t s)")
COUNTDOWN['c99'] = COUNTDOWN['r'].replace("yy_size_t", "size_t")
COUNTDOWN['cxx'] = COUNTDOWN['nr']
ALLOC_MSGS = ["out of dynamic memory", "out of memory", "input buffer overflow", "scanner input buffer overflow", "bad buffer"]


def alloc_worker(case):
    """Runs the history once without faults (counting the allocation requests) and once for every k with the k-th request failing."""
    wd = os.path.join(engine._ROOT, "c%s" % case['id'])
    os.makedirs(wd, exist_ok=True)
    res = {'problems': [], 'lockstep': [], 'streams': [], 'id': case['id'], 'flex_opts': case['flex_opts']}
    be = case['backend']
    collect = []
    acount = os.path.join(wd, "acount.txt")
    base = bufprog.eval_buf_case(engine._FLEX, wd, case, cc_extra=SAN, env=dict(ENV, ACOUNT=acount), alloc=COUNTDOWN[be],
                                 collect=collect)
    res['text'] = base.get('text', '')
    res['lastdfa'] = base.get('lastdfa')
    for p in base['problems']:
        if p[0] in ('flex-error', 'compile-error', 'driver-error', 'harness-error'):
            res['problems'].append(p)
    if res['problems'] or not collect:
        return res
    exe = os.path.join(wd, "s.exe")
    injected = 0
    for hi, rc0, out0, err0 in collect:
        if rc0 != 0:
            continue
        try:
            total = int(open(acount).read().split()[0]) if hi == len(collect) - 1 else None
        except Exception:
            total = None
        # count for this history: run again alone with the counter file
        ops = os.path.join(wd, "h%d" % hi, "ops.txt")
        rc, out, err = run([exe, ops], timeout=30, env=dict(ENV, ACOUNT=acount))
        try:
            total = int(open(acount).read().split()[0])
        except Exception:
            res['problems'].append(('harness-error', "no allocation count for history %d" % hi))
            continue
        base_lines = out.decode(errors="replace").splitlines()
        ks = list(range(1, total + 1))
        if len(ks) > case.get('maxk', 60):
            r = Rng(case['seed']).fork("ks%d" % hi)
            ks = ks[:20] + sorted(r.shuffle(ks[20:])[:case.get('maxk', 60) - 20])
        for k in ks:
            rc, out, err = run([exe, ops], timeout=30, env=dict(ENV, FAILK=str(k)))
            injected += 1
            errs = err.decode(errors="replace")
            lines = out.decode(errors="replace").splitlines()
            rep = re.search(r"(ERROR: AddressSanitizer: [^\n]*|runtime error: [^\n]*)", errs)
            reported = any(m in errs for m in ALLOC_MSGS)
            init_fail = rc == 3              # yylex_init returned non-zero (the driver returns 3)
            prefix_ok = lines == base_lines[:len(lines)]
            verdict = None
            if rep or (isinstance(rc, int) and rc < 0) or rc == "timeout":
                verdict = "memory error or crash after the failed request: %s" % (rep.group(1) if rep else "rc=%s" % rc)
            elif rc == 0:
                verdict = "the failed request was absorbed: the scanner ran to the end (rc 0)" + ("" if lines == base_lines else " with different output")
            elif not (init_fail or (rc == 2 and reported)):
                verdict = "stopped with rc=%s without the documented report (stderr=%s)" % (rc, errs[:100].replace("\n", " "))
            elif not prefix_ok:
                verdict = "events before the report differ from the fault-free run"
            if verdict:
                res['problems'].append(('alloc-fault', {'msg': "history %d, allocation request %d of %d fails: %s" % (hi, k, total, verdict),
                                                        'hist': hi, 'k': k, 'ops': [list(o) for o in case['histories'][hi][0]],
                                                        'files': [bytes(w).hex() for w in case['histories'][hi][1]], 'stderr': errs[:1500]}))
                break
    res['injected'] = injected
    res['streams'] = [{'input': '', 'sc': 1, 'real': [(1, 1), (2, 1)], 'valid': True, 'text_ok': True}]
    return res


def inject_all(exe, args, total, base_lines, seed, maxk, what):
    """Fails the k-th allocation request for every k (sampled above maxk); returns (number injected, first problem or None)."""
    ks = list(range(1, total + 1))
    if len(ks) > maxk:
        ks = ks[:20] + sorted(Rng(seed).fork("ks").shuffle(ks[20:])[:maxk - 20])
    n = 0
    for k in ks:
        rc, out, err = run([exe] + args, timeout=30, env=dict(ENV, FAILK=str(k)))
        n += 1
        errs = err.decode(errors="replace")
        lines = out.decode(errors="replace").splitlines()
        rep = re.search(r"(ERROR: AddressSanitizer: [^\n]*|runtime error: [^\n]*)", errs)
        reported = any(m in errs for m in ALLOC_MSGS)
        init_fail = rc == 3              # yylex_init returned non-zero (the drivers return 3)
        verdict = None
        if rep or (isinstance(rc, int) and rc < 0) or rc == "timeout":
            verdict = "memory error or crash after the failed request: %s" % (rep.group(1) if rep else "rc=%s" % rc)
        elif rc == 0:
            verdict = "the failed request was absorbed: the scanner ran to the end (rc 0)" + ("" if lines == base_lines else " with different output")
        elif not (init_fail or (rc == 2 and reported)):
            verdict = "stopped with rc=%s without the documented report (stderr=%s)" % (rc, errs[:100].replace("\n", " "))
        elif lines != base_lines[:len(lines)]:
            verdict = "events before the report differ from the fault-free run"
        if verdict:
            return n, {'msg': "%s, allocation request %d of %d fails: %s" % (what, k, total, verdict), 'k': k, 'stderr': errs[:1500]}
    return n, None


TABLES_MAIN = r"""
int main(int argc, char **argv)
{
    FILE *fp = fopen(argv[1], "rb"); int rc;
    if (!fp) return 5;
    rc = yytables_fload(fp);
    fclose(fp);
    if (rc != 0) return 3;                 /* the loader reported its failure to the caller */
    yyin = fopen(argv[2], "rb");
    if (!yyin) return 5;
    yylex();
    yytables_destroy();
    yylex_destroy();
    return 0;
}
"""


def tables_alloc_worker(case):
    """A scanner that loads its tables from a --tables-file: every allocation request of the load (and of the scan) fails once."""
    import sys
    sys.path.insert(0, os.path.dirname(os.path.abspath(__file__)))
    import c15
    import backends
    wd = os.path.join(engine._ROOT, "c%s" % case['id'])
    os.makedirs(wd, exist_ok=True)
    res = {'problems': [], 'lockstep': [], 'streams': [], 'id': case['id'], 'flex_opts': case['flex_opts'], 'injected': 0}
    try:
        prog = case['prog']
        text = c15.spec_for(prog, Rng(case['seed']).fork("p"), "yy", ['tables-file="t.tables"', "noyyalloc", "noyyrealloc", "noyyfree"],
                            COUNTDOWN['nr'] + backends.EMIT + TABLES_MAIN)
        res['text'] = text
        with open(os.path.join(wd, "s.l"), "w") as f:
            f.write(text)
        rc, out, err = run([engine._FLEX] + case['flex_opts'] + ["-o", "s.c", "s.l"], cwd=wd, timeout=60)
        if rc != 0:
            return res          # documented refusals of some table options (judged in C02 / C15)
        rc, out, err = run(["gcc", "-std=gnu11", "-w", "-O0"] + SAN + ["-o", "s.exe", "s.c"], cwd=wd, timeout=180)
        if rc != 0:
            res['problems'].append(('compile-error', err.decode(errors='replace')[:400]))
            return res
        ip = os.path.join(wd, "in.bin")
        with open(ip, "wb") as f:
            f.write(bytes(case['input']))
        exe, args = os.path.join(wd, "s.exe"), [os.path.join(wd, "t.tables"), ip]
        acount = os.path.join(wd, "acount.txt")
        rc, out, err = run([exe] + args, timeout=30, env=dict(ENV, ACOUNT=acount))
        if rc != 0:
            res['problems'].append(('scanner-abnormal', "fault-free run rc=%s %s" % (rc, err.decode(errors='replace')[:200])))
            return res
        total = int(open(acount).read().split()[0])
        n, prob = inject_all(exe, args, total, out.decode(errors="replace").splitlines(), case['seed'], case.get('maxk', 40),
                             "scanner with tables loaded by yytables_fload (%d requests)" % total)
        res['injected'] = n
        if prob:
            prob['hist'] = 0
            prob['ops'] = []
            prob['files'] = [bytes(case['input']).hex()]
            res['problems'].append(('alloc-fault', prob))
        res['streams'] = [{'input': '', 'sc': 1, 'real': [(1, 1), (2, 1)], 'valid': True, 'text_ok': True}]
        res['lastdfa'] = 5
    except Exception as ex:
        import traceback
        res['problems'].append(('harness-error', repr(ex) + traceback.format_exc()[-300:]))
    return res


def stream_alloc_worker(case):
    """Stream programs (start-condition stack growth, REJECT state buffer, buffer growth with tiny buffers, %array) under allocation faults."""
    wd = os.path.join(engine._ROOT, "c%s" % case['id'])
    os.makedirs(wd, exist_ok=True)
    res = {'problems': [], 'lockstep': [], 'streams': [], 'id': case['id'], 'flex_opts': case['flex_opts']}
    be = case['backend']
    case = dict(case)
    case['prologue'] = COUNTDOWN[be]
    case['cc_extra'] = SAN + list(case.get('cc_extra') or [])
    base = streamprog.eval_stream_case(engine._FLEX, wd, case)
    res['text'] = base.get('text', '')
    res['lastdfa'] = base.get('lastdfa')
    for p in base['problems']:
        if p[0] in ('flex-error', 'compile-error', 'driver-error', 'harness-error'):
            res['problems'].append(p)
    exe = os.path.join(wd, "s.exe")
    if res['problems'] or not os.path.exists(exe):
        return res
    acount = os.path.join(wd, "acount.txt")
    injected = 0
    for si, srcs in enumerate(case['sources'][:2]):
        args = ["-a"] + [os.path.join(wd, "in%d_0_%d.bin" % (si, j)) for j in range(len(srcs))]
        rc, out, err = run([exe] + args, timeout=30, env=dict(ENV, ACOUNT=acount))
        if rc != 0:
            continue            # (documented fatal errors of the fault-free run are C08's business)
        try:
            total = int(open(acount).read().split()[0])
        except Exception:
            res['problems'].append(('harness-error', "no allocation count (source set %d)" % si))
            continue
        n, prob = inject_all(exe, args, total, out.decode(errors="replace").splitlines(), case['seed'], case.get('maxk', 40), "source set %d" % si)
        injected += n
        if prob:
            prob.update({'hist': si, 'ops': [], 'files': [bytes(w).hex() for w in srcs]})
            res['problems'].append(('alloc-fault', prob))
            break
    res['injected'] = injected
    res['streams'] = [{'input': '', 'sc': 1, 'real': [(1, 1), (2, 1)], 'valid': True, 'text_ok': True}]
    return res


def worker(case):
    try:
        if case['kind'] == 'read':
            res = eval_read_case(case)
        elif case['kind'] == 'salloc':
            res = stream_alloc_worker(case)
        elif case['kind'] == 'talloc':
            res = tables_alloc_worker(case)
        else:
            res = alloc_worker(case)
    except Exception as ex:
        import traceback
        res = {'problems': [('harness-error', repr(ex) + traceback.format_exc()[-400:])], 'lockstep': [], 'streams': []}
    res['id'] = case['id']
    return res


def build_cases(rng, tier):
    cases = []
    n = 90 if tier == "quick" else 2500
    for i in range(n):
        r = rng.fork("rd%d" % i)
        be = r.weighted([('nr', 4), ('r', 3), ('c99', 3)])
        opts = list(r.pick(OPTS))
        if i % 3 == 1:
            opts = [o for o in opts if o not in ("-Cf", "-CF", "-B")]      # always-interactive: documented as incompatible with full tables
        prog = rulesets.gen_program(r, trailing=False, max_scs=0, csize=256)
        inputs = rulesets.gen_inputs(prog, r.fork("in"), count=4, maxlen=r.pick([12, 40, 120]))
        runs = []
        for j, w in enumerate(inputs):
            kind = ['eintr', 'error', 'mixed', 'eintr'][j % 4]
            runs.append((list(w), gen_schedule(r.fork("s%d" % j), len(w), kind), r.chance(30)))
        cases.append({'id': "r%d" % i, 'kind': 'read', 'prog': prog, 'backend': be, 'flex_opts': opts + ["-8"], 'seed': r.s, 'runs': runs,
                      'text': '', 'extra_options': (["array"] if r.chance(15) else []) + (["always-interactive"] if i % 3 == 1 else [])})
    m = 30 if tier == "quick" else 600
    for i in range(m):
        r = rng.fork("al%d" % i)
        be = r.weighted([('nr', 4), ('r', 3), ('c99', 2)])
        if i % 5 == 3:
            be = 'cxx'          # the C++ class: a failed request ends in LexerError (message on cerr, exit status 2)
        prog = rulesets.gen_program(r, trailing=False, max_scs=0, csize=256)
        hs = [bufprog.gen_history(r.fork("h%d" % k), prog, r.pick([10, 25]), deep=(k == 1), files_only=(be == 'cxx')) for k in range(2)]
        fo = list(r.pick(OPTS[:7]))
        if be == 'cxx':
            fo = [o for o in fo if o not in ("-CF", "-B")] + ["-B"]
        cases.append({'id': "a%d" % i, 'kind': 'alloc', 'prog': prog, 'backend': be, 'flex_opts': fo + ["-8"],
                      'lineno': r.chance(40), 'histories': hs, 'seed': r.s, 'text': '', 'maxk': 40 if tier == "quick" else 200,
                      'extra_options': ["noyyalloc", "noyyrealloc", "noyyfree"]})
    q = 30 if tier == "quick" else 600
    for i in range(q):
        r = rng.fork("sal%d" % i)
        be = r.weighted([('nr', 4), ('r', 3), ('c99', 2)])
        focus = [{'stack'}, {'edit', 'stack'}, {'edit', 'trail'}, {'edit', 'more'}][i % 4]
        c = streamprog.gen_stream_case(r, "s%d" % i, focus, backend=be, flex_opts=list(r.pick(OPTS[:7])))
        c['kind'] = 'salloc'
        c['extra_options'] = ["noyyalloc", "noyyrealloc", "noyyfree"] + (["array"] if r.chance(25) else [])
        uses_reject = any(rl.get('trail') is not None for rl in c['prog']['rules'])
        c['cc_extra'] = (r.pick([["-DYY_BUF_SIZE=2"], ["-DYY_BUF_SIZE=8"], []]) if be != 'c99' and not uses_reject else [])
        c['maxk'] = 40 if tier == "quick" else 200
        if i % 6 == 1:
            # tables loaded at run time (yytables_fload): each table is a separate allocation request of the loader
            tprog = rulesets.gen_program(r.fork("tp"), trailing=False, max_scs=0, csize=256)
            cases.append({'id': "t%d" % i, 'kind': 'talloc', 'prog': tprog, 'backend': 'nr', 'seed': r.s, 'text': '', 'runs': [],
                          'flex_opts': list(r.pick([[], ["-Ce"], ["-Cm"], ["-Cf"], ["-CF"], ["-Cfe"]])) + ["-8"], 'maxk': 40,
                          'input': rulesets.gen_inputs(tprog, r.fork("tin"), count=1, maxlen=40)[0], 'focus': ['tables-file']})
        if i % 6 == 0:
            # the start-condition stack grows in steps of YY_START_STACK_INCR (25): nest deeper than two steps
            depth = r.pick([26, 30, 51, 60])
            c['prog'] = {'csize': 256, 'caseins': False, 'scs': [('SC2', False)],
                         'rules': [{'head': ('c', 97), 'bol': False, 'scs': None, 'trail': None},
                                   {'head': ('c', 98), 'bol': False, 'scs': None, 'trail': None}]}
            c['acts'] = {1: [('push', r.pick([1, 2]))], 2: [('pop',)]}
            c['eofs'] = {}
            c['sources'] = [[[97] * depth + [98] * depth + [97, 98]]]
            c['focus'] = ['stack', 'deep']
        cases.append(c)
    return cases


def judge(ck, flex, scratch, cases, results, stats):
    stats['faults_injected'] = sum(r.get('injected', 0) for r in results) + sum(len(c['runs']) for c in cases if c['kind'] == 'read')
    stats['alloc_faults_injected'] = sum(r.get('injected', 0) for r in results)
    for c, r in zip(cases, results):
        c['text'] = r.get('text', '')
        for kind, msg in r['problems']:
            stats.setdefault('problem_kinds', {})
            stats['problem_kinds'][kind] = stats['problem_kinds'].get(kind, 0) + 1
        probs = [p for p in r['problems'] if p[0] != 'inconclusive']
        for kind, d in probs[:2]:
            if kind == 'read-fault':
                key = "read-fault:" + hashlib.sha256((c['text'] + d['sched'] + d['input_hex']).encode()).hexdigest()[:10]
                if d['only_eintr'] and d['interactive']:
                    key = "interactive-getc-no-eintr-retry"
                elif d['only_eintr'] and d['spurious_fatal']:
                    key = "stale-error-flag-after-partial-fread"
                ck.violation(key, "read fault: " + d['msg'][:600],
                             {'spec': c['text'], 'flex_opts': c['flex_opts'], 'backend': c['backend'], 'FAULT_SCHED': d['sched'],
                              'FAULT_UNBUF': d['unbuf'], 'input_hex': d['input_hex'],
                              'how': "flex <opts> -o s.c s.l; gcc -D_GNU_SOURCE s.c; FAULT_SCHED=<sched> ./s input 0 (the schedule drives the low-level reads of yyin)"})
            elif kind == 'alloc-fault':
                key = "alloc-fault:" + hashlib.sha256((c['text'] + str(d['hist']) + str(d['k'])).encode()).hexdigest()[:10]
                ck.violation(key, "allocation fault: " + d['msg'][:600],
                             {'spec': c['text'], 'flex_opts': c['flex_opts'], 'backend': c['backend'], 'FAILK': d['k'], 'ops': d['ops'],
                              'files': d['files'], 'stderr': d['stderr'],
                              'how': "build the scanner, write the history files, FAILK=<k> ./s ops.txt (the k-th yyalloc/yyrealloc call returns NULL)"})
            else:
                ck.violation("%s:%s" % (kind, hashlib.sha256((c['text'] + str(d)[:100]).encode()).hexdigest()[:10]), "%s: %s" % (kind, str(d)[:500]),
                             {'spec': c['text'], 'flex_opts': c['flex_opts'], 'backend': c['backend']}, no_input=kind in ('harness-error', 'driver-error'))


def main(tier):
    engine._orig_judge14 = engine.judge
    engine.judge = judge
    try:
        def post(ck, flex, scratch, cases, results, stats):
            # 'token too large, exceeds YYLMAX' is a documented failure report too: the boundary probe of C13 (with and without
            # text kept by yymore) is run here as well
            from props import c13
            extra = c13.yylmax_probe(ck, flex, scratch)
            d = {"faults_injected": stats.get('faults_injected', 0), "alloc_faults_injected": stats.get('alloc_faults_injected', 0)}
            d.update(extra or {})
            return d
        return engine.standard_main(
            PROP, tier, "Properties_C14.v", build_cases,
            "(a) read faults: yyin is a stream whose low-level reads follow a schedule of short reads, EINTR and EIO (buffered and unbuffered "
            "stdio, block-read and character-wise (always-interactive) input paths, 3 back ends, all table options); tokens, fatal message and exit status are compared with "
            "the extracted fault machine (coq/Faults.v); (b) allocation faults: for buffer histories (create/scan_*/push beyond the initial "
            "stack/pop/flush/delete/yylex, yylex_init) and stream programs (start-condition stack growth, REJECT state buffer, buffer growth from 2-byte buffers, %array) the k-th yyalloc/yyrealloc request fails, for EVERY k of the history (sampled above 40): "
            "the scanner must stop with the documented message (or yylex_init must return non-zero), its events must be a prefix of the "
            "fault-free run, no sanitizer report; non-trivial = DFA >= 3 states and >= 2 rules matched",
            ["PARTIAL: the allocation-failure part is decided by exhaustive injection per scenario, not by a theorem about the C text",
             "read(2)-based input (%option read) and the C++ stream interface are not driven (no file descriptor behind the fault stream)",
             "yytables_fload under allocation failure is covered by C15's loader runs only for well-formed files"],
            worker=worker, post=post)
    finally:
        engine.judge = engine._orig_judge14


replay = engine.std_replay
