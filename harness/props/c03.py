"""C03 - tokens independent of input delivery; interactive scanners do not over-read."""
import os

import engine
import rulesets
import sched
from common import Rng

PROP = "C03"
OPTS = [[], [], ["-I"], ["-B"], ["-Cf"], ["-CF"], ["-Ce"], ["-B", "-Ce"], ["-Cm"]]
BUFSIZES = [1, 2, 3, 4, 5, 7, 8, 15, 16, 17, 33, 64, None]


def schedules(rng, bufsize, n):
    b = bufsize or 16
    kinds = [
        [1] * 400,
        [1, rng.rng(2, 9)] * 200,
        [b] * 200,
        [max(1, b - 1)] * 200,
        [b + 1] * 200,
        [2 ** k for k in range(0, 12)] * 4,
        [100000],
        [rng.rng(1, 2 * b + 1) for _ in range(300)],
    ]
    return [rng.pick(kinds) for _ in range(n)]


def long_inputs(prog, rng, bufsize, count):
    base = rulesets.gen_inputs(prog, rng, count=count, maxlen=rng.pick([30, 80, 200]))
    b = bufsize or 16
    outs = []
    for w in base:
        w = list(w)
        # runs that make tokens longer than 1x, 2x, 5x the buffer and look-ahead that straddles refills
        for _ in range(rng.rng(0, 2)):
            pos = rng.below(len(w) + 1)
            run_len = rng.pick([b - 1, b, b + 1, 2 * b + 1, 5 * b + 3])
            w[pos:pos] = [rng.pick([97, 98, 48])] * max(1, run_len)
        outs.append(w[:1500])
    return outs


def build_cases(rng, tier):
    n = 200 if tier == "quick" else 6000
    cases = []
    for i in range(n):
        r = rng.fork("io%d" % i)
        be = r.weighted([('nr', 5), ('r', 2), ('c99', 2), ('cxx', 2)])
        opts = list(r.pick(OPTS))
        if be == 'cxx' and any("F" in o for o in opts):
            opts = ["-Cf"]
        prog = rulesets.gen_program(r, trailing=(i % 4 == 0), max_scs=0, csize=256)
        if r.chance(60):
            prog['rules'].append({'head': ('plus', ('cls', ('set', False, [('ch', 97), ('ch', 98), ('ch', 48)]))), 'bol': False, 'scs': None, 'trail': None})
        bufsize = r.pick(BUFSIZES)
        ws = long_inputs(prog, r.fork("in"), bufsize, 3)
        scheds = schedules(r.fork("sch"), bufsize, 3)
        inputs = [('s', w, s) for w, s in zip(ws, scheds)]
        if be != 'c99':
            inputs.append(('f', ws[0], []))
        if be in ('nr', 'r', 'c99'):
            nz = [b for b in ws[1] if b != 0]
            inputs.append(('S', nz, []))
            inputs.append(('B', ws[2], []))
            inputs.append(('U', ws[0], []))
        cases.append({'id': "q%d" % i, 'prog': prog, 'backend': be, 'flex_opts': opts + ["-8"], 'bufsize': bufsize,
                      'inputs': inputs, 'seed': r.s, 'text': ''})
    # scanners that keep flex's OWN input routine (the getc loop of interactive buffers, fread, read() under %option read, the C++
    # LexerInput), fed through a pipe in pieces and from a FILE
    for i in range(n // 4):
        r = rng.fork("plain%d" % i)
        be = r.weighted([('nr', 4), ('r', 2), ('c99', 3), ('cxx', 2)])
        opts = list(r.pick([[], ["-I"], ["-B"], ["-Cf"], ["-Ce"], ["-I", "-Cf"], ["-Cm"]]))
        prog = rulesets.gen_program(r, trailing=(i % 5 == 0), max_scs=0, csize=256)
        if r.chance(60):
            prog['rules'].append({'head': ('plus', ('cls', ('set', False, [('ch', 97), ('ch', 98), ('ch', 48)]))), 'bol': False, 'scs': None, 'trail': None})
        bufsize = r.pick([2, 3, 5, 8, 16, 17, 64, None])
        ws = long_inputs(prog, r.fork("in"), bufsize, 3)
        # bytes that an input routine may mistake for something else: 0xFF (EOF as a char), NUL, ^Z, ^D, 0x80
        rb = r.fork("bytes")
        for w in ws:
            for _ in range(rb.rng(1, 4)):
                w.insert(rb.below(len(w) + 1), rb.pick([255, 255, 254, 128, 0, 26, 4]))
        scheds = schedules(r.fork("sch"), bufsize, 3)
        inputs = [('p', w, s[:200]) for w, s in zip(ws, scheds)] + [('f', ws[0], [])]
        extra = ["read"] if (be != 'cxx' and i % 2 == 0) else []
        cases.append({'id': "pl%d" % i, 'prog': prog, 'backend': be, 'flex_opts': opts + ["-8"], 'bufsize': bufsize, 'plain': True,
                      'setint': be == 'nr' and i % 3 == 1,          # yy_set_interactive(1) on the buffer of a pipe
                      'extra_options': extra, 'inputs': inputs, 'seed': r.s, 'text': ''})
    return cases


def worker(case):
    wd = os.path.join(engine._ROOT, "c%s" % case['id'])
    try:
        res = sched.eval_sched_case(engine._FLEX, wd, case)
    except Exception as ex:
        res = {'problems': [('harness-error', repr(ex))], 'lockstep': [], 'streams': []}
    res['id'] = case['id']
    return res


def judge(ck, flex, scratch, cases, results, stats):
    import hashlib
    for c, r in zip(cases, results):
        c['text'] = r.get('text', '')
    stats['reject_overflows_documented'] = sum(r.get('reject_overflows', 0) for r in results)
    modes = {}
    for r in results:
        for st in r.get('streams', []):
            modes[st.get('mode')] = modes.get(st.get('mode'), 0) + 1
    stats['source_kind_histogram'] = modes
    for c, r in zip(cases, results):
        for kind, msg in r['problems']:
            stats.setdefault('problem_kinds', {})
            stats['problem_kinds'][kind] = stats['problem_kinds'].get(kind, 0) + 1
        probs = [p for p in r['problems'] if p[0] != 'inconclusive']
        if any(p[0] == 'inconclusive' for p in r['problems']):
            stats['inconclusive'] = stats.get('inconclusive', 0) + 1
        if not probs:
            continue
        kind, msg = probs[0]
        for kf, key in (('request-early-after-nul', "interactive-overread-after-nul"),
                        ('c99-reject-tiny-buffer-hang', "c99-reject-tiny-buffer-hang")):     # listed in KNOWN_FINDINGS.json
            if any(p[0] == kf for p in probs):
                ck.violation(key, [p[1] for p in probs if p[0] == kf][0], {})
                probs = [p for p in probs if p[0] != kf]
        if not probs:
            continue
        kind, msg = probs[0]
        noinput = kind in ('harness-error', 'driver-error', 'tables-unreadable', 'request-mismatch', 'request-size-mismatch')
        what = {"token-mismatch": "tokens depend on how the input was delivered (they differ from the documented tokenisation)",
                "yytext-mismatch": "yytext is not the corresponding slice of the input",
                "scanner-abnormal": "scanner stopped abnormally",
                "request-mismatch": "input requests differ from the window machine (C03_no_request_once_stopped / correspondence Window.v)",
                "request-size-mismatch": "the sizes the scanner asks its input routine for differ from the buffer model (correspondence coq/BufLayout.v; the tokens agree)",
                "scan-buffer-null": "yy_scan_buffer refused a well-formed buffer",
                "compile-error": "generated scanner does not compile", "flex-error": "flex refuses a documented program"}.get(kind, kind)
        key = "%s:%s" % (kind, hashlib.sha256((c['text'] + msg[:200]).encode()).hexdigest()[:10])
        ck.violation(key, "%s: %s" % (what, msg[:500]),
                     {'spec': c['text'], 'flex_opts': c['flex_opts'], 'backend': c['backend'], 'bufsize': c.get('bufsize'),
                      'detail': [list(p) for p in probs[:3]],
                      'theorem': 'C03_no_request_once_stopped / correspondence coq/Window.v wtokens vs compiled scanner' if kind == 'request-mismatch' else None,
                      'how': "flex <opts> -o s.c s.l; cc [-DYY_BUF_SIZE=n]; ./s <mode> <file> [schedule...]; mode s: input routine returning "
                             "schedule[i] bytes per request (Q n lines), f: FILE, S/B/U: yy_scan_string/bytes/buffer; T rule yyleng fnv(yytext)"},
                     no_input=noinput)


def main(tier):
    engine._orig_judge3 = engine.judge
    engine.judge = judge
    try:
        def post(ck, flex, scratch, cases, results, stats):
            return {"request_sizes_compared_with_buffer_model": sum(r.get('requests_checked', 0) for r in results),
                    "reject_overflows_documented": stats.get('reject_overflows_documented', 0),
                    "source_kind_histogram": stats.get('source_kind_histogram', {}),
                    "buffer_size_histogram": {str(b): sum(1 for c in cases if c.get('bufsize') == b) for b in BUFSIZES}}
        return engine.standard_main(
            PROP, tier, "Properties_C03.v", build_cases,
            "(program, input, buffer size 1..64/default, read schedule) tuples over 4 back ends and table options: a harness input routine "
            "returns schedule[i] bytes per request (all-ones, alternating, exactly / one below / one above the buffer size, geometric, one "
            "huge, random) and logs each request; also FILE, yy_scan_string, yy_scan_bytes, yy_scan_buffer; inputs contain tokens longer "
            "than 1x, 2x, 5x the buffer; tokens judged by the proved validator, the max_size of every request compared with the buffer model (coq/BufLayout.v), the interleaving of requests and tokens compared with the "
            "window machine run on the chunks really delivered; non-trivial = DFA >= 3 states and >= 2 rules matched",
            ["REJECT / variable-trailing-context scanners: the documented 'input buffer overflow' fatal error is accepted when it occurs "
             "(their buffer does not grow); their request pattern is not compared",
             "tty detection (isatty) is not exercised; read(2) mode (%option read) is covered by the FILE source only",
             "R4b (the address arithmetic of the buffer) is tied by correspondence, not proved"],
            worker=worker, post=post)
    finally:
        engine.judge = engine._orig_judge3


replay = engine.std_replay
