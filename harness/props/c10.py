"""C10 - end of input, yywrap, <<EOF>>."""
import engine
import streamprog

PROP = "C10"
OPTS = [[], [], ["-Cf"], ["-CF"], ["-Ce"], ["-B"], ["-I"]]


def build_cases(rng, tier):
    n = 240 if tier == "quick" else 4000
    cases = []
    for i in range(n):
        r = rng.fork("eof%d" % i)
        be = r.weighted([('nr', 4), ('r', 2), ('c99', 2), ('cxx', 2)])
        opts = r.pick(OPTS)
        if be == 'cxx' and "-CF" in opts:
            opts = ["-Cf"]
        focus = {'eof', 'wrap', 'stack'} if i % 2 else {'eof', 'wrap', 'edit'}
        if i % 3 == 0:
            focus = {'eof', 'post'} | ({'stack'} if i % 2 else set())
        c = streamprog.gen_stream_case(r, "w%d" % i, focus, backend=be, flex_opts=opts, nsources=r.pick([1, 2, 3, 4]))
        cases.append(c)
    return cases


def main(tier):
    return engine.stream_main(
        PROP, tier, "Properties_C10.v", build_cases,
        "programs with <<EOF>> rules on random subsets of the start conditions, 1-4 sources chained by yywrap (some empty), inputs ending "
        "inside tokens that need look-ahead, yyinput at the end of a source; events (tokens, E <condition>, returns) compared with the "
        "stream machine; non-trivial = DFA >= 3 states and >= 2 rules matched",
        ["sequences of yylex / yyrestart / new yyin after termination are exercised in C11's buffer histories",
         "yywrap may be consulted more than once for one end of input (DESIGN 5a.5); sources are supplied at most once each"])


replay = engine.std_replay
