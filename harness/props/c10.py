"""C10 - end of input, yywrap, <<EOF>>."""
import engine
import streamprog

PROP = "C10"
OPTS = [[], [], ["-Cf"], ["-CF"], ["-Ce"], ["-B"], ["-I"]]


def build_cases(rng, tier):
    n = 240 if tier == "quick" else 4000
    cases = []
    for i in range(n):
        r = rng.fork("eof%d" % i)
        be = r.weighted([('nr', 4), ('r', 2), ('c99', 2), ('cxx', 2)])
        opts = r.pick(OPTS)
        if be == 'cxx' and "-CF" in opts:
            opts = ["-Cf"]
        focus = {'eof', 'wrap', 'stack'} if i % 2 else {'eof', 'wrap', 'edit'}
        if i % 3 == 0:
            focus = {'eof', 'post'} | ({'stack'} if i % 2 else set())
        c = streamprog.gen_stream_case(r, "w%d" % i, focus, backend=be, flex_opts=opts, nsources=r.pick([1, 2, 3, 4]))
        if be == 'cxx' and i % 2 == 0:
            # the C++ class reading every source (those supplied by yywrap and those given after termination) through ONE stream
            # object that is refilled after it ran dry
            if c.get('runs'):
                for rn in c['runs']:
                    rn['mode'] = 'm'
            else:
                c['runs'] = [{'sessions': [srcs], 'mode': 'm'} for srcs in c['sources']]
        cases.append(c)
    return cases


# ------------------------------------------------------------------ a source that reports end of input and later has more
PIECES_TOP = r"""
static int my_input(char *buf, int max);
#undef YY_INPUT
#define YY_INPUT(buf,result,max_size) { result = my_input(buf, (int) (max_size)); }
"""

PIECES_MAIN = r"""
static unsigned char g_data[32][4096];
static int g_len[32], g_np, g_cur, g_off, g_step, g_wraps;
static int my_input(char *buf, int max)
{
    int n;
    if (g_cur >= g_np) return 0;
    if (g_off == g_len[g_cur]) { g_cur++; g_off = 0; return 0; }      /* end of this piece: report end of input once */
    n = g_len[g_cur] - g_off;
    if (n > max) n = max;
    if (n > g_step) n = g_step;
    memcpy(buf, g_data[g_cur] + g_off, (size_t) n);
    g_off += n;
    return n;
}
int yywrap(%(WRAPARG)s)
{
    printf("W\n");
    return ++g_wraps >= g_np;
}
int main(int argc, char **argv)
{
    int i;
    %(DECL)s
    g_step = atoi(argv[1]);
    for (i = 2; i < argc && g_np < 32; i++) {
        FILE *f = fopen(argv[i], "rb");
        if (!f) return 2;
        g_len[g_np] = (int) fread(g_data[g_np], 1, sizeof g_data[0], f);
        fclose(f);
        g_np++;
    }
    %(INIT)s
    printf("R %%d\n", %(LEX)s);
    %(FINI)s
    return 0;
}
"""


def pieces_cases(rng, tier):
    import rulesets
    n = 40 if tier == "quick" else 600
    cases = []
    for i in range(n):
        r = rng.fork("pc%d" % i)
        prog = rulesets.gen_program(r, trailing=(i % 3 == 0), max_scs=0, csize=256)
        if r.chance(60):
            prog['rules'].append({'head': ('plus', ('cls', ('set', False, [('rg', 97, 122)]))), 'bol': False, 'scs': None, 'trail': None})
        np_ = r.pick([1, 2, 2, 3, 4])
        pieces = rulesets.gen_inputs(prog, r.fork("in"), count=np_, maxlen=r.pick([6, 20, 60]))
        pieces = [list(w) for w in pieces]
        for w in pieces:
            if r.chance(50):
                w.extend([r.pick([97, 98, 99])] * r.rng(1, 3))       # ends inside a token that needs look-ahead
        if r.chance(15) and np_ > 1:
            pieces[r.below(np_)] = []
        cases.append({'id': "p%d" % i, 'kind': 'pieces', 'prog': prog, 'backend': r.pick(['nr', 'nr', 'r']),
                      'flex_opts': list(r.pick([[], [], ["-Cf"], ["-CF"], ["-Ce"], ["-B"], ["-I"], ["-Cm"]])) + ["-8"],
                      'pieces': pieces, 'step': r.pick([1, 2, 3, 7, 100000]), 'seed': r.s, 'text': '', 'focus': ['pieces'],
                      'extra_options': [], 'sources': []})
    return cases


def pieces_worker(case):
    import os
    import scanner
    import backends
    import tokcase
    from common import run, Rng
    wd = os.path.join(engine._ROOT, "c%s" % case['id'])
    os.makedirs(wd, exist_ok=True)
    res = {'problems': [], 'lockstep': [], 'streams': [], 'id': case['id'], 'pieces_validated': 0}
    be, prog = case['backend'], case['prog']
    try:
        sub = {'nr': dict(WRAPARG="void", DECL="", INIT="", LEX="yylex()", FINI=""),
               'r': dict(WRAPARG="yyscan_t yyscanner", DECL="yyscan_t s;", INIT="if (yylex_init(&s)) return 3;", LEX="yylex(s)",
                         FINI="yylex_destroy(s);")}[be]
        epi = backends.EMIT + PIECES_MAIN % sub
        text = scanner.make_spec(prog, Rng(case['seed']).fork("print"), options=(["case-insensitive"] if prog.get('caseins') else []),
                                 extra_top=PIECES_TOP, epilogue=epi, backend=be)
        text = text.replace("%option noyywrap ", "%option ")
        res['text'] = text
        with open(os.path.join(wd, "s.l"), "w") as f:
            f.write(text)
        rc, out, err = scanner.run_flex(engine._FLEX, "s.l", "s.c", case['flex_opts'], wd)
        res['dangerous'] = b"dangerous trailing context" in err
        if rc != 0:
            exp = tokcase.expected_refusal(prog, case['flex_opts'], be, wd)
            if not (exp and any(m in err.decode(errors='replace') for m in exp)):
                res['problems'].append(('flex-error', err.decode(errors='replace')[:300]))
            return res
        rc, out, err = scanner.compile_c("s.c", "s.exe", wd, backend=be)
        if rc != 0:
            res['problems'].append(('compile-error', err.decode(errors='replace')[:400]))
            return res
        args = []
        for i, w in enumerate(case['pieces']):
            ip = os.path.join(wd, "p%d.bin" % i)
            with open(ip, "wb") as f:
                f.write(bytes(w))
            args.append(ip)
        rc, out, err = run([os.path.join(wd, "s.exe"), str(case['step'])] + args, timeout=20)
        desc = "pieces=%s step=%d" % ([bytes(w).hex() for w in case['pieces']], case['step'])
        if rc != 0:
            res['problems'].append(('scanner-abnormal', "rc=%s %s stderr=%s" % (rc, desc, err[:200])))
            return res
        segs, cur, ret = [], [], None
        for line in out.decode(errors='replace').splitlines():
            if line == "W":
                segs.append(cur)
                cur = []
            elif line.startswith("R "):
                ret = line
            else:
                cur.append(line)
        if cur:
            res['problems'].append(('events-after-last-yywrap', "%s: tokens %s after the last yywrap call" % (desc, cur[:5])))
        if ret != "R 0":
            res['problems'].append(('wrong-return', "%s: yylex returned %s" % (desc, ret)))
        if len(segs) != len(case['pieces']):
            res['problems'].append(('yywrap-count', "%s: the source reported end of input %d times, yywrap was consulted %d times" % (
                desc, len(case['pieces']), len(segs))))
        if res['dangerous']:
            return res
        queries, order = [], []
        for w, seg in zip(case['pieces'], segs):
            toks = scanner.parse_tokens(("\n".join(seg) + ("\n" if seg else "")).encode())
            if not all(isinstance(t[0], int) for t in toks):
                res['problems'].append(('scanner-output-garbled', str(toks[:3])))
                continue
            wsx = "(" + " ".join(str(b) for b in w) + ")"
            tsx = "(" + " ".join("(%d %d)" % (t[0], t[1]) for t in toks) + ")"
            queries.append("(validate_o %s 1 1 %s %s)" % (scanner.owners_sx(prog), wsx, tsx))
            order.append((w, toks))
        if queries:
            case_sx = "(case %s\n(queries (%s)))\n" % (scanner.sx_program(prog), "\n".join(queries))
            rc, out, err = scanner.run_driver(case_sx, wd, timeout=120)
            if rc != 0:
                res['problems'].append(('driver-error', "rc=%s %s" % (rc, err[:300])))
                return res
            for (w, toks), line in zip(order, [l for l in out.splitlines() if l.startswith("validate")]):
                res['pieces_validated'] += 1
                if line.strip() != "validate OK":
                    res['problems'].append(('piece-tokens', "%s: the tokens between two yywrap calls are not the documented tokenisation of the "
                                            "piece %s (scanned at beginning of line in the unchanged start condition): %s" % (
                                                desc, bytes(w).hex(), [(t[0], t[1]) for t in toks][:20])))
    except Exception as ex:
        import traceback
        res['problems'].append(('harness-error', repr(ex) + traceback.format_exc()[-300:]))
    return res


def worker(case):
    if case.get('kind') == 'pieces':
        return pieces_worker(case)
    return engine.stream_worker(case)


def judge(ck, flex, scratch, cases, results, stats):
    sc = [(c, r) for c, r in zip(cases, results) if c.get('kind') != 'pieces']
    engine.judge_stream(ck, flex, scratch, [c for c, _ in sc], [r for _, r in sc], stats)
    stats['pieces_validated'] = sum(r.get('pieces_validated', 0) for r in results)
    for c, r in zip(cases, results):
        if c.get('kind') != 'pieces':
            continue
        c['text'] = r.get('text', '')
        for kind, msg in r['problems']:
            stats.setdefault('problem_kinds', {})
            stats['problem_kinds'][kind] = stats['problem_kinds'].get(kind, 0) + 1
        if not r['problems']:
            continue
        kind, msg = r['problems'][0]
        ck.violation("%s:%s" % (kind, engine.prog_key(c)), msg[:600],
                     {'spec': c['text'], 'flex_opts': c['flex_opts'], 'backend': c['backend'],
                      'pieces_hex': [bytes(w).hex() for w in c['pieces']], 'step': c['step'],
                      'detail': [list(p) for p in r['problems'][:4]],
                      'how': "flex <opts> -o s.c s.l; cc; ./s <bytes per read> piece1 piece2 ...: the input routine hands out each piece and then "
                             "reports end of input once; yywrap prints W and returns 0 while pieces remain"},
                     no_input=kind in ('harness-error', 'driver-error'))


def build_all(rng, tier):
    return build_cases(rng, tier) + pieces_cases(rng.fork("pieces"), tier)


def main(tier):
    orig = engine.judge
    engine.judge = judge
    try:
        return engine.standard_main(
            PROP, tier, "Properties_C10.v", build_all,
            "programs with <<EOF>> rules on random subsets of the start conditions, 1-4 sources chained by yywrap (some empty), inputs ending "
            "inside tokens that need look-ahead, yyinput at the end of a source; events (tokens, E <condition>, returns) compared with the "
            "stream machine; sources that report end of input and have more afterwards (user YY_INPUT handing out pieces, 1..n bytes per "
            "read): yywrap must be consulted once per report, after all tokens of the piece (judged by the proved validator) and before "
            "any of the next; non-trivial = DFA >= 3 states and >= 2 rules matched",
            ["sequences of yylex / yyrestart / new yyin after termination are exercised in C11's buffer histories",
             "yywrap may be consulted more than once for one end of input (DESIGN 5a.5); sources are supplied at most once each"],
            worker=worker, post=lambda ck, flex, scratch, cases, results, stats: {k: stats.get(k, 0) for k in ['pieces_validated']})
    finally:
        engine.judge = orig


def _old_main(tier):
    return engine.stream_main(
        PROP, tier, "Properties_C10.v", build_cases,
        "programs with <<EOF>> rules on random subsets of the start conditions, 1-4 sources chained by yywrap (some empty), inputs ending "
        "inside tokens that need look-ahead, yyinput at the end of a source; events (tokens, E <condition>, returns) compared with the "
        "stream machine; non-trivial = DFA >= 3 states and >= 2 rules matched",
        ["sequences of yylex / yyrestart / new yyin after termination are exercised in C11's buffer histories",
         "yywrap may be consulted more than once for one end of input (DESIGN 5a.5); sources are supplied at most once each"])


replay = engine.std_replay
