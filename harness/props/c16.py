"""C16 - flex is robust on arbitrary input files and honest about its exit status."""
import hashlib
import os
import re
import shutil

import engine
import patgen
import rulesets
import scanner
from common import Rng, run, Scratch, build_flex, Check, coq_make, coq_assumptions, parallel_map, seed_from_env

PROP = "C16"
SANFLAGS = "-O1 -g -fsanitize=address,undefined -fno-sanitize-recover=all -fno-omit-frame-pointer"
ENV = {"ASAN_OPTIONS": "detect_leaks=0:exitcode=99:abort_on_error=0", "UBSAN_OPTIONS": "halt_on_error=1:exitcode=98"}

_FLEX = None
_ROOT = None


# ---------------------------------------------------------------- write failures
def outputs_of(kind, wd):
    """(flex arguments, files that must be complete when flex exits 0, expect_failure)"""
    good = os.path.join(wd, "out")
    os.makedirs(good, exist_ok=True)
    ro = os.path.join(wd, "ro")
    os.makedirs(ro, exist_ok=True)
    return good, ro


WRITE_PROBES = [
    # name, args builder (g = writable dir), must_fail
    ("scanner-ok", lambda g: ["-o", g + "/s.c"], False),
    # (never name /dev/full itself: on failure flex unlinks its output file, and run as root it removes the device; a symlink is safe)
    ("scanner-devfull", lambda g: ["-o", g + "/full.c"], True),
    ("scanner-nodir", lambda g: ["-o", g + "/nonexistent/s.c"], True),
    ("stdout-devfull", lambda g: ["-t"], True),                       # stdout redirected to /dev/full by the runner
    ("header-ok", lambda g: ["--header-file=" + g + "/s.h", "-o", g + "/s.c"], False),
    ("header-devfull", lambda g: ["--header-file=" + g + "/full.h", "-o", g + "/s.c"], True),
    ("header-nodir", lambda g: ["--header-file=" + g + "/nonexistent/s.h", "-o", g + "/s.c"], True),
    ("tables-ok", lambda g: ["--tables-file=" + g + "/s.tbl", "-o", g + "/s.c"], False),
    ("tables-devfull", lambda g: ["--tables-file=" + g + "/full.tbl", "-o", g + "/s.c"], True),
    ("tables-nodir", lambda g: ["--tables-file=" + g + "/nonexistent/s.tbl", "-o", g + "/s.c"], True),
    ("backup-ok", lambda g: ["-b", "-o", g + "/s.c"], False),
    ("backup-unwritable", lambda g: ["-b", "-o", g + "/s.c"], True),   # lex.backup exists as a directory in the working directory
    # a process of the output filter chain dies: m4 killed by a signal, m4 failing silently, file size limit hit while the scanner is written
    ("m4-killed", lambda g: ["-o", g + "/s.c"], True),
    ("m4-fails", lambda g: ["-o", g + "/s.c"], True),
    ("filesize-limit", lambda g: ["-o", g + "/s.c"], True),
    ("filesize-limit-header", lambda g: ["--header-file=" + g + "/s.h", "-o", g + "/s.c"], True),
    ("all-ok", lambda g: ["-b", "--header-file=" + g + "/s.h", "--tables-file=" + g + "/s.tbl", "-o", g + "/s.c"], False),
]


def write_probe(job):
    name, spec_text, extra_opts, idx = job
    wd = os.path.join(_ROOT, "w%d_%s" % (idx, name))
    os.makedirs(wd, exist_ok=True)
    g = os.path.join(wd, "g")
    os.makedirs(g, exist_ok=True)
    with open(os.path.join(wd, "s.l"), "w") as f:
        f.write(spec_text)
    probe = [p for p in WRITE_PROBES if p[0] == name][0]
    args = probe[1](g)
    for ln in ("full.c", "full.h", "full.tbl"):
        os.symlink("/dev/full", os.path.join(g, ln))
    if name == "backup-unwritable":
        os.makedirs(os.path.join(wd, "lex.backup"), exist_ok=True)
    cmd = [_FLEX] + extra_opts + args + ["s.l"]
    env = dict(ENV)
    if name in ("m4-killed", "m4-fails"):
        sh = os.path.join(wd, "m4.sh")
        with open(sh, "w") as f:
            f.write("#!/bin/sh\ncat > /dev/null\n" + ("kill -9 $$\n" if name == "m4-killed" else "exit 3\n"))
        os.chmod(sh, 0o755)
        env["M4"] = sh
    if name.startswith("filesize-limit"):
        rc, out, err = run(["sh", "-c", "ulimit -f 8; exec \"$0\" \"$@\"", *cmd], cwd=wd, timeout=60, env=env)
    elif name == "stdout-devfull":
        rc, out, err = run(["sh", "-c", "exec \"$0\" \"$@\" > /dev/full", *cmd], cwd=wd, timeout=60, env=ENV)
    else:
        rc, out, err = run(cmd, cwd=wd, timeout=60, env=env)
    errs = err.decode(errors="replace")
    problems = []
    rep = re.search(r"(ERROR: AddressSanitizer: [^\n]*|runtime error: [^\n]*)", errs)
    if rep:
        problems.append("sanitizer report: " + rep.group(1))
    if rc == "timeout":
        problems.append("flex did not terminate within 60 s")
    elif isinstance(rc, int) and (rc < 0 or rc >= 128):
        problems.append("flex was killed by signal %d (stderr: %s)" % (-rc if rc < 0 else rc - 128, errs[:120].replace("\n", " ")))
    elif probe[2]:
        if rc == 0:
            problems.append("exit status 0 although an output could not be written (stderr: %s)" % (errs[:160].replace("\n", " ") or "empty"))
        elif not errs.strip():
            problems.append("exit status %s without any diagnostic" % rc)
    else:
        if rc != 0:
            problems.append("exit status %s for a valid specification and writable outputs: %s" % (rc, errs[:200]))
        else:
            # completeness of everything requested
            need = [a.split("=", 1)[1] for a in args if a.startswith("--header-file=") or a.startswith("--tables-file=")]
            need += [args[i + 1] for i, a in enumerate(args) if a == "-o"]
            if "-b" in args:
                need.append(os.path.join(wd, "lex.backup"))
            for pth in need:
                if not os.path.isfile(pth) or (os.path.getsize(pth) == 0 and not pth.endswith("lex.backup")):
                    problems.append("exit status 0 but %s is missing or empty" % os.path.basename(pth))
            c = [a for a in need if a.endswith(".c")]
            if c and not problems:
                inc = ["-I", g]
                rc2, o2, e2 = run(["gcc", "-D_GNU_SOURCE", "-fsyntax-only", "-w"] + inc + [c[0]], cwd=wd, timeout=60)
                if rc2 != 0:
                    problems.append("exit status 0 but the scanner does not compile: " + e2.decode(errors="replace")[:200])
            h = [a for a in need if a.endswith(".h")]
            if h and not problems:
                with open(os.path.join(wd, "useh.c"), "w") as f:
                    f.write('#include "%s"\nint main(void) { return 0; }\n' % h[0])
                rc2, o2, e2 = run(["gcc", "-fsyntax-only", "-w", "useh.c"], cwd=wd, timeout=60)
                if rc2 != 0:
                    problems.append("exit status 0 but the header is not self-contained: " + e2.decode(errors="replace")[:200])
    shutil.rmtree(wd, ignore_errors=True)
    return {'kind': 'write', 'name': name, 'opts': extra_opts, 'args': [a.replace(g, "<dir>") for a in args], 'rc': rc, 'problems': problems,
            'spec': spec_text, 'stderr': errs[:400]}


# ---------------------------------------------------------------- malformed inputs
LIMIT_MSGS = ["too many rules", "input rules are too complicated", "memory allocation failed", "attempt to increase array size failed",
              "name too long", "input line too long", "definition value", "exceeds", "Definition name too long", "Input line too long"]


def mutate(text, rng):
    b = bytearray(text.encode("latin-1", errors="replace"))
    kind = rng.pick(["trunc", "delete", "dup", "insert", "flip", "percent", "brace", "quote", "class", "repeat", "name", "sc", "option",
                     "longname", "longline", "longcode", "deep", "manyrules", "bignfa", "garbage", "nul", "crlf", "eofrule", "trail"])
    n = len(b)
    if kind == "trunc":
        b = b[:rng.below(n + 1)]
    elif kind == "delete":
        i = rng.below(n)
        b = b[:i] + b[i + rng.rng(1, 40):]
    elif kind == "dup":
        i = rng.below(n)
        j = min(n, i + rng.rng(1, 80))
        b = b[:j] + b[i:j] + b[j:]
    elif kind == "insert":
        for _ in range(rng.rng(1, 6)):
            i = rng.below(len(b) + 1)
            b[i:i] = bytes(rng.pick([b'"', b'[', b']', b'{', b'}', b'(', b')', b'\\', b'%%\n', b'/', b'<', b'>', b'|', b'*', b'\n', b'%{', b'%}',
                                     b'\\\n', b'/*', b'*/', b'^', b'$', b'<<EOF>>', b'{-}', b'{+}', b'(?', b'(?i:', b'[:alpha:]', b'[[:bogus:]]']))
    elif kind == "flip":
        for _ in range(rng.rng(1, 10)):
            if b:
                b[rng.below(len(b))] = rng.below(256)
    elif kind == "percent":
        s = bytes(b)
        b = bytearray(s.replace(b"\n%%\n", rng.pick([b"\n", b"\n%%\n%%\n", b"\n%%%\n", b"\n %%\n"]), rng.pick([1, 2])))
    elif kind == "brace":
        s = bytes(b)
        b = bytearray(s.replace(b"{ ", rng.pick([b"{ { ", b"", b"{ \" ", b"{ /* ", b"{ ' "]), rng.rng(1, 3)))
    elif kind == "quote":
        i = b.find(b"\n%%\n") + 4
        b[i:i] = rng.pick([b'"abc\n', b'"abc\\', b'a"b\n', b'\\\n', b"\\x\n", b"\\8\n", b"\\400 {}\n"])
    elif kind == "class":
        i = b.find(b"\n%%\n") + 4
        b[i:i] = rng.pick([b"[abc\n", b"[]\n", b"[^]\n", b"[z-a] {}\n", b"[[:alpha:] {}\n", b"[a-] {}\n", b"[a\n]] {}\n", b"[a]{-}[a] {}\n", b"[^\\x00-\\xff] {}\n"])
    elif kind == "repeat":
        i = b.find(b"\n%%\n") + 4
        b[i:i] = rng.pick([b"a{5,2} {}\n", b"a{99999999999} {}\n", b"a{0} {}\n", b"a{,3} {}\n", b"a{1,} {}\n", b"a{1000}{1000} {}\n", b"a{-1} {}\n",
                           b"a** {}\n", b"a{2}{3}{4}{5} {}\n", b"+a {}\n", b"(a|) {}\n", b"() {}\n", b"a{1 {}\n"])
    elif kind == "name":
        i = b.find(b"\n%%\n")
        b[i:i] = rng.pick([b"\nA {A}", b"\nA {B}\nB {A}", b"\nA [", b"\nA", b"\n1A a", b"\nA-B a", b"\nA a\nA b"])
        j = b.find(b"\n%%\n") + 4
        b[j:j] = rng.pick([b"{A} {}\n", b"{UNDEFINED} {}\n", b"{A}{A}{A} {}\n"])
    elif kind == "sc":
        i = b.find(b"\n%%\n") + 4
        b[i:i] = rng.pick([b"<FOO>a {}\n", b"<>a {}\n", b"<INITIAL,INITIAL>a {}\n", b"<*a {}\n", b"<INITIAL>{\n a {}\n", b"<INITIAL><<EOF>><<EOF>> {}\n", b"<<EOF>>a {}\n"])
    elif kind == "option":
        b[0:0] = rng.pick([b"%option bogus\n", b"%option prefix=\n", b"%option prefix=\"\n", b"%option outfile=\"/nonexistent/x.c\"\n", b"%option noyy\n",
                           b"%option yylmax=0\n", b"%option yylmax=-5\n", b"%option bufsize=99999999999\n", b"%option extra-type=\n", b"%pointer\n%array\n",
                           b"%s\n", b"%x A A\n", b"%option emit=\"cobol\"\n", b"%option reentrant c++\n", b"%option tables-file=\"\"\n", b"%top{\n", b"%{\n",
                           b"%option 7bit\n%option 8bit\n", b"%e 10\n%p 10\n%n 10\n%a 10\n%k 10\n%o 10\n", b"%option full fast\n", b"%option interactive full\n"])
    elif kind == "longname":
        L = rng.pick([200, 2047, 2048, 2049, 5000])
        i = b.find(b"\n%%\n")
        which = rng.below(3)
        if which == 0:
            b[i:i] = b"\n" + b"N" * L + b" abc"
        elif which == 1:
            b[i:i] = b"\n%s " + b"S" * L
        else:
            b[0:0] = b"%option prefix=\"" + b"p" * L + b"\"\n"
    elif kind == "longcode":
        L = rng.pick([2047, 2048, 4100, 9000, 70000])
        i = b.find(b"\n%%\n")
        which = rng.below(3)
        if which == 0:
            b[i:i] = b"\n%{\nstatic const char *big_string = \"" + b"s" * L + b"\";\n%}"
        elif which == 1:
            b[i:i] = b"\n%{\n/* " + b"-" * L + b" */\n%}"
        else:
            j = b.find(b"\n%%\n") + 4
            b[j:j] = b"q { int v = 0" + b" + 1" * (L // 4) + b"; (void) v; }\n"
    elif kind == "longline":
        L = rng.pick([2047, 2048, 2049, 4096, 20000])
        i = b.find(b"\n%%\n") + 4
        which = rng.below(3)
        if which == 0:
            b[i:i] = b"a" * L + b" {}\n"
        elif which == 1:
            b[i:i] = b"\"" + b"q" * L + b"\" {}\n"
        else:
            b[i:i] = b"x { " + b";" * L + b" }\n"
    elif kind == "deep":
        D = rng.pick([100, 1000, 5000])
        i = b.find(b"\n%%\n") + 4
        b[i:i] = b"(" * D + b"a" + rng.pick([b")" * D, b")" * (D - 1), b")" * (D + 1)]) + b" {}\n"
    elif kind == "manyrules":
        R = rng.pick([100, 2000, 8191, 8192, 8300])
        i = b.find(b"\n%%\n") + 4
        b[i:i] = b"".join(b"k%d {}\n" % j for j in range(R))
    elif kind == "bignfa":
        i = b.find(b"\n%%\n") + 4
        b[i:i] = rng.pick([b"(a|b|c|d){200} {}\n", b"[a-z]{500}[0-9]{500} {}\n", b"(ab?c*){300} {}\n", b"(.|\\n){1000} {}\n", b"((a{10}){10}){10} {}\n"])
    elif kind == "garbage":
        b = bytearray(rng.below(256) for _ in range(rng.rng(1, 400)))
        if rng.chance(50):
            b[0:0] = b"%%\n"
    elif kind == "nul":
        for _ in range(rng.rng(1, 4)):
            i = rng.below(len(b) + 1)
            b[i:i] = b"\0"
    elif kind == "crlf":
        b = bytearray(bytes(b).replace(b"\n", b"\r\n"))
    elif kind == "eofrule":
        i = b.find(b"\n%%\n") + 4
        b[i:i] = rng.pick([b"<<EOF>> {}\n<<EOF>> {}\n", b"<<EOF>>/a {}\n", b"^<<EOF>> {}\n", b"a<<EOF>> {}\n"])
    elif kind == "trail":
        i = b.find(b"\n%%\n") + 4
        b[i:i] = rng.pick([b"a/b/c {}\n", b"a$$ {}\n", b"a/ {}\n", b"/a {}\n", b"a$b {}\n", b"^^a {}\n", b"a/b$ {}\n", b"(a/b) {}\n", b"a/b|c {}\n"])
    return kind, bytes(b)


def malformed_probe(job):
    idx, kind, data, opts = job
    wd = os.path.join(_ROOT, "m%d" % idx)
    os.makedirs(wd, exist_ok=True)
    with open(os.path.join(wd, "m.l"), "wb") as f:
        f.write(data)
    rc, out, err = run([_FLEX] + opts + ["-o", "m.c", "m.l"], cwd=wd, timeout=45, env=ENV)
    errs = err.decode(errors="replace")
    problems = []
    note = None
    rep = re.search(r"(ERROR: AddressSanitizer: [^\n]*|runtime error: [^\n]*|AddressSanitizer:DEADLYSIGNAL)", errs)
    if rep:
        problems.append("sanitizer report: " + rep.group(1))
    elif rc == "timeout" and kind.startswith("corpus:") and len(data) < 4000:
        # (the small files of the corpus are handled in milliseconds: 45 seconds without an end is non-termination; a generated
        # file may ask for an enormous automaton - a{99999999} under -Ca - and is only counted as inconclusive)
        problems.append("flex does not terminate: no end after 45 seconds on an input of %d bytes" % len(data))
    elif rc == "timeout":
        note = "timeout"
    elif isinstance(rc, int) and (rc < 0 or rc >= 128):
        problems.append("flex was killed by signal %d" % (-rc if rc < 0 else rc - 128))
    elif rc == 0:
        p = os.path.join(wd, "m.c")
        outname = re.search(rb'%option[^\n]*outfile="([^"]*)"', data)
        if not outname and (not os.path.isfile(p) or os.path.getsize(p) == 0):
            problems.append("exit status 0 but no scanner was written")
        elif not outname:
            with open(p, "rb") as f:
                body = f.read()
            if b"yy_fatal_error" not in body and b"yypanic" not in body and b"LexerError" not in body:
                problems.append("exit status 0 but the scanner is incomplete (%d bytes)" % len(body))
    else:
        if not errs.strip():
            problems.append("exit status %s without any diagnostic" % rc)
        elif not re.search(r"m\.l:\d+: ", errs) and not re.search(r"^[^\n]*flex[^\n]*: ", errs, re.M):
            problems.append("exit status %s, diagnostic is neither a file:line message nor a flex: message: %s" % (rc, errs[:160].replace("\n", " | ")))
        else:
            note = "located" if re.search(r"m\.l:\d+: ", errs) else "general"
    shutil.rmtree(wd, ignore_errors=True)
    return {'kind': 'malformed', 'mutation': kind, 'opts': opts, 'rc': rc, 'problems': problems, 'note': note, 'data_hex': data.hex() if (problems or len(data) < 6000) else None,
            'data_len': len(data), 'stderr': errs[:600], 'seed_idx': idx}


def _dispatch(job):
    try:
        if job[0] == 'W':
            return write_probe(job[1:])
        return malformed_probe(job[1:])
    except Exception as ex:
        import traceback
        return {'kind': 'harness', 'problems': ["harness-error " + repr(ex) + traceback.format_exc()[-300:]], 'rc': None}


# minimized failures found earlier: they run first in every tier
CORPUS = [
    ("option-value-starts-with-nul", b'%option noyywrap emit="\x00c99"\n%%\na {}\n', []),          # fixed e5d59f4
    ("option-value-only-nul", b'%option prefix="\x00"\n%%\na {}\n', ["-7"]),
    ("option-value-empty", b'%option prefix=""\n%option outfile=""\n%%\na {}\n', []),
    ("mutually-recursive-definitions", b'A {B}x\nB {A}y\n%%\n{A} {}\n', []),                 # fixed 6a0dffb
    ("self-recursive-definition", b'A {A}\n%%\n{A} {}\n', ["-CF"]),
    ("self-recursive-definition-lex-compat", b'A {A}\n%%\n{A}x {}\n', ["-l"]),                # fixed 54ef64a (flex -l never ended)
    ("mutually-recursive-definitions-lex-compat", b'A b{B}\nB a{A}|c\n%%\n{A}x {}\n', ["-l"]),
    ("self-recursive-definition-posix-compat", b'A {A}\n%%\n{A}x {}\n', ["-X"]),
    ("long-string-in-code-block", b'%option noyywrap\n%{\nstatic const char *big = "' + b'x' * 6000 + b'";\n%}\n%%\na {}\n', []),
    ("long-expression-in-action", b'%option noyywrap\n%%\na { int v = 0' + b' + 1' * 4000 + b'; (void) v; }\n', []),
    ("long-comment-in-action", b'%option noyywrap\n%%\na { /* ' + b'=' * 20000 + b' */ }\n', ["-Cf"]),
    ("long-identifier-in-section-3", b'%option noyywrap\n%%\na {}\n%%\nint ' + b'v' * 30000 + b';\n', []),
    ("keywords-400", b'%option noyywrap\n%%\n' + b''.join(b'kw%03dx { return %d; }\n' % (i, i + 1) for i in range(400)) + b'[a-z0-9]+ { return 1000; }\n', []),
    ("keywords-800-full-tables", b'%option noyywrap\n%%\n' + b''.join(b'k%03dq { return %d; }\n' % (i, i + 1) for i in range(800)) + b'[a-z0-9]+ { return 1000; }\n', ["-Cf"]),
    ("recursive-definition-in-class-context", b'A [a]{A}\n%%\nx{A}+/{A} {}\n', []),
]


def base_spec(rng, idx, trailing=None):
    prog = rulesets.gen_program(rng.fork("p"), trailing=rng.chance(30) if trailing is None else trailing, max_scs=2, csize=256)
    be = rng.pick(['nr', 'nr', 'r', 'c99'])
    text = scanner.make_spec(prog, rng.fork("print"), options=(["case-insensitive"] if prog.get('caseins') else []), backend=be)
    return text, be


def main(tier):
    global _FLEX, _ROOT
    ck = Check(PROP, tier)
    rng = Rng(ck.seed).fork(PROP)
    os.environ["ASAN_OPTIONS"] = "detect_leaks=0"
    nob, ngood, details = engine.obligations(ck, "Properties_C16.v")
    assumptions = ["PARTIAL: robustness on all input files cannot be proved without a model of the whole of flex; it is explored with generated "
                   "malformed specifications against an ASan/UBSan build of flex rebuilt from /repo",
                   "timeouts (45 s) on generated inputs are counted as inconclusive, not as violations; on the small files of the corpus they are non-termination",
                   "the exit-status fold is proved for the modelled handler (coq/ExitStatus.v); that each stage exits non-zero on an incomplete "
                   "output is checked by write-failure injection on every output"]
    with Scratch("c16") as scratch:
        _FLEX = build_flex(scratch, cflags=SANFLAGS, name="asan")
        _ROOT = scratch.sub("cases")
        jobs = []
        nspec = 6 if tier == "quick" else 60
        idx = 0
        for i in range(nspec):
            r = rng.fork("w%d" % i)
            extra = r.pick([[], [], ["-Cf"], ["-CF"], ["-Ce"], ["-L"], ["-i"]]) + ["-8"]
            # -Cf/-CF refuse variable trailing context (documented): the write probes need a specification flex accepts
            text, be = base_spec(r, i, trailing=False if extra[0] in ("-Cf", "-CF") else None)
            for probe in WRITE_PROBES:
                if probe[0].startswith("tables") or probe[0] == "all-ok":
                    if be == 'c99':
                        continue
                jobs.append(('W', probe[0], text, extra, idx))
                idx += 1
        nm = 700 if tier == "quick" else 20000
        for j, (cname, cdata, copts) in enumerate(CORPUS):
            jobs.append(('M', 1000000 + j, "corpus:" + cname, cdata, copts))
        for i in range(nm):
            r = rng.fork("m%d" % i)
            if i % 50 == 0 or i == 0:
                base, be = base_spec(r, i)
            kind, data = mutate(base, r)
            if r.chance(25):
                kind2, data = mutate(data.decode("latin-1"), r.fork("2"))
                kind = kind + "+" + kind2
            opts = r.pick([[], [], [], ["-Cf"], ["-CF"], ["-7"], ["-i"], ["-l"], ["-s"], ["-d"], ["-Ca"], ["-v"], ["-+"], ["-b"], ["-T"], ["--header-file=m.h"], ["-R"]])
            jobs.append(('M', i, kind, data, opts))
        results = parallel_map(_dispatch, jobs)
    stats = {'write_probes': 0, 'malformed': 0, 'timeouts': 0, 'rc0': 0, 'located': 0, 'general': 0, 'by_mutation': {}}
    for r in results:
        if r['kind'] == 'write':
            stats['write_probes'] += 1
            for p in r['problems']:
                key = "write:%s:%s" % (r['name'], "status0" if "exit status 0" in p else hashlib.sha256(p.encode()).hexdigest()[:6])
                if r['name'] == "header-nodir" and "killed by signal" in p:
                    key = "header-unwritable-sigpipe"
                if r['name'] in ("filesize-limit", "filesize-limit-header", "m4-killed", "m4-fails") and "killed by signal 13" in p:
                    key = "sigpipe-when-filter-process-dies"       # KNOWN_FINDINGS.json
                ck.violation(key, "%s [flex %s %s]: %s" % (r['name'], " ".join(r['opts']), " ".join(r['args']), p),
                             {'spec': r['spec'], 'flex_args': r['opts'] + r['args'], 'stderr': r['stderr'],
                              'how': "flex <args> s.l in an empty directory (for backup-unwritable: mkdir lex.backup first; stdout-devfull: > /dev/full)"})
        elif r['kind'] == 'malformed':
            stats['malformed'] += 1
            m = r['mutation']
            stats['by_mutation'][m.split("+")[0]] = stats['by_mutation'].get(m.split("+")[0], 0) + 1
            if r['note'] == 'timeout':
                stats['timeouts'] += 1
            if r['rc'] == 0:
                stats['rc0'] += 1
            if r['note'] in ('located', 'general'):
                stats[r['note']] += 1
            for p in r['problems']:
                # identify by the kind of failure and where flex stopped
                where = re.search(r"#\d+ 0x[0-9a-f]+ in (\w+)", r['stderr'])
                key = "malformed:%s:%s" % (re.sub(r"0x[0-9a-f]+|\d+", "N", p)[:60], where.group(1) if where else "")
                path = None
                ck.violation(key, "malformed input (%s, %d bytes, flex %s): %s" % (m, r['data_len'], " ".join(r['opts']), p),
                             {'input_hex': r['data_hex'], 'mutation': m, 'flex_args': r['opts'] + ["-o", "m.c", "m.l"], 'stderr': r['stderr'],
                              'how': "write the bytes to m.l; run the sanitizer build of flex (CFLAGS='%s')" % SANFLAGS})
        else:
            for p in r['problems']:
                ck.violation("harness:" + hashlib.sha256(p.encode()).hexdigest()[:8], p, {}, no_input=True)
    cov = {"level": "proof", "obligations": nob, "discharged": ngood, "theorems": details,
           "checker_cmd": "make -C coq Properties_C16.vo; flex rebuilt from /repo with " + SANFLAGS,
           "trusted_base": ["Coq 8.16.1 kernel", "harness (mutators, probes)", "gcc sanitizers", "/dev/full semantics of the kernel"],
           "evaluations": stats['write_probes'] + stats['malformed'], "distinct_nontrivial": stats['malformed'] - stats['rc0'],
           "rule": "write-failure probes: every output (scanner, stdout, header, tables file, backup file) x {writable, /dev/full, missing directory} "
                   "for generated specifications; malformed inputs: 23 mutation kinds (truncation, deletion, duplication, byte flips, unbalanced "
                   "quotes/brackets/braces, bad repeats, recursive/undefined names, bad start conditions and options, 2047..5000-byte names, "
                   "2047..20000-byte lines, 100..5000-deep nesting, up to 8300 rules, large NFAs, binary garbage, NULs, CRLF) of valid "
                   "specifications x option sets, against an ASan/UBSan build; non-trivial = flex had to refuse the input",
           **{k: v for k, v in stats.items()}}
    return ck.finish(cov, assumptions=assumptions)


def replay(path):
    import json
    with open(path) as f:
        rec = json.load(f)
    print(json.dumps({k: v for k, v in rec.items() if k not in ('spec', 'input_hex')}, indent=1, default=str))
    os.environ["ASAN_OPTIONS"] = "detect_leaks=0"
    with Scratch("c16replay") as scratch:
        flex = build_flex(scratch, cflags=SANFLAGS, name="asan")
        wd = scratch.sub("w")
        if rec.get('input_hex'):
            with open(os.path.join(wd, "m.l"), "wb") as f:
                f.write(bytes.fromhex(rec['input_hex']))
            rc, out, err = run([flex] + rec['flex_args'], cwd=wd, timeout=60, env=ENV)
            print("rc =", rc)
            print(err.decode(errors="replace")[:3000])
            return 0 if rc == 0 else 1
        print(rec.get('spec', ''))
    return 0
