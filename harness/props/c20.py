"""C20 - user code is copied verbatim and located by accurate #line directives."""
import hashlib
import os
import re
import shutil

import engine
import scanner
from common import Rng, run, Scratch, build_flex, Check, parallel_map, DRIVER

PROP = "C20"
_FLEX = None
_ROOT = None

# pieces of text that are dangerous for the m4 pass or for flex's own scanner of user code
NASTY = ["[[", "]]", "[", "]", "[[[", "]]]", "][", "]][[", "[[]]", "M4_YY_NOOP", "m4_define", "m4_dnl", "m4_include(/etc/passwd)", "m4_ifdef([[X]],[[Y]])",
         "m4_undefine([[M4_YY_IN_HEADER]])", "M4_MODE_PREFIX", "M4_YY_OUTFILE_NAME", "M4_HOOK_ECHO", "yytext", "yyleng", "yyin", "yyless(1)", "yymore()",
         "yyterminate()", "REJECT", "yyreject()", "ECHO", "BEGIN", "YY_START", "$1", "$0", "$@", "$#", "${x}", "`", "'", "``''", "#", "##", "%", "%%", "%}", "%{",
         "/*", "*/", "//", "\\", "\\\\", "\\n", "\\\"", "\\[", "\\]", "?", "??/", "{", "}", "(", ")", ",", ";", " ", "  ", "\t", "a", "Z", "0", "_", "é", "\x7f", "\x01",
         "__LINE__", "__FILE__", "m4_changequote", "m4_changequote(<,>)", "]]M4_YY_NOOP[M4_YY_NOOP[M4_YY_NOOP[[", "[]][[[]][[", "]]][[]]][[", "dnl", "define", "include"]


def c_escape(bs):
    out = []
    for b in bs:
        if b == 0x22:
            out.append('\\"')
        elif b == 0x5c:
            out.append('\\\\')
        elif b == 0x3f:
            out.append('\\?')
        elif 32 <= b < 127:
            out.append(chr(b))
        else:
            out.append('\\%03o' % b)
    return "".join(out)


def payload(rng, avoid=()):
    pool = [x for x in NASTY if not any(a in x for a in avoid)] if avoid else NASTY
    for _ in range(20):
        parts = [rng.pick(pool) for _ in range(rng.rng(1, 7))]
        text = "".join(parts)
        if not any(a in text for a in avoid):       # (adjacent pieces can form an avoided sequence: "%%" + "}")
            break
    else:
        text = "x"
    return text.encode("latin-1", errors="replace")


CPIECES = ["}", "{", '"', "'", "[[", "]]", "$1", "`", "%{", "m4_define", "[", "]", "//", "\\", "don't", " ", "x", "]]]", "[[[", "#", "*", "/ *"]
COMMENTS = {}          # comments placed in the specification built last, by region kind (read by one())


def comment(rng, kind):
    """a C comment whose text holds delimiters of every other kind; it must reach the output as written"""
    body = " " + "".join(rng.pick(CPIECES) for _ in range(rng.rng(1, 6))) + " "
    body = body.replace("*/", "* /").replace("/*", "/ *")
    text = "/*c%d%s*/" % (len(COMMENTS.setdefault('all', [])), body)
    COMMENTS['all'].append((kind, text))
    return text


def build_spec(rng, backend, noline_opt, no_reject=False, risky=False):
    """Returns (text, expectations) where expectations[k] = (payload bytes, line number in the .l file, region kind)."""
    exp = {}
    lines = []
    k = [0]
    COMMENTS.clear()
    crng = rng.fork("comments")
    tail_used = [False]

    def emit(line):
        lines.append(line)

    def rec_stmt(kind, raw=False):
        """a statement recording a payload and the line it stands on"""
        k[0] += 1
        avoid = []
        if kind == "top":
            avoid += ["{", "}"]            # a %top block is delimited by counting braces textually: they are kept balanced
        if no_reject:
            avoid += ["REJECT", "yyreject"]    # flex looks for these words in actions textually; full tables refuse them (C07)
        if not risky:
            # two known findings (KNOWN_FINDINGS.json) are kept out of most specifications so that they do not mask anything else
            if kind.startswith("action-percent-brace"):
                avoid += ["%}", "/*"]
            if kind.startswith("action-percent-brace") or kind in ("sect1-block", "sect2-top", "sect2-indented"):
                avoid += ["yyreject", "yymore"]
        p = payload(rng, avoid)
        exp[k[0]] = [p, None, kind]
        # the payload is spelled inside a C string literal: every byte of it reaches flex's and m4's scanners as written,
        # except " \ ? and non-printing bytes, which C requires to be escaped
        tail = ""
        tail_used[0] = False
        if kind.startswith("action-multiline") and rng.chance(45):
            tail_used[0] = True
            # an apostrophe that does not open a one-character constant (a // comment, a wide constant) followed by brackets:
            # flex's action scanner is in its character-constant state there and still has to escape [[ and ]] for m4
            tail = rng.pick([" // don't reorder: a[b[0]] stays", " // it's [[ here", " // isn't ]] there", " // 'q' and then ]] or [[ too",
                             " if (0) { int wide = 'a[['; (void) wide; }", " if (0) { int wide = 'b]]'; (void) wide; }"])
        return k[0], 'REC(%d, "%s");%s' % (k[0], c_escape(p), tail)

    def put(stmt_k, text):
        emit(text)
        exp[stmt_k][1] = len(lines)

    opts = ["nounput", "noinput", "noyywrap"]
    if backend == 'r':
        opts.append("reentrant")
    if backend == 'c99':
        opts.append('emit="c99"')
    if noline_opt:
        opts.append("noline")
    emit("%option " + " ".join(opts))
    emit("%top{")
    emit("#include <stdio.h>")
    emit("#include <string.h>")
    emit("#define MAXR 200")
    emit("extern const char *g_v[MAXR]; extern int g_l[MAXR]; extern const char *g_f[MAXR];")
    emit("#define REC(k, s) do { g_v[k] = s; g_l[k] = __LINE__; g_f[k] = __FILE__; } while (0)")
    emit("static void top_regions(void);")
    emit("}")
    for _ in range(rng.rng(0, 2)):
        emit("")
    # a %top block with a function holding payloads
    emit("%top{")
    emit("static void top_block(void) {")
    for _ in range(rng.rng(1, 3)):
        kk, st = rec_stmt("top")
        put(kk, "    " + st)
    emit("}")
    emit("}")
    # indented code lines in section 1 before (and between) the %{ %} blocks: each region gets its own #line
    if rng.chance(50):
        for q in range(rng.rng(1, 2)):
            emit("    static int sect1_early_%d;" % q)
        if rng.chance(40):
            emit("LETTER [a-z]")
            emit("    static int sect1_early_x;")
    if crng.chance(40):
        emit(comment(crng, "sect1-comment"))
    # %{ %} block in section 1
    emit("%{")
    emit("static void sect1_block(void) {")
    for _ in range(rng.rng(1, 3)):
        kk, st = rec_stmt("sect1-block")
        put(kk, "    " + st)
        if rng.chance(30):
            emit("    /* " + payload(rng, ["REJECT", "yyreject"] if no_reject else ()).decode("latin-1").replace("*/", "* /").replace("\x01", "") + " */")
    emit("}")
    emit("%}")
    for _ in range(rng.rng(0, 3)):
        emit("")
    # indented code in section 1
    emit("    static void sect1_indented(void);")
    if rng.chance(50):
        emit("DIGIT [0-9]")
    emit("%%")
    # code at the top of section 2 (inside yylex)
    emit("%{")
    kk, st = rec_stmt("sect2-top")
    put(kk, "    " + st)
    emit("%}")
    if rng.chance(50):
        kk, st = rec_stmt("sect2-indented")
        put(kk, "    " + st)
    if crng.chance(30):
        emit("    " + comment(crng, "sect2-indented-comment"))
    emit("")
    # rules: a..h; each input letter triggers one rule
    letters = "abcdefgh"

    def spell(ch):
        """(lines before the last one, last line) of a pattern that matches exactly the letter: the line counter of flex's own
        scanner also runs over patterns - extended-syntax groups may contain blanks, comments and newlines"""
        form = rng.pick(["plain", "plain", "quoted", "class", "group", "x1", "x2", "x3", "xml", "xcomment"])
        if form == "plain":
            return [], ch
        if form == "quoted":
            return [], '"%s"' % ch
        if form == "class":
            return [], "[%s]" % ch
        if form == "group":
            return [], "(%s)" % ch
        if form == "x1":
            return [], "(?x: %s )" % ch
        if form == "x2":
            return [], "(?x: %s | %s )" % (ch, ch)
        if form == "x3":
            return [], "(?x:%s |%s)" % (ch, ch)
        if form == "xcomment":
            return [], "(?x: %s /* %s | %s */ )" % (ch, ch, ch)
        return ["(?x: %s" % ch] + ["   | %s" % ch for _ in range(rng.rng(1, 2))], "  )"

    for ch in letters:
        style = rng.pick(["oneline", "oneline", "multiline", "percent", "nobrace"])
        pre, ch_pat = spell(ch)
        for _ in range(rng.rng(0, 2)):
            emit("")
        if rng.chance(25):
            # a '|' action: the rule shares the action of the next rule, whatever form that action has
            emit("%s%s\t|" % (ch, ch))
            for _ in range(rng.rng(0, 1)):
                emit("")
            barred = True
        else:
            barred = False
        if style == "oneline":
            kk, st = rec_stmt("action-oneline" + ("-after-bar" if barred else ""))
            for l in pre:
                emit(l)
            put(kk, "%s\t{ %s %s}" % (ch_pat, st, (comment(crng, "action-oneline-comment") + " ") if crng.chance(30) else ""))
        elif style == "nobrace":
            kk, st = rec_stmt("action-nobrace" + ("-after-bar" if barred else ""))
            for l in pre:
                emit(l)
            put(kk, "%s\t%s" % (ch_pat, st))
        elif style == "multiline":
            for l in pre:
                emit(l)
            emit("%s\t{" % ch_pat)
            if rng.chance(35):
                # a string literal (or character constant) continued over lines: the spliced lines are lines of the input
                nn = rng.rng(1, 2)
                emit("        { const char *spliced = \"p\\")
                for _ in range(nn - 1):
                    emit("q\\")
                emit("r\"; (void) spliced; }")
            for _ in range(rng.rng(1, 3)):
                kk, st = rec_stmt("action-multiline" + ("-after-bar" if barred else ""))
                put(kk, "        " + st + ((" " + comment(crng, "action-multiline-comment")) if crng.chance(30) and not tail_used[0] else ""))
                if rng.chance(30):
                    emit("")
            if crng.chance(20):
                emit("        " + comment(crng, "action-multiline-comment"))
            emit("\t}")
        elif style == "percent":
            for l in pre:
                emit(l)
            emit("%s\t%%{" % ch_pat)
            kk, st = rec_stmt("action-percent-brace" + ("-after-bar" if barred else ""))
            put(kk, "        " + st)
            emit("\t%}")
    if crng.chance(40):
        emit("zz")                     # a rule without any action: the matched text is discarded
        if crng.chance(50):
            emit("    " + comment(crng, "sect2-between-rules-comment"))
    emit(".|\\n\t{ }")
    emit("<<EOF>>\t{")
    kk, st = rec_stmt("eof-action")
    put(kk, "    " + st)
    emit("    yyterminate();")
    emit("\t}")
    emit("%%")
    emit("const char *g_v[MAXR]; int g_l[MAXR]; const char *g_f[MAXR];")
    for _ in range(rng.rng(0, 3)):
        emit("")
    emit("static void sect3_fn(void) {")
    for _ in range(rng.rng(1, 3)):
        kk, st = rec_stmt("sect3")
        put(kk, "    " + st)
    emit("}")
    emit("int main(void) {")
    emit("    int i, j;")
    if backend == 'nr':
        emit("    yy_scan_string(\"%s\"); yylex(); yylex_destroy();" % letters)
    else:
        emit("    yyscan_t s; yylex_init(&s); yy_scan_string(\"%s\", s); yylex(s); yylex_destroy(s);" % letters)
    emit("    top_block(); sect1_block(); sect3_fn();")
    emit("    for (i = 0; i < MAXR; i++) if (g_v[i]) { printf(\"%d %d \", i, g_l[i]); for (j = 0; g_v[i][j]; j++) printf(\"%02x\", (unsigned char) g_v[i][j]); printf(\" f\"); for (j = 0; g_f[i][j]; j++) printf(\"%02x\", (unsigned char) g_f[i][j]); printf(\"\\n\"); }")
    emit("    return 0;")
    emit("}")
    return "\n".join(lines) + "\n", exp


def check_linedirs(out_text, out_name, in_name, in_lines):
    """every '#line N "file"': for the output file N is the number of the following line; for the input file the following
    line is (a rewriting of) input line N - checked through __LINE__ elsewhere; here: N must exist in the input."""
    problems = []
    lines = out_text.split("\n")
    for i, ln in enumerate(lines):
        m = re.match(r'#line (\d+) "(.*)"\s*$', ln)
        if not m:
            continue
        n, f = int(m.group(1)), m.group(2)
        if f == out_name:
            if n != i + 2:
                problems.append("output line %d: '#line %d \"%s\"' but the following line is number %d" % (i + 1, n, f, i + 2))
        elif f == in_name:
            if not (1 <= n <= len(in_lines) + 1):
                problems.append("output line %d: '#line %d \"%s\"' beyond the %d lines of the input" % (i + 1, n, f, len(in_lines)))
        else:
            problems.append("output line %d: #line names an unknown file %r" % (i + 1, f))
    return problems


def one(job):
    idx, seed, backend, flex_opts, noline_opt = job
    rng = Rng(seed)
    wd = os.path.join(_ROOT, "u%d" % idx)
    os.makedirs(wd, exist_ok=True)
    risky = idx % 12 == 5
    text, exp = build_spec(rng, backend, noline_opt, no_reject=any(o in ('-Cf', '-CF') for o in flex_opts), risky=risky)
    # file names as they must appear (escaped) in #line directives and (unescaped) in __FILE__
    in_name, out_name = [("u.l", "u.c"), ("u.l", "u.c"), ('my"scan.l', 'o"ut.c'), ("a\\b c.l", "x y.c"), ("sub/u.l", "sub/v.c"), ("./u.l", "u.c"),
                         ("it's.l", "it's.c")][idx % 7]
    os.makedirs(os.path.join(wd, "sub"), exist_ok=True)
    with open(os.path.join(wd, in_name), "wb") as f:
        f.write(text.encode("latin-1", errors="replace"))
    problems = []
    rc, out, err = run([_FLEX] + flex_opts + ["-o", out_name, in_name], cwd=wd, timeout=60)
    if rc != 0:
        shutil.rmtree(wd, ignore_errors=True)
        known = None
        if risky:
            pb = [v[0] for v in exp.values() if v[2].startswith("action-percent-brace")]
            cb = [v[0] for v in exp.values() if v[2].startswith("action-percent-brace") or v[2] in ("sect1-block", "sect2-top", "sect2-indented")]
            if any(b"%}" in p or b"/*" in p for p in pb):
                known = "percent-brace-action-not-string-aware"
            elif any(b"yyreject" in p or b"yymore" in p for p in cb):
                known = "yyreject-text-in-code-block-string"
        return {'idx': idx, 'spec': text, 'opts': flex_opts, 'backend': backend, 'known': known,
                'problems': ["flex refuses a specification whose user code is valid C: " + err.decode(errors='replace')[:300]], 'regions': 0}
    with open(os.path.join(wd, out_name), "rb") as f:
        out_text = f.read().decode("latin-1")
    noline = noline_opt or "-L" in flex_opts
    if noline:
        if re.search(r"^#line ", out_text, re.M):
            problems.append("-L / %option noline given but the scanner contains #line directives")
    else:
        esc = lambda n: n.replace("\\", "\\\\").replace('"', '\\"')
        problems += check_linedirs(out_text, esc(out_name), esc(in_name), text.split("\n"))[:3]
    for ckind, ctext in COMMENTS.get('all', []):
        if ctext not in out_text:
            problems.append("a comment (%s) does not reach the output as written: %r" % (ckind, ctext))
    ncomments = len(COMMENTS.get('all', []))
    cc = ["gcc", "-std=gnu11", "-w", "-D_GNU_SOURCE", "-o", "u.exe", out_name]
    rc, o2, e2 = run(cc, cwd=wd, timeout=120)
    if rc != 0:
        problems.append("the generated scanner does not compile although all user code is valid C: " + e2.decode(errors="replace")[:400])
    else:
        rc, o3, e3 = run([os.path.join(wd, "u.exe")], cwd=wd, timeout=20)
        got = {}
        for line in o3.decode(errors="replace").splitlines():
            p = line.split(" ")
            if len(p) == 4 and p[3].startswith("f"):
                got[int(p[0])] = (int(p[1]), bytes.fromhex(p[2]), bytes.fromhex(p[3][1:]))
        out_lines = out_text.split("\n")
        for kk, (p, lno, kind) in sorted(exp.items()):
            if kk not in got:
                problems.append("region %s (input line %d): the statement was not executed / not found" % (kind, lno))
                continue
            gl, gp, gf = got[kk]
            if not noline and gf.decode("latin-1") != in_name:
                problems.append("region %s (input line %d): __FILE__ is %r, the input file is %r (wrong file name in a #line directive)" % (
                    kind, lno, gf.decode("latin-1"), in_name))
            if gp != p:
                problems.append("region %s (input line %d): the text reaching the compiler differs: wrote %r, compiled %r" % (kind, lno, p, gp))
            if noline:
                # __LINE__ is then a line of the output file: that line must hold the statement
                if not (1 <= gl <= len(out_lines)) or ("REC(%d," % kk) not in out_lines[gl - 1]:
                    problems.append("region %s: without #line directives __LINE__=%d is not the output line of the statement" % (kind, gl))
            elif gl != lno:
                problems.append("region %s: statement on input line %d is compiled as line %d (wrong #line directive)" % (kind, lno, gl))
    shutil.rmtree(wd, ignore_errors=True)
    known = None
    if risky and problems:
        pb = [v[0] for v in exp.values() if v[2].startswith("action-percent-brace")]
        cb = [v[0] for v in exp.values() if v[2].startswith("action-percent-brace") or v[2] in ("sect1-block", "sect2-top", "sect2-indented")]
        if any(b"%}" in p or b"/*" in p for p in pb):
            known = "percent-brace-action-not-string-aware"
        elif any(b"yyreject" in p or b"yymore" in p for p in cb):
            known = "yyreject-text-in-code-block-string"
    return {'idx': idx, 'spec': text, 'opts': flex_opts, 'backend': backend, 'problems': problems[:4], 'regions': len(exp),
            'kinds': sorted(set(v[2] for v in exp.values())), 'known': known}


def _dispatch(job):
    try:
        return one(job)
    except Exception as ex:
        import traceback
        return {'idx': -1, 'problems': ["harness-error " + repr(ex) + traceback.format_exc()[-400:]], 'harness': True, 'regions': 0}


def model_vs_m4(ck, scratch, rng, n):
    """The m4 model of coq/M4Quote.v against the real m4, and the escape function against identity through the real m4."""
    wd = scratch.sub("m4")
    alpha = ["[", "]", "[[", "]]", "M4_YY_NOOP", "M4_YY_NOOPx", "xM4_YY_NOOP", "x", "_", "1", " ", "\n", ",", "(", ")", "$1", "`", "'", "#", "ab", "M4", "é"]
    prelude = b"m4_changecom`'m4_dnl\nm4_changequote`'m4_dnl\nm4_changequote([[,]])[[]]m4_dnl\nm4_define([[M4_YY_NOOP]])[[]]m4_dnl\n"
    queries = []
    items = []
    for i in range(n):
        r = rng.fork("m%d" % i)
        if i % 2 == 0:
            toks = [r.pick(alpha) for _ in range(r.rng(0, 14))]
            # (a macro name followed by "(" starts an argument list in m4: not modelled, and never produced by flex's rewritings)
            toks = [t for j, t in enumerate(toks) if not (t == "(" and j > 0 and toks[j - 1].endswith("M4_YY_NOOP"))]
            s = "".join(toks).encode("latin-1")
            s = s.replace(b"M4_YY_NOOP(", b"M4_YY_NOOP (")
            items.append(('raw', s))
            queries.append("(m4raw (%s))" % " ".join(str(b) for b in s))
        else:
            u = "".join(r.pick(NASTY) for _ in range(r.rng(0, 8))).encode("latin-1", errors="replace")
            sch = r.pick(["A", "B"])
            items.append((sch, u))
            queries.append("(m4q %s (%s))" % (sch, " ".join(str(b) for b in u)))
    sx = "(case (csize 256) (nsc 1) (excl ()) (rules ()) (queries (%s)))" % "\n".join(queries)
    rc, out, err = scanner.run_driver(sx, wd, name="m4.sx", timeout=120)
    lines = [l for l in out.splitlines() if l.startswith("m4raw ") or l.startswith("m4q ")]
    if rc != 0 or len(lines) != len(items):
        ck.violation("m4-model-driver", "the extracted m4 model could not be run: %s" % (err[:200] if isinstance(err, str) else err), {}, no_input=True)
        return {}
    bad = 0
    compared = 0
    for (kind, s), line in zip(items, lines):
        def bl(x):
            return bytes(int(t) for t in x.split(",") if t)
        m = re.search(r"out=([0-9,]*) ok=(\w+)", line)
        mout, mok = bl(m.group(1)), m.group(2) == "true"
        if kind == 'raw':
            stream = s
        else:
            e = bl(re.search(r"esc=([0-9,]*)", line).group(1))
            stream = b"[[" + e + b"]]"
            if mout != s or not mok:
                bad += 1
                ck.violation("m4-model-theorem-instance", "extracted model contradicts theorem on %r" % s, {'input_hex': s.hex()}, no_input=True)
        with open(os.path.join(wd, "in.m4"), "wb") as f:
            f.write(prelude + stream)
        rc2, o2, e2 = run(["m4", "-P", os.path.join(wd, "in.m4")], timeout=20)
        real_ok = rc2 == 0 and b"ERROR" not in e2
        compared += 1
        if real_ok != mok or (mok and o2 != mout):
            bad += 1
            ck.violation("m4-model-differs:" + hashlib.sha256(stream).hexdigest()[:8],
                         "the m4 model and the real m4 disagree on %r: model (%r, ok=%s), m4 (%r, rc=%s %s)" % (
                             stream, mout, mok, o2, rc2, e2.decode(errors='replace')[:80]),
                         {'input_hex': stream.hex(), 'correspondence': 'coq/M4Quote.v m4 (extracted) vs /usr/bin/m4 -P'},
                         no_input=(kind == 'raw'))
    return {"m4_model_comparisons": compared, "m4_model_disagreements": bad}


def main(tier):
    global _FLEX, _ROOT
    ck = Check(PROP, tier)
    rng = Rng(ck.seed).fork(PROP)
    import gen_facts
    gen_facts.generate()
    nob, ngood, details = engine.obligations(ck, "Properties_C20.v")
    engine.ensure_built()
    assumptions = ["the m4 model covers what the theorems need: quotes, nesting, words, one defined macro; it is compared with the real m4 on "
                   "generated streams on every run",
                   "payloads are spelled inside C string literals (so that they can be read back from the compiled scanner): bytes that C "
                   "itself requires to be escaped (\" \\ ? and non-printing bytes) reach flex in their escaped spelling",
                   "the #line part of the property is decided on emitted files (translation validation), not by a theorem",
                   "braces inside %top blocks are kept balanced (flex delimits the block by counting braces textually); with -Cf/-CF the words "
                   "REJECT / yyreject are kept out of user code (flex looks for them textually and refuses, see C07)"]
    with Scratch("c20") as scratch:
        _FLEX = build_flex(scratch)
        _ROOT = scratch.sub("cases")
        extra = model_vs_m4(ck, scratch, rng.fork("m4"), 300 if tier == "quick" else 6000)
        jobs = []
        n = 90 if tier == "quick" else 3000
        for i in range(n):
            r = rng.fork("u%d" % i)
            be = r.weighted([('nr', 5), ('r', 3), ('c99', 2)])
            opts = r.pick([[], [], [], ["-L"], ["-Cf"], ["-CF"], ["-d"], ["-i"], ["-b"]]) + ["-8"]
            jobs.append((i, r.s, be, opts, r.chance(10)))
        results = parallel_map(_dispatch, jobs)
    regions = 0
    kinds = set()
    for r in results:
        if r.get('harness'):
            for p in r['problems']:
                ck.violation("harness:" + hashlib.sha256(p.encode()).hexdigest()[:8], p, {}, no_input=True)
            continue
        regions += r['regions']
        kinds |= set(r.get('kinds', []))
        for p in r['problems']:
            reg = re.match(r"region (\S+)", p)
            key = "usercode:%s:%s:%s" % (r['backend'], reg.group(1) if reg else "general", re.sub(r"\d+|%r|'[^']*'|b'[^']*'", "", p)[:50])
            if r.get('known'):
                key = r['known']
            ck.violation(key, "[%s, flex %s] %s" % (r['backend'], " ".join(r['opts']), p),
                         {'spec': r['spec'], 'flex_args': r['opts'] + ["-o", "u.c", "u.l"], 'backend': r['backend'],
                          'how': "flex <args>; gcc u.c; ./a.out prints 'k __LINE__ hex(text)' for every recorded statement REC(k, \"...\")"})
    cov = {"level": "proof", "obligations": nob, "discharged": ngood, "theorems": details,
           "checker_cmd": "make -C coq Properties_C20.vo (SourceFacts.v regenerated from scan.l / main.c); flex rebuilt from /repo",
           "trusted_base": ["Coq 8.16.1 kernel", "harness/gen_facts.py (string constants of the source)", "extraction + driver", "gcc", "m4 (compared with the model)"],
           "evaluations": len(results) + extra.get("m4_model_comparisons", 0), "distinct_nontrivial": len([r for r in results if r['regions']]),
           "regions_checked": regions, "region_kinds": sorted(kinds),
           "rule": "specifications with recorded statements in every kind of user-code region (%top, %{ %} in section 1, code at the top of "
                   "section 2, indented code, one-line / multi-line / brace-less / '|' / %{ %} actions, <<EOF>> action, section 3) whose string "
                   "payloads are built from m4 quotes, m4 and flex macro names, $1, backquotes, comment and string delimiters, %% %{ %}; the "
                   "compiled scanner prints text and __LINE__ of every statement: text must equal what was written, __LINE__ the input line "
                   "(or, with -L / noline, the output line and no #line at all); every '#line N \"out\"' must number the following line; "
                   "non-trivial = every specification", **extra}
    return ck.finish(cov, assumptions=assumptions)


replay = engine.std_replay
