"""C17 - 'rule cannot be matched' and default-rule warnings are exact."""
import os
import re

import engine
import patgen
import rulesets
import scanner
import tokcase
from common import Rng, run

PROP = "C17"


def gen_prog(rng):
    """Overlapping rules, shadowing across conditions, BOL-only reachability, rules matching only the empty string."""
    prog = rulesets.gen_program(rng, trailing=rng.chance(15), max_scs=2, csize=256, depth=rng.pick([1, 2, 2, 3]))
    rules = prog['rules']
    # shadowing: repeat or specialise an earlier rule
    for _ in range(rng.rng(0, 3)):
        if rules:
            src = rng.pick(rules)
            kind = rng.pick(['dup', 'sub', 'bol', 'sc', 'catchall'])
            r = dict(src)
            if kind == 'sub':
                r['head'] = ('cat', src['head'], ('opt', ('c', 122)))
            elif kind == 'bol':
                r['bol'] = not src.get('bol')
            elif kind == 'sc' and prog['scs']:
                r['scs'] = [rng.rng(1, 1 + len(prog['scs']))]
            elif kind == 'catchall':
                r = {'head': ('alt', ('any',), ('c', 10)), 'bol': False, 'scs': rng.pick([None, '*']), 'trail': None}
            r['trail'] = None if kind != 'dup' else src.get('trail')
            rules.insert(rng.rng(0, len(rules)), r)
    if rng.chance(12):
        rules.append({'head': ('star', ('c', 120)), 'bol': False, 'scs': None, 'trail': None})     # matches only what x+ ... leaves: maybe only ""
    prog['rules'] = rules[:12]
    return prog


def build_cases(rng, tier):
    n = 400 if tier == "quick" else 6000
    cases = []
    for i in range(n):
        r = rng.fork("w%d" % i)
        prog = gen_prog(r)
        # rules with REJECT in an action: flex then only promises not to warn falsely
        uses_reject = r.chance(12)
        if i % 8 == 5:
            # -s with variable trailing context, no REJECT, and a catch-all rule: flex builds REJECT tables, the default rule stays unreachable
            prog = rulesets.gen_program(r, trailing=True, max_scs=r.pick([0, 1]), csize=256, depth=r.pick([1, 2]))
            a, b = r.pick([97, 98, 48]), r.pick([98, 99, 32])
            prog['rules'].insert(r.rng(0, len(prog['rules'])), {'head': ('plus', ('c', a)), 'bol': False, 'scs': None, 'trail': ('plus', ('c', b))})
            prog['rules'].insert(r.rng(0, len(prog['rules'])), {'head': ('alt', ('any',), ('c', 10)), 'bol': False, 'scs': r.pick(['*', '*', None]), 'trail': None})
            prog['rules'] = prog['rules'][:12]
            cases.append({'id': "w%d" % i, 'prog': prog, 'seed': r.s, 'reject': False, 'sflag': True, 'text': '',
                          'flex_opts': ["-8"], 'backend': 'nr', 'inputs': []})
            continue
        cases.append({'id': "w%d" % i, 'prog': prog, 'seed': r.s, 'reject': uses_reject, 'sflag': r.chance(50), 'text': '',
                      'flex_opts': ["-8"], 'backend': 'nr', 'inputs': []})
    return cases


def worker(case):
    from common import Rng
    wd = os.path.join(engine._ROOT, "c%s" % case['id'])
    os.makedirs(wd, exist_ok=True)
    res = {'problems': [], 'lockstep': [], 'streams': [], 'id': case['id']}
    try:
        prog = case['prog']
        nrules = len(prog['rules'])
        actions = {}
        if case['reject']:
            actions = {0: "tok(1); REJECT;"}
        text = scanner.make_spec(prog, Rng(case['seed']).fork("print"), options=(["case-insensitive"] if prog.get('caseins') else []),
                                 actions=actions)
        res['text'] = text
        lines = text.split("\n")
        # line number of each rule (rules are one per line after the first %%)
        first = lines.index("%%") + 1          # 0-based index of first rule line
        rule_line = {first + 1 + i: i + 1 for i in range(nrules)}      # 1-based line -> rule number
        with open(os.path.join(wd, "s.l"), "w") as f:
            f.write(text)
        opts = ["-8"] + (["-s"] if case['sflag'] else [])
        rc, out, err = run([engine._FLEX] + opts + ["-o", "s.c", "s.l"], cwd=wd, timeout=60)
        errs = err.decode(errors="replace")
        if rc != 0:
            res['problems'].append(('flex-error', errs[:300]))
            return res
        warned = set()
        for m in re.finditer(r"s\.l:(\d+): warning, rule cannot be matched", errs):
            ln = int(m.group(1))
            if ln in rule_line:
                warned.add(rule_line[ln])
            else:
                res['problems'].append(('warning-line-unknown', "line %d: %s" % (ln, errs[:200])))
        default_warned = "-s option given but default rule can be matched" in errs
        # -w must silence the warnings without changing the scanner
        rc2, out2, err2 = run([engine._FLEX] + opts + ["-w", "-o", "sw.c", "s.l"], cwd=wd, timeout=60)
        if rc2 == 0:
            a = open(os.path.join(wd, "s.c"), "rb").read()
            b = open(os.path.join(wd, "sw.c"), "rb").read().replace(b"sw.c", b"s.c")
            if a != b:
                res['problems'].append(('w-changes-scanner', "flex -w produced a different scanner"))
            if b"rule cannot be matched" in err2:
                res['problems'].append(('w-does-not-silence', err2.decode(errors='replace')[:200]))
        t = None
        import tables
        with open(os.path.join(wd, "s.c"), errors="replace") as f:
            t = tables.parse_scanner(f.read())
        rejmode = tables.is_reject(t)
        res['lastdfa'] = t.get('lastdfa')
        # actions that really REJECT: every matching rule may be reached (mode 1).  Variable trailing context alone makes flex
        # build REJECT tables, but selection is still longest match / first rule (mode 0): a warning there is false if the rule
        # (or, with -s, the default rule) is never selected; only the *absence* of warnings is not held against flex (rejmode)
        case_sx = "(case %s\n(queries ((warncheck %d 6000))))\n" % (scanner.sx_program(prog), 1 if case['reject'] else 0)
        rc, out, err = scanner.run_driver(case_sx, wd, timeout=120)
        if rc == "timeout" or "INCONCLUSIVE" in out:
            res['problems'].append(('inconclusive', 'warncheck'))
            return res
        if rc != 0:
            res['problems'].append(('driver-error', err[:300]))
            return res
        verdicts = {}
        for line in out.splitlines():
            m = re.match(r"rule (\d+) matchable sc=(\d+) bol=(\d+) witness=\[([0-9 ]*)\] confirmed=(\w+)", line)
            if m:
                verdicts[int(m.group(1))] = ('matchable', int(m.group(2)), int(m.group(3)), [int(x) for x in m.group(4).split()], m.group(5) == 'true')
                continue
            m = re.match(r"rule (\d+) unmatchable proved=(\w+)", line)
            if m:
                verdicts[int(m.group(1))] = ('unmatchable', m.group(2) == 'true')
        res['verdicts'] = {str(k): v[0] for k, v in verdicts.items()}
        res['streams'] = [{'input': '', 'sc': 1, 'real': [(r, 1) for r in sorted(verdicts) if verdicts[r][0] == 'matchable'], 'valid': True, 'text_ok': True}]
        for rno in range(1, nrules + 1):
            v = verdicts.get(rno)
            if v is None:
                continue
            if v[0] == 'matchable' and not v[4]:
                res['problems'].append(('harness-error', "witness of rule %d not confirmed by spec_scan" % rno))
            elif v[0] == 'unmatchable' and not v[1]:
                res['problems'].append(('harness-error', "closed_check failed for rule %d" % rno))
            elif v[0] == 'matchable' and rno in warned:
                res['problems'].append(('false-warning', "rule %d (sc=%d bol=%d) is selected on input %s but flex warns it cannot be matched" % (
                    rno, v[1], v[2], bytes(v[3]).hex())))
            elif v[0] == 'unmatchable' and rno not in warned and not rejmode:
                res['problems'].append(('missing-warning', "rule %d can never be selected (closed_check proved) but flex does not warn" % rno))
        dv = verdicts.get(nrules + 1)
        if case['sflag'] and dv is not None:
            if dv[0] == 'matchable' and not default_warned and not rejmode:
                res['problems'].append(('missing-default-warning', "-s: the default rule is selected on input %s (sc=%d) but flex does not warn" % (bytes(dv[3]).hex(), dv[1])))
            if dv[0] == 'unmatchable' and default_warned:
                res['problems'].append(('false-default-warning', "-s: flex warns that the default rule can be matched, which is never the case"))
    except Exception as ex:
        res['problems'].append(('harness-error', repr(ex)))
    return res


def judge(ck, flex, scratch, cases, results, stats):
    import hashlib
    for c, r in zip(cases, results):
        c['text'] = r.get('text', '')
    stats['rules_matchable'] = sum(1 for r in results for v in r.get('verdicts', {}).values() if v == 'matchable')
    stats['rules_unmatchable_proved'] = sum(1 for r in results for v in r.get('verdicts', {}).values() if v == 'unmatchable')
    for c, r in zip(cases, results):
        for kind, msg in r['problems']:
            stats.setdefault('problem_kinds', {})
            stats['problem_kinds'][kind] = stats['problem_kinds'].get(kind, 0) + 1
        if any(p[0] == 'inconclusive' for p in r['problems']):
            stats['inconclusive'] = stats.get('inconclusive', 0) + 1
        probs = [p for p in r['problems'] if p[0] != 'inconclusive']
        for kind, msg in probs[:2]:
            key = "%s:%s" % (kind, hashlib.sha256((c['text'] + msg).encode()).hexdigest()[:10])
            if kind == 'missing-warning' and only_empty_match(c, msg):
                key = "rule-matching-only-empty-string-not-warned"        # KNOWN_FINDINGS.json
            ck.violation(key, msg[:400], {'spec': c['text'], 'flex_opts': ["-8"] + (["-s"] if c['sflag'] else []),
                                          'theorem': 'C17_never_selected (closed_check passed)' if 'warning' in kind and 'missing' in kind else None,
                                          'how': "flex -8 [-s] -o s.c s.l 2>warnings; the witness input (hex) scanned from the given start condition selects the rule"},
                         no_input=kind in ('harness-error', 'driver-error'))


def only_empty_match(case, msg):
    m = re.search(r"rule (\d+) can never be selected", msg)
    if not m:
        return False
    r = case['prog']['rules'][int(m.group(1)) - 1]
    return patgen.nullable(r['head']) and r.get('trail') is None


def main(tier):
    engine._orig_judge17 = engine.judge
    engine.judge = judge
    try:
        def post(ck, flex, scratch, cases, results, stats):
            return {"rules_matchable_with_witness": stats.get('rules_matchable', 0),
                    "rules_unmatchable_proved": stats.get('rules_unmatchable_proved', 0)}
        return engine.standard_main(
            PROP, tier, "Properties_C17.v", build_cases,
            "rule sets with overlapping / duplicated / specialised rules, shadowing across start conditions, ^-only reachability, rules "
            "that match only the empty string, with and without -s, with REJECT in 12%: every rule gets a verdict from the specification "
            "automaton (witness input confirmed by the proved scanner, or closed_check proved) and is compared with flex's warnings; "
            "-w must silence them byte-identically; non-trivial = DFA >= 3 states and >= 2 matchable rules",
            ["for REJECT / variable-trailing-context rule sets only 'no false warning' is checked, as the property says"],
            worker=worker, post=post)
    finally:
        engine.judge = engine._orig_judge17


replay = engine.std_replay
