"""C09 - yylineno."""
import engine
import streamprog

PROP = "C09"
OPTS = [[], [], ["-Cf"], ["-CF"], ["-Ce"], ["-B"], ["-Cm"]]


def build_cases(rng, tier):
    n = 260 if tier == "quick" else 5000
    cases = []
    for i in range(n):
        r = rng.fork("ln%d" % i)
        be = r.weighted([('nr', 4), ('r', 2), ('c99', 2), ('cxx', 2)])
        opts = r.pick(OPTS)
        if be == 'cxx' and "-CF" in opts:
            opts = ["-Cf"]
        c = streamprog.gen_stream_case(r, "l%d" % i, ({'lineno', 'trail'} if i % 2 else {'lineno'}) if i % 3 else {'lineno', 'edit', 'trail'}, backend=be, flex_opts=opts,
                                       lineno=(i % 7 != 0))
        cases.append(c)
    return cases


def main(tier):
    return engine.stream_main(
        PROP, tier, "Properties_C09.v", build_cases,
        "programs with %option yylineno (and, every 7th, without it) whose rules match newlines through literals, classes, negated "
        "classes, '.', (?s:.), definitions and the default rule, combined with yyless / yyunput('\\n') / yyinput; yylineno is printed by "
        "every action and compared with the stream machine, for which C09_lineno_conservation is proved; "
        "non-trivial = DFA >= 3 states and >= 2 rules matched",
        ["per-buffer line numbers of reentrant scanners across buffer switches are the subject of C11",
         "REJECT together with yylineno is not generated here"])


replay = engine.std_replay
