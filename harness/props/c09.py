"""C09 - yylineno."""
import engine
import streamprog

PROP = "C09"
OPTS = [[], [], ["-Cf"], ["-CF"], ["-Ce"], ["-B"], ["-Cm"]]


def build_cases(rng, tier):
    n = 260 if tier == "quick" else 5000
    cases = []
    for i in range(n):
        r = rng.fork("ln%d" % i)
        be = r.weighted([('nr', 4), ('r', 2), ('c99', 2), ('cxx', 2)])
        opts = r.pick(OPTS)
        if be == 'cxx' and "-CF" in opts:
            opts = ["-Cf"]
        c = streamprog.gen_stream_case(r, "l%d" % i, ({'lineno', 'trail'} if i % 2 else {'lineno'}) if i % 3 else {'lineno', 'edit', 'trail'}, backend=be, flex_opts=opts,
                                       lineno=(i % 7 != 0))
        if i % 5 in (1, 3):
            # text kept by yymore() that holds newlines, with %array (i % 5 == 1) and %pointer: the count must not run over the
            # kept text again
            be2 = r.weighted([('nr', 4), ('r', 3), ('c99', 2)])
            c = streamprog.gen_stream_case(r, "l%d" % i, {'lineno', 'edit', 'more'}, backend=be2,
                                           flex_opts=r.pick([[], ["-Cf"], ["-Ce"], ["-Cm"], ["-B"]]), lineno=True)
            if i % 5 == 1:
                c['extra_options'] = ["array"]
        cases.append(c)
    # multi-line text collected piecewise with yymore() (the manual's comment idiom): the kept text holds newlines and the rule
    # that continues it can match newlines itself; %array and %pointer, every back end
    for j in range(16 if tier == "quick" else 160):
        r = rng.fork("kept%d" % j)
        be = ['nr', 'r', 'c99', 'c99', 'nr', 'r', 'cxx', 'c99'][j % 8]
        nl = ('cls', ('set', False, [('ch', 97), ('ch', 98), ('ch', 10)]))
        prog = {'csize': 256, 'caseins': False, 'scs': [], 'rules': [
            {'head': ('plus', nl), 'bol': False, 'scs': None, 'trail': None},                                   # [ab\n]+   yymore()
            {'head': ('c', 59), 'bol': False, 'scs': None, 'trail': None},                                      # ;
            {'head': ('cat', ('plus', ('c', 120)), ('opt', ('c', 10))), 'bol': False, 'scs': None, 'trail': None},   # x+\n?   yymore()
            {'head': ('cat', ('c', 10), ('c', 121)), 'bol': False, 'scs': None, 'trail': None}]}                # \ny
        acts = {1: [('more',)]}
        if j % 4 >= 2:
            acts[3] = [('more',)]
        srcs = []
        for k in range(3):
            w = []
            for _ in range(r.rng(3, 9)):
                w += r.pick([[97, 98, 10, 97], [97, 10, 10, 98, 10], [59], [120, 120, 10], [10, 121], [32], [98], [120], [59, 10]])
            srcs.append([w + [59, 10]])
        c = {'id': "k%d" % j, 'runs': None, 'prog': prog, 'acts': acts, 'eofs': {}, 'eof_unq': None, 'lineno': True, 'backend': be,
             'flex_opts': list(r.pick([[], ["-Cf"], ["-Ce"], ["-Cm"]])) + ["-8"], 'sources': srcs, 'seed': r.s,
             'focus': ['edit', 'lineno', 'more'], 'text': ''}
        if j % 2 == 0 and be != 'cxx':
            c['extra_options'] = ["array"]
        cases.append(c)
    return cases


def reject_cases(rng, tier):
    """REJECT together with %option yylineno: rules that match newlines and reject (token-level programs of C07)."""
    import rulesets
    import patgen
    n = 40 if tier == "quick" else 800
    cases = []
    for i in range(n):
        r = rng.fork("rjln%d" % i)
        be = r.weighted([('nr', 4), ('r', 2), ('c99', 2), ('cxx', 2)])
        prog = rulesets.gen_program(r, trailing=(i % 4 == 0))
        for rl in prog['rules']:
            if rl.get('trail') not in (None, '$') and patgen.fixed_len(rl['head']) is None and patgen.fixed_len(rl['trail']) is None:
                rl['trail'] = None
        # rules whose alternatives differ in the number of newlines: "a\nb" (rejecting) above "a\n" above the rest
        a = r.pick([97, 98, 48])
        prog['rules'].insert(0, {'head': ('str', [a, 10, r.pick([97, 98])]), 'bol': False, 'scs': None, 'trail': None})
        prog['rules'].insert(1, {'head': ('cat', ('c', a), ('plus', ('c', 10))), 'bol': False, 'scs': None, 'trail': None})
        nr = len(prog['rules'])
        pols = {j: r.pick([('never',), ('always',), ('lengt', r.rng(0, 3)), ('first', r.rng(1, 3)), ('never',)]) for j in range(1, nr + 1)}
        pols[1] = r.pick([('always',), ('first', 2)])
        pols[2] = r.pick([('never',), ('lengt', 2), ('first', 1)])
        opts = list(r.pick([[], [], ["-Ce"], ["-Cm"], ["-C"], ["-B"], ["-Ca"]]))
        opts.append("-8" if prog['csize'] == 256 else "-7")
        inputs = rulesets.gen_inputs(prog, r.fork("in"), count=3, maxlen=60)
        inputs.append([a, 10, 98, 120, 10, a, 10, 10, 97, a, 10])
        cases.append({'id': "rj%d" % i, 'kind': 'rejln', 'prog': prog, 'policies': pols, 'flex_opts': opts, 'inputs': inputs, 'backend': be,
                      'spelling': r.pick(['REJECT', 'yyreject()']), 'seed': r.s, 'text': '', 'run_scs': [1], 'focus': ['lineno', 'reject']})
    return cases


def worker(case):
    if case.get('kind') == 'eol':
        import eolcheck
        return eolcheck.eol_worker(case)
    if case.get('kind') != 'rejln':
        return engine.stream_worker(case)
    import os
    import tokcase
    from common import Rng
    wd = os.path.join(engine._ROOT, "c%s" % case['id'])
    try:
        res = tokcase.eval_reject_case(engine._FLEX, wd, case['prog'], case['policies'], Rng(case['seed']).fork("print"),
                                       case['flex_opts'], case['inputs'], backend=case['backend'], spelling=case['spelling'],
                                       run_scs=case['run_scs'], lineno=True)
    except Exception as ex:
        res = {'problems': [('harness-error', repr(ex))], 'lockstep': [], 'streams': []}
    res['id'] = case['id']
    return res


def judge(ck, flex, scratch, cases, results, stats):
    import eolcheck
    sc = [(c, r) for c, r in zip(cases, results) if c.get('kind') not in ('rejln', 'eol')]
    engine.judge_stream(ck, flex, scratch, [c for c, _ in sc], [r for _, r in sc], stats)
    eolcheck.judge_eol(ck, cases, results, stats)
    stats['reject_lineno_events_compared'] = sum(r.get('lines_compared', 0) for c, r in zip(cases, results) if c.get('kind') == 'rejln')
    for c, r in zip(cases, results):
        if c.get('kind') != 'rejln':
            continue
        c['text'] = r.get('text', '')
        probs = [p for p in r['problems'] if p[0] != 'inconclusive']
        for kind, msg in r['problems']:
            stats.setdefault('problem_kinds', {})
            stats['problem_kinds'][kind] = stats['problem_kinds'].get(kind, 0) + 1
        if not probs:
            continue
        # the order of the alternatives is C07's subject: here only the line numbers (and anything that stops the comparison)
        ln = [p for p in probs if p[0] == 'lineno-mismatch']
        kind, msg = (ln or probs)[0]
        if kind in ('token-mismatch', 'model-mismatch') or kind.startswith('lockstep'):
            continue
        what = {"lineno-mismatch": "yylineno seen by an action of a REJECT scanner differs from the documented count"}.get(kind, kind)
        ck.violation("%s:%s" % (kind, engine.prog_key(c)), "%s: %s" % (what, msg[:500]),
                     {'spec': c['text'], 'flex_opts': c['flex_opts'], 'backend': c['backend'], 'policies': c['policies'],
                      'detail': [list(p) for p in probs[:3]],
                      'how': "flex <opts> -o s.c s.l; cc; ./s input 0; every action prints L<yylineno> and then rule:yyleng:hash"},
                     no_input=kind in ('harness-error', 'driver-error', 'tables-unreadable'))


def build_all(rng, tier):
    import eolcheck
    return build_cases(rng, tier) + reject_cases(rng.fork("reject"), tier) + eolcheck.eol_cases(rng.fork("eol"), tier)


def main(tier):
    orig = engine.judge
    engine.judge = judge
    try:
        return engine.standard_main(
            PROP, tier, "Properties_C09.v", build_all,
            "the emitted table yy_rule_can_match_eol of generated rule sets judged by the proved eol_ok (C09_eol_table_covers_every_newline; "
            "no scanner is run: the verdict holds for every input); "
            "REJECT scanners with %option yylineno (rules whose alternatives contain different numbers of newlines; every action prints "
            "the yylineno it sees; compared with rej_tokens_ln, C09_reject_does_not_count_lines); "
            "programs with %option yylineno (and, every 7th, without it) whose rules match newlines through literals, classes, negated "
            "classes, '.', (?s:.), definitions and the default rule, combined with yyless / yyunput('\\n') / yyinput; yylineno is printed by "
            "every action and compared with the stream machine, for which C09_lineno_conservation is proved; "
            "non-trivial = DFA >= 3 states and >= 2 rules matched",
            ["per-buffer line numbers of reentrant scanners across buffer switches are the subject of C11"],
            worker=worker, post=lambda ck, flex, scratch, cases, results, stats: {k: stats.get(k, 0) for k in ['reject_lineno_events_compared', 'eol_tables_checked']})
    finally:
        engine.judge = orig


def _old_main(tier):
    return engine.stream_main(
        PROP, tier, "Properties_C09.v", build_cases,
        "programs with %option yylineno (and, every 7th, without it) whose rules match newlines through literals, classes, negated "
        "classes, '.', (?s:.), definitions and the default rule, combined with yyless / yyunput('\\n') / yyinput; yylineno is printed by "
        "every action and compared with the stream machine, for which C09_lineno_conservation is proved; "
        "non-trivial = DFA >= 3 states and >= 2 rules matched",
        ["per-buffer line numbers of reentrant scanners across buffer switches are the subject of C11",
         "REJECT together with yylineno is not generated here"])


replay = engine.std_replay
