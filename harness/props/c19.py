"""C19 - every documented option has its documented effect, via CLI and %option alike."""
import hashlib
import os
import re
import shutil

import engine
import gen_options
from common import Rng, run, Scratch, build_flex, Check, parallel_map

PROP = "C19"
_FLEX = None
_ROOT = None

BASE = """%%option noyywrap nounput noinput%(opts)s
%(top)s
%%%%
a+   { return 1; }
b    { return 2; }
.|\\n { }
%%%%
%(sect3)s
"""


def spec(opts="", top="", sect3=""):
    return BASE % {'opts': (" " + opts) if opts else "", 'top': top, 'sect3': sect3}


def flex(wd, text, args, name="p"):
    with open(os.path.join(wd, name + ".l"), "w") as f:
        f.write(text)
    rc, out, err = run([_FLEX] + args + ["-o", name + ".c", name + ".l"], cwd=wd, timeout=60)
    return rc, err.decode(errors="replace")


def cc(wd, files, out="p.exe", extra=None, link=True):
    cmd = ["gcc", "-std=gnu11", "-w", "-D_GNU_SOURCE"] + (extra or []) + (["-o", out] if link else ["-c"]) + files
    rc, o, e = run(cmd, cwd=wd, timeout=120)
    return rc, e.decode(errors="replace")


def defined_syms(wd, obj):
    rc, out, err = run(["nm", "--defined-only", "-g", obj], cwd=wd, timeout=30)
    return sorted(set(l.split()[-1] for l in out.decode().splitlines() if l.strip()))


# ------------------------------------------------------------------ probes: each returns a list of problems
def p_main(wd, how):
    text = spec("main" if how == "opt" else "")
    rc, err = flex(wd, text, ["--main"] if how == "cli" else [])
    if rc:
        return ["flex fails: " + err[:200]]
    rc, e = cc(wd, ["p.c"])
    if rc:
        return ["%s: the scanner supplies no main(): %s" % ("--main" if how == "cli" else "%option main", e.strip().splitlines()[-1][:160] if e.strip() else "link error")]
    rc, o, e2 = run([os.path.join(wd, "p.exe")], cwd=wd, timeout=20, input=b"aab\n")
    return [] if rc == 0 else ["the main() supplied by flex exits with %s" % rc]


def p_extra_type(wd, backend):
    opts = 'reentrant extra-type="struct ctx *"' if backend == 'r' else 'emit="c99" extra-type="struct ctx *"'
    text = spec(opts, "%top{\nstruct ctx { int v; };\n}", "int use(yyscan_t s) { return yyget_extra(s)->v; }\nint main(void) { return 0; }")
    rc, err = flex(wd, text, [])
    if rc:
        return ["flex fails: " + err[:200]]
    rc, e = cc(wd, ["p.c"])
    return [] if rc == 0 else ["%%option extra-type does not set the type of yyextra (%s back end): %s" % (backend, (e.strip().splitlines() or ["?"])[0][:200])]


def p_noyypanic(wd, backend):
    if backend == 'nr':
        opts, fn = "noyypanic", "static void yynoreturn yypanic(const char *msg) { fprintf(stderr, \"mine %s\\n\", msg); exit(9); }"
    else:
        opts, fn = "reentrant noyypanic", "static void yynoreturn yypanic(const char *msg, yyscan_t s) { fprintf(stderr, \"mine %s\\n\", msg); exit(9); }"
    text = spec(opts, "%{\n#include <stdio.h>\n#include <stdlib.h>\n%}", fn + "\nint main(void) { return 0; }")
    rc, err = flex(wd, text, [])
    if rc:
        return ["flex fails: " + err[:200]]
    rc, e = cc(wd, ["p.c"])
    return [] if rc == 0 else ["%%option noyypanic: the user's yypanic() clashes with the generated one (%s): %s" % (backend, (e.strip().splitlines() or ["?"])[0][:200])]


def p_nodefault(wd, arg):
    """-s / %option nodefault: the scanner compiles in every back end and stops with 'flex scanner jammed' on unmatched input"""
    backend, how = arg
    mains = {'nr': "int main(void) { yy_scan_string(\"aq\"); while (yylex()) ; return 0; }",
             'r': "int main(void) { yyscan_t s; yylex_init(&s); yy_scan_string(\"aq\", s); while (yylex(s)) ; yylex_destroy(s); return 0; }",
             'c99': "int main(void) { yyscan_t s; yylex_init(&s); yy_scan_string(\"aq\", s); while (yylex(s)) ; yylex_destroy(s); return 0; }",
             'cxx': "#include <sstream>\nint main() { std::istringstream in(\"aq\"); yyFlexLexer l(&in, 0); while (l.yylex()) ; return 0; }"}
    bopt = {'nr': "", 'r': "reentrant", 'c99': 'emit="c99"', 'cxx': "c++"}[backend]
    opts = (bopt + (" nodefault" if how == "opt" else "")).strip()
    # an incomplete rule set: q is matched by no rule
    text = ("%%option noyywrap nounput noinput %s\n%%%%\na+   { return 1; }\nb    { return 2; }\n%%%%\n%s\n" % (opts, mains[backend]))
    with open(os.path.join(wd, "p.l"), "w") as f:
        f.write(text)
    out = "p.cc" if backend == 'cxx' else "p.c"
    rc, o, e = run([_FLEX] + (["-s"] if how == "cli" else []) + ["-o", out, "p.l"], cwd=wd, timeout=60)
    if rc:
        return ["flex fails (nodefault, %s, %s): %s" % (backend, how, e.decode(errors='replace')[:200])]
    if backend == 'cxx':
        rc, o, e = run(["g++", "-std=gnu++17", "-w", "-I" + os.path.dirname(_FLEX), "-o", "p.exe", out], cwd=wd, timeout=180)
    else:
        rc, o, e = run(["gcc", "-std=gnu11", "-w", "-D_GNU_SOURCE", "-o", "p.exe", out], cwd=wd, timeout=120)
    if rc:
        return ["nodefault (%s, %s): the generated scanner does not compile: %s" % (backend, "-s" if how == "cli" else "%option",
                                                                                  (e.decode(errors='replace').strip().splitlines() or ["?"])[0][:200])]
    rc, o, e = run([os.path.join(wd, "p.exe")], cwd=wd, timeout=20)
    if rc == 0 or b"jammed" not in e:
        return ["nodefault (%s, %s): unmatched input does not stop the scanner with 'flex scanner jammed' (rc=%s, stderr=%s)" % (
            backend, how, rc, e.decode(errors='replace')[:80])]
    return []


def p_lex_compat(wd, how):
    text = spec("lex-compat" if how == "opt" else "", "", "#ifndef YY_FLEX_LEX_COMPAT\n#error no YY_FLEX_LEX_COMPAT\n#endif\nint main(void) { return 0; }")
    rc, err = flex(wd, text, ["-l"] if how == "cli" else [])
    if rc:
        return ["flex fails: " + err[:200]]
    rc, e = cc(wd, ["p.c"])
    return [] if rc == 0 else ["lex-compat (%s): YY_FLEX_LEX_COMPAT is not defined in the scanner" % how]


def p_prefix(wd, arg):
    """every external symbol carries the prefix - also the functions that only exist with some other option"""
    backend, feature = arg if isinstance(arg, tuple) else (arg, "")
    opts = ('reentrant ' if backend == 'r' else '') + 'prefix="zz" ' + feature
    top = "%top{\ntypedef union { int i; } YYSTYPE;\ntypedef struct { int first_line; } YYLTYPE;\n}" if "bison" in feature else ""
    text = spec(opts.strip(), top, "")
    args = ["--tables-file=zz.tbl"] if feature == "" and backend == 'nr+tables' else []
    rc, err = flex(wd, text, args)
    if rc:
        return ["flex fails (prefix with %s): %s" % (feature, err[:200])]
    rc, e = cc(wd, ["p.c"], link=False)
    if rc:
        return ["prefix scanner (%s %s) does not compile: %s" % (backend, feature, e[:200])]
    syms = defined_syms(wd, "p.o")
    bad = [s for s in syms if not s.startswith("zz")]
    return [] if not bad else ["%%option prefix=\"zz\" (%s %s): external symbols without the prefix: %s" % (backend, feature, bad[:8])]


NOYY = {  # option -> function that must be absent (non-reentrant C scanner unless noted)
    "noyy_push_state": ("stack", "yy_push_state"), "noyy_pop_state": ("stack", "yy_pop_state"), "noyy_top_state": ("stack", "yy_top_state"),
    "noyy_scan_buffer": ("", "yy_scan_buffer"), "noyy_scan_bytes": ("", "yy_scan_bytes"), "noyy_scan_string": ("", "yy_scan_string"),
    "noyyget_leng": ("", "yyget_leng"), "noyyget_text": ("", "yyget_text"), "noyyget_lineno": ("", "yyget_lineno"), "noyyset_lineno": ("", "yyset_lineno"),
    "noyyget_in": ("", "yyget_in"), "noyyset_in": ("", "yyset_in"), "noyyget_out": ("", "yyget_out"), "noyyset_out": ("", "yyset_out"),
    "noyyget_debug": ("", "yyget_debug"), "noyyset_debug": ("", "yyset_debug"),
    "noyyget_extra": ("reentrant", "yyget_extra"), "noyyset_extra": ("reentrant", "yyset_extra"),
    "noyyget_column": ("reentrant", "yyget_column"), "noyyset_column": ("reentrant", "yyset_column"),
}


def p_noyy(wd, arg):
    opt, how = arg
    need, fn = NOYY[opt]
    text = spec((need + " " + opt).strip() if how == "opt" else need, "", "")
    rc, err = flex(wd, text, ["--" + opt] if how == "cli" else [])
    if rc:
        return ["flex fails (%s %s): %s" % (opt, how, err[:200])]
    rc, e = cc(wd, ["p.c"], link=False, extra=["-Dstatic="])      # (static functions made visible to nm)
    if rc:
        # fall back: look at the text
        with open(os.path.join(wd, "p.c"), errors="replace") as f:
            body = f.read()
        present = re.search(r"^\w[\w \*]*\b%s\s*\([^;]*\)\s*\{" % fn, body, re.M) is not None
    else:
        present = fn in defined_syms(wd, "p.o")
    # and the control: without the option the function is there
    text2 = spec(need, "", "")
    flex(wd, text2, [], name="q")
    rc2, e2 = cc(wd, ["q.c"], link=False, extra=["-Dstatic="])
    there = (fn in defined_syms(wd, "q.o")) if rc2 == 0 else True
    probs = []
    if present:
        probs.append("%s (%s): %s() is still generated" % (opt, "--" + opt if how == "cli" else "%option", fn))
    if not there:
        probs.append("control for %s: %s() is not generated even without the option" % (opt, fn))
    return probs


def p_yylmax(wd, _):
    text = spec("array yylmax=77", "", "#include <stdio.h>\nint main(void) { printf(\"%d\\n\", (int) sizeof yytext); return 0; }")
    rc, err = flex(wd, text, [])
    if rc:
        return ["flex fails: " + err[:200]]
    rc, e = cc(wd, ["p.c"])
    if rc:
        return ["yylmax scanner does not compile: " + e[:200]]
    rc, o, e2 = run([os.path.join(wd, "p.exe")], cwd=wd, timeout=20)
    return [] if o.strip() == b"77" else ["%%option yylmax=77: sizeof yytext is %s" % o.strip().decode()]


def p_bufsize(wd, _):
    text = spec("bufsize=123", "", "#include <stdio.h>\nint main(void) { printf(\"%d\\n\", (int) YY_BUF_SIZE); return 0; }")
    rc, err = flex(wd, text, [])
    if rc:
        return ["flex fails: " + err[:200]]
    rc, e = cc(wd, ["p.c"])
    if rc:
        return ["bufsize scanner does not compile: " + e[:200]]
    rc, o, e2 = run([os.path.join(wd, "p.exe")], cwd=wd, timeout=20)
    return [] if o.strip() == b"123" else ["%%option bufsize=123: YY_BUF_SIZE is %s" % o.strip().decode()]


def p_splices(wd, backend):
    """yydecl, yyterminate, pre-action, post-action, user-init"""
    re_opt = "reentrant " if backend == 'r' else ""
    arg = "yyscan_t yyscanner" if backend == 'r' else "void"
    call = "mylex(s)" if backend == 'r' else "mylex()"
    text = spec(re_opt + 'yydecl="int mylex(%s)" yyterminate="return 42" pre-action="g_pre++;" post-action="g_post++; break;" user-init="g_init++;"' % arg,
                "%{\nint g_pre, g_post, g_init;\n%}",
                "#include <stdio.h>\nint main(void) { int a, b, c; " + ("yyscan_t s; yylex_init(&s); yy_scan_string(\"aab\", s);" if backend == 'r' else "yy_scan_string(\"aab\");") +
                " a = %s; b = %s; c = %s; printf(\"%%d %%d %%d pre=%%d init=%%d\\n\", a, b, c, g_pre, g_init); return 0; }" % (call, call, call))
    rc, err = flex(wd, text, [])
    if rc:
        return ["flex fails: " + err[:200]]
    rc, e = cc(wd, ["p.c"])
    if rc:
        return ["yydecl/yyterminate/pre-action/post-action/user-init scanner (%s) does not compile: %s" % (backend, (e.strip().splitlines() or ["?"])[0][:200])]
    rc, o, e2 = run([os.path.join(wd, "p.exe")], cwd=wd, timeout=20)
    want = b"1 2 42 pre=2 init=1"
    return [] if o.strip() == want else ["splice options (%s): expected '%s', scanner printed '%s'" % (backend, want.decode(), o.strip().decode())]


def p_post_action(wd, _):
    # (the post-action fragment replaces the "break" that separates the actions: it has to end the case itself)
    text = spec('post-action="g_post++; break;"', "%{\nint g_post;\n%}",
                "#include <stdio.h>\nint main(void) { yy_scan_string(\"c\\nc\"); while (yylex()) ; printf(\"%d\\n\", g_post); return 0; }")
    rc, err = flex(wd, text, [])
    if rc:
        return ["flex fails: " + err[:200]]
    rc, e = cc(wd, ["p.c"])
    if rc:
        return ["post-action scanner does not compile: " + e[:200]]
    rc, o, e2 = run([os.path.join(wd, "p.exe")], cwd=wd, timeout=20)
    return [] if o.strip() == b"3" else ["%%option post-action: the fragment ran %s times for 3 actions" % o.strip().decode()]


def p_user_routines(wd, backend):
    """noyyread / noyyalloc noyyrealloc noyyfree: the user supplies the routine and it is used"""
    probs = []
    if backend == 'c99':
        text = spec('emit="c99" noyyread', "%{\n#include <string.h>\nstatic int g_reads;\n%}",
                    "int yyread(char *buf, size_t max, yyscan_t s) { if (g_reads++) return 0; memcpy(buf, \"ab\", 2); return 2; }\n"
                    "#include <stdio.h>\nint main(void) { yyscan_t s; int a, b; yylex_init(&s); a = yylex(s); b = yylex(s); printf(\"%d %d %d\\n\", a, b, g_reads > 0); return 0; }")
        rc, err = flex(wd, text, [])
        if rc:
            return ["flex fails (noyyread): " + err[:200]]
        rc, e = cc(wd, ["p.c"])
        if rc:
            return ["%%option noyyread (c99): does not compile/link with a user yyread(): " + (e.strip().splitlines() or ["?"])[0][:200]]
        rc, o, e2 = run([os.path.join(wd, "p.exe")], cwd=wd, timeout=20)
        if o.strip() != b"1 2 1":
            probs.append("%%option noyyread (c99): user yyread() not used: '%s'" % o.strip().decode())
    else:
        sig = ", yyscan_t s" if backend == 'r' else ""
        text = spec(("reentrant " if backend == 'r' else "") + "noyyalloc noyyrealloc noyyfree", "%{\n#include <stdlib.h>\nstatic int g_allocs;\n%}",
                    "void *yyalloc(yy_size_t n%s) { g_allocs++; return malloc(n); }\nvoid *yyrealloc(void *p, yy_size_t n%s) { return realloc(p, n); }\nvoid yyfree(void *p%s) { free(p); }\n" % (sig, sig, sig) +
                    "#include <stdio.h>\nint main(void) { " + ("yyscan_t s; yylex_init(&s); yy_scan_string(\"a\", s); yylex(s); yylex_destroy(s);" if backend == 'r' else "yy_scan_string(\"a\"); yylex(); yylex_destroy();") +
                    " printf(\"%d\\n\", g_allocs > 0); return 0; }")
        rc, err = flex(wd, text, [])
        if rc:
            return ["flex fails (noyyalloc): " + err[:200]]
        rc, e = cc(wd, ["p.c"])
        if rc:
            return ["%%option noyyalloc noyyrealloc noyyfree (%s): does not compile/link with user routines: %s" % (backend, (e.strip().splitlines() or ["?"])[0][:200])]
        rc, o, e2 = run([os.path.join(wd, "p.exe")], cwd=wd, timeout=20)
        if o.strip() != b"1":
            probs.append("noyyalloc (%s): the user's yyalloc() is not called" % backend)
    return probs


def p_header(wd, backend):
    opts = {'nr': '', 'r': 'reentrant'}[backend]
    text = spec(opts, "", "int helper_in_section3(void) { return 7; }")
    with open(os.path.join(wd, "p.l"), "w") as f:
        f.write(text)
    rc, out, err = run([_FLEX, "--header-file=p.h", "-o", "p.c", "p.l"], cwd=wd, timeout=60)
    if rc:
        return ["flex --header-file fails: " + err.decode(errors='replace')[:200]]
    user = '#include "p.h"\n#include <stdio.h>\nint main(void) { int t; ' + (
        'yyscan_t s; yylex_init(&s); YY_BUFFER_STATE b = yy_scan_string("aab", s); t = yylex(s); printf("%d %s %d\\n", t, yyget_text(s), (int) yyget_leng(s)); yy_delete_buffer(b, s); yylex_destroy(s);'
        if backend == 'r' else
        'YY_BUFFER_STATE b = yy_scan_string("aab"); t = yylex(); printf("%d %s %d\\n", t, yytext, (int) yyleng); yy_delete_buffer(b); yylex_destroy();') + ' return 0; }\n'
    with open(os.path.join(wd, "user.c"), "w") as f:
        f.write(user)
    rc, e = cc(wd, ["user.c", "p.c"])
    if rc:
        return ["--header-file (%s): a program using only the header does not build: %s" % (backend, (e.strip().splitlines() or ["?"])[0][:220])]
    rc, o, e2 = run([os.path.join(wd, "p.exe")], cwd=wd, timeout=20)
    return [] if o.strip() == b"1 aa 2" else ["--header-file (%s): program printed '%s'" % (backend, o.strip().decode())]


def p_bison(wd, kind):
    opts = "reentrant bison-bridge" + (" bison-locations" if kind == "locations" else "")
    top = "%top{\ntypedef union { int i; } YYSTYPE;\ntypedef struct { int first_line; } YYLTYPE;\n}"
    call = "yylex(&v, &l, s)" if kind == "locations" else "yylex(&v, s)"
    text = spec(opts, top, "#include <stdio.h>\nint main(void) { YYSTYPE v; YYLTYPE l; yyscan_t s; int t; yylex_init(&s); yy_scan_string(\"a\", s); t = %s; printf(\"%%d\\n\", t); return 0; }" % call)
    text = text.replace("a+   { return 1; }", "a+   { yylval->i = 5; %s return 1; }" % ("yylloc->first_line = 3;" if kind == "locations" else ""))
    rc, err = flex(wd, text, [])
    if rc:
        return ["flex fails (bison %s): %s" % (kind, err[:200])]
    rc, e = cc(wd, ["p.c"])
    if rc:
        return ["%%option bison-%s: yylex does not take the documented parameters: %s" % ("locations" if kind == "locations" else "bridge", (e.strip().splitlines() or ["?"])[0][:220])]
    rc, o, e2 = run([os.path.join(wd, "p.exe")], cwd=wd, timeout=20)
    return [] if o.strip() == b"1" else ["bison-%s scanner printed '%s'" % (kind, o.strip().decode())]


def p_contradictions(wd, _):
    probs = []
    for args, opts, what in [(["-Cf", "-I"], "", "-Cf with -I"), (["-+"], "reentrant", "C++ with reentrant"), (["-Cf", "-CF"], "", "-Cf with -CF"),
                             (["-+"], "bison-bridge", "C++ with bison-bridge")]:
        rc, err = flex(wd, spec(opts), args, name="c")
        if rc == 0 or not err.strip():
            probs.append("contradictory options %s: flex exits %s with message '%s'" % (what, rc, err.strip()[:80]))
    # overridden with a warning
    rc, err = flex(wd, spec("array"), ["-+"], name="c2")
    if rc != 0 or "warning" not in err:
        probs.append("%%array with C++: expected a warning and a scanner, got rc=%s '%s'" % (rc, err.strip()[:100]))
    return probs


def _same(a, b, what):
    if a != b:
        la, lb = a.split(b"\n"), b.split(b"\n")
        k = next((i for i in range(min(len(la), len(lb))) if la[i] != lb[i]), min(len(la), len(lb)))
        return ["%s: line %d: %r vs %r" % (what, k + 1, la[k][:80] if k < len(la) else b"", lb[k][:80] if k < len(lb) else b"")]
    return []


def p_directives(wd, which):
    """spellings outside %option and the command line: the lex-style directives %array / %pointer, the table-size
    declarations of AT&T lex (%e 1000 ... : accepted and ignored), the default output name (lex.yy.c, lex.<prefix>.c,
    lex.yy.cc), the program name flex++ (= -+), and outfile / header-file given as %option"""
    base = "%option noyywrap nounput noinput"
    if which in ("array", "pointer"):
        # line 2 is '%option <which>' in one file and the bare directive in the other: the same scanner, byte for byte
        t1 = spec().replace(base, base + "\n%option " + which)
        t2 = spec().replace(base, base + "\n%" + which)
        rc1, e1 = flex(wd, t1, [], name="o")
        rc2, e2 = flex(wd, t2, [], name="c")
        if rc1 != 0 or rc2 != 0:
            return ["%%option %s exits %s, the directive %%%s exits %s (%s)" % (which, rc1, which, rc2, (e1 + e2).strip()[:120])]
        a = open(os.path.join(wd, "o.c"), "rb").read().replace(b"o.c", b"X.c").replace(b"o.l", b"X.l")
        b = open(os.path.join(wd, "c.c"), "rb").read().replace(b"c.c", b"X.c").replace(b"c.l", b"X.l")
        return _same(a, b, "%%option %s and the directive %%%s generate different scanners" % (which, which))
    if which == "lex-sizes":
        t1 = spec().replace(base, base + "\n" + "\n".join(["%option noyywrap"] * 6))
        t2 = spec().replace(base, base + "\n%e 1000\n%p 2500\n%n 500\n%k 100\n%a 3000\n%o 4000")
        rc1, e1 = flex(wd, t1, [], name="o")
        rc2, e2 = flex(wd, t2, [], name="c")
        if rc1 != 0 or rc2 != 0:
            return ["table-size declarations of AT&T lex are not accepted: exit %s / %s (%s)" % (rc1, rc2, (e1 + e2).strip()[:120])]
        a = open(os.path.join(wd, "o.c"), "rb").read().replace(b"o.c", b"X.c").replace(b"o.l", b"X.l")
        b = open(os.path.join(wd, "c.c"), "rb").read().replace(b"c.c", b"X.c").replace(b"c.l", b"X.l")
        return _same(a, b, "%e/%p/%n/%k/%a/%o lines change the scanner")
    if which.startswith("default-name"):
        # no -o: lex.yy.c (C), lex.<prefix>.c with a prefix, lex.yy.cc for C++
        args, want, opts = {"default-name": ([], "lex.yy.c", ""), "default-name-prefix": (["-Pzz"], "lex.zz.c", ""),
                            "default-name-prefix-opt": ([], "lex.qq.c", 'prefix="qq"'),
                            "default-name-cxx": (["-+"], "lex.yy.cc", "")}[which]
        with open(os.path.join(wd, "p.l"), "w") as f:
            f.write(spec(opts))
        rc, out, err = run([_FLEX] + args + ["p.l"], cwd=wd, timeout=60)
        if rc != 0:
            return ["flex %s p.l exits %s: %s" % (" ".join(args), rc, err.decode(errors="replace")[:120])]
        made = sorted(f for f in os.listdir(wd) if f != "p.l")
        if made != [want]:
            return ["flex %s p.l (no -o) wrote %s, the manual names %s" % (" ".join(args), made, want)]
        rc, out, err = run([_FLEX] + args + ["-o", "n.out", "p.l"], cwd=wd, timeout=60)
        a = open(os.path.join(wd, want), "rb").read().replace(want.encode(), b"X")
        b = open(os.path.join(wd, "n.out"), "rb").read().replace(b"n.out", b"X")
        return _same(a, b, "the scanner written under the default name differs from the one written with -o")
    if which == "flex++":
        os.symlink(_FLEX, os.path.join(wd, "flex++"))
        with open(os.path.join(wd, "p.l"), "w") as f:
            f.write(spec())
        rc1, o1, e1 = run([os.path.join(wd, "flex++"), "-o", "a.cc", "p.l"], cwd=wd, timeout=60)
        rc2, o2, e2 = run([_FLEX, "-+", "-o", "b.cc", "p.l"], cwd=wd, timeout=60)
        if rc1 != 0 or rc2 != 0:
            return ["flex++ exits %s, flex -+ exits %s (%s)" % (rc1, rc2, (e1 + e2).decode(errors="replace")[:120])]
        a = open(os.path.join(wd, "a.cc"), "rb").read().replace(b"a.cc", b"X")
        b = open(os.path.join(wd, "b.cc"), "rb").read().replace(b"b.cc", b"X")
        return _same(a, b, "invoked as flex++ the program does not behave as flex -+")
    if which == "outfile-opt":
        with open(os.path.join(wd, "p.l"), "w") as f:
            f.write(spec('outfile="named.c" header-file="named.h"'))
        with open(os.path.join(wd, "q.l"), "w") as f:
            f.write(spec() .replace(base, base + " " * len(' outfile="named.c" header-file="named.h"')))
        rc1, o1, e1 = run([_FLEX, "p.l"], cwd=wd, timeout=60)
        if rc1 != 0:
            return ["%%option outfile= header-file= : exit %s %s" % (rc1, e1.decode(errors="replace")[:120])]
        made = sorted(f for f in os.listdir(wd) if f not in ("p.l", "q.l"))
        if made != ["named.c", "named.h"]:
            return ["%%option outfile=\"named.c\" header-file=\"named.h\" wrote %s" % made]
        os.makedirs(os.path.join(wd, "cli"))
        rc2, o2, e2 = run([_FLEX, "-o", "named.c", "--header-file=named.h", "../q.l"], cwd=os.path.join(wd, "cli"), timeout=60)
        if rc2 != 0:
            return ["-o named.c --header-file=named.h: exit %s" % rc2]
        probs = []
        for fn in ("named.c", "named.h"):
            a = open(os.path.join(wd, fn), "rb").read().replace(b"p.l", b"X.l")
            b = open(os.path.join(wd, "cli", fn), "rb").read().replace(b"../q.l", b"X.l")
            probs += _same(a, b, "%s written through %%option differs from the one written through the command line" % fn)
        return probs
    return ["harness-error unknown directive probe " + which]


def p_debug(wd, arg):
    """-d / %option debug: for every token the scanner writes '--accepting rule at line N ("text")' to stderr, N being the line
    of the rule in the specification (the manual, section on -d), '--accepting default rule' for unmatched text and
    '--EOF (start condition k)' at the end; yyset_debug(0) / yy_flex_debug = 0 silence it"""
    backend, how, blanks = arg
    lines = ["%option noyywrap nounput noinput" + (" reentrant" if backend == "r" else "") + (" debug" if how == "opt" else "")]
    lines += ["%x COM"]
    lines += [""] * blanks
    lines += ["%%"]
    rules = [("ab", "{ }"), ("[0-9]+", "|"), ("x+", "{ }"), ('"/*"', "{ yybegin(COM); }"), ("<COM>\"*/\"", "{ yybegin(INITIAL); }"),
             ("<COM>.|\\n", "{ }"), ("q", "{ if (yyleng == 1) { %s } }" % ("yyset_debug(0, yyscanner);" if backend == "r" else "yyset_debug(0);"))]
    where = {}
    for i, (pat, act) in enumerate(rules):
        for _ in range((i * 7 + blanks) % 3):
            lines.append("")
        lines.append("%s\t%s" % (pat, act))
        where[i] = len(lines)
    lines.append("%%")
    data = "ab12xx?/*a*/abqab"
    if backend == "r":
        lines.append('int main(void) { yyscan_t s; yylex_init(&s); yyset_debug(1, s); yy_scan_string("%s", s); yylex(s); yylex_destroy(s); return 0; }' % data)
    else:
        lines.append('int main(void) { yy_scan_string("%s"); yylex(); return 0; }' % data)
    # (a reentrant scanner starts with tracing off - yylex_init clears the flag - and is switched on with yyset_debug)
    text = "\n".join(lines) + "\n"
    rc, err = flex(wd, text, ["-d"] if how == "cli" else [])
    if rc != 0:
        return ["flex exits %s: %s" % (rc, err[:200])]
    rc, e = cc(wd, ["p.c"])
    if rc != 0:
        return ["the debug scanner does not compile: " + e[:300]]
    rc, out, err = run([os.path.join(wd, "p.exe")], cwd=wd, timeout=20)
    got = [l for l in err.decode(errors="replace").splitlines() if l.startswith("--") and "end of buffer" not in l]
    want = ['--accepting rule at line %d ("ab")' % where[0], '--accepting rule at line %d ("12")' % where[1],
            '--accepting rule at line %d ("xx")' % where[2], '--accepting default rule ("?")',
            '--accepting rule at line %d ("/*")' % where[3], '--accepting rule at line %d ("a")' % where[5],
            '--accepting rule at line %d ("*/")' % where[4], '--accepting rule at line %d ("ab")' % where[0],
            '--accepting rule at line %d ("q")' % where[6]]
    # (after yyset_debug(0) in the action of q nothing more is traced)
    if got != want:
        k = next((i for i in range(min(len(got), len(want))) if got[i] != want[i]), min(len(got), len(want)))
        return ["debug trace line %d: scanner wrote %r, the manual's form is %r" % (k + 1, got[k] if k < len(got) else None, want[k] if k < len(want) else None)]
    if out.decode(errors="replace") != "?":
        return ["the debug scanner's output is %r, only the unmatched '?' is to be echoed" % out.decode(errors="replace")[:60]]
    return []


def p_cli_vs_option_arg(wd, arg):
    """options that take a value: the same scanner (and header), byte for byte, from the command line and from %option"""
    name, value, need, cli = arg
    t_opt = spec((need + " " + (name + ('="%s"' % value if value is not None else ""))).strip())
    t_cli = spec(need)
    outs = []
    for tag, text, args in (("o", t_opt, []), ("c", t_cli, cli)):
        d = os.path.join(wd, tag)
        os.makedirs(d)
        with open(os.path.join(d, "p.l"), "w") as f:
            f.write(text)
        rc, out, err = run([_FLEX] + args + ["-o", "p.out", "p.l"], cwd=d, timeout=60)
        if rc != 0:
            outs.append((rc, err.decode(errors="replace")[:150], {}))
            continue
        files = {}
        for fn in sorted(os.listdir(d)):
            if fn != "p.l":
                files[fn] = open(os.path.join(d, fn), "rb").read()
        outs.append((0, "", files))
    (rc1, e1, f1), (rc2, e2, f2) = outs
    if rc1 != rc2:
        return ["%%option %s exits %s, %s exits %s (%s | %s)" % (name, rc1, " ".join(cli), rc2, e1, e2)]
    if rc1 != 0:
        return []
    if sorted(f1) != sorted(f2):
        return ["%%option %s writes %s, %s writes %s" % (name, sorted(f1), " ".join(cli), sorted(f2))]
    probs = []
    for fn in f1:
        probs += _same(f1[fn], f2[fn], "%s: %%option %s and %s generate different files" % (fn, name, " ".join(cli)))
    return probs


def p_define(wd, _):
    """-Dmacro[=defn]: '#define macro defn' (defn is 1 when not given) reaches the scanner"""
    text = spec(top="%{\n#include <stdio.h>\n%}", sect3='int main(void) {\n#if defined(FOO) && defined(BAR)\n printf("%d %d\\n", FOO, BAR);\n#else\n printf("undefined\\n");\n#endif\n return 0; }')
    rc, err = flex(wd, text, ["-DFOO=42", "-DBAR"])
    if rc != 0:
        return ["flex -DFOO=42 -DBAR exits %s: %s" % (rc, err[:150])]
    rc, e = cc(wd, ["p.c"])
    if rc != 0:
        return ["the scanner generated with -D does not compile: " + e[:200]]
    rc, out, err = run([os.path.join(wd, "p.exe")], cwd=wd, timeout=20)
    if out.decode(errors="replace").strip() != "42 1":
        return ["-DFOO=42 -DBAR: the scanner sees %r, the manual says FOO is 42 and BAR is 1" % out.decode(errors="replace").strip()[:60]]
    return []


def p_macro_splices(wd, backend):
    """the classic spellings of the splices: YY_DECL, YY_USER_ACTION and YY_USER_INIT defined as macros in the definitions section"""
    re_opt = "reentrant" if backend == 'r' else ""
    arg = "yyscan_t yyscanner" if backend == 'r' else "void"
    call = "mylex(s)" if backend == 'r' else "mylex()"
    text = spec(re_opt, "%%{\nint g_pre, g_init;\n#define YY_DECL int mylex(%s)\n#define YY_USER_ACTION g_pre++;\n#define YY_USER_INIT g_init++;\n%%}" % arg,
                "#include <stdio.h>\nint main(void) { int a, b, c; " + ("yyscan_t s; yylex_init(&s); yy_scan_string(\"aab\", s);" if backend == 'r' else "yy_scan_string(\"aab\");") +
                " a = %s; b = %s; c = %s; printf(\"%%d %%d %%d pre=%%d init=%%d\\n\", a, b, c, g_pre, g_init); return 0; }" % (call, call, call))
    rc, err = flex(wd, text, [])
    if rc:
        return ["flex fails: " + err[:200]]
    rc, e = cc(wd, ["p.c"])
    if rc:
        return ["a scanner defining YY_DECL / YY_USER_ACTION / YY_USER_INIT (%s) does not compile: %s" % (backend, (e.strip().splitlines() or ["?"])[0][:200])]
    rc, o, e2 = run([os.path.join(wd, "p.exe")], cwd=wd, timeout=20)
    want = b"1 2 0 pre=2 init=1"
    return [] if o.strip() == want else ["YY_DECL / YY_USER_ACTION / YY_USER_INIT macros (%s): expected '%s', scanner printed '%s'" % (backend, want.decode(), o.strip().decode())]


def p_init_extra(wd, _):
    """yylex_init_extra: the user value is the scanner's yyextra from the start - yyalloc already sees it while the scanner is created"""
    text = spec('reentrant noyyalloc extra-type="struct ctx *"',
                "%top{\n#include <stdio.h>\n#include <stdlib.h>\nstruct ctx { int v; int seen; };\n}",
                "void *yyalloc(yy_size_t n, yyscan_t s) { struct ctx *c = yyget_extra(s); if (c && c->v == 77) c->seen++; return malloc(n); }\n"
                "int main(void) { struct ctx c = { 77, 0 }; yyscan_t s; if (yylex_init_extra(&c, &s)) return 3;\n"
                " printf(\"%d %d\\n\", yyget_extra(s) == &c, c.seen > 0); yy_scan_string(\"ab\", s); while (yylex(s)) ; yylex_destroy(s); return 0; }")
    rc, err = flex(wd, text, [])
    if rc:
        return ["flex fails: " + err[:200]]
    rc, e = cc(wd, ["p.c"])
    if rc:
        return ["the yylex_init_extra scanner does not compile: " + (e.strip().splitlines() or ["?"])[0][:200]]
    rc, o, e2 = run([os.path.join(wd, "p.exe")], cwd=wd, timeout=20)
    return [] if o.strip() == b"1 1" else ["yylex_init_extra: yyget_extra() == user value and yyalloc saw it: expected '1 1', got '%s' (rc %s)" % (o.strip().decode(), rc)]


def p_output_stream(wd, backend):
    """unmatched text is copied to yyout (C: after yyout / yyset_out is pointed elsewhere; C++: the ostream given to the constructor,
    and the one given to switch_streams) - nothing else, nothing lost"""
    base = "%option noyywrap nounput noinput"
    if backend == 'cxx':
        text = (base + " c++\n%{\n#include <iostream>\n#include <sstream>\n%}\n%%\na+   { return 1; }\n%%\n"
                "int main() { std::istringstream in(\"xaay\\nz\"), in2(\"qaar\"); std::ostringstream out, out2; yyFlexLexer l(&in, &out);\n"
                " while (l.yylex()) ; l.switch_streams(&in2, &out2); while (l.yylex()) ;\n"
                " std::cout << out.str() << \"|\" << out2.str() << \"|\"; return 0; }\n")
        with open(os.path.join(wd, "p.l"), "w") as f:
            f.write(text)
        rc, out, err = run([_FLEX, "-o", "p.cc", "p.l"], cwd=wd, timeout=60)
        if rc:
            return ["flex fails: " + err.decode(errors="replace")[:200]]
        rc, o, e = run(["g++", "-w", "-I" + os.path.dirname(_FLEX), "-o", "p.exe", "p.cc"], cwd=wd, timeout=120)
        if rc:
            return ["the C++ scanner does not compile: " + (e.decode(errors="replace").strip().splitlines() or ["?"])[0][:200]]
        rc, o, e2 = run([os.path.join(wd, "p.exe")], cwd=wd, timeout=20)
        want = b"xy\nz|qr|"
    else:
        re_ = backend == 'r'
        setout = "yyset_out(f, s);" if re_ else ("yyout = f;" if backend == 'nr' else "yyset_out(f);")
        text = spec("reentrant" if re_ else "", "%{\n#include <stdio.h>\n%}",
                    "int main(void) { FILE *f = tmpfile(); int c; " + ("yyscan_t s; yylex_init(&s); " if re_ else "") + setout +
                    (" yy_scan_string(\"xaay\\nzb\", s); while (yylex(s)) ; yylex_destroy(s);" if re_ else " yy_scan_string(\"xaay\\nzb\"); while (yylex()) ;") +
                    " fflush(f); rewind(f); while ((c = getc(f)) != EOF) putchar(c); putchar('|'); return 0; }")
        # the probe rules swallow everything: replace the catch-all by nothing so that unmatched text is echoed
        text = text.replace(".|\\n { }\n", "")
        rc, err = flex(wd, text, [])
        if rc:
            return ["flex fails: " + err[:200]]
        rc, e = cc(wd, ["p.c"])
        if rc:
            return ["the scanner does not compile: " + (e.strip().splitlines() or ["?"])[0][:200]]
        rc, o, e2 = run([os.path.join(wd, "p.exe")], cwd=wd, timeout=20)
        want = b"xy\nz|"
    return [] if o == want else ["unmatched text copied to the output stream (%s): expected %r, got %r" % (backend, want, o[:60])]


def p_accessors(wd, backend):
    """the accessor functions seen from outside yylex: after a token has been returned yyget_text / yyget_leng give that token,
    yyget_lineno counts, and every yyset_* is read back by its yyget_* (the FILE pointers included)"""
    r = backend in ('r', 'c99')
    S = ", s" if r else ""
    S1 = "s" if r else ""
    opts = {"nr": "yylineno", "r": "reentrant yylineno", "c99": 'emit="c99" yylineno'}[backend]
    body = ["#include <stdio.h>", "#include <string.h>", "int main(void) { int bad = 0; FILE *f1 = tmpfile(), *f2 = tmpfile();"]
    if r:
        body.append(" yyscan_t s; if (yylex_init(&s)) return 3;")
    body.append(' yy_scan_string("aab\\nb"' + S + ");")
    body.append(" if (yylex(%s) != 1) bad |= 1;" % S1)
    body.append(' if (yyget_leng(%s) != 2 || strcmp(yyget_text(%s), "aa") != 0) bad |= 2;' % (S1, S1))
    body.append(" if (yylex(%s) != 2 || yyget_leng(%s) != 1) bad |= 4;" % (S1, S1))
    body.append(" if (yyget_lineno(%s) != 1) bad |= 8;" % S1)
    body.append(" if (yylex(%s) != 2 || yyget_lineno(%s) != 2) bad |= 16;" % (S1, S1))
    body.append(" yyset_lineno(41%s); if (yyget_lineno(%s) != 41) bad |= 32;" % (S, S1))
    body.append(" yyset_in(f1%s); yyset_out(f2%s); if (yyget_in(%s) != f1 || yyget_out(%s) != f2) bad |= 64;" % (S, S, S1, S1))
    body.append(" yyset_debug(1%s); if (yyget_debug(%s) != 1) bad |= 128; yyset_debug(0%s); if (yyget_debug(%s) != 0) bad |= 128;" % (S, S1, S, S1))
    if backend == 'r':
        body.append(" yyset_column(17, s); if (yyget_column(s) != 17) bad |= 256; if (yyget_lineno(s) != 41) bad |= 512;")
        body.append(" yyset_extra((void *) f1, s); if (yyget_extra(s) != (void *) f1) bad |= 1024;")
    body.append(' printf("%d\\n", bad); return 0; }')
    text = spec(opts, "", "\n".join(body))
    rc, err = flex(wd, text, [])
    if rc:
        return ["flex fails: " + err[:200]]
    rc, e = cc(wd, ["p.c"])
    if rc:
        return ["the accessor probe (%s) does not compile: %s" % (backend, (e.strip().splitlines() or ["?"])[0][:200])]
    rc, o, e2 = run([os.path.join(wd, "p.exe")], cwd=wd, timeout=20)
    return [] if o.strip() == b"0" else ["accessor functions (%s): checks failed, bit mask %s (1 first token, 2 yyget_text/yyget_leng, 4 second token, "
                                        "8/16 yyget_lineno, 32 yyset_lineno, 64 yyset_in/out, 128 yyset_debug, 256 yyset_column, 512 column/lineno mixed, "
                                        "1024 yyset_extra), rc %s" % (backend, o.strip().decode(errors="replace"), rc)]


def p_cxx_buffers(wd, _):
    """the manual's include example in C++: yypush_buffer_state(yy_create_buffer(stream, size)) in an action, yypop_buffer_state()
    at <<EOF>>; the lexer constructed from stream references; YY_FLUSH_BUFFER-free"""
    text = r"""%option noyywrap nounput noinput c++
%{
#include <iostream>
#include <sstream>
#include <string>
static std::istringstream inc1("one @2 uno"), inc2("two");
static int depth = 0;
%}
%%
"@1"     { depth++; yypush_buffer_state(yy_create_buffer(&inc1, 16)); }
"@2"     { depth++; yypush_buffer_state(yy_create_buffer(inc2, 4)); }
[a-z]+   { std::cout << "<" << yytext << ">"; }
[ \n]    { }
<<EOF>>  { if (depth == 0) yyterminate(); depth--; yypop_buffer_state(); }
%%
int main() { std::istringstream in("a @1 b"); yyFlexLexer l(in, std::cout); l.yylex(); std::cout << "|"; return 0; }
"""
    with open(os.path.join(wd, "p.l"), "w") as f:
        f.write(text)
    rc, out, err = run([_FLEX, "-o", "p.cc", "p.l"], cwd=wd, timeout=60)
    if rc:
        return ["flex fails: " + err.decode(errors="replace")[:200]]
    rc, o, e = run(["g++", "-w", "-I" + os.path.dirname(_FLEX), "-o", "p.exe", "p.cc"], cwd=wd, timeout=120)
    if rc:
        return ["the C++ include scanner does not compile: " + (e.decode(errors="replace").strip().splitlines() or ["?"])[0][:200]]
    rc, o, e2 = run([os.path.join(wd, "p.exe")], cwd=wd, timeout=20)
    want = b"<a><one><two><uno><b>|"
    return [] if o == want else ["C++ buffer stack (yypush_buffer_state / yypop_buffer_state / yy_create_buffer with a stream pointer and a stream "
                                 "reference, lexer built from stream references): expected %r, got %r (rc %s)" % (want, o[:80], rc)]


def p_cli_vs_option(wd, arg):
    """the same scanner, byte for byte, from --name and from %option name"""
    name, need = arg
    # the %option line exists in both files so that the line numbers agree
    t_opt = spec((need + " " + name).strip())
    t_cli = spec(need).replace("%option noyywrap nounput noinput" + ((" " + need) if need else ""),
                              "%option noyywrap nounput noinput" + ((" " + need) if need else "") + " " * (len(name) + 1))
    rc1, e1 = flex(wd, t_opt, [], name="o")
    rc2, e2 = flex(wd, t_cli, ["--" + name], name="c")
    if rc1 != rc2:
        return ["%%option %s exits %s but --%s exits %s (%s | %s)" % (name, rc1, name, rc2, e1.strip()[:80], e2.strip()[:80])]
    if rc1 != 0:
        return []
    a = open(os.path.join(wd, "o.c"), "rb").read().replace(b"o.c", b"X.c").replace(b"o.l", b"X.l")
    b = open(os.path.join(wd, "c.c"), "rb").read().replace(b"c.c", b"X.c").replace(b"c.l", b"X.l")
    if a != b:
        la, lb = a.split(b"\n"), b.split(b"\n")
        k = next((i for i in range(min(len(la), len(lb))) if la[i] != lb[i]), min(len(la), len(lb)))
        return ["--%s and %%option %s generate different scanners: line %d: %r vs %r" % (name, name, k + 1, lb[k][:80] if k < len(lb) else b"", la[k][:80] if k < len(la) else b"")]
    return []


def p_cli_vs_option_base(wd, name):
    """the same comparison for the options the probe file normally sets itself: each is given alone"""
    base = "%option noyywrap nounput noinput"
    keep = "" if name in ("noyywrap", "yywrap") else "noyywrap"       # nothing else: a leak into a sibling option must show
    t_opt = spec().replace(base, ("%option " + keep + " " + name).replace("  ", " "))
    t_cli = spec().replace(base, ("%option " + keep).rstrip() + " " * (len(name) + 1))
    rc1, e1 = flex(wd, t_opt, [], name="o")
    rc2, e2 = flex(wd, t_cli, ["--" + name], name="c")
    if rc1 != rc2:
        return ["%%option %s exits %s but --%s exits %s (%s | %s)" % (name, rc1, name, rc2, e1.strip()[:80], e2.strip()[:80])]
    if rc1 != 0:
        return []
    a = open(os.path.join(wd, "o.c"), "rb").read().replace(b"o.c", b"X.c").replace(b"o.l", b"X.l")
    b = open(os.path.join(wd, "c.c"), "rb").read().replace(b"c.c", b"X.c").replace(b"c.l", b"X.l")
    if a != b:
        la, lb = a.split(b"\n"), b.split(b"\n")
        k = next((i for i in range(min(len(la), len(lb))) if la[i] != lb[i]), min(len(la), len(lb)))
        return ["--%s and %%option %s generate different scanners: line %d: %r vs %r" % (name, name, k + 1, lb[k][:80] if k < len(lb) else b"", la[k][:80] if k < len(la) else b"")]
    return []


PROBES = [("nodefault", p_nodefault, [(b, h) for b in ("nr", "r", "c99", "cxx") for h in ("opt", "cli")]),
          ("main", p_main, ["opt", "cli"]), ("extra-type", p_extra_type, ["r", "c99"]), ("noyypanic", p_noyypanic, ["nr", "r"]),
          ("lex-compat", p_lex_compat, ["opt", "cli"]), ("prefix", p_prefix, [("nr", ""), ("r", ""), ("r", "bison-bridge"), ("r", "bison-bridge bison-locations"), ("nr", "stack yylineno"),
                                                                       ("r", "stack yylineno"), ("nr", "array"), ("r", "tables-file=\"zz.tbl\""), ("nr", "tables-file=\"zz.tbl\"")]), ("yylmax", p_yylmax, [None]), ("bufsize", p_bufsize, [None]),
          ("splices", p_splices, ["nr", "r"]), ("post-action", p_post_action, [None]), ("user-routines", p_user_routines, ["nr", "r", "c99"]),
          ("header-file", p_header, ["nr", "r"]), ("bison", p_bison, ["bridge", "locations"]), ("contradictions", p_contradictions, [None]),
          ("debug-trace", p_debug, [(b, h, n) for b in ("nr", "r") for h in ("opt", "cli") for n in (0, 2)]),
          ("valued-options", p_cli_vs_option_arg, [("bison-locations", None, "reentrant bison-bridge", ["--bison-locations"]),
                                                   ("emit", "c99", "", ["--emit=c99"]), ("emit", "c99", "", ["-e", "c99"]),
                                                   ("yyclass", "Foo", "c++", ["--yyclass=Foo"]),
                                                   ("prefix", "zz", "", ["--prefix=zz"]), ("prefix", "zz", "", ["-Pzz"]),
                                                   ("tables-file", "t.tbl", "", ["--tables-file=t.tbl"]),
                                                   ("header-file", "h.h", "", ["--header-file=h.h"])]),
          ("define", p_define, [None]), ("macro-splices", p_macro_splices, ["nr", "r"]), ("init-extra", p_init_extra, [None]),
          ("output-stream", p_output_stream, ["nr", "nr2", "r", "cxx"]),
          ("accessors", p_accessors, ["nr", "r", "c99"]), ("cxx-buffers", p_cxx_buffers, [None]),
          ("directives", p_directives, ["array", "pointer", "lex-sizes", "default-name", "default-name-prefix", "default-name-prefix-opt",
                                        "default-name-cxx", "flex++", "outfile-opt"])]


def _dispatch(job):
    idx, name, fn_name, arg = job
    wd = os.path.join(_ROOT, "p%d" % idx)
    os.makedirs(wd, exist_ok=True)
    try:
        fn = globals()[fn_name]
        probs = fn(wd, arg)
    except Exception as ex:
        import traceback
        probs = ["harness-error " + repr(ex) + traceback.format_exc()[-300:]]
    spec_text = ""
    try:
        with open(os.path.join(wd, "p.l")) as f:
            spec_text = f.read()
    except OSError:
        pass
    shutil.rmtree(wd, ignore_errors=True)
    return {'name': name, 'arg': arg, 'problems': probs, 'spec': spec_text}


# which probe demonstrates a symbol that the skeleton tests but nothing defines
SYMBOL_PROBE = {"M4_YY_MAIN": "main", "M4_EXTRA_TYPE_DEFS": "extra-type", "M4_MODE_EXTRA_TYPE": "extra-type", "M4_MODE_YY_NO_YYPANIC": "noyypanic",
                "M4_YY_NO_YYPANIC": "noyypanic", "M4_MODE_LEX_COMPAT": "lex-compat"}


def main(tier):
    global _FLEX, _ROOT
    ck = Check(PROP, tier)
    facts = gen_options.generate()
    undefined = sorted(k for k in facts['tested'] if k not in facts['defined'])
    differing = [n for n in facts['common'] if facts['cli'][n] != facts['opt'][n]]
    # the finite facts, re-proved by the kernel on the regenerated tables
    import common
    bad = common.coq_scan_forbidden()
    if bad:
        ck.violation("forbidden-construct", "forbidden construct in the development: " + "; ".join(bad[:5]), {"found": bad}, no_input=True)
    ok, log = common.coq_make(["Properties_C19.vo"])
    details = {}
    nob, ngood = 3, 0
    if ok:
        ok2, ass = common.coq_assumptions("Properties_C19.v")
        if ok2:
            nob = len(ass)
            ngood = sum(1 for v in ass.values() if v.startswith("Closed under the global context"))
            details = {k: ("closed" if v.startswith("Closed") else v[:100]) for k, v in ass.items()}
    assumptions = ["the finite theorems are about tables extracted from the source by regular expressions (harness/gen_options.py, in the trusted base)",
                   "the effect probes cover the options named in the property; options whose effect is a table representation are C02's",
                   "c++ specific options (yyclass) are probed only for being accepted / refused"]
    with Scratch("c19") as scratch:
        _FLEX = build_flex(scratch)
        _ROOT = scratch.sub("cases")
        jobs = []
        idx = 0
        for name, fn, args in PROBES:
            for a in args:
                jobs.append((idx, name, fn.__name__, a))
                idx += 1
        for opt in sorted(NOYY):
            for how in ("opt", "cli"):
                jobs.append((idx, "noyy:" + opt, "p_noyy", (opt, how)))
                idx += 1
        # both spellings, byte for byte, for every option that has both in the source
        t = open(os.path.join(os.path.dirname(os.path.dirname(_FLEX)), "src", "options.c"), errors="replace").read()
        cli_names = set(m.group(1) for m in re.finditer(r'"--([A-Za-z0-9_+-]+)"', t))
        kws = set(facts['opt'].keys())
        needs = {"noyyget_extra": "reentrant", "noyyset_extra": "reentrant", "noyyget_column": "reentrant", "noyyset_column": "reentrant",
                 "noyyget_lval": "reentrant bison-bridge", "noyyset_lval": "reentrant bison-bridge", "noyyget_lloc": "reentrant bison-bridge bison-locations",
                 "noyyset_lloc": "reentrant bison-bridge bison-locations", "bison-bridge": "reentrant", "noyy_push_state": "stack",
                 "noyy_pop_state": "stack", "noyy_top_state": "stack"}
        # (not compared: options that write elsewhere or only talk, and the three the probe file itself sets)
        both = sorted(n for n in (cli_names & kws) if n not in ("stdout", "backup", "verbose", "nowarn", "warn", "yywrap", "noyywrap", "nounput",
                                                                  "noinput", "noyyunput", "noyyinput"))
        for n in both:
            jobs.append((idx, "both:" + n, "p_cli_vs_option", (n, needs.get(n, ""))))
            idx += 1
        for n in ("nounput", "noinput", "noyyunput", "noyyinput", "noyywrap", "yywrap"):
            if n in cli_names:
                jobs.append((idx, "both:" + n, "p_cli_vs_option_base", n))
                idx += 1
        for extra in ["always-interactive", "never-interactive", "interactive", "batch", "full", "fast", "read", "main", "nomain", "perf-report", "case-insensitive"]:
            if extra in cli_names:
                jobs.append((idx, "both:" + extra, "p_cli_vs_option", (extra, "")))
                idx += 1
        results = parallel_map(_dispatch, jobs)
    failing_probes = {}
    for r in results:
        for p in r['problems']:
            failing_probes.setdefault(r['name'], []).append(p)
            key = "option:%s:%s" % (r['name'], re.sub(r"[^a-zA-Z]+", "-", p)[:50])
            ck.violation(key, "[%s %s] %s" % (r['name'], r['arg'], p), {'spec': r['spec'], 'probe': r['name'], 'arg': r['arg'],
                         'how': "harness/props/c19.py probe %s: flex the specification, compile, inspect symbols / run" % r['name']},
                         no_input=p.startswith("harness-error"))
    if not ok or ngood < nob:
        # name the symbols; the failing input is the probe of the option behind the symbol when there is one
        for s in undefined:
            pr = SYMBOL_PROBE.get(s)
            if pr and pr in failing_probes:
                continue        # already reported with a concrete scanner
            ck.violation("symbol-never-defined:" + s, "theorem C19_every_tested_symbol_can_be_defined no longer checks: %s tests m4 symbol %s which nothing defines" % (
                ", ".join(facts['tested'][s]), s), {'theorem': 'C19_every_tested_symbol_can_be_defined', 'symbol': s, 'tested_in': facts['tested'][s]}, no_input=True)
        for n in differing:
            ck.violation("spelling-differs:" + n, "theorem C19_cli_and_option_spelling_agree no longer checks: --%s sets %s, %%option %s sets %s" % (
                n, facts['cli'][n], n, facts['opt'][n]), {'theorem': 'C19_cli_and_option_spelling_agree', 'option': n}, no_input=True)
        if not undefined and not differing:
            ck.violation("obligation:Properties_C19.v", "proof obligation no longer checks", {'theorem': 'Properties_C19.v', 'log': log[-2000:]}, no_input=True)
    cov = {"level": "proof", "obligations": nob, "discharged": ngood, "theorems": details,
           "checker_cmd": "harness/gen_options.py (regenerates coq/OptionFacts.v from /repo/src); make -C coq Properties_C19.vo",
           "trusted_base": ["Coq 8.16.1 kernel (vm_compute)", "harness/gen_options.py (regular expressions over options.c, main.c, scan.l, *.skl)", "gcc, nm"],
           "evaluations": len(results), "distinct_nontrivial": len(results),
           "tested_symbols": len(facts['tested']), "defined_symbols": len(facts['defined']), "simple_options_compared": len(facts['common']),
           "probes": sorted(set(r['name'] for r in results)),
           "rule": "finite facts proved on tables regenerated from the source (every m4 symbol tested by a skeleton can be defined; 63 options that "
                   "are one assignment agree between the two spellings); effect probes for main, extra-type, noyypanic, lex-compat, prefix (nm), "
                   "20 noyy* options (nm, both spellings, with control), yylmax, bufsize, yydecl/yyterminate/pre-action/post-action/user-init, "
                   "noyyread, noyyalloc/noyyrealloc/noyyfree, header-file (a program built from the header alone), bison-bridge/locations, "
                   "contradictory combinations; every option with both spellings must give byte-identical scanners; non-trivial = every probe"}
    return ck.finish(cov, assumptions=assumptions)


replay = engine.std_replay
