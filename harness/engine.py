"""Common engine of the tokenisation checks: proof obligations, parallel case
evaluation, confirmation of disagreements on the real binary, shrinking,
verdicts and evidence."""
import hashlib
import json
import os
import re
import sys
import time

import patgen
import rulesets
import scanner
import tokcase
from common import (Check, Rng, Scratch, BuildError, build_flex, coq_make, coq_assumptions, coq_scan_forbidden,
                    run, parallel_map, VERIF, COQ, DRIVER, EXTRACT, NCPU)

ALLOWED_AXIOMS = {
    # axioms the standard library itself declares; named in DESIGN.md section 8
    "functional_extensionality_dep", "proof_irrelevance", "classic", "JMeq_eq", "eq_rect_eq",
    "propositional_extensionality",
}


def ensure_built():
    """Make sure the Coq development and the extracted driver are built and current."""
    need = not os.path.exists(DRIVER)
    if not need:
        dt = os.path.getmtime(DRIVER)
        for fn in os.listdir(COQ):
            if fn.endswith(".v") and os.path.getmtime(os.path.join(COQ, fn)) > dt:
                need = True
        if os.path.getmtime(os.path.join(EXTRACT, "driver.ml")) > dt:
            need = True
    if need:
        rc, out, err = run([os.path.join(VERIF, "bin", "setup")], timeout=3600)
        if rc != 0:
            sys.stderr.write(out.decode(errors="replace")[-3000:] + err.decode(errors="replace")[-3000:])
            return False
    return True


def obligations(ck, props_file, extra_targets=None):
    """Re-check the property's theorems; returns (n_obligations, n_discharged, details)."""
    details = {}
    bad = coq_scan_forbidden()
    if bad:
        ck.violation("forbidden-construct", "forbidden construct in the development: " + "; ".join(bad[:5]),
                     {"theorem": "(development hygiene)", "found": bad}, no_input=True)
    targets = [props_file.replace(".v", ".vo")] + list(extra_targets or [])
    ok, log = coq_make(targets)
    if not ok:
        m = re.search(r'File "\./(\S+)", line (\d+)', log)
        where = "%s:%s" % (m.group(1), m.group(2)) if m else "?"
        ck.violation("obligation:" + props_file, "proof obligation no longer checks (%s)" % where,
                     {"theorem": props_file, "where": where, "log": log[-3000:]}, no_input=True)
        return 1, 0, {"error": log[-2000:]}
    ok, ass = coq_assumptions(props_file)
    if not ok:
        ck.violation("obligation:" + props_file, "proof obligation no longer checks",
                     {"theorem": props_file, "log": ass.get("error", "")}, no_input=True)
        return 1, 0, ass
    n = len(ass)
    good = 0
    for name, txt in ass.items():
        if txt.startswith("Closed under the global context"):
            good += 1
            details[name] = "closed"
        else:
            axs = re.findall(r"^(\S+) :", txt, re.M)
            # fully qualified names end with the axiom's short name
            unknown = [a for a in axs if a.split(".")[-1] not in ALLOWED_AXIOMS]
            details[name] = "axioms: " + ", ".join(axs)
            if unknown:
                ck.violation("axiom:" + name, "theorem %s depends on undeclared axioms %s" % (name, unknown),
                             {"theorem": name, "assumptions": txt}, no_input=True)
            else:
                good += 1
    return n, good, details


# ------------------------------------------------------------------ cases
_FLEX = None
_ROOT = None


def _work(case):
    wd = os.path.join(_ROOT, "c%s" % case['id'])
    try:
        res = tokcase.eval_case(_FLEX, wd, case['prog'], case['text'], case['flex_opts'], case['inputs'],
                                fuel=case.get('fuel', 30000), run_scs=case.get('run_scs'),
                                check_lockstep=case.get('lockstep', True),
                                compile_scanner=case.get('compile', True), cc_extra=case.get('cc_extra'),
                                backend=case.get('backend', 'nr'))
    except Exception as ex:      # a harness failure must never look like a pass
        res = {'problems': [('harness-error', repr(ex))], 'lockstep': [], 'streams': []}
    res['id'] = case['id']
    return res


def make_case(cid, seed_rng, gen_kwargs=None, flex_opts=None, extra_options=None, ninputs=6, maxlen=160, prog=None,
              backend='nr'):
    r = seed_rng
    prog = prog or rulesets.gen_program(r, **(gen_kwargs or {}))
    options = list(extra_options or [])
    if prog.get('caseins'):
        options.append("case-insensitive")
    text = scanner.make_spec(prog, r.fork("print"), options=options, backend=backend)
    inputs = rulesets.gen_inputs(prog, r.fork("inputs"), count=ninputs, maxlen=maxlen)
    opts = list(flex_opts) if flex_opts is not None else []
    if not any(o in ("-7", "-8") for o in opts):
        opts.append("-8" if prog['csize'] == 256 else "-7")
    return {'id': cid, 'prog': prog, 'text': text, 'flex_opts': opts, 'inputs': inputs, 'backend': backend,
            'extra_options': list(extra_options or []),
            'run_scs': list(range(1, 2 + len(prog.get('scs', []))))}


def run_cases(flex, scratch, cases):
    global _FLEX, _ROOT
    _FLEX = flex
    _ROOT = scratch.sub("cases")
    return parallel_map(_work, cases)


def prog_key(case):
    h = hashlib.sha256((scanner.sx_program(case['prog']) + " ".join(case['flex_opts'])).encode()).hexdigest()[:10]
    return h


# ------------------------------------------------------------------ confirmation on the real binary
def real_vs_spec(flex, wd, case, inputs, run_scs):
    """Run flex+cc+scanner+validator only; returns list of failing (sc, input) pairs or a build problem."""
    res = tokcase.eval_case(flex, wd, case['prog'], case['text'], case['flex_opts'], inputs,
                            check_lockstep=False, run_scs=run_scs, cc_extra=case.get('cc_extra'), backend=case.get('backend', 'nr'))
    fails = []
    for kind, msg in res['problems']:
        if kind in ('token-mismatch', 'yytext-mismatch', 'scanner-abnormal'):
            fails.append((kind, msg))
        elif kind in ('flex-error', 'compile-error'):
            fails.append((kind, msg))
    return fails


def search_failing_input(flex, scratch, case, words):
    """Given distinguishing words from the lock-step checker (or nothing), look
    for a concrete input on which the real scanner leaves the documented
    tokenisation.  Returns (sc, input bytes) or None."""
    rng = Rng(1234567).fork(prog_key(case))
    cands = []
    nsc = 1 + len(case['prog'].get('scs', []))
    exts = [[], [97], [10], [0], [98], [32], [120], [97, 97], [10, 97], [65]]
    for sc, bol, u in words:
        for e in exts:
            for pre in ([[]] if bol else [[120], [97], [32], [0]]):
                cands.append((sc, pre + u + e))
    extra = rulesets.gen_inputs(case['prog'], rng, count=20, maxlen=60)
    for sc in range(1, nsc + 1):
        for w in extra:
            cands.append((sc, w))
    wd = os.path.join(scratch.sub("confirm"), prog_key(case))
    by_sc = {}
    for sc, w in cands:
        w = [b for b in w if b < case['prog']['csize']]
        if w and w not in by_sc.setdefault(sc, []):
            by_sc[sc].append(w)
    for sc, ws in by_sc.items():
        res = tokcase.eval_case(flex, wd, case['prog'], case['text'], case['flex_opts'], ws,
                                check_lockstep=False, run_scs=[sc], cc_extra=case.get('cc_extra'), backend=case.get('backend', 'nr'))
        for st in res['streams']:
            if not st['valid'] or not st['text_ok']:
                return sc, list(bytes.fromhex(st['input']))
        for kind, msg in res['problems']:
            if kind == 'scanner-abnormal':
                m = re.search(r"input=([0-9a-f]*)", msg)
                return sc, list(bytes.fromhex(m.group(1))) if m else []
    return None


def shrink_input(flex, scratch, case, sc, w):
    """Greedy reduction of a failing input (prefixes, then chunk removal)."""
    wd = os.path.join(scratch.sub("shrink"), prog_key(case))

    def fails(x):
        if not x:
            return False
        res = tokcase.eval_case(flex, wd, case['prog'], case['text'], case['flex_opts'], [x],
                                check_lockstep=False, run_scs=[sc], cc_extra=case.get('cc_extra'), backend=case.get('backend', 'nr'))
        return any(k in ('token-mismatch', 'yytext-mismatch', 'scanner-abnormal') for k, _ in res['problems'])

    budget = 40
    cur = list(w)
    # shortest failing prefix
    lo, hi = 1, len(cur)
    while lo < hi and budget > 0:
        mid = (lo + hi) // 2
        budget -= 1
        if fails(cur[:mid]):
            hi = mid
        else:
            lo = mid + 1
    if fails(cur[:hi]):
        cur = cur[:hi]
    chunk = max(1, len(cur) // 2)
    while chunk >= 1 and budget > 0:
        i = 0
        changed = False
        while i < len(cur) and budget > 0:
            cand = cur[:i] + cur[i + chunk:]
            budget -= 1
            if cand and fails(cand):
                cur = cand
                changed = True
            else:
                i += chunk
        if not changed:
            chunk //= 2
    return cur


def shrink_rules(flex, scratch, case, sc, w):
    """Drop rules while the input still fails; returns a smaller case."""
    cur = case
    wd = os.path.join(scratch.sub("shrinkr"), prog_key(case))
    i = 0
    budget = 12
    while i < len(cur['prog']['rules']) and len(cur['prog']['rules']) > 1 and budget > 0:
        prog2 = dict(cur['prog'])
        prog2['rules'] = cur['prog']['rules'][:i] + cur['prog']['rules'][i + 1:]
        options = ["case-insensitive"] if prog2.get('caseins') else []
        options += cur.get('extra_options', [])
        text2 = scanner.make_spec(prog2, Rng(7).fork("shrink%d" % i), options=options, backend=cur.get('backend', 'nr'))
        c2 = dict(cur)
        c2['prog'] = prog2
        c2['text'] = text2
        budget -= 1
        res = tokcase.eval_case(flex, wd, prog2, text2, cur['flex_opts'], [w], check_lockstep=False, run_scs=[sc],
                                cc_extra=cur.get('cc_extra'), backend=cur.get('backend', 'nr'))
        if any(k in ('token-mismatch', 'yytext-mismatch', 'scanner-abnormal') for k, _ in res['problems']):
            cur = c2
        else:
            i += 1
    return cur


def replay_record(case, extra=None):
    rec = {'flex_opts': case['flex_opts'], 'spec': case['text'], 'program': rulesets.describe(case['prog']),
           'how': "write `spec` to s.l; flex <flex_opts> -o s.c s.l; gcc -o s s.c; ./s <input file> <start condition - 1>; "
                  "each output line is rule:yyleng:fnv1a(yytext)"}
    if extra:
        rec.update(extra)
    return rec


CLASSIFY = None


def judge(ck, flex, scratch, cases, results, stats, classify=None):
    """Turn the problems of evaluated cases into verdicts."""
    classify = classify or CLASSIFY
    byid = {c['id']: c for c in cases}
    seen_keys = set()
    for res in results:
        case = byid[res['id']]
        probs = res['problems']
        if not probs:
            continue
        kinds = [k for k, _ in probs]
        stats['problem_kinds'] = stats.get('problem_kinds', {})
        for k in set(kinds):
            stats['problem_kinds'][k] = stats['problem_kinds'].get(k, 0) + 1
        pk = prog_key(case)
        if pk in seen_keys:
            continue
        seen_keys.add(pk)
        if 'harness-error' in kinds or 'driver-error' in kinds or 'tables-unreadable' in kinds:
            msg = [m for k, m in probs if k in ('harness-error', 'driver-error', 'tables-unreadable')][0]
            # the tie to the code is broken: the check can no longer see the tables
            w = search_failing_input(flex, scratch, case, [])
            if w:
                report_failing_input(ck, flex, scratch, case, w[0], w[1], "scanner leaves the documented tokenisation", classify)
            else:
                ck.violation("tie:" + kinds[0], "correspondence machinery could not read this scanner: " + msg[:200],
                             replay_record(case, {'correspondence': 'tables of the generated scanner -> Tables.v', 'detail': msg}),
                             no_input=True)
            continue
        if 'flex-error' in kinds:
            msg = [m for k, m in probs if k == 'flex-error'][0]
            key = classify(case, 'flex-error', msg) if classify else None
            ck.violation(key or ("flex-refuses:" + pk), "flex refuses a rule set of the documented pattern language: " + msg.strip()[:160],
                         replay_record(case, {'flex_stderr': msg}))
            continue
        if 'compile-error' in kinds:
            msg = [m for k, m in probs if k == 'compile-error'][0]
            key = classify(case, 'compile-error', msg) if classify else None
            ck.violation(key or ("does-not-compile:" + pk), "generated scanner does not compile: " + msg.strip()[:160],
                         replay_record(case, {'compiler_stderr': msg}))
            continue
        tm = [m for k, m in probs if k in ('token-mismatch', 'yytext-mismatch', 'scanner-abnormal')]
        if tm:
            m = re.search(r"sc=(\d+) input=([0-9a-f]*)", tm[0])
            sc = int(m.group(1)) if m else 1
            w = list(bytes.fromhex(m.group(2))) if m else []
            report_failing_input(ck, flex, scratch, case, sc, w, tm[0][:80], classify)
            continue
        lm = [m for k, m in probs if k.startswith('lockstep-')]
        mm = [m for k, m in probs if k == 'model-mismatch']
        if lm or mm:
            words = []
            for m in lm:
                mo = re.match(r"lockstep \S+ (\d+) (\d+) MISMATCH input=\[([0-9 ]*)\]", m)
                if mo:
                    words.append((int(mo.group(1)), int(mo.group(2)) == 1, [int(x) for x in mo.group(3).split()]))
            found = search_failing_input(flex, scratch, case, words)
            if found:
                report_failing_input(ck, flex, scratch, case, found[0], found[1], "found from lock-step counter-example", classify)
            else:
                what = "C01_longest_match_first_rule premise fails (lock-step check)" if lm else \
                       "correspondence Tables.v/Scan.v vs compiled scanner broken"
                key = classify(case, 'lockstep', (lm + mm)[0]) if classify else None
                ck.violation(key or (("lockstep:" if lm else "model:") + pk), what + ": " + (lm + mm)[0][:200],
                             replay_record(case, {'theorem': 'C01_longest_match_first_rule (premise check_view = true)' if lm else None,
                                                  'correspondence': None if lm else 'view_tokens on emitted tables vs compiled scanner',
                                                  'detail': (lm + mm)[:4]}), no_input=True)
            continue
        if 'inconclusive' in kinds:
            stats['inconclusive'] = stats.get('inconclusive', 0) + 1


_SHRUNK = [0]


def report_failing_input(ck, flex, scratch, case, sc, w, note, classify=None):
    try:
        if _SHRUNK[0] >= 3 or len(ck.violations) >= 8:
            raise RuntimeError("shrink budget used")
        _SHRUNK[0] += 1
        w2 = shrink_input(flex, scratch, case, sc, w)
        c2 = shrink_rules(flex, scratch, case, sc, w2)
        w3 = shrink_input(flex, scratch, c2, sc, w2) if c2 is not case else w2
    except Exception:
        w3, c2 = w, case
    key = classify(c2, 'token', note) if classify else None
    if key is None:
        key = "tokens:" + prog_key(c2) + ":" + bytes(w3).hex()[:40]
    if len(ck.violations) >= 8:
        return
    # what the scanner did and what the manual says
    wd = os.path.join(scratch.sub("final"), prog_key(c2))
    res = tokcase.eval_case(flex, wd, c2['prog'], c2['text'], c2['flex_opts'], [w3], check_lockstep=False, run_scs=[sc],
                            cc_extra=c2.get('cc_extra'), backend=c2.get('backend', 'nr'))
    observed = res['streams'][0]['real'] if res['streams'] else [p for p in res['problems']]
    ck.violation(key, "scanner's tokens differ from the documented tokenisation (sc=%d, input=%s)" % (sc, bytes(w3).hex()),
                 replay_record(c2, {'start_condition': sc, 'input_hex': bytes(w3).hex(), 'observed_tokens': observed,
                                    'note': note}))


# ------------------------------------------------------------------ evidence helpers
PROOF_TB = ["Coq 8.16.1 kernel (coqc, vm_compute; no native_compute)", "extraction (ExtrOcamlBasic only) + ocamlfind ocamlopt",
            "extract/driver.ml (S-expression reader, untrusted relation search)",
            "harness: pattern printer, table reader, back-end templates, shrinkers", "gcc/g++, m4"]


def summarize(cases, results, stats, nob, ngood, details, props_file, rule, extra=None):
    ls_ok = sum(1 for r in results for l in r.get('lockstep', []) if " OK " in l)
    ls_all = sum(len(r.get('lockstep', [])) for r in results)
    pairs = 0
    for r in results:
        for l in r.get('lockstep', []):
            if "pairs=" in l:
                pairs += int(l.rsplit("pairs=", 1)[1])
    streams = sum(len(r.get('streams', [])) for r in results)
    distinct = set()
    for c, r in zip(cases, results):
        rules_seen = set(t[0] for st in r.get('streams', []) for t in st['real'])
        if (r.get('lastdfa') or 0) >= 3 and len(rules_seen) >= 2:
            distinct.add(prog_key(c))
    sizes = {}
    for r in results:
        b = (r.get('lastdfa') or 0)
        bucket = "<10" if b < 10 else "<50" if b < 50 else "<200" if b < 200 else "<1000" if b < 1000 else ">=1000"
        sizes[bucket] = sizes.get(bucket, 0) + 1
    optsh = {}
    for c in cases:
        k = "%s %s" % (c.get('backend', 'nr'), " ".join(c['flex_opts']))
        optsh[k] = optsh.get(k, 0) + 1
    cov = {
        "obligations": nob, "discharged": ngood,
        "checker_cmd": "make -C coq %s && coqc %s (Print Assumptions); extracted proved checkers run on what the rebuilt flex emitted" % (
            props_file.replace(".v", ".vo"), props_file),
        "trusted_base": PROOF_TB, "theorems": details,
        "evaluations": len(cases), "distinct_nontrivial": len(distinct), "rule": rule,
        "lockstep_queries": ls_all, "lockstep_ok": ls_ok, "lockstep_pairs_checked": pairs,
        "lockstep_inconclusive": stats.get('inconclusive', 0),
        "token_streams_judged": streams,
        "runs_with_bytes_conservation_evaluated": sum(r.get('conserve_runs', 0) for r in results),
        "runs_in_which_its_hypothesis_holds": sum(r.get('conserve_hypothesis_holds', 0) for r in results),
        "refusals_documented": sum(1 for r in results if r.get('refusal_documented')),
        "excluded_dangerous_trailing_context": sum(1 for r in results if r.get('dangerous')),
        "dfa_size_histogram": sizes, "option_histogram": optsh,
        "problem_kinds": stats.get('problem_kinds', {}),
    }
    if cases:
        s = cases[0]
        cov["samples"] = [{"rules": s['text'].split("%%")[1].strip().splitlines()[:6], "flex_opts": s['flex_opts'],
                           "backend": s.get('backend', 'nr'),
                           "input_hex": (bytes(s['inputs'][0]).hex()[:80] if s.get('inputs') and isinstance(s['inputs'][0], list)
                                         else str(s.get('inputs', s.get('sources', ''))[:1])[:160]),
                           "lockstep": results[0].get('lockstep', [])[:2]}]
    else:
        cov["samples"] = ["(no case)"]
    if extra:
        cov.update(extra)
    return cov


def standard_main(prop, tier, props_file, build_cases, rule, assumptions, worker=None, post=None):
    """The common shape of a tokenisation check."""
    ck = Check(prop, tier)
    rng = Rng(ck.seed).fork(prop)
    if not ensure_built():
        ck.violation("setup", "the Rocq development or its extraction no longer builds", {"theorem": "whole development"}, no_input=True)
        return ck.finish({"obligations": 1, "discharged": 0, "checker_cmd": "bin/setup", "trusted_base": []})
    nob, ngood, details = obligations(ck, props_file)
    stats = {}
    cases, results = [], []
    extra = {}
    with Scratch(prop.lower()) as scratch:
        try:
            flex = build_flex(scratch)
        except BuildError as ex:
            sys.stderr.write(str(ex) + "\n")
            print("ERROR: /repo does not build; nothing can be checked")
            return 2
        cases = build_cases(rng, tier)
        if worker:
            global _FLEX, _ROOT
            _FLEX = flex
            _ROOT = scratch.sub("cases")
            results = parallel_map(worker, cases)
        else:
            results = run_cases(flex, scratch, cases)
        judge(ck, flex, scratch, cases, results, stats)
        if post:
            extra = post(ck, flex, scratch, cases, results, stats) or {}
    cov = summarize(cases, results, stats, nob, ngood, details, props_file, rule, extra)
    return ck.finish(cov, assumptions=assumptions)


def std_replay(path):
    with open(path) as f:
        rec = json.load(f)
    if rec.get('case_pickle'):
        # re-evaluate the stored stream case against a scanner generated by flex rebuilt from /repo
        import base64, pickle, streamprog
        from common import Scratch, build_flex
        case = pickle.loads(base64.b64decode(rec['case_pickle']))
        with Scratch("replay") as scratch:
            flex = build_flex(scratch)
            res = streamprog.eval_stream_case(flex, scratch.sub("w"), case)
            print(res.get('text', ''))
            for kind, msg in res['problems']:
                print("PROBLEM %s: %s" % (kind, msg[:2000]))
            for t in res.get('traces', []):
                print("real :", t['real'])
                print("model:", t['model'])
            return 1 if [p for p in res['problems'] if p[0] != 'inconclusive'] else 0
    print(json.dumps({k: rec.get(k) for k in rec if k != 'spec'}, indent=1, default=str))
    print(rec.get('spec', ''))
    return 0


# ------------------------------------------------------------------ stream-machine checks
def stream_worker(case):
    import streamprog
    wd = os.path.join(_ROOT, "c%s" % case['id'])
    try:
        res = streamprog.eval_stream_case(_FLEX, wd, case)
    except Exception as ex:
        res = {'problems': [('harness-error', repr(ex))], 'lockstep': [], 'streams': []}
    res['id'] = case['id']
    return res


def judge_stream(ck, flex, scratch, cases, results, stats):
    for c, r in zip(cases, results):
        c['text'] = r.get('text', '') or c.get('text', '')
    for c, r in zip(cases, results):
        for kind, msg in r['problems']:
            stats.setdefault('problem_kinds', {})
            stats['problem_kinds'][kind] = stats['problem_kinds'].get(kind, 0) + 1
        probs = [p for p in r['problems'] if p[0] != 'inconclusive']
        if any(p[0] == 'inconclusive' for p in r['problems']):
            stats['inconclusive'] = stats.get('inconclusive', 0) + 1
        if not probs:
            continue
        kind, msg = probs[0]
        noinput = kind in ('harness-error', 'driver-error')
        what = {"event-mismatch": "the scanner's events differ from the stream machine (documented behaviour)",
                "compile-error": "generated scanner does not compile",
                "flex-error": "flex refuses a documented program"}.get(kind, kind)
        key = "%s:%s" % (kind, hashlib.sha256((c['text'] + str(c.get('sources'))).encode()).hexdigest()[:10])
        if kind == 'event-mismatch':
            allops = [o[0] for ops in list(c.get('acts', {}).values()) for o in ops]
            fd = (r.get('first_diff') or [None])[0]
            is_array = 'array' in (c.get('extra_options') or []) and c['backend'] != 'cxx'     # the C++ class overrides %array
            if (not is_array and 'more' in allops and fd and fd['nsources'] > 1
                    and fd['real'] and fd['model'] and fd['real'][0] == 'T' and fd['model'][0] == 'T'
                    and fd['real'][1] == fd['model'][1] and fd['real'][2] < fd['model'][2]):
                # KNOWN_FINDINGS.json: %pointer + yymore + a later source supplied by yywrap, token shorter than documented
                key = "pointer-yymore-prefix-lost-at-yywrap"
        ck.violation(key, "%s: %s" % (what, msg[:400]),
                     {'spec': c['text'], 'flex_opts': c['flex_opts'], 'backend': c['backend'], 'focus': c.get('focus'),
                      'cc_extra': c.get('cc_extra'),
                      'case_pickle': __import__('base64').b64encode(__import__('pickle').dumps(c)).decode(),
                      'sources_hex': [[bytes(w).hex() for w in src] for src in c.get('sources', [])][:3],
                      'detail': [list(p) for p in probs[:3]],
                      'correspondence': 'coq/Stream.v (sm_run, extracted) vs compiled scanner' if noinput else None,
                      'how': "flex <opts> -o s.c s.l; cc; ./s source1 [source2 ...]; lines T rule yyleng fnv(yytext) yystart() yylineno yyatbol(), "
                             "I yyinput-value, P yy_top_state, E <<EOF>> action of condition, R yylex return"},
                     no_input=noinput)


def stream_main(prop, tier, props_file, build_cases, rule, assumptions):
    global judge
    orig = judge
    judge = judge_stream
    try:
        return standard_main(prop, tier, props_file, build_cases, rule, assumptions, worker=stream_worker)
    finally:
        judge = orig
