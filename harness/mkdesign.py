"""Regenerates the tables of DESIGN.md section 12.4 (fixed defects), 12.5 (known findings) and 12.6 (seeded changes)
from KNOWN_FINDINGS.json and seeded/*/meta.json, between the markers <!-- BEGIN GENERATED x --> / <!-- END GENERATED x -->."""
import json
import os
import re

HERE = os.path.dirname(os.path.dirname(os.path.abspath(__file__)))


def esc(s):
    return str(s).replace("|", "\\|").replace("\n", " ")


def fixed_table(findings):
    rows = ["| property | commit | what failed |", "|---|---|---|"]
    for f in findings:
        if f['status'] == 'fixed':
            line = f.get('line', '')
            m = re.match(r"fixed: property=\S+ \S+ (.*)", line)
            rows.append("| %s | `%s` | %s |" % (f['property'], f.get('commit', ''), esc(m.group(1) if m else f.get('what', ''))))
    return "\n".join(rows)


def known_table(findings):
    seen = {}
    for f in findings:
        if f['status'] == 'known':
            seen.setdefault(f['key'], {'props': [], 'f': f})['props'].append(f['property'])
    rows = ["| property | key | what fails | why not repaired |", "|---|---|---|---|"]
    for k, v in seen.items():
        f = v['f']
        rows.append("| %s | `%s` | %s | %s |" % (", ".join(sorted(set(v['props']))), k, esc(f.get('what', '')), esc(f.get('why_not_fixed', ''))))
    return "\n".join(rows)


def seeds_table():
    rows = ["| seed | origin | caught by |", "|---|---|---|"]
    d = os.path.join(HERE, "seeded")
    for s in sorted(os.listdir(d)):
        mp = os.path.join(d, s, "meta.json")
        if not os.path.exists(mp):
            continue
        m = json.load(open(mp))
        if 'ran' in m:
            origin = "sub-agent" + (" (round %s)" % m['round'] if m.get('round') else "")
        else:
            origin = "own (reverse of a fix: the pinned behaviour)"
        rows.append("| `%s` | %s | %s |" % (s, origin, esc("; ".join(m.get('caught_by') or ["-"]))))
    return "\n".join(rows)


def main():
    p = os.path.join(HERE, "DESIGN.md")
    s = open(p).read()
    findings = json.load(open(os.path.join(HERE, "KNOWN_FINDINGS.json")))['findings']
    for tag, body in (("12.4", fixed_table(findings)), ("12.5", known_table(findings)), ("12.6", seeds_table())):
        b, e = "<!-- BEGIN GENERATED %s -->" % tag, "<!-- END GENERATED %s -->" % tag
        if b not in s or e not in s:
            raise SystemExit("marker %s missing in DESIGN.md" % tag)
        s = s[:s.index(b) + len(b)] + "\n" + body + "\n" + s[s.index(e):]
    open(p, "w").write(s)


if __name__ == "__main__":
    main()
