"""Build flex specifications from rule-set descriptions, run flex, compile and run
the generated scanner, and talk to the extracted Coq driver."""
import os
import re

import patgen
import tables
from common import run, DRIVER

# A program (python dict):
#  csize: 128|256, caseins: bool, scs: [(name, exclusive)] (without INITIAL),
#  rules: [ {scs: None | '*' | [sc numbers 1-based, INITIAL = 1], bol: bool, head: AST,
#            trail: None | AST | '$', action: str or None} ]
#  defs filled while printing.


def sample(p, rng, fl_i=False, fl_s=False, csize=256, depth=0):
    """A random member of the language of pattern p (used to build inputs)."""
    k = p[0]
    if k == 'c':
        c = p[1]
        if fl_i and rng.chance(50):
            if 65 <= c <= 90:
                c += 32
            elif 97 <= c <= 122:
                c -= 32
        return [c]
    if k == 'any':
        while True:
            c = rng.pick([97, 98, 99, 65, 48, 32, 0, 200 % csize, 10])
            if c != 10 or fl_s:
                return [c]
    if k == 'cls':
        m = cexpr_members(p[1], fl_i, csize)
        if not m:
            return [120]        # no member: put something that will not match
        pref = [c for c in m if c in (97, 98, 99, 65, 66, 48, 10, 32, 0)]
        return [rng.pick(pref)] if pref and rng.chance(70) else [rng.pick(m)]
    if k == 'str':
        out = []
        for c in p[1]:
            out += sample(('c', c), rng, fl_i, fl_s, csize)
        return out
    if k == 'cat':
        return sample(p[1], rng, fl_i, fl_s, csize) + sample(p[2], rng, fl_i, fl_s, csize)
    if k == 'alt':
        return sample(rng.pick([p[1], p[2]]), rng, fl_i, fl_s, csize)
    if k in ('star', 'plus', 'opt', 'rep', 'repmin', 'reprange'):
        if k == 'star':
            n = rng.weighted([(0, 2), (1, 3), (2, 3), (3, 1), (6, 1)])
        elif k == 'plus':
            n = rng.weighted([(1, 4), (2, 3), (3, 1), (6, 1)])
        elif k == 'opt':
            n = rng.below(2)
        elif k == 'rep':
            n = p[2]
        elif k == 'repmin':
            n = p[2] + rng.weighted([(0, 3), (1, 2), (3, 1)])
        else:
            n = rng.rng(p[2], p[3])
        out = []
        for _ in range(n):
            out += sample(p[1], rng, fl_i, fl_s, csize)
        return out
    if k == 'flags':
        i2 = False if p[2] else (True if p[1] else fl_i)
        s2 = False if p[4] else (True if p[3] else fl_s)
        return sample(p[5], rng, i2, s2, csize)
    if k == 'name':
        return sample(p[2], rng, fl_i, fl_s, csize)
    raise ValueError(k)


_P = {
    0: lambda c: chr(c).isalnum() and c < 128, 1: lambda c: chr(c).isalpha() and c < 128,
    2: lambda c: c in (32, 9), 3: lambda c: c < 32 or c == 127, 4: lambda c: 48 <= c <= 57,
    5: lambda c: 33 <= c <= 126, 6: lambda c: 97 <= c <= 122, 7: lambda c: 32 <= c <= 126,
    8: lambda c: (33 <= c <= 47) or (58 <= c <= 64) or (91 <= c <= 96) or (123 <= c <= 126),
    9: lambda c: (9 <= c <= 13) or c == 32, 10: lambda c: 65 <= c <= 90,
    11: lambda c: (48 <= c <= 57) or (65 <= c <= 70) or (97 <= c <= 102),
}


def cexpr_members(e, fl_i, csize):
    """Python mirror of Pat.cexpr_set, used only to pick sample bytes (not an oracle)."""
    if e[0] == 'set':
        s = set()
        for it in e[2]:
            if it[0] == 'ch':
                s.add(it[1])
                if fl_i and chr(it[1]).isalpha() and it[1] < 128:
                    s.add(it[1] ^ 32)
            elif it[0] == 'rg':
                s.update(range(it[1], it[2] + 1))
                lo, hi = it[1], it[2]
                if fl_i and ((65 <= lo <= 90 and 65 <= hi <= 90) or (97 <= lo <= 122 and 97 <= hi <= 122)):
                    s.update(range(lo ^ 32, (hi ^ 32) + 1))
            else:
                neg, k = it[1], it[2]
                if fl_i and k in (6, 10):
                    if not neg:
                        s.update(c for c in range(128) if _P[1](c))
                elif neg:
                    s.update(c for c in range(csize) if not _P[k](c))
                else:
                    s.update(c for c in range(128) if _P[k](c))
        s = {c for c in s if c < csize}
        if e[1]:
            s = set(range(csize)) - s
        return sorted(s)
    a = set(cexpr_members(e[1], fl_i, csize))
    b = set(cexpr_members(e[2], fl_i, csize))
    return sorted(a - b if e[0] == 'diff' else a | b)


# ------------------------------------------------------------------ .l files
PROLOGUE_NR = r"""
%%{
#include <stdio.h>
#include <stdlib.h>
#include <string.h>
static void tok(int r);
#define yyecho() tok(%(defrule)d)
%(extra_top)s
%%}
"""

EPILOGUE_NR = r"""
static void tok(int r)
{
    unsigned h = 2166136261u; int i;
    for (i = 0; i < (int) yyleng; i++) { h ^= (unsigned char) yytext[i]; h *= 16777619u; }
    printf("%d:%d:%u\n", r, (int) yyleng, h);
}
int main(int argc, char **argv)
{
    yyin = fopen(argv[1], "rb");
    if (!yyin) return 2;
    if (argc > 2) yybegin(atoi(argv[2]));
    yylex();
    return 0;
}
"""


def fnv(bs):
    h = 2166136261
    for b in bs:
        h ^= b
        h = (h * 16777619) & 0xFFFFFFFF
    return h


def sc_name(i):
    return "INITIAL" if i == 1 else "SC%d" % i


def print_rule_pattern(rule, rng, defs, posix=False, noscs=False):
    s = ""
    if noscs:
        pass
    elif rule.get('scs') == '*':
        s += "<*>"
    elif rule.get('scs'):
        s += "<" + ",".join(sc_name(i) for i in rule['scs']) + ">"
    if rule.get('bol'):
        s += "^"
    s += patgen.print_pattern(rule['head'], rng, posix=posix, defs=defs)
    tr = rule.get('trail')
    if tr == '$':
        s += "$"
    elif tr is not None:
        s += "/" + patgen.print_pattern(tr, rng, posix=posix, defs=defs)
    return s


def sc_declarations(scs, nrules=0):
    """%s / %x lines for the conditions SC2, SC3, ...; for every other program consecutive conditions of one kind share a line
    (the manual: '%s' or '%x' followed by a list of names)."""
    lines = []
    group = (len(scs) + nrules) % 2 == 0
    for i, (name, excl) in enumerate(scs):
        kw = "%x" if excl else "%s"
        if group and lines and lines[-1].startswith(kw + " "):
            lines[-1] += ("  " if i % 2 else "\t") + "SC%d" % (i + 2)
        else:
            lines.append("%s SC%d" % (kw, i + 2))
    return lines


def make_spec(prog, rng, options=None, actions=None, extra_top="", epilogue=None, prologue=None, backend='nr'):
    """Returns the text of a .l file for the program.  actions[i] overrides the
    default action `tok(i+1);` of rule i."""
    import backends
    defs = {}
    pats = [print_rule_pattern(r, rng, defs, posix=prog.get('posix', False)) for r in prog['rules']]
    if prog.get('pats'):
        # hand-written spellings (syntax corners the printer never produces): the text of rule i is pats[i] when given
        pats = [(t if t is not None else p) for t, p in zip(prog['pats'], pats)]
    nrules = len(prog['rules'])
    out = []
    opts = ["noyywrap", "nounput", "noinput"] + backends.BACKENDS[backend]['options'] + list(options or [])
    out.append("%option " + " ".join(opts))
    out.append(prologue or backends.prologue(backend, nrules + 1, extra_top))
    for name in defs:
        out.append("%s %s" % (name, defs[name]))
    out.extend(sc_declarations(prog.get('scs', []), nrules))
    out.append("%%")
    # start-condition scopes: a rule naming conditions [o] + inner is written  <o>{ <inner>{ rule }  next-rule-if-it-names-[o] }
    # (the manual: a scope is the same as prefixing each enclosed rule; nested scopes add their conditions)
    rules = prog['rules']
    i = 0
    while i < len(pats):
        p = pats[i]
        if rules[i].get('bar') and i + 1 < len(pats):
            out.append("%s\t|" % p)           # the '|' action: same action as the following rule
            i += 1
            continue
        act = actions[i] if actions and actions.get(i) is not None else "tok(%d);" % (i + 1)
        scs = rules[i].get('scs')
        if prog.get('scoped') and isinstance(scs, list) and len(scs) >= 2 and not (i > 0 and rules[i - 1].get('bar')) and rng.chance(70):
            outer, inner = scs[:1], scs[1:]
            bare = print_rule_pattern(rules[i], rng.fork("sc%d" % i), defs, posix=prog.get('posix', False), noscs=True)
            out.append("<%s>{" % sc_name(outer[0]))
            out.append("<%s>{" % ",".join(sc_name(x) for x in inner))
            out.append("%s\t{ %s }" % (bare, act))
            out.append("}")
            j = i + 1
            while j < len(pats) and rules[j].get('scs') == outer and not rules[j].get('bar'):
                bj = print_rule_pattern(rules[j], rng.fork("sc%d" % j), defs, posix=prog.get('posix', False), noscs=True)
                aj = actions[j] if actions and actions.get(j) is not None else "tok(%d);" % (j + 1)
                out.append("%s\t{ %s }" % (bj, aj))
                j += 1
            out.append("}")
            i = j
            continue
        out.append("%s\t{ %s }" % (p, act))
        i += 1
    out.append("%%")
    names = prog.get('scnames')
    if names:
        # start conditions under other names than SCn (names that are prefixes of each other and share a hash bucket of flex's
        # symbol table): only declarations and <...> prefixes are rewritten
        def ren(text):
            return re.sub(r"\bSC(\d+)\b", lambda m: names.get(int(m.group(1)), m.group(0)), text)
        for i, line in enumerate(out):
            if line.startswith("%x ") or line.startswith("%s "):
                out[i] = ren(line)
            elif line.startswith("<") and ">" in line:
                j = line.index(">")
                out[i] = ren(line[:j + 1]) + line[j + 1:]
    out.append(epilogue or backends.epilogue(backend, nrules + 1))
    return "\n".join(out) + "\n"


# ------------------------------------------------------------------ S-expression of a program
def owners(prog):
    """rule number -> number of the rule whose action text runs (for '|' actions)."""
    n = len(prog['rules'])
    own = {}
    nxt = None
    for i in range(n, 0, -1):
        r = prog['rules'][i - 1]
        if r.get('bar') and i < n:
            own[i] = nxt
        else:
            own[i] = i
            nxt = i
        nxt = own[i]
    return own


def owners_sx(prog):
    return "(" + " ".join("(%d %d)" % (r, o) for r, o in sorted(owners(prog).items())) + ")"


def sx_program(prog):
    rules = []
    for r in prog['rules']:
        scs = r.get('scs')
        star = 1 if scs == '*' else 0
        scsx = "none" if (scs is None or scs == '*') else "(" + " ".join(str(i) for i in scs) + ")"
        tr = r.get('trail')
        if tr is None:
            trx = "none"
        elif tr == '$':
            trx = "(c 10)"
        else:
            trx = patgen.sx_pat(tr)
        rules.append("(rule (star %d) (scs %s) (bol %d) (fl %d 0) (head %s) (trail %s))" % (
            star, scsx, 1 if r.get('bol') else 0, 1 if prog.get('caseins') else 0, patgen.sx_pat(r['head']), trx))
    excl = [i + 2 for i, (n, e) in enumerate(prog.get('scs', [])) if e]
    return "(csize %d) (nsc %d) (excl (%s)) (rules (%s))" % (
        prog['csize'], 1 + len(prog.get('scs', [])), " ".join(str(i) for i in excl), "\n ".join(rules))


def run_driver(case_text, workdir, name="case.sx", timeout=300):
    path = os.path.join(workdir, name)
    with open(path, "w") as f:
        f.write(case_text)
    rc, out, err = run([DRIVER, path], timeout=timeout)
    return rc, out.decode(errors="replace"), err.decode(errors="replace")


# ------------------------------------------------------------------ flex / cc
def run_flex(flex, lfile, outfile, opts, cwd, timeout=60):
    cmd = [flex] + list(opts) + ["-o", outfile, lfile]
    return run(cmd, cwd=cwd, timeout=timeout)


def compile_c(src, exe, cwd, extra=None, backend='nr', timeout=120):
    import backends
    cmd = list(backends.BACKENDS[backend]['cc']) + ["-o", exe, src]
    if extra:
        cmd[1:1] = extra
    if os.environ.get("VERIF_CC_EXTRA"):
        # developer aid (never set by the registered commands): e.g. --coverage, to see which skeleton lines the scanners reach
        cmd[1:1] = os.environ["VERIF_CC_EXTRA"].split()
    return run(cmd, cwd=cwd, timeout=timeout)


def parse_tokens(out):
    toks = []
    for line in out.decode(errors="replace").splitlines():
        m = re.match(r"^(-?\d+):(-?\d+):(\d+)$", line)
        if m:
            toks.append((int(m.group(1)), int(m.group(2)), int(m.group(3))))
        else:
            toks.append(("?", line[:80], 0))
    return toks


def parse_driver_tokens(s):
    s = s.strip()
    if not s:
        return []
    return [tuple(int(x) for x in t.split(":")) for t in s.split()]
