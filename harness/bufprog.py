"""Histories of buffer operations (C11, and the substrate of C13 / C14): generation
of permitted histories, the C driver that replays them against a generated
scanner, and the comparison with the extracted model (coq/Buffers.v)."""
import os
import re

import backends
import scanner
import tables
from common import run

TOP = r"""
#include <stdio.h>
#include <stdlib.h>
#include <string.h>
static void ev_tok(int r, const char *t, int n, int line, int bol);
static int g_cur = -1;
%(alloc)s
"""

EV = r"""
static void ev_tok(int r, const char *t, int n, int line, int bol)
{
    unsigned h = 2166136261u; int i;
    for (i = 0; i < n; i++) { h ^= (unsigned char) t[i]; h *= 16777619u; }
    printf("T %d %d %d %u %d %d\n", g_cur, r, n, h, line, bol);
}
static char *slurp(const char *path, long *len)
{
    FILE *f = fopen(path, "rb"); char *p; long n;
    if (!f) exit(2);
    fseek(f, 0, SEEK_END); n = ftell(f); fseek(f, 0, SEEK_SET);
    p = (char *) malloc((size_t) n + 2);
    if (n && fread(p, 1, (size_t) n, f) != (size_t) n) exit(2);
    p[n] = 0; p[n + 1] = 0; fclose(f); *len = n;
    return p;
}
"""

# S = scanner handle argument ("" or ", s"), S1 = "s" or ""
MAIN = r"""
#define MAXB 64
static %(BT)s h[MAXB];
static int stack[256]; static int sp = 0;          /* the driver's own idea of the buffer stack, to label tokens */
static int g_autopop;
static int g_incmode; static int inc[MAXB]; static int ninc = 0;   /* includes done with yy_switch_to_buffer: the program's own stack */
/* include-style yywrap(): while a buffer lies below the exhausted one, pop and go on */
int yywrap(%(WARG)s)
{
    if (g_incmode && ninc > 1) {
        /* the other documented way: delete the exhausted buffer, then switch back to the including one */
        int top = inc[ninc - 1];
        yy_delete_buffer(h[top] %(S)s); h[top] = 0; ninc--;
        yy_switch_to_buffer(h[inc[ninc - 1]] %(S)s);
        g_cur = inc[ninc - 1]; if (sp == 0) sp = 1; stack[sp - 1] = g_cur;
        return 0;
    }
    if (g_autopop && sp > 1 && stack[sp - 1] >= 0 && stack[sp - 2] >= 0) {
        h[stack[sp - 1]] = 0; sp--;
        yypop_buffer_state(%(S1)s);
        g_cur = stack[sp - 1];
        return 0;
    }
    return 1;
}
int main(int argc, char **argv)
{
    FILE *ops = fopen(argv[1], "r");
    char *mem[MAXB]; FILE *fh[MAXB];
    char op[8], path[512]; int id, k, i, v;
    %(decl)s
    memset(h, 0, sizeof h); memset(mem, 0, sizeof mem); memset(fh, 0, sizeof fh);
    if (!ops) return 2;
    %(init)s
    while (fscanf(ops, "%%7s", op) == 1) {
        if (op[0] == 'C') { int size; fscanf(ops, "%%d %%511s %%d", &id, path, &size); fh[id] = fopen(path, "rb"); if (!fh[id]) return 2;
            h[id] = yy_create_buffer(fh[id], size %(S)s); }
        else if (op[0] == 'S') { long n; char *p; fscanf(ops, "%%d %%511s", &id, path); p = slurp(path, &n); h[id] = yy_scan_string(p %(S)s); free(p);
            if (sp == 0) sp = 1; stack[sp - 1] = id; }
        else if (op[0] == 'B') { long n; char *p; fscanf(ops, "%%d %%511s", &id, path); p = slurp(path, &n); h[id] = yy_scan_bytes(p, (int) n %(S)s); free(p);
            if (sp == 0) sp = 1; stack[sp - 1] = id; }
        else if (op[0] == 'U') { long n; fscanf(ops, "%%d %%511s", &id, path); mem[id] = slurp(path, &n); h[id] = yy_scan_buffer(mem[id], (size_t) n + 2 %(S)s);
            if (!h[id]) { printf("NULLBUF\n"); return 0; } if (sp == 0) sp = 1; stack[sp - 1] = id; }
        else if (op[0] == 'N') { long n; char *p; fscanf(ops, "%%511s", path); p = slurp(path, &n);     /* not terminated by two NULs */
            p[n] = 'x'; printf("N %%d\n", yy_scan_buffer(p, (size_t) n + 2 %(S)s) == NULL ? 1 : 0); free(p); }
        else if (op[0] == 'W') { fscanf(ops, "%%d", &id); yy_switch_to_buffer(h[id] %(S)s); if (sp == 0) sp = 1; stack[sp - 1] = id; }
        else if (op[0] == 'I') { fscanf(ops, "%%d", &id); inc[ninc++] = id; yy_switch_to_buffer(h[id] %(S)s); if (sp == 0) sp = 1; stack[sp - 1] = id; }
        else if (op[0] == 'P') { fscanf(ops, "%%d", &id); yypush_buffer_state(h[id] %(S)s); if (sp > 0 && stack[sp - 1] < 0) stack[sp - 1] = id; else stack[sp++] = id; }
        else if (op[0] == 'O') { if (sp > 0) { int top = stack[sp - 1]; if (top >= 0) { h[top] = 0; if (mem[top]) { /* user memory outlives the buffer */ } } sp--; }
            yypop_buffer_state(%(S1)s); }
        else if (op[0] == 'F') { fscanf(ops, "%%d", &id);
            /* the current buffer is flushed through the short form every other time (YY_FLUSH_BUFFER / yy_flush_current_buffer) */
            if (sp > 0 && stack[sp - 1] == id && (id %% 2) == 1) { %(FLUSHCUR)s } else yy_flush_buffer(h[id] %(S)s); }
        else if (op[0] == 'D') { fscanf(ops, "%%d", &id); yy_delete_buffer(h[id] %(S)s); h[id] = 0; if (sp > 0 && stack[sp - 1] == id) stack[sp - 1] = -1; }
        else if (op[0] == 'X') { /* delete the user's own buffers that are not on the stack, destroy, start afresh */
            for (i = 0; i < MAXB; i++) { int j, onstack = 0; for (j = 0; j < sp; j++) if (stack[j] == i) onstack = 1;
                if (h[i] && !onstack) { yy_delete_buffer(h[i] %(S)s); } h[i] = 0; }
            sp = 0; %(destroy)s
            for (i = 0; i < MAXB; i++) { if (mem[i]) free(mem[i]); mem[i] = 0; if (fh[i]) fclose(fh[i]); fh[i] = 0; }
            printf("X\n"); }
        else if (op[0] == 'L' || op[0] == 'K' || op[0] == 'M') { fscanf(ops, "%%d", &k); g_autopop = (op[0] == 'K'); g_incmode = (op[0] == 'M');
            for (i = 0; i < k; i++) { g_cur = sp > 0 ? stack[sp - 1] : -1; v = yylex(%(S1)s); if (v == 0) { printf("Z %%d\n", g_cur); break; } } }
    }
    for (i = 0; i < MAXB; i++) { int j, onstack = 0; for (j = 0; j < sp; j++) if (stack[j] == i) onstack = 1;
        if (h[i] && !onstack) { yy_delete_buffer(h[i] %(S)s); h[i] = 0; } }
    %(fini)s
    for (i = 0; i < MAXB; i++) { if (mem[i]) free(mem[i]); if (fh[i]) fclose(fh[i]); }
    fclose(ops);
    printf("END\n");
    fflush(stdout);
    return 0;
}
"""


MAIN_CXX = r"""
#include <fstream>
#include <iostream>
#define MAXB 64
static yy_buffer_state *h[MAXB];
static int stack[256]; static int sp = 0;
static int g_autopop; static int g_incmode; static int inc[MAXB]; static int ninc = 0;
static std::ifstream *fs[MAXB]; static std::ifstream *freed[4 * MAXB]; static int nfree = 0;
/* the class of the scanner: yywrap() is a virtual member (the user supplies the base version), overridden here */
int yyFlexLexer::yywrap() { return 1; }
struct BL : public yyFlexLexer {
    BL(std::istream *i) : yyFlexLexer(i, 0) {}
    void flush(yy_buffer_state *b) { yy_flush_buffer(b); }     /* (protected in the class) */
    virtual int yywrap() {
        if (g_incmode && ninc > 1) {
            int top = inc[ninc - 1];
            yy_delete_buffer(h[top]); h[top] = 0; ninc--;
            yy_switch_to_buffer(h[inc[ninc - 1]]);
            g_cur = inc[ninc - 1]; if (sp == 0) sp = 1; stack[sp - 1] = g_cur;
            return 0;
        }
        if (g_autopop && sp > 1 && stack[sp - 1] >= 0 && stack[sp - 2] >= 0) {
            h[stack[sp - 1]] = 0; sp--;
            yypop_buffer_state();
            g_cur = stack[sp - 1];
            return 0;
        }
        return 1;
    }
};
int main(int argc, char **argv)
{
    FILE *ops = fopen(argv[1], "r");
    char op[8], path[512]; int id, k, i, v;
    std::ifstream devnull("/dev/null");
    BL *l = new BL(&devnull);
    memset(h, 0, sizeof h); memset(fs, 0, sizeof fs);
    if (!ops) return 2;
    while (fscanf(ops, "%7s", op) == 1) {
        if (op[0] == 'C') { int size; fscanf(ops, "%d %511s %d", &id, path, &size);
            /* every other time the stream object of a buffer that was deleted is opened again on the new file */
            if (nfree > 0 && (id % 2) == 0) { fs[id] = freed[--nfree]; fs[id]->close(); fs[id]->open(path, std::ios::binary); }
            else fs[id] = new std::ifstream(path, std::ios::binary);
            if (!*fs[id]) return 2;
            /* a stream pointer and a stream reference, in turn */
            if (id % 2) h[id] = l->yy_create_buffer(fs[id], size); else h[id] = l->yy_create_buffer(*fs[id], size); }
        else if (op[0] == 'W') { fscanf(ops, "%d", &id); l->yy_switch_to_buffer(h[id]); if (sp == 0) sp = 1; stack[sp - 1] = id; }
        else if (op[0] == 'I') { fscanf(ops, "%d", &id); inc[ninc++] = id; l->yy_switch_to_buffer(h[id]); if (sp == 0) sp = 1; stack[sp - 1] = id; }
        else if (op[0] == 'P') { fscanf(ops, "%d", &id); l->yypush_buffer_state(h[id]); if (sp > 0 && stack[sp - 1] < 0) stack[sp - 1] = id; else stack[sp++] = id; }
        else if (op[0] == 'O') { int top = -1; if (sp > 0) { top = stack[sp - 1]; if (top >= 0) h[top] = 0; sp--; } l->yypop_buffer_state();
            if (top >= 0 && fs[top]) { freed[nfree++] = fs[top]; fs[top] = 0; } }
        else if (op[0] == 'F') { fscanf(ops, "%d", &id); l->flush(h[id]); }
        else if (op[0] == 'D') { fscanf(ops, "%d", &id); l->yy_delete_buffer(h[id]); h[id] = 0; if (sp > 0 && stack[sp - 1] == id) stack[sp - 1] = -1;
            if (fs[id]) { freed[nfree++] = fs[id]; fs[id] = 0; } }
        else if (op[0] == 'X') {
            for (i = 0; i < MAXB; i++) { int j, onstack = 0; for (j = 0; j < sp; j++) if (stack[j] == i) onstack = 1;
                if (h[i] && !onstack) { l->yy_delete_buffer(h[i]); } h[i] = 0; }
            sp = 0; ninc = 0; delete l; l = new BL(&devnull);
            for (i = 0; i < MAXB; i++) { if (fs[i]) delete fs[i]; fs[i] = 0; }
            while (nfree > 0) delete freed[--nfree];
            printf("X\n"); }
        else if (op[0] == 'L' || op[0] == 'K' || op[0] == 'M') { fscanf(ops, "%d", &k); g_autopop = (op[0] == 'K'); g_incmode = (op[0] == 'M');
            for (i = 0; i < k; i++) { g_cur = sp > 0 ? stack[sp - 1] : -1; v = l->yylex(); if (v == 0) { printf("Z %d\n", g_cur); break; } } }
    }
    for (i = 0; i < MAXB; i++) { int j, onstack = 0; for (j = 0; j < sp; j++) if (stack[j] == i) onstack = 1;
        if (h[i] && !onstack) { l->yy_delete_buffer(h[i]); h[i] = 0; } }
    delete l;
    for (i = 0; i < MAXB; i++) if (fs[i]) delete fs[i];
    fclose(ops);
    printf("END\n");
    fflush(stdout);
    return 0;
}
"""


def make_spec(prog, rng, backend, lineno, alloc="", extra_options=None, fini_extra=""):
    defs = {}
    nrules = len(prog['rules'])
    opts = ["nounput", "noinput"] + backends.BACKENDS[backend]['options'] + list(extra_options or [])
    if lineno:
        opts.append("yylineno")
    if prog.get('caseins'):
        opts.append("case-insensitive")
    bol_obs = any(r.get('bol') for r in prog['rules'])
    if backend == 'nr':
        S, S1, decl, init, fini = "", "", "", "yyin = fopen(\"/dev/null\", \"rb\");", "yylex_destroy();"
        text, leng, ln, bol = "yytext", "(int) yyleng", ("yylineno" if False else "0"), "(int) yyatbol()"
    elif backend == 'r':
        S, S1, decl = ", s", "s", "yyscan_t s;"
        init = "if (yylex_init(&s)) return 3; yyset_in(fopen(\"/dev/null\", \"rb\"), s);"
        fini = "yylex_destroy(s);"
        text, leng, ln, bol = "yytext", "(int) yyleng", ("yylineno" if lineno else "0"), "(int) yyatbol()"
    elif backend == 'cxx':
        S, S1, decl, init, fini = "", "", "", "", ""
        text, leng, ln, bol = "yytext", "(int) yyleng", ("yylineno" if lineno else "0"), "(int) yyatbol()"
    else:    # c99
        S, S1, decl = ", s", "s", "yyscan_t s;"
        init = "if (yylex_init(&s)) return 3; yyset_in(fopen(\"/dev/null\", \"rb\"), s);"
        fini = "yylex_destroy(s);"
        text, leng = "yyget_text(yyscanner)", "(int) yyget_leng(yyscanner)"
        ln = "yyget_lineno(yyscanner)" if lineno else "0"
        bol = "(int) yyatbol(yyscanner)"
    if not bol_obs:
        bol = "-1"
    if backend == 'r' and len(prog['rules']) % 2 == 1:
        # every other reentrant C program creates its scanner through yylex_init_extra (the allocation of the scanner object is then
        # made with the user's value already in place; the c99 back end has the function only with %option extra-type)
        init = init.replace("yylex_init(&s)", "yylex_init_extra(0, &s)")
    top = ("#define _GNU_SOURCE 1\n" if backend == 'c99' else "") + TOP % {'alloc': alloc}
    tokm = "ev_tok(%%d, %s, %s, %s, %s)" % (text, leng, ln, bol)
    if backend != 'c99':
        top += "#define yyecho() do { %s; return 1; } while (0)\n" % (tokm % (nrules + 1))
    out = ["%option " + " ".join(opts), "%{\n" + top + "%}"]
    pats = [scanner.print_rule_pattern(r, rng, defs) for r in prog['rules']]
    for name in defs:
        out.append("%s %s" % (name, defs[name]))
    for i, (name, excl) in enumerate(prog.get('scs', [])):
        out.append("%s SC%d" % ("%x" if excl else "%s", i + 2))
    out.append("%%")
    for i, p in enumerate(pats):
        out.append("%s\t{ %s; return 1; }" % (p, tokm % (i + 1)))
    if backend == 'c99':
        out.append("<*>.|\\n\t{ %s; return 1; }" % (tokm % (nrules + 1)))
    out.append("%%")
    if backend == 'cxx':
        out.append(EV + MAIN_CXX)
        return "\n".join(out) + "\n"
    flushcur = {'nr': "YY_FLUSH_BUFFER;", 'r': "yy_flush_buffer(h[id], s);", 'c99': "yy_flush_current_buffer(s);"}[backend]
    out.append(EV + MAIN % {'S': S, 'S1': S1, 'decl': decl, 'init': init, 'fini': fini + fini_extra, 'FLUSHCUR': flushcur,
                            'BT': 'yybuffer' if backend == 'c99' else 'YY_BUFFER_STATE', 'WARG': 'void' if backend == 'nr' else 'yyscan_t s',
                            'destroy': ('yylex_destroy(); yyin = fopen("/dev/null", "rb");' if backend == 'nr' else
                                        'yylex_destroy(s); if (yylex_init(&s)) return 3; yyset_in(fopen("/dev/null", "rb"), s);')})
    return "\n".join(out) + "\n"


def gen_history(rng, prog, length, deep=False, files_only=False):
    """A permitted history: (ops for the C driver, ops for the model, file contents).  files_only: every buffer is created from
    a file (the C++ class has no yy_scan_* functions)."""
    import rulesets
    files = []
    live = {}          # id -> kind
    stack = []         # ids, top last; None for an emptied top slot
    ops = []
    nid = [0]

    def new_content():
        w = rulesets.gen_inputs(prog, rng.fork("f%d" % len(files)), count=1, maxlen=rng.pick([5, 20, 60]))[0]
        return w

    def current():
        return stack[-1] if stack and stack[-1] is not None else None

    def in_stack(i):
        return i in stack

    steps = 0
    while steps < length:
        steps += 1
        cur = current()
        choices = []
        if len(live) < 20:
            choices += ['C'] * 3 + ([] if files_only else ['S', 'B', 'U'])
        free_ids = [i for i in live if not in_stack(i)]
        if free_ids:
            choices += ['W'] * 3 + ['P'] * (6 if deep else 3) + ['Dfree']
        if cur is not None:
            choices += ['L'] * 8
            if live.get(cur) != 'smallfile':
                choices += ['Fcur']
            if rng.chance(15):
                choices += ['Dcur']
        if len([x for x in stack if x is not None]) >= 2 and cur is not None:
            choices += ['O'] * 2
            if len(stack) >= (4 if deep else 2) and rng.chance(5):
                # yylex with a yywrap() that pops: how many buffers it pops depends on the input, so the history ends with it
                for n_ in [rng.pick([1, 2, 3, 5]), rng.pick([3, 8, 50]), 50, 50][:rng.rng(1, 4)]:
                    ops.append(('K', n_))
                break
        flushable = sorted(i for i in live if live[i] != 'smallfile')
        if flushable:
            choices += ['F']
        if not choices:
            choices = ['C']
        k = rng.pick(choices)
        if k in ('C', 'S', 'B', 'U'):
            i = nid[0]
            nid[0] += 1
            w = new_content()
            if k == 'S':
                w = [b for b in w if b != 0]
            files.append(w)
            fidx = len(files) - 1
            if k == 'C':
                size = rng.pick([16384, 16384, 64, 8, 1])
                ops.append(('C', i, fidx, size))
                # how much of a file is "already buffered" is only determined when the whole file fits the buffer
                live[i] = 'file' if size >= 64 else 'smallfile'
            else:
                ops.append((k, i, fidx))
                live[i] = 'mem'
                if stack:
                    stack[-1] = i
                else:
                    stack.append(i)
        elif k == 'W':
            i = rng.pick(free_ids)
            ops.append(('W', i))
            if stack:
                stack[-1] = i
            else:
                stack.append(i)
        elif k == 'P':
            i = rng.pick(free_ids)
            ops.append(('P', i))
            if stack and stack[-1] is None:
                stack[-1] = i
            else:
                stack.append(i)
        elif k == 'O':
            top = stack.pop()
            ops.append(('O',))
            if top is not None:
                del live[top]
        elif k == 'L':
            ops.append(('L', rng.pick([1, 1, 2, 3, 5, 50])))
        elif k == 'Fcur':
            ops.append(('F', cur))
        elif k == 'F':
            ops.append(('F', rng.pick(flushable)))
        elif k == 'Dfree':
            i = rng.pick(free_ids)
            ops.append(('D', i))
            del live[i]
        elif k == 'Dcur':
            ops.append(('D', cur))
            del live[cur]
            stack[-1] = None
    return ops, files


def gen_tower(rng, prog, height):
    """A history that nests [height] buffers (beyond the first and second growth of the buffer stack: 1, 9, 17 slots),
    scanning a little at every level on the way up and on the way down."""
    import rulesets
    files, ops = [], []
    for i in range(height):
        files.append(rulesets.gen_inputs(prog, rng.fork("t%d" % i), count=1, maxlen=rng.pick([8, 20]))[0])
        ops.append(('C', i, i, 16384))
    for i in range(height):
        ops.append(('P', i))
        ops.append(('L', rng.pick([1, 1, 2])))
        if i in (8, 9, 16, 17) and rng.chance(50) and i + 1 < height:
            pass
    for i in range(height - 1):
        ops.append(('O',))
        ops.append(('L', rng.pick([1, 2, 50])))
    return ops, files


def gen_reopen_history(rng, prog, n):
    """One source after the other, each scanned to its end, its buffer deleted, the next buffer created (for the C++ class: over
    the very stream object that has just reached its end of file, opened again on the next file) and switched to."""
    import rulesets
    files, ops = [], []
    for i in range(n):
        files.append(rulesets.gen_inputs(prog, rng.fork("r%d" % i), count=1, maxlen=rng.pick([8, 20, 40]))[0])
        ops.append(('C', 2 * i, i, 16384))
        ops.append(('W', 2 * i))
        ops.append(('L', 400))
        ops.append(('D', 2 * i))
    return ops, files


def gen_include_tower(rng, prog, height):
    """Nested includes done the other documented way: yy_switch_to_buffer into the included file, and a yywrap() that deletes the
    exhausted buffer and switches back to the including one (the buffer stack of the scanner stays one deep).  The model
    runs the push / pop twin of the history: both ways of including must give the same tokens."""
    import rulesets
    files, ops = [], []
    for i in range(height):
        files.append(rulesets.gen_inputs(prog, rng.fork("i%d" % i), count=1, maxlen=rng.pick([8, 20, 40]))[0])
        ops.append(('C', i, i, 16384))
    for i in range(height):
        ops.append(('I', i))
        ops.append(('L', rng.pick([1, 1, 2, 3])))
    ops.append(('M', 400))
    return ops, files


def ops_text(ops, workdir):
    lines = []
    for o in ops:
        if o[0] == 'C':
            lines.append("C %d %s %d" % (o[1], os.path.join(workdir, "f%d.bin" % o[2]), o[3]))
        elif o[0] in ('S', 'B', 'U'):
            lines.append("%s %d %s" % (o[0], o[1], os.path.join(workdir, "f%d.bin" % o[2])))
        elif o[0] == 'N':
            lines.append("N %s" % os.path.join(workdir, "f%d.bin" % o[1]))
        elif o[0] in ('W', 'P', 'F', 'D', 'L', 'K', 'I', 'M'):
            lines.append("%s %d" % (o[0], o[1]))
        elif o[0] == 'X':
            lines.append("X")
        else:
            lines.append(o[0])
    return "\n".join(lines) + "\n"


def ops_sx(ops, files):
    out = []
    for o in ops:
        if o[0] == 'C':
            out.append("(create %d (%s))" % (o[1], " ".join(str(b) for b in files[o[2]])))
        elif o[0] in ('S', 'B', 'U'):
            out.append("(scan %d (%s))" % (o[1], " ".join(str(b) for b in files[o[2]])))
        elif o[0] == 'W':
            out.append("(switch %d)" % o[1])
        elif o[0] in ('P', 'I'):
            out.append("(push %d)" % o[1])
        elif o[0] == 'O':
            out.append("(pop)")
        elif o[0] == 'F':
            out.append("(flush %d)" % o[1])
        elif o[0] == 'D':
            out.append("(delete %d)" % o[1])
        elif o[0] == 'L':
            out.append("(lex %d)" % o[1])
        elif o[0] in ('K', 'M'):
            out.append("(lexpop %d)" % o[1])
    return "(" + " ".join(out) + ")"


def parse_events(out, bol_obs, lineno):
    evs = []
    for line in out.decode(errors="replace").splitlines():
        p = line.split()
        if not p:
            continue
        if p[0] == 'T' and len(p) == 7:
            e = ['T'] + [int(x) for x in p[1:]]
            if not bol_obs:
                e[6] = -1
            if not lineno:
                e[5] = 0
            evs.append(tuple(e))
        elif p[0] == 'Z' and len(p) == 2:
            evs.append(('Z', int(p[1])))
        elif p[0] in ('END', 'NOBUF', 'NULLBUF', 'X'):
            evs.append((p[0],))
        elif p[0] == 'N':
            evs.append(('N', int(p[1])))
        else:
            evs.append(('?', line[:60]))
    return evs


def eval_buf_case(flex, workdir, case, cc_extra=None, env=None, alloc="", fini_extra="", collect=None):
    from common import Rng
    res = {'problems': [], 'lockstep': [], 'streams': [], 'flex_opts': list(case['flex_opts'])}
    os.makedirs(workdir, exist_ok=True)
    prog = case['prog']
    backend = case['backend']
    lineno = case['lineno'] and backend not in ('nr', 'cxx')      # (one yylineno for all buffers there)
    bol_obs = any(r.get('bol') for r in prog['rules'])
    mprog = prog
    if backend == 'c99':
        mprog = dict(prog)
        mprog['rules'] = list(prog['rules']) + [{'head': ('alt', ('any',), ('c', 10)), 'bol': False, 'scs': '*', 'trail': None}]
    text = make_spec(prog, Rng(case['seed']).fork("print"), backend, lineno, alloc=alloc,
                     extra_options=case.get('extra_options'), fini_extra=fini_extra)
    res['text'] = text
    with open(os.path.join(workdir, "s.l"), "w") as f:
        f.write(text)
    cfile = "s." + backends.BACKENDS[backend]['ext']
    rc, out, err = scanner.run_flex(flex, "s.l", cfile, case['flex_opts'], workdir)
    if rc != 0:
        res['problems'].append(('flex-error', err.decode(errors="replace")[:300]))
        return res
    rc, out, err = scanner.compile_c(cfile, "s.exe", workdir, extra=(cc_extra or []) + ["-I" + os.path.dirname(flex)], backend=backend)
    if rc != 0:
        res['problems'].append(('compile-error', err.decode(errors="replace")[:600]))
        return res
    try:
        with open(os.path.join(workdir, cfile), errors="replace") as f:
            res['lastdfa'] = tables.parse_scanner(f.read()).get('lastdfa')
    except Exception:
        pass
    queries = []
    runs = []
    for hi, (ops, files) in enumerate(case['histories']):
        hd = os.path.join(workdir, "h%d" % hi)
        os.makedirs(hd, exist_ok=True)
        for fi, w in enumerate(files):
            with open(os.path.join(hd, "f%d.bin" % fi), "wb") as f:
                f.write(bytes(w))
        with open(os.path.join(hd, "ops.txt"), "w") as f:
            f.write(ops_text(ops, hd))
        henv = env
        if env and 'LEDGER' in env:
            henv = dict(env, LEDGER=os.path.join(hd, "ledger.txt"))
        rc, out, err = run([os.path.join(workdir, "s.exe"), os.path.join(hd, "ops.txt")], timeout=30, env=henv)
        runs.append((rc, parse_events(out, bol_obs, lineno), err.decode(errors="replace")))
        if collect is not None:
            collect.append((hi, rc, out, err))
        segs = [[]]
        for o in ops:
            if o[0] == 'X':
                segs.append([])
            else:
                segs[-1].append(o)
        queries.append((len(segs), ["(buffers %d %s)" % (1 if lineno else 0, ops_sx(sg, files)) for sg in segs]))
    flatq = [q for _, qs in queries for q in qs]
    sx = "(case %s\n(queries (%s)))\n" % (scanner.sx_program(mprog), "\n".join(flatq))
    rc, out, err = scanner.run_driver(sx, workdir, timeout=120)
    if rc == "timeout":
        res['problems'].append(('inconclusive', 'driver timeout'))
        return res
    if rc != 0:
        res['problems'].append(('driver-error', "rc=%s %s" % (rc, err[:300])))
        return res
    chunks = out.split("END\n")
    ci = 0
    for hi, ((ops, files), (rrc, revs, rerr)) in enumerate(zip(case['histories'], runs)):
        mevs = []
        for si in range(queries[hi][0]):
            if si:
                mevs.append(('X',))
            mevs += parse_events(chunks[ci].encode(), bol_obs, lineno) if ci < len(chunks) else []
            ci += 1
        mevs.append(('END',))
        ok = rrc == 0 and revs == mevs
        res['streams'].append({'input': str(hi), 'sc': 1, 'real': [(e[2], e[3]) for e in revs if e[0] == 'T'], 'valid': ok, 'text_ok': True})
        if not ok:
            k = 0
            while k < len(revs) and k < len(mevs) and revs[k] == mevs[k]:
                k += 1
            res['problems'].append(('event-mismatch', "history %d rc=%s at event %d: real=%s model=%s ops=%s stderr=%s" % (
                hi, rrc, k, revs[k:k + 3], mevs[k:k + 3], [o for o in ops][:40], rerr[:300])))
    return res
