"""Per-back-end boilerplate (non-reentrant C, reentrant C, c99, C++ class).
Every scanner prints one line `rule:yyleng:fnv1a(yytext)` per action executed."""

EMIT = r"""
static void emit_tok(int r, const char *t, int n)
{
    unsigned h = 2166136261u; int i;
    for (i = 0; i < n; i++) { h ^= (unsigned char) t[i]; h *= 16777619u; }
    printf("%d:%d:%u\n", r, n, h);
    /* a scanner that never ends is stopped here (reported as abnormal), not by filling the memory of the harness */
    { static long emitted; if (++emitted > 400000) { fflush(stdout); fprintf(stderr, "more than 400000 actions executed\n"); exit(7); } }
}
"""

TOP_COMMON = r"""
#include <stdio.h>
#include <stdlib.h>
#include <string.h>
static void emit_tok(int r, const char *t, int n);
"""

BACKENDS = {
    'nr': {
        'options': [],
        'top': TOP_COMMON + "#define tok(r) emit_tok(r, yytext, (int) yyleng)\n#define yyecho() tok(%(defrule)d)\n",
        'main': EMIT + r"""
int main(int argc, char **argv)
{
    yyin = fopen(argv[1], "rb");
    if (!yyin) return 2;
    if (argc > 2) yybegin(atoi(argv[2]));
    yylex();
    return 0;
}
""",
        'cc': ["gcc", "-std=gnu11", "-w", "-O0"], 'ext': 'c',
    },
    'r': {
        'options': ["reentrant"],
        'top': TOP_COMMON + "#define tok(r) emit_tok(r, yytext, (int) yyleng)\n#define yyecho() tok(%(defrule)d)\n",
        'main': EMIT + r"""
int main(int argc, char **argv)
{
    yyscan_t s;
    FILE *f = fopen(argv[1], "rb");
    if (!f) return 2;
    if (yylex_init(&s)) return 3;
    yyset_in(f, s);
    if (argc > 2) { struct yyguts_t *yyg = (struct yyguts_t *) s; yybegin(atoi(argv[2])); }
    yylex(s);
    yylex_destroy(s);
    return 0;
}
""",
        'cc': ["gcc", "-std=gnu11", "-w", "-O0"], 'ext': 'c',
    },
    'c99': {
        'options': ['emit="c99"'],
        'top': "#define _GNU_SOURCE 1\n" + TOP_COMMON +
               "#define tok(r) emit_tok(r, yyget_text(yyscanner), (int) yyget_leng(yyscanner))\n",
        'main': EMIT + r"""
static ssize_t echo_write(void *c, const char *buf, size_t n) { emit_tok(%(defrule)d, buf, (int) n); return (ssize_t) n; }
int main(int argc, char **argv)
{
    yyscan_t s;
    cookie_io_functions_t io = { 0, echo_write, 0, 0 };
    FILE *o = fopencookie(NULL, "w", io);
    FILE *f = fopen(argv[1], "rb");
    if (!f || !o) return 2;
    setvbuf(o, NULL, _IONBF, 0);
    if (yylex_init(&s)) return 3;
    yyset_in(f, s);
    yyset_out(o, s);
    if (argc > 2) yybegin(atoi(argv[2]), s);
    yylex(s);
    yylex_destroy(s);
    return 0;
}
""",
        'cc': ["gcc", "-std=gnu99", "-D_GNU_SOURCE", "-w", "-O0"], 'ext': 'c',
    },
    'cxx': {
        'options': ["c++"],
        'top': TOP_COMMON + "#include <fstream>\n#define tok(r) emit_tok(r, yytext, (int) yyleng)\n#define yyecho() tok(%(defrule)d)\n",
        'main': EMIT + r"""
int main(int argc, char **argv)
{
    std::ifstream in(argv[1], std::ios::binary);
    if (!in) return 2;
    struct L : public yyFlexLexer { L(std::istream *i) : yyFlexLexer(i, 0) {} void setstart(int s) { yybegin(s); } } lexer(&in);
    if (argc > 2) lexer.setstart(atoi(argv[2]));
    lexer.yylex();
    return 0;
}
""",
        'cc': ["g++", "-std=gnu++17", "-w", "-O0"], 'ext': 'cc',
    },
}


# the "go" back end of this tree still emits C (src/go-flex.skl: a renamed copy of the c99 skeleton; the test-suite compiles
# its output with the C compiler): same driver as c99 with the type FlexLexer *
BACKENDS['go'] = {
    'options': ['emit="go"'],
    'top': BACKENDS['c99']['top'],
    'main': BACKENDS['c99']['main'].replace("yyscan_t s;", "FlexLexer *s;"),
    'cc': ["gcc", "-std=gnu99", "-D_GNU_SOURCE", "-w", "-O0", "-x", "c"], 'ext': 'go',
}


def prologue(backend, defrule, extra_top=""):
    b = BACKENDS[backend]
    return "\n%{\n" + b['top'].replace('%(defrule)d', str(defrule)) + extra_top + "\n%}\n"


def epilogue(backend, defrule):
    return BACKENDS[backend]['main'].replace('%(defrule)d', str(defrule))
