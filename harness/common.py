"""Shared plumbing for the /verif checks: PRNG, scratch builds of flex from the
current /repo working tree, process helpers, evidence / replay / verdict output,
known findings."""
import hashlib
import json
import os
import shutil
import subprocess
import sys
import tempfile
import time

VERIF = os.path.dirname(os.path.dirname(os.path.abspath(__file__)))
REPO = os.environ.get("FLEX_REPO", "/repo")
COQ = os.path.join(VERIF, "coq")
EXTRACT = os.path.join(VERIF, "extract")
DRIVER = os.path.join(EXTRACT, "flexv_driver")
NCPU = max(1, min(16, os.cpu_count() or 1))


# ---------------------------------------------------------------- PRNG
class Rng:
    """SplitMix64; every random choice of a run derives from one seed."""
    M = (1 << 64) - 1

    def __init__(self, seed):
        self.s = seed & self.M

    def next(self):
        self.s = (self.s + 0x9E3779B97F4A7C15) & self.M
        z = self.s
        z = ((z ^ (z >> 30)) * 0xBF58476D1CE4E5B9) & self.M
        z = ((z ^ (z >> 27)) * 0x94D049BB133111EB) & self.M
        return z ^ (z >> 31)

    def below(self, n):
        return self.next() % n if n > 0 else 0

    def rng(self, lo, hi):
        return lo + self.below(hi - lo + 1)

    def chance(self, num, den=100):
        return self.below(den) < num

    def pick(self, seq):
        return seq[self.below(len(seq))]

    def weighted(self, pairs):
        tot = sum(w for _, w in pairs)
        x = self.below(tot)
        for v, w in pairs:
            if x < w:
                return v
            x -= w
        return pairs[-1][0]

    def fork(self, tag):
        h = hashlib.sha256(("%d/%s" % (self.s, tag)).encode()).digest()
        return Rng(int.from_bytes(h[:8], "little"))

    def shuffle(self, l):
        l = list(l)
        for i in range(len(l) - 1, 0, -1):
            j = self.below(i + 1)
            l[i], l[j] = l[j], l[i]
        return l


def seed_from_env():
    try:
        return int(os.environ.get("VERIF_SEED", "1"))
    except ValueError:
        return 1


# ---------------------------------------------------------------- processes
def run(cmd, timeout=60, cwd=None, env=None, input=None):
    """Run a command; returns (rc, stdout, stderr) with rc = 'timeout' on timeout."""
    e = dict(os.environ)
    e["LC_ALL"] = "C"
    if env:
        e.update(env)
    def _limits():
        # the extracted code recurses on Peano numbers and long lists
        import resource
        try:
            resource.setrlimit(resource.RLIMIT_STACK, (resource.RLIM_INFINITY, resource.RLIM_INFINITY))
        except (ValueError, OSError):
            pass
    for attempt in range(3):
        try:
            p = subprocess.run(cmd, cwd=cwd, env=e, input=input, stdout=subprocess.PIPE,
                               stderr=subprocess.PIPE, timeout=timeout,
                               preexec_fn=_limits if cmd and cmd[0] == DRIVER else None)
            return p.returncode, p.stdout, p.stderr
        except subprocess.TimeoutExpired as ex:
            return "timeout", ex.stdout or b"", ex.stderr or b""
        except (PermissionError, OSError) as ex:
            # exec of a file another process still has open for writing (a forked worker inherited the compiler's
            # descriptor): ETXTBSY / EACCES for a moment
            if attempt == 2 or ex.errno not in (13, 26):
                raise
            time.sleep(0.2)


class Scratch:
    """A scratch directory outside /repo and /verif, removed on exit."""

    def __init__(self, tag="flexv"):
        base = "/dev/shm" if os.path.isdir("/dev/shm") and os.access("/dev/shm", os.W_OK) else tempfile.gettempdir()
        self.path = tempfile.mkdtemp(prefix=tag + "-", dir=base)

    def sub(self, name):
        p = os.path.join(self.path, name)
        os.makedirs(p, exist_ok=True)
        return p

    def cleanup(self):
        if os.environ.get("VERIF_KEEP_SCRATCH"):
            return          # developer aid (never set by the registered commands); the directory is then removed by hand
        shutil.rmtree(self.path, ignore_errors=True)

    def __enter__(self):
        return self

    def __exit__(self, *a):
        self.cleanup()


class BuildError(Exception):
    pass


def build_flex(scratch, cflags=None, name="r"):
    """Copy the working tree of /repo and build src/flex there.  Returns the
    path of the binary.  The copy keeps mtimes so only changed sources rebuild."""
    dst = os.path.join(scratch.path, name)
    rc, out, err = run(["rsync", "-a", "--exclude", ".git", "--exclude", "tests", "--exclude", "po",
                        "--exclude", "doc", "--exclude", "examples", REPO + "/", dst + "/"], timeout=300)
    if rc != 0:
        raise BuildError("rsync failed: %s" % err.decode(errors="replace"))
    cmd = ["make", "-j%d" % NCPU, "-C", os.path.join(dst, "src"), "flex"]
    if cflags:
        # a differently-flagged build must not reuse the objects of the tree
        run(["make", "-C", os.path.join(dst, "src"), "clean"], timeout=300)
        cmd.append("CFLAGS=" + cflags)
    rc, out, err = run(cmd, timeout=900)
    if rc != 0:
        raise BuildError("make flex failed:\n%s\n%s" % (out.decode(errors="replace")[-3000:], err.decode(errors="replace")[-3000:]))
    binp = os.path.join(dst, "src", "flex")
    if not os.path.exists(binp):
        raise BuildError("no flex binary")
    return binp


def repo_fingerprint():
    """A hash of the source files the checks depend on (for the evidence)."""
    h = hashlib.sha256()
    src = os.path.join(REPO, "src")
    for fn in sorted(os.listdir(src)):
        if fn.endswith((".c", ".h", ".l", ".y", ".skl", ".sh", ".am")) and not fn.startswith(("stage1", "stage2")):
            try:
                with open(os.path.join(src, fn), "rb") as f:
                    h.update(fn.encode())
                    h.update(f.read())
            except OSError:
                pass
    return h.hexdigest()[:16]


# ---------------------------------------------------------------- Coq obligations
FORBIDDEN = ["Admitted", "admit.", "Axiom ", "Parameter ", "Conjecture ", "Unset Guard", "bypass_check",
             "Admit Obligations", "-type-in-type", "impredicative-set", "Unset Positivity", "Unset Universe"]


def coq_scan_forbidden():
    bad = []
    for fn in sorted(os.listdir(COQ)):
        if not fn.endswith(".v"):
            continue
        with open(os.path.join(COQ, fn)) as f:
            for ln, line in enumerate(f, 1):
                code = line.split("(*")[0]
                for tok in FORBIDDEN:
                    if tok in code:
                        bad.append("%s:%d: %s" % (fn, ln, tok.strip()))
    return bad


def coq_make(targets, timeout=1500):
    """(Re)build the given .vo targets of the development; returns (ok, log)."""
    mk = os.path.join(COQ, "Makefile")
    if not os.path.exists(mk):
        rc, out, err = run(["coq_makefile", "-f", "_CoqProject", "-o", "Makefile"], cwd=COQ, timeout=120)
        if rc != 0:
            return False, (out + err).decode(errors="replace")
    rc, out, err = run(["make", "-j%d" % NCPU] + targets, cwd=COQ, timeout=timeout)
    return rc == 0, (out + err).decode(errors="replace")


def coq_assumptions(props_file):
    """Re-check one Properties_*.v with coqc and collect what Print Assumptions says.
    Returns (ok, {theorem: text})."""
    rc, out, err = run(["coqc", "-Q", ".", "FlexV", props_file], cwd=COQ, timeout=1500)
    txt = (out + err).decode(errors="replace")
    if rc != 0:
        return False, {"error": txt[-4000:]}
    res = {}
    cur = None
    names = []
    with open(os.path.join(COQ, props_file)) as f:
        for line in f:
            line = line.strip()
            if line.startswith("Print Assumptions"):
                names.append(line.split()[2].rstrip("."))
    chunks = []
    buf = []
    for line in txt.splitlines():
        if line.startswith("Closed under the global context") or line.startswith("Axioms:"):
            if buf:
                chunks.append("\n".join(buf))
            buf = [line]
        else:
            buf.append(line)
    if buf:
        chunks.append("\n".join(buf))
    chunks = [c for c in chunks if c.startswith(("Closed under", "Axioms:"))]
    for n, c in zip(names, chunks):
        res[n] = c.strip()
    return True, res


# ---------------------------------------------------------------- verdicts
class Check:
    """Collects the outcome of one check run and writes evidence / replays."""

    def __init__(self, prop, tier, level="proof"):
        self.prop = prop
        self.tier = tier
        self.level = level
        self.seed = seed_from_env()
        self.t0 = time.time()
        self.violations = []       # (key, what, replay_path, noinput)
        self.known = []
        self.coverage = {}
        self.assumptions = []
        self.findings = load_known_findings().get(prop, [])
        os.makedirs(os.path.join(VERIF, "evidence"), exist_ok=True)
        os.makedirs(os.path.join(VERIF, "replays"), exist_ok=True)

    def known_match(self, key):
        for f in self.findings:
            if f.get("status") == "known" and f.get("key") == key:
                return f
        return None

    def violation(self, key, what, replay, no_input=False):
        """Report a failure.  `key` identifies the specific failing construct; a
        failure whose key is listed in KNOWN_FINDINGS.json is printed as a known
        finding instead."""
        f = self.known_match(key)
        if f is not None:
            if key not in [k for k, _ in self.known]:
                self.known.append((key, f.get("what", what)))
            return False
        for k, _, _, _ in self.violations:
            if k == key:
                return True
        if len(self.violations) >= 12:          # enough to act on; the count is kept
            self.suppressed = getattr(self, 'suppressed', 0) + 1
            return True
        h = hashlib.sha256((self.prop + key).encode()).hexdigest()[:12]
        path = os.path.join(VERIF, "replays", "%s-%s.json" % (self.prop, h))
        replay = dict(replay)
        replay.update({"property": self.prop, "key": key, "what": what, "seed": self.seed,
                       "tier": self.tier, "no_failing_input_found": bool(no_input)})
        with open(path, "w") as fp:
            json.dump(replay, fp, indent=1, sort_keys=True, default=str)
        self.violations.append((key, what, path, no_input))
        return True

    def finish(self, coverage, assumptions=None):
        cov = dict(coverage)
        ev = {"property_id": self.prop, "tier": self.tier, "seed": self.seed, "level": self.level,
              "coverage": cov, "assumptions": assumptions or [], "wall_s": round(time.time() - self.t0, 2),
              "violations": len(self.violations),
              "known_findings_seen": [k for k, _ in self.known],
              "repo_fingerprint": repo_fingerprint()}
        with open(os.path.join(VERIF, "evidence", self.prop + ".json"), "w") as fp:
            json.dump(ev, fp, indent=1, sort_keys=True, default=str)
        for key, what in self.known:
            print("KNOWN-FINDING: property=%s %s" % (self.prop, what))
        for key, what, path, noinput in self.violations:
            sys.stderr.write("violation [%s]: %s\n" % (key, what))
            print("VIOLATION property=%s replay=%s%s" % (self.prop, path, " no-failing-input-found" if noinput else ""))
        sys.stdout.flush()
        return 1 if self.violations else 0


def load_known_findings():
    p = os.path.join(VERIF, "KNOWN_FINDINGS.json")
    if not os.path.exists(p):
        return {}
    with open(p) as f:
        data = json.load(f)
    res = {}
    for e in data.get("findings", []):
        res.setdefault(e["property"], []).append(e)
    return res


def parallel_map(fn, items, workers=None):
    """Run fn over items in worker processes (fork); results in order."""
    import multiprocessing as mp
    workers = workers or NCPU
    if workers <= 1 or len(items) <= 1:
        return [fn(x) for x in items]
    ctx = mp.get_context("fork")
    with ctx.Pool(workers) as pool:
        return pool.map(fn, items, chunksize=1)
