"""Pattern ASTs: random generation, printing in flex syntax (several spellings),
and printing as S-expressions for the extracted Coq code.

AST (tuples):
  ('c', byte) ('any',) ('cls', cexpr) ('str', [bytes]) ('cat', a, b) ('alt', a, b)
  ('star', a) ('plus', a) ('opt', a) ('rep', a, n) ('repmin', a, n) ('reprange', a, n, m)
  ('flags', ion, ioff, son, soff, a, x)     x = print with the x flag (layout only)
  ('name', name, a)                          {name} with definition a
cexpr: ('set', neg, items) ('diff', a, b) ('union', a, b)
items: ('ch', c) ('rg', lo, hi) ('px', neg, k)
"""

POSIX = ["alnum", "alpha", "blank", "cntrl", "digit", "graph", "lower", "print", "punct", "space", "upper", "xdigit"]

SAFE_PLAIN = set(b"abcdefghijklmnopqrstuvwxyzABCDEFGHIJKLMNOPQRSTUVWXYZ0123456789_,:;=!@#&~`'")
C_ESC = {7: "a", 8: "b", 12: "f", 10: "n", 13: "r", 9: "t", 11: "v"}


# ------------------------------------------------------------------ sexp
def sx_items(items):
    out = []
    for it in items:
        if it[0] == 'ch':
            out.append("(ch %d)" % it[1])
        elif it[0] == 'rg':
            out.append("(rg %d %d)" % (it[1], it[2]))
        else:
            out.append("(px %d %d)" % (1 if it[1] else 0, it[2]))
    return "(" + " ".join(out) + ")"


def sx_cexpr(e):
    if e[0] == 'set':
        return "(set %d %s)" % (1 if e[1] else 0, sx_items(e[2]))
    return "(%s %s %s)" % (e[0], sx_cexpr(e[1]), sx_cexpr(e[2]))


def sx_pat(p):
    k = p[0]
    if k == 'c':
        return "(c %d)" % p[1]
    if k == 'any':
        return "any"
    if k == 'cls':
        return "(cls %s)" % sx_cexpr(p[1])
    if k == 'str':
        return "(str (%s))" % " ".join(str(b) for b in p[1])
    if k in ('cat', 'alt'):
        return "(%s %s %s)" % (k, sx_pat(p[1]), sx_pat(p[2]))
    if k in ('star', 'plus', 'opt'):
        return "(%s %s)" % (k, sx_pat(p[1]))
    if k in ('rep', 'repmin'):
        return "(%s %s %d)" % (k, sx_pat(p[1]), p[2])
    if k == 'reprange':
        return "(reprange %s %d %d)" % (sx_pat(p[1]), p[2], p[3])
    if k == 'flags':
        return "(flags %d %d %d %d %s)" % (p[1], p[2], p[3], p[4], sx_pat(p[5]))
    if k == 'name':
        return sx_pat(p[2])
    raise ValueError(k)


# ------------------------------------------------------------------ flex syntax
def spell_char(c, rng, in_class=False, in_quote=False, nxt=None):
    """One spelling of byte c. nxt = following byte (to keep numeric escapes unambiguous)."""
    nxt_hex = nxt is not None and chr(nxt) in "0123456789abcdefABCDEF"
    nxt_oct = nxt is not None and chr(nxt) in "01234567"
    opts = []
    if c in SAFE_PLAIN:
        opts += ["plain"] * 6
    elif 33 <= c <= 126:
        opts += ["bs"] * 4
    if c in C_ESC:
        opts += ["cesc"] * 4
    if not nxt_hex:
        opts += ["hex"]
        if c < 16:
            opts += ["hex1"]
    if not nxt_oct:
        opts += ["oct3"]
        if c == 0:
            opts += ["nul"] * 3
        elif c < 8:
            opts += ["oct1"]
    if not opts:
        opts = ["oct3"] if not nxt_oct else ["hexb"]
    ch = rng.pick(opts) if rng else opts[0]
    if ch == "plain":
        return chr(c)
    if ch == "bs":
        return "\\" + chr(c)
    if ch == "cesc":
        return "\\" + C_ESC[c]
    if ch == "hex":
        return "\\x%02x" % c if (rng is None or rng.chance(50)) else "\\x%02X" % c
    if ch == "hex1":
        return "\\x%x" % c
    if ch == "hexb":
        return "\\x%02x" % c
    if ch == "oct3":
        return "\\%03o" % c
    if ch == "oct1":
        return "\\%o" % c
    if ch == "nul":
        return "\\0"
    raise ValueError(ch)


def _full(c):
    return "\\%03o" % c


def print_items(items, rng):
    out = []
    for idx, it in enumerate(items):
        if it[0] == 'ch':
            out.append(spell_char(it[1], rng, in_class=True))
        elif it[0] == 'rg':
            out.append(spell_char(it[1], rng, in_class=True) + "-" + spell_char(it[2], rng, in_class=True))
        else:
            out.append("[:%s%s:]" % ("^" if it[1] else "", POSIX[it[2]]))
    # a short numeric escape must not swallow the first character of the next item
    for idx in range(len(out) - 1):
        if _ends_numeric_escape(out[idx]) and out[idx + 1][0] in "0123456789abcdefABCDEF":
            it = items[idx]
            if it[0] == 'ch':
                out[idx] = _full(it[1])
            elif it[0] == 'rg':
                out[idx] = _full(it[1]) + "-" + _full(it[2])
    return "".join(out)


def print_cexpr(e, rng):
    if e[0] == 'set':
        return "[" + ("^" if e[1] else "") + print_items(e[2], rng) + "]"
    op = "{-}" if e[0] == 'diff' else "{+}"
    # left associative: the right operand must be a plain set
    return print_cexpr(e[1], rng) + op + print_cexpr(e[2], rng)


PREC = {'alt': 0, 'cat': 1, 'star': 2, 'plus': 2, 'opt': 2, 'rep': 2, 'repmin': 2, 'reprange': 2}


def print_pat(p, rng, ctx=0, xmode=False, posix=False, defs=None):
    """ctx: minimal precedence required by the context (0 alt, 1 cat, 2 postfix operand)."""
    k = p[0]
    sp = ""
    if xmode and rng and rng.chance(40):
        sp = rng.pick([" ", "  ", "\t", " /* c */ "])

    def wrap(s, prec):
        need = prec < ctx
        if not need and rng and rng.chance(8):
            need = True
        return sp + ("(" + s + ")" if need else s)

    if k == 'c':
        return sp + spell_char(p[1], rng)
    if k == 'any':
        return sp + "."
    if k == 'cls':
        return sp + print_cexpr(p[1], rng)
    if k == 'str':
        s = ""
        bs = p[1]
        for i, b in enumerate(bs):
            nxt = bs[i + 1] if i + 1 < len(bs) else None
            if b == 34 or b == 92:
                s += "\\" + chr(b)
            elif 32 <= b <= 126:
                s += chr(b)
            else:
                s += spell_char(b, rng, in_quote=True, nxt=nxt)
        return sp + '"' + s + '"'
    if k == 'cat':
        # adjacent plain characters: keep numeric escapes unambiguous by never
        # letting a hex/octal escape be followed directly by a digit-like char
        a = print_pat(p[1], rng, 1, xmode, posix, defs)
        b = print_pat(p[2], rng, 1, xmode, posix, defs)
        if posix and p[2][0] in ('rep', 'repmin', 'reprange'):
            # POSIX / AT&T precedence: a counted repeat applies to the whole series before it, so as the right operand of a
            # concatenation it needs parentheses of its own
            b = "(" + print_pat(p[2], rng, 0, xmode, posix, defs) + ")"

        if a and b and a[-1] not in ")]\"}*+?." and _ends_numeric_escape(a) and b[0] in "0123456789abcdefABCDEF":
            b = "(" + b + ")"
        return wrap(a + b, 1)
    if k == 'alt':
        a = print_pat(p[1], rng, 0, xmode, posix, defs)
        b = print_pat(p[2], rng, 1, xmode, posix, defs)
        return wrap(a + "|" + b, 0)
    if k in ('star', 'plus', 'opt'):
        a = print_pat(p[1], rng, 3, xmode, posix, defs)
        return wrap(a + {'star': '*', 'plus': '+', 'opt': '?'}[k], 2)
    if k in ('rep', 'repmin', 'reprange'):
        a = print_pat(p[1], rng, 3, xmode, posix, defs)
        if k == 'rep':
            suf = "{%d}" % p[2]
        elif k == 'repmin':
            suf = "{%d,}" % p[2]
        else:
            suf = "{%d,%d}" % (p[2], p[3])
        return wrap(a + suf, 2)
    if k == 'flags':
        on = ("i" if p[1] else "") + ("s" if p[3] else "") + ("x" if p[6] else "")
        off = ("i" if p[2] else "") + ("s" if p[4] else "")
        inner = print_pat(p[5], rng, 0, xmode or bool(p[6]), posix, defs)
        return sp + "(?" + on + ("-" + off if off else "") + ":" + inner + ")"
    if k == 'name':
        if defs is not None and p[1] not in defs:
            d = print_pat(p[2], rng, 0, False, posix, defs)
            # the manual: a definition that "begins with ^ or ends with $" is expanded without parentheses; flex applies
            # this to the text, so also to an escaped \$ at the end: such a definition is written with its own parentheses
            if d.endswith("$") or d.startswith("^"):
                d = "(" + d + ")"
            defs[p[1]] = d
        return sp + "{" + p[1] + "}"
    raise ValueError(k)


def _ends_numeric_escape(s):
    import re
    return re.search(r"\\(x[0-9a-fA-F]{1,2}|[0-7]{1,3})$", s) is not None


# postfix operands: atoms only (ctx 3) -> anything that is not an atom gets parentheses
def _is_atom(p):
    return p[0] in ('c', 'any', 'cls', 'str', 'flags', 'name')


_orig_print_pat = print_pat


def print_pattern(p, rng, posix=False, defs=None):
    """Print a pattern; ctx=3 handling: parenthesise non-atoms under postfix operators."""
    return _orig_print_pat(_paren_fix(p), rng, 0, False, posix, defs)


def _paren_fix(p):
    return p


# ------------------------------------------------------------------ generation
class Gen:
    """Random pattern generator, weighted toward the corners of the syntax."""

    def __init__(self, rng, csize=256, alphabet=None, allow_nul=True, allow_flags=True, allow_names=True,
                 max_depth=4):
        self.rng = rng
        self.csize = csize
        # a small working alphabet keeps rules overlapping (so that longest
        # match / first rule decisions actually occur)
        self.alpha = alphabet or [97, 98, 99, 65, 66, 48, 10, 32]
        self.allow_nul = allow_nul
        self.allow_flags = allow_flags
        self.allow_names = allow_names
        self.max_depth = max_depth
        self.names = {}

    def byte(self):
        r = self.rng
        x = r.below(100)
        if x < 70:
            return r.pick(self.alpha)
        if x < 75 and self.allow_nul:
            return 0
        if x < 85:
            return r.pick([9, 10, 13, 32, 34, 92, 47, 36, 94, 91, 93, 45, 123, 125, 40, 41, 42, 43, 63, 124, 46, 60, 62, 37])
        if x < 92 and self.csize > 128:
            return r.rng(128, 255)
        return r.rng(1, min(self.csize, 128) - 1)

    def items(self):
        r = self.rng
        n = r.weighted([(1, 5), (2, 4), (3, 2)])
        out = []
        for _ in range(n):
            x = r.below(100)
            if x < 45:
                out.append(('ch', self.byte()))
            elif x < 80:
                a, b = self.byte(), self.byte()
                if r.chance(60):
                    base = r.pick([97, 65, 48])
                    a = base + r.below(6)
                    b = a + r.below(8)
                    if r.chance(15):
                        # ranges crossing the case boundaries (manual's table)
                        a, b = r.pick([(65, 116), (95, 123), (64, 67), (83, 116), (90, 97)])
                lo, hi = min(a, b), max(a, b)
                if hi >= self.csize:
                    hi = self.csize - 1
                    lo = min(lo, hi)
                out.append(('rg', lo, hi))
            else:
                out.append(('px', r.chance(25), r.below(12)))
        return out

    def cset(self):
        return ('set', self.rng.chance(25), self.items())

    def cexpr(self):
        r = self.rng
        e = self.cset()
        n = r.weighted([(0, 75), (1, 18), (2, 7)])
        for _ in range(n):
            e = (r.pick(['diff', 'union']), e, self.cset())
        return e

    def atom(self):
        r = self.rng
        x = r.below(100)
        if x < 45:
            return ('c', self.byte())
        if x < 55:
            return ('any',)
        if x < 80:
            return ('cls', self.cexpr())
        n = r.weighted([(0, 1), (1, 3), (2, 4), (3, 3), (5, 1)])
        return ('str', [self.byte() for _ in range(n)])

    def pat(self, depth=None):
        r = self.rng
        if depth is None:
            depth = self.max_depth
        if depth <= 0:
            return self.atom()
        x = r.below(100)
        if x < 22:
            return self.atom()
        if x < 50:
            return ('cat', self.pat(depth - 1), self.pat(depth - 1))
        if x < 62:
            return ('alt', self.pat(depth - 1), self.pat(depth - 1))
        if x < 70:
            return ('star', self.pat(depth - 1))
        if x < 77:
            return ('plus', self.pat(depth - 1))
        if x < 83:
            return ('opt', self.pat(depth - 1))
        if x < 91:
            kind = r.pick(['rep', 'repmin', 'reprange'])
            a = self.pat(min(depth - 1, 2))
            if kind == 'rep':
                return ('rep', a, r.rng(1, 4))
            if kind == 'repmin':
                return ('repmin', a, r.rng(1, 3))
            n = r.rng(0, 3)
            m = r.rng(max(n, 1), n + 3)
            return ('reprange', a, n, m)
        if x < 96 and self.allow_flags:
            ion = r.chance(50)
            ioff = (not ion) and r.chance(30)
            son = r.chance(40)
            soff = (not son) and r.chance(30)
            return ('flags', int(ion), int(ioff), int(son), int(soff), self.pat(depth - 1), int(r.chance(30)))
        if self.allow_names:
            if self.names and r.chance(50):
                nm = r.pick(sorted(self.names))
            else:
                nm = def_name(len(self.names))
                saved = self.allow_names
                self.allow_names = False          # definitions here do not refer to definitions
                body = self.pat(min(depth - 1, 2))
                self.allow_names = saved
                self.names[nm] = body
            return ('name', nm, self.names[nm])
        return self.atom()


def _flex_hash(name, size=101):
    h = 0
    for ch in name.encode():
        h = ((h << 1) + ch) % size
    return h


_DEF_NAMES = {}


def def_name(k):
    """D0, then a name that has D0 as a prefix and the same value of flex's symbol hash (declared after it), D2, its twin, ...:
    look-ups must compare whole names."""
    if k in _DEF_NAMES:
        return _DEF_NAMES[k]
    if k % 2 == 0:
        nm = "D%d" % k
    else:
        base = "D%d" % (k - 1)
        nm = "D%d" % k
        letters = "abcdefghijklmnopqrstuvwxyz0123456789_"
        done = False
        for a in letters:
            for b in letters:
                if _flex_hash(base + "_" + a + b) == _flex_hash(base):
                    nm = base + "_" + a + b
                    done = True
                    break
            if done:
                break
    _DEF_NAMES[k] = nm
    return nm


def nullable(p):
    k = p[0]
    if k in ('c', 'any', 'cls'):
        return False
    if k == 'str':
        return len(p[1]) == 0
    if k == 'cat':
        return nullable(p[1]) and nullable(p[2])
    if k == 'alt':
        return nullable(p[1]) or nullable(p[2])
    if k in ('star', 'opt'):
        return True
    if k == 'plus':
        return nullable(p[1])
    if k == 'rep':
        return nullable(p[1])
    if k == 'repmin':
        return nullable(p[1])
    if k == 'reprange':
        return p[2] == 0 or nullable(p[1])
    if k == 'flags':
        return nullable(p[5])
    if k == 'name':
        return nullable(p[2])
    raise ValueError(k)


def size(p):
    k = p[0]
    if k in ('c', 'any', 'cls'):
        return 1
    if k == 'str':
        return max(1, len(p[1]))
    if k in ('cat', 'alt'):
        return size(p[1]) + size(p[2])
    if k in ('star', 'plus', 'opt'):
        return size(p[1]) + 1
    if k == 'rep':
        return size(p[1]) * p[2]
    if k == 'repmin':
        return size(p[1]) * (p[2] + 1)
    if k == 'reprange':
        return size(p[1]) * max(p[3], 1)
    if k == 'flags':
        return size(p[5])
    if k == 'name':
        return size(p[2])
    raise ValueError(k)


def minlen(p):
    """Length of the shortest member of the pattern's language (classes assumed non-empty)."""
    k = p[0]
    if k in ('c', 'any', 'cls'):
        return 1
    if k == 'str':
        return len(p[1])
    if k == 'cat':
        return minlen(p[1]) + minlen(p[2])
    if k == 'alt':
        return min(minlen(p[1]), minlen(p[2]))
    if k in ('star', 'opt'):
        return 0
    if k == 'plus':
        return minlen(p[1])
    if k in ('rep', 'repmin'):
        return minlen(p[1]) * p[2]
    if k == 'reprange':
        return minlen(p[1]) * p[2]
    if k == 'flags':
        return minlen(p[5])
    if k == 'name':
        return minlen(p[2])
    raise ValueError(k)


def fixed_len(p):
    """Mirror of GenParse.fixed_len (generator steering only, not an oracle)."""
    k = p[0]
    if k in ('c', 'any', 'cls'):
        return 1
    if k == 'str':
        return len(p[1])
    if k == 'cat':
        a, b = fixed_len(p[1]), fixed_len(p[2])
        return None if a is None or b is None else a + b
    if k == 'flags':
        return fixed_len(p[5])
    if k == 'name':
        return fixed_len(p[2])
    return None
