"""Programs in the action language of coq/Stream.v: generation, printing as C
actions for each back end, running the compiled scanner and comparing its
event stream with the extracted stream machine."""
import os
import re

import backends
import patgen
import rulesets
import scanner
import tables
import tokcase
from common import run

# ops (python tuples): ('begin', s) ('push', s) ('pop',) ('top',) ('less', 'const'|'minus', k)
#   ('unput', [bytes]) ('input', k) ('more',) ('setbol', b) ('return', v) ('terminate',)


def op_sx(o):
    k = o[0]
    if k in ('begin', 'push', 'input', 'setbol', 'return'):
        return "(%s %d)" % (k, int(o[1]))
    if k in ('pop', 'top', 'more', 'terminate'):
        return "(%s)" % k
    if k == 'less':
        return "(less %s %d)" % (o[1], o[2])
    if k == 'unput':
        return "(unput (%s))" % " ".join(str(b) for b in o[1])
    raise ValueError(k)


API = {
    # back end -> spelling of each call inside an action
    'nr': dict(begin="yybegin(%d);", push="yy_push_state(%d);", pop="yy_pop_state();", top='printf("P %d\\n", yy_top_state());',
               less="yyless(%s);", unput="yyunput(%d);", input='printf("I %d\\n", (int) (unsigned char) yyinput());',
               more="yymore();", setbol="yysetbol(%d);", ret="return %d;", term="yyterminate();",
               leng="(int) yyleng", text="yytext", start="yystart()", lineno="yylineno", atbol="(int) yyatbol()"),
    'r': dict(begin="yybegin(%d);", push="yy_push_state(%d, yyscanner);", pop="yy_pop_state(yyscanner);",
              top='printf("P %d\\n", yy_top_state(yyscanner));',
              less="yyless(%s);", unput="yyunput(%d);", input='printf("I %d\\n", (int) (unsigned char) yyinput(yyscanner));',
              more="yymore();", setbol="yysetbol(%d);", ret="return %d;", term="yyterminate();",
              leng="(int) yyleng", text="yytext", start="yystart()", lineno="yylineno", atbol="(int) yyatbol()"),
    'c99': dict(begin="yybegin(%d);", push="yy_push_state(%d, yyscanner);", pop="yy_pop_state(yyscanner);",
                top='printf("P %d\\n", yy_top_state(yyscanner));',
                less="yyless(%s);", unput="yyunput(%d);", input='printf("I %d\\n", (int) (unsigned char) yyinput());',
                more="yymore();", setbol="yysetbol(%d);", ret="return %d;", term="yyterminate();",
                leng="(int) yyleng", text="yytext", start="yystart()", lineno="yylineno", atbol="(int) yyatbol()"),
    'cxx': dict(begin="yybegin(%d);", push="yy_push_state(%d);", pop="yy_pop_state();", top='printf("P %d\\n", yy_top_state());',
                less="yyless(%s);", unput="yyunput(%d);", input='printf("I %d\\n", (int) (unsigned char) yyinput());',
                more="yymore();", setbol="yysetbol(%d);", ret="return %d;", term="yyterminate();",
                leng="(int) yyleng", text="yytext", start="yystart()", lineno="yylineno", atbol="(int) yyatbol()"),
}


# the spellings the manual has always used (macros of their own in the skeleton: BEGIN, YY_START, unput, input, yy_set_bol, YY_AT_BOL)
LEGACY = {
    'nr': dict(begin="BEGIN(%d);", unput="unput(%d);", input='printf("I %d\\n", (int) (unsigned char) input());',
               setbol="yy_set_bol(%d);", start="YY_START", atbol="(int) YY_AT_BOL()"),
    'r': dict(begin="BEGIN %d;", unput="unput(%d);", input='printf("I %d\\n", (int) (unsigned char) input(yyscanner));',
              setbol="yy_set_bol(%d);", start="YYSTATE", atbol="(int) YY_AT_BOL()"),
}
_legacy = [False]
_cut = [False]              # yyless called from a function of the user-code section (the second definition of yyless / the c99 function)
_less_direct = [False]      # %array programs: yyless always gets the expression itself (the macro adjusts for text kept by yymore)


def api(backend):
    a = API[backend]
    if _legacy[0] and backend in LEGACY:
        a = dict(a)
        a.update(LEGACY[backend])
    return a


def action_c(rule_no, ops, backend, lineno_on, bol_obs):
    a = api(backend)
    ln = a['lineno'] if (lineno_on or backend == 'nr') else "1"
    bol = a['atbol'] if bol_obs else "-1"
    out = []
    if rule_no:
        out.append('ev_tok(%d, %s, %s, %s, %s, %s);' % (rule_no, a['text'], a['leng'], a['start'], ln, bol))
    for o in ops:
        k = o[0]
        if k == 'begin':
            b = a['begin'] % (o[1] - 1)
            if b.startswith("yybegin(") and (rule_no + len(out)) % 4 != 0:
                # the argument is an expression, not a constant (yybegin is a macro in the C skeleton): g_z is 0
                b = "yybegin(" + ["g_z ? 0 : %d", "%d + g_z", "g_z | %d"][(rule_no + len(out)) % 4 - 1] % (o[1] - 1) + ");"
            out.append(b)
        elif k == 'push':
            out.append(a['push'] % (o[1] - 1))
        elif k == 'pop':
            out.append(a['pop'])
        elif k == 'top':
            out.append(a['top'])
        elif k == 'less':
            if o[1] == 'const':
                n = "(%d < %s ? %d : %s)" % (o[2], a['leng'], o[2], a['leng'])
            else:
                n = "(%s > %d ? %s - %d : 0)" % (a['leng'], o[2], a['leng'], o[2])
            # (the argument is kept free of parentheses: the c99 action scanner cuts yyless(...) at the first ')')
            if _cut[0] and rule_no % 2 == 1:
                out.append("cut_(%s%s);" % (n, "" if backend == 'nr' else ", yyscanner"))
            elif backend != 'c99' and (_less_direct[0] or (rule_no + len(out)) % 2 == 0):
                # the manual's own idiom: the expression (it mentions yyleng) is the macro argument itself
                out.append(a['less'] % n)
            else:
                out.append("{ int yn_ = %s; %s }" % (n, a['less'] % "yn_"))
        elif k == 'unput':
            for b in o[1]:
                out.append(a['unput'] % b)
        elif k == 'input':
            for _ in range(o[1]):
                out.append(a['input'])
        elif k == 'more':
            out.append(a['more'])
        elif k == 'setbol':
            # (any non-zero argument means 'at the beginning of a line')
            out.append(a['setbol'] % ([1, 2, 7, -1][(rule_no + len(out)) % 4] if o[1] else 0))
        elif k == 'return':
            out.append(a['ret'] % o[1])
        elif k == 'terminate':
            out.append(a['term'])
    return " ".join(out)


EV_C = r"""
static void ev_tok(int r, const char *t, int n, int sc, int line, int bol)
{
    unsigned h = 2166136261u; int i;
    for (i = 0; i < n; i++) { h ^= (unsigned char) t[i]; h *= 16777619u; }
    printf("T %d %d %u %d %d %d\n", r, n, h, sc, line, bol);
}
"""

TOP = r"""
#include <stdio.h>
#include <stdlib.h>
#include <string.h>
static void ev_tok(int r, const char *t, int n, int sc, int line, int bol);
static int g_argc; static char **g_argv; static int g_next; static int g_z;
"""

# argv: [-a|-r] file... [-- file...]...   files of one session are chained by yywrap; after yylex returned 0 the
# next session is started by plain assignment to yyin (-a) or by yyrestart (-r)
COMMON_MAIN = r"""
static int g_mode;
static int next_file(void) { if (g_next < g_argc && strcmp(g_argv[g_next], "--") != 0) return g_next++; return -1; }
static int next_session(void) { if (g_next < g_argc && strcmp(g_argv[g_next], "--") == 0) { g_next++; return 1; } return 0; }
/* mode b: every source is handed over as an in-memory buffer (yy_scan_bytes) instead of a FILE */
static char *slurp(const char *path, int *len)
{
    FILE *f = fopen(path, "rb"); char *p; long n;
    if (!f) exit(2);
    fseek(f, 0, SEEK_END); n = ftell(f); fseek(f, 0, SEEK_SET);
    p = (char *) malloc((size_t) n + 1); *len = (int) fread(p, 1, (size_t) n, f); fclose(f);
    return p;
}
"""

MAIN = {
    'nr': COMMON_MAIN + r"""
int yywrap(void)
{
    int k = next_file();
    if (k >= 0 && g_mode == 'b') { int n; char *p = slurp(g_argv[k], &n); YY_BUFFER_STATE old = YY_CURRENT_BUFFER;
                                   yy_scan_bytes(p, n); yy_delete_buffer(old); free(p); return 0; }
    if (k >= 0) { FILE *f = fopen(g_argv[k], "rb"); if (!f) exit(2); yyin = f; return 0; }
    return 1;
}
int main(int argc, char **argv)
{
    int v, k;
    g_argc = argc; g_argv = argv; g_next = 2; g_mode = argv[1][1];
    k = next_file();
    if (g_mode == 'b' && k >= 0) { int n; char *p = slurp(argv[k], &n); yy_scan_bytes(p, n); free(p); }
    else {
    yyin = k >= 0 ? fopen(argv[k], "rb") : fopen("/dev/null", "rb");
    if (!yyin) return 2;
    }
    for (;;) {
        while ((v = yylex()) != 0) printf("R %d\n", v);
        printf("R 0\n");
        if (!next_session()) break;
        k = next_file();
        { FILE *f = k >= 0 ? fopen(argv[k], "rb") : fopen("/dev/null", "rb"); if (!f) return 2;
          if (g_mode == 'd') { yylex_destroy(); yyin = f; }      /* a destroyed scanner is used again as if fresh */
          else if (g_mode == 'r') yyrestart(f); else yyin = f; }
    }
    fflush(stdout);
    yylex_destroy();
    return 0;
}
""",
    'r': COMMON_MAIN + r"""
int yywrap(yyscan_t s)
{
    int k = next_file();
    if (k >= 0 && g_mode == 'b') { int n; char *p = slurp(g_argv[k], &n); struct yyguts_t *yyg = (struct yyguts_t *) s;
                                   YY_BUFFER_STATE old = YY_CURRENT_BUFFER; int ln = yyget_lineno(s);
                                   /* a reentrant scanner counts lines per buffer: the count is carried over to the new one */
                                   yy_scan_bytes(p, n, s); yyset_lineno(ln, s); yy_delete_buffer(old, s); free(p); return 0; }
    if (k >= 0) { FILE *f = fopen(g_argv[k], "rb"); if (!f) exit(2); yyset_in(f, s); return 0; }
    return 1;
}
int main(int argc, char **argv)
{
    int v, k; yyscan_t s; FILE *f;
    g_argc = argc; g_argv = argv; g_next = 2; g_mode = argv[1][1];
    k = next_file();
    f = k >= 0 ? fopen(argv[k], "rb") : fopen("/dev/null", "rb");
    if (!f) return 2;
    if (yylex_init(&s)) return 3;
    if (g_mode == 'b' && k >= 0) { int n; char *p = slurp(argv[k], &n); yy_scan_bytes(p, n, s); free(p); }
    else yyset_in(f, s);
    for (;;) {
        while ((v = yylex(s)) != 0) printf("R %d\n", v);
        printf("R 0\n");
        if (!next_session()) break;
        k = next_file();
        f = k >= 0 ? fopen(argv[k], "rb") : fopen("/dev/null", "rb"); if (!f) return 2;
        if (g_mode == 'r') yyrestart(f, s); else yyset_in(f, s);
    }
    fflush(stdout);
    yylex_destroy(s);
    return 0;
}
""",
    'cxx': COMMON_MAIN + r"""
static std::ifstream *g_streams[256]; static int g_nstreams;
static std::ifstream *open_stream(const char *p) { std::ifstream *f = new std::ifstream(p, std::ios::binary); if (g_nstreams < 256) g_streams[g_nstreams++] = f; return f; }
/* mode m: every source goes through ONE stream object, refilled after it ran dry (clear + str) */
static std::stringstream g_ss;
static std::istream *refill(const char *p) { int n; char *d = slurp(p, &n); g_ss.clear(); g_ss.str(std::string(d, (size_t) n)); free(d); return &g_ss; }
int yyFlexLexer::yywrap()
{
    int k = next_file();
    if (k >= 0 && g_mode == 'm') { yyrestart(refill(g_argv[k])); return 0; }
    if (k >= 0) { std::ifstream *f = open_stream(g_argv[k]); if (!*f) exit(2); switch_streams(f, 0); return 0; }
    return 1;
}
int main(int argc, char **argv)
{
    int v, k;
    g_argc = argc; g_argv = argv; g_next = 2; g_mode = argv[1][1];
    k = next_file();
    std::istream *in = (g_mode == 'm' && k >= 0) ? refill(argv[k]) : open_stream(k >= 0 ? argv[k] : "/dev/null");
    if (!*in) return 2;
    yyFlexLexer lexer(in, 0);
    for (;;) {
        while ((v = lexer.yylex()) != 0) printf("R %d\n", v);
        printf("R 0\n");
        if (!next_session()) break;
        k = next_file();
        if (g_mode == 'm' && k >= 0) { lexer.yyrestart(refill(argv[k])); continue; }
        std::ifstream *f = open_stream(k >= 0 ? argv[k] : "/dev/null"); if (!*f) return 2;
        if (g_mode == 'r') lexer.yyrestart(f); else lexer.switch_streams(f, 0);
    }
    fflush(stdout);
    return 0;
}
""",
}
MAIN['c99'] = COMMON_MAIN + r"""
static ssize_t echo_write(void *c, const char *buf, size_t n)
{
    yyscan_t s = (yyscan_t) g_scanner;
    ev_tok(g_defrule, buf, (int) n, yystart(s), g_lineno_on ? yyget_lineno(s) : 1, g_bol_obs ? (int) yyatbol(s) : -1);
    return (ssize_t) n;
}
int yywrap(yyscan_t s)
{
    int k = next_file();
    if (k >= 0) { FILE *f = fopen(g_argv[k], "rb"); if (!f) exit(2); yyset_in(f, s); return 0; }
    return 1;
}
int main(int argc, char **argv)
{
    int v, k; yyscan_t s; FILE *f;
    cookie_io_functions_t io = { 0, echo_write, 0, 0 };
    FILE *o = fopencookie(NULL, "w", io);
    g_argc = argc; g_argv = argv; g_next = 2; g_mode = argv[1][1];
    k = next_file();
    f = k >= 0 ? fopen(argv[k], "rb") : fopen("/dev/null", "rb");
    if (!f || !o) return 2;
    setvbuf(o, NULL, _IONBF, 0);
    if (yylex_init(&s)) return 3;
    g_scanner = s;
    yyset_in(f, s);
    yyset_out(o, s);
    for (;;) {
        while ((v = yylex(s)) != 0) printf("R %d\n", v);
        printf("R 0\n");
        if (!next_session()) break;
        k = next_file();
        f = k >= 0 ? fopen(argv[k], "rb") : fopen("/dev/null", "rb"); if (!f) return 2;
        if (g_mode == 'r') yyrestart(f, s); else yyset_in(f, s);
    }
    fflush(stdout);
    yylex_destroy(s);
    return 0;
}
"""


def make_stream_spec(prog, acts, eofs, rng, backend, lineno_on, extra_options=None, scopes=False, prologue="", eof_unq=None):
    """acts: {rule number: [ops]}, eofs: {sc number: [ops]}"""
    defs = {}
    # every third program of the C back ends is written with the legacy spellings
    _legacy[0] = backend in LEGACY and (len(prog['rules']) + len(acts) + len(eofs)) % 3 == 0
    _less_direct[0] = "array" in list(extra_options or [])
    _cut[0] = (backend in ('nr', 'r', 'c99') and len(prog['rules']) % 2 == 0 and "array" not in list(extra_options or []) and
               not any(o[0] == 'more' for ops in list(acts.values()) + list(eofs.values()) for o in ops))
    bol_obs = any(r.get('bol') for r in prog['rules'])
    nrules = len(prog['rules'])
    opts = ["nounput" if not any(o[0] == 'unput' for ops in list(acts.values()) + list(eofs.values()) for o in ops) else "",
            "stack"] + backends.BACKENDS[backend]['options'] + list(extra_options or [])
    if backend == 'c99':
        opts.append("rewrite")
    if lineno_on:
        opts.append("yylineno")
    if prog.get('caseins'):
        opts.append("case-insensitive")
    out = ["%option " + " ".join(o for o in opts if o)]
    top = TOP
    if backend in ('nr', 'r', 'c99'):
        top += "static void cut_(int n%s);\n" % ("" if backend == 'nr' else ", yyscan_t yyscanner")
    if backend == 'cxx':
        top += "#include <fstream>\n#include <sstream>\n#include <string>\n"
    a = api(backend)
    ln = a['lineno'] if (lineno_on or backend == 'nr') else "1"
    bol = a['atbol'] if bol_obs else "-1"
    # the default rule's ECHO becomes an event too
    if backend == 'c99':
        # yyecho is a function in this back end: the default rule's output goes through a cookie stream
        top = "#define _GNU_SOURCE 1\n" + top + "static void *g_scanner; static int g_defrule = %d; static int g_lineno_on = %d; static int g_bol_obs = %d;\n" % (
            nrules + 1, 1 if lineno_on else 0, 1 if bol_obs else 0)
    else:
        top += "#define yyecho() ev_tok(%d, %s, %s, %s, %s, %s)\n" % (nrules + 1, a['text'], a['leng'], a['start'], ln, bol)
    out.append("%{\n" + top + prologue + "%}")
    pats = [scanner.print_rule_pattern(r, rng, defs, posix=prog.get('posix', False)) for r in prog['rules']]
    for name in defs:
        out.append("%s %s" % (name, defs[name]))
    out.extend(scanner.sc_declarations(prog.get('scs', []), len(prog['rules'])))
    out.append("%%")
    for i, p in enumerate(pats):
        out.append("%s\t{ %s }" % (p, action_c(i + 1, acts.get(i + 1, []), backend, lineno_on, bol_obs)))
    unq = sorted(eof_unq or [])
    for sc, ops in sorted(eofs.items()):
        if sc in unq:
            continue
        body = 'printf("E %d\\n");' % (sc - 1) + " " + action_c(0, ops, backend, lineno_on, bol_obs)
        out.append("<%s><<EOF>>\t{ %s }" % (scanner.sc_name(sc), body))
    if unq:
        # one unqualified rule for all the conditions that have no <<EOF>> rule of their own (it follows the qualified ones)
        body = 'printf("E %%d\\n", (int) %s);' % api(backend)['start'] + " " + action_c(0, eofs[unq[0]], backend, lineno_on, bol_obs)
        out.append("<<EOF>>\t{ %s }" % body)
    out.append("%%")
    cut = {'nr': "static void cut_(int n) { yyless(n); }\n",
           'r': "static void cut_(int n, yyscan_t yyscanner) { struct yyguts_t *yyg = (struct yyguts_t *) yyscanner; yyless(n); (void) yyg; }\n",
           'c99': "static void cut_(int n, yyscan_t yyscanner) { yyless(n, yyscanner); }\n"}.get(backend, "")
    out.append(cut + EV_C + MAIN[backend])
    return "\n".join(out) + "\n"


def eof_rules(eofs, eof_unq):
    """the <<EOF>> rules in the order make_stream_spec prints them: [(scope or None, ops)]"""
    unq = sorted(eof_unq or [])
    rules = [([sc], ops) for sc, ops in sorted(eofs.items()) if sc not in unq]
    if unq:
        rules.append((None, eofs[unq[0]]))
    return rules


def stream_sx(acts, eofs, lineno_on, eof_unq=None):
    a = " ".join("(%d %s)" % (r, " ".join(op_sx(o) for o in ops)) for r, ops in sorted(acts.items()))
    e = " ".join("(%d %s)" % (s, " ".join(op_sx(o) for o in ops)) for s, ops in sorted(eofs.items()))
    er = " ".join("(%s %s)" % ("u" if sc is None else "(%s)" % " ".join(str(x) for x in sc), " ".join(op_sx(o) for o in ops))
                  for sc, ops in eof_rules(eofs, eof_unq))
    return "(stream_prog (acts (%s)) (eofs (%s)) (eofrules (%s)) (lineno %d))" % (a, e, er, 1 if lineno_on else 0)


def parse_events(out, bol_obs):
    evs = []
    for line in out.decode(errors="replace").splitlines():
        p = line.split()
        if not p:
            continue
        if p[0] == 'T' and len(p) == 7:
            ev = ['T'] + [int(x) for x in p[1:]]
            if not bol_obs:
                ev[6] = -1
            evs.append(tuple(ev))
        elif p[0] in ('I', 'P', 'R', 'E', 'F') and len(p) == 2:
            evs.append((p[0], int(p[1])))
        elif p[0] in ('S', 'END'):
            evs.append((p[0],))
        else:
            evs.append(('?', line[:60]))
    return evs


FATAL_MSGS = [("start-condition stack underflow", 1)]


def eval_stream_case(flex, workdir, case):
    """case: prog, acts, eofs, lineno, backend, flex_opts, sources (list of byte lists), cc_extra, seed"""
    from common import Rng
    res = {'problems': [], 'lockstep': [], 'streams': [], 'flex_opts': list(case['flex_opts'])}
    os.makedirs(workdir, exist_ok=True)
    prog = case['prog']
    backend = case['backend']
    bol_obs = any(r.get('bol') for r in prog['rules'])
    text = make_stream_spec(prog, case['acts'], case['eofs'], Rng(case['seed']).fork("print"), backend, case['lineno'], eof_unq=case.get('eof_unq'),
                            extra_options=case.get('extra_options'), prologue=case.get('prologue', ""))
    res['text'] = text
    with open(os.path.join(workdir, "s.l"), "w") as f:
        f.write(text)
    cfile = "s." + backends.BACKENDS[backend]['ext']
    rc, out, err = scanner.run_flex(flex, "s.l", cfile, case['flex_opts'], workdir)
    res['flex_rc'] = rc
    res['flex_err'] = err.decode(errors="replace")[:2000]
    if rc != 0:
        res['problems'].append(('flex-error', res['flex_err'][:300]))
        return res
    rc, out, err = scanner.compile_c(cfile, "s.exe", workdir, extra=(case.get('cc_extra') or []) + ["-I" + os.path.dirname(flex)], backend=backend)
    if rc != 0:
        res['problems'].append(('compile-error', err.decode(errors="replace")[:600]))
        return res
    try:
        with open(os.path.join(workdir, cfile), errors="replace") as f:
            t = tables.parse_scanner(f.read())
        res['lastdfa'] = t.get('lastdfa')
    except Exception:
        pass
    queries = []
    runs = []
    run_chunks = []
    allruns = case.get('runs') or [{'sessions': [srcs], 'mode': 'a'} for srcs in case['sources']]
    for si, rn in enumerate(allruns):
        args = ["-" + rn.get('mode', 'a')]
        for sj, sess in enumerate(rn['sessions']):
            if sj:
                args.append("--")
            for j, w in enumerate(sess):
                pth = os.path.join(workdir, "in%d_%d_%d.bin" % (si, sj, j))
                with open(pth, "wb") as f:
                    f.write(bytes(w))
                args.append(pth)
        rc, out, err = run([os.path.join(workdir, "s.exe")] + args, timeout=(20 if case.get("env") else 6), env=case.get('env'))
        evs = parse_events(out, bol_obs)
        errs = err.decode(errors="replace")
        if case.get('env'):
            res.setdefault('san_stderr', []).append(errs[:4000])
        for msg, code in FATAL_MSGS:
            if msg in errs:
                evs.append(('F', code))
        runs.append((rc, evs, errs[:200]))
        total = sum(len(w) for sess in rn['sessions'] for w in sess)
        if rn.get('mode') == 'd':
            # yylex_destroy() between the sessions: every session is a run of a fresh scanner
            idx = []
            for sess in rn['sessions']:
                idx.append(len(queries))
                queries.append("(sessions %d (%s))" % (2 * total + 50, "(" + " ".join("(" + " ".join(str(b) for b in w) + ")" for w in sess) + ")"))
            run_chunks.append(idx)
        else:
            run_chunks.append([len(queries)])
            queries.append("(sessions %d (%s))" % (2 * total + 50, " ".join(
                "(" + " ".join("(" + " ".join(str(b) for b in w) + ")" for w in sess) + ")" for sess in rn['sessions'])))
    # C08_bytes_conserved on the same runs: do all steps keep yytext defined (hypothesis), is consumed ++ unread the input (conclusion)
    nconserve = 0
    nsess_queries = len(queries)
    for rn in allruns:
        if len(rn['sessions']) == 1:
            total = sum(len(w) for w in rn['sessions'][0])
            queries.append("(conserve %d (%s))" % (2 * total + 50, " ".join("(" + " ".join(str(b) for b in w) + ")" for w in rn['sessions'][0])))
            nconserve += 1
    sx = "(case %s\n%s\n(bolobs %d)\n(queries (%s)))\n" % (scanner.sx_program(prog), stream_sx(case['acts'], case['eofs'], case['lineno'], case.get('eof_unq')),
                                                          1 if bol_obs else 0, "\n".join(queries))
    rc, out, err = scanner.run_driver(sx, workdir, timeout=120)
    if rc == "timeout":
        res['problems'].append(('inconclusive', 'driver timeout'))
        return res
    if rc != 0:
        res['problems'].append(('driver-error', "rc=%s %s" % (rc, err[:300])))
        return res
    chunks = out.split("END\n")
    cons = [c.strip() for c in chunks[nsess_queries:nsess_queries + nconserve]]
    res['conserve_hypothesis_holds'] = sum(1 for c in cons if "ok=true" in c)
    res['conserve_runs'] = len(cons)
    for c in cons:
        if "ok=true" in c and "eq=true" not in c:
            res['problems'].append(('driver-error', "the extracted machine contradicts C08_checked_runs_are_instances: " + c))
    for si, (rn, (rrc, revs, rerr)) in enumerate(zip(allruns, runs)):
        sources = [w for sess in rn['sessions'] for w in sess]
        mevs = []
        for ci in run_chunks[si]:
            part = parse_events(chunks[ci].encode(), bol_obs) if ci < len(chunks) else []
            mevs += part
            if any(e[0] == 'F' for e in part):
                break
        # a fatal error ends the process: nothing after it (later sessions included) can be observed
        for fi, e in enumerate(mevs):
            if e[0] == 'F':
                mevs = mevs[:fi + 1]
                break
        fatal_expected = any(e[0] == 'F' for e in mevs)
        ok = (revs == mevs) or (fatal_expected and revs[:len(mevs)] == mevs)
        # after a fatal error the real scanner exits without the final R 0
        if fatal_expected and rrc == 0:
            ok = False
        if not fatal_expected and rrc != 0:
            ok = False
        if not ok and "flex scanner push-back overflow" in rerr and not fatal_expected:
            # the documented fatal error of yyunput() when the buffer cannot hold the pushed-back text (the buffer is not
            # enlarged for it): accepted with a small YY_BUF_SIZE, in an action that calls yyunput, after a run that agrees
            # with the machine up to that action (when exactly it must occur is the subject of the unput grid, coq/Unput.v)
            small = any(o.startswith("-DYY_BUF_SIZE=") and int(o.split("=")[1]) <= 64 for o in (case.get('cc_extra') or []))
            # a buffer made by yy_scan_bytes is exactly as large as its content (C08_unput_after_scan_bytes_overflows)
            small = small or rn.get('mode') == 'b'
            lastt = [e for e in revs if e[0] == 'T']
            in_unput_action = bool(lastt) and any(o[0] == 'unput' for o in case['acts'].get(lastt[-1][1], []))
            if small and in_unput_action and revs == mevs[:len(revs)]:
                ok = True
                res['pushback_overflows_documented'] = res.get('pushback_overflows_documented', 0) + 1
        res['streams'].append({'input': [bytes(w).hex() for w in sources], 'sc': 1, 'real': [(e[1], e[2]) for e in revs if e[0] == 'T'],
                               'valid': ok, 'text_ok': True})
        if not ok:
            # first difference
            k = 0
            while k < len(revs) and k < len(mevs) and revs[k] == mevs[k]:
                k += 1
            res.setdefault('traces', []).append({'real': [list(e) for e in revs[:k + 4]], 'model': [list(e) for e in mevs[:k + 4]]})
            res.setdefault('first_diff', []).append({'k': k, 'real': list(revs[k]) if k < len(revs) else None,
                                                     'model': list(mevs[k]) if k < len(mevs) else None,
                                                     'nsources': max(len(sess) for sess in rn['sessions'])})
            res['problems'].append(('event-mismatch', "sessions=%s mode=%s rc=%s at event %d: real=%s model=%s stderr=%s" % (
                [[bytes(w).hex() for w in sess] for sess in rn['sessions']], rn.get('mode'), rrc, k, revs[k:k + 3], mevs[k:k + 3], rerr[:100])))
    return res


# ------------------------------------------------------------------ generation
def gen_stream_case(rng, cid, focus, backend='nr', flex_opts=None, lineno=None, nsources=None):
    """focus: subset of {'stack','edit','eof','lineno','wrap'} steering which operations appear."""
    prog = rulesets.gen_program(rng, trailing=('trail' in focus), max_scs=2, csize=256)
    # the stream machine splits fixed-length trailing context only: drop the context of rules flex treats as variable
    for r in prog['rules']:
        if r.get('trail') not in (None, '$') and patgen.fixed_len(r['head']) is None and patgen.fixed_len(r['trail']) is None:
            r['trail'] = None
    nsc = 1 + len(prog.get('scs', []))
    if 'stack' in focus and nsc == 1:
        prog['scs'] = [("SC2", rng.chance(50)), ("SC3", rng.chance(50))]
        nsc = 3
        for r in prog['rules']:
            if rng.chance(40):
                r['scs'] = sorted(set(rng.rng(1, nsc) for _ in range(rng.rng(1, 2))))
    uses_more = 'edit' in focus and (rng.chance(35) or 'more' in focus)
    acts = {}
    for i, r in enumerate(prog['rules']):
        ml = patgen.minlen(r['head'])
        ops = []
        n = rng.weighted([(0, 3), (1, 4), (2, 3), (3, 1)])
        did_unput = False
        budget = ml - 1          # bytes this action may give back and still make progress
        for _ in range(n):
            kinds = []
            if 'stack' in focus:
                kinds += ['begin'] * 3 + ['push'] * 3 + ['pop'] * 2 + ['pushtop'] * 2
            if 'edit' in focus:
                kinds += ['input'] * 2
                if budget >= 1 and not did_unput:
                    kinds += ['less'] * 3
                if budget >= 1:
                    kinds += ['unput'] * 3
                if uses_more and not did_unput:
                    kinds += ['more'] * 2
                kinds += ['setbol']
            if 'lineno' in focus:
                kinds += ['input', 'begin']
                if budget >= 1 and not did_unput:
                    kinds += ['less']
                if budget >= 1:
                    kinds += ['unput', 'unput_nl']
            if not kinds:
                kinds = ['begin', 'return']
            kinds += ['return']
            k = rng.pick(kinds)
            if k in ('less', 'more') and did_unput:
                continue        # yytext is only defined before the stream is edited through yyunput / yyinput
            if k in ('input', 'unput', 'unput_nl') and any(o[0] == 'more' for o in ops):
                continue        # yymore() keeps "the current yytext": the stream is not edited after it in the same action
            if k == 'begin':
                ops.append(('begin', rng.rng(1, nsc)))
            elif k == 'push':
                ops.append(('push', rng.rng(1, nsc)))
            elif k == 'pop':
                # mostly after something was pushed in this action; a bare pop may underflow (fatal expected)
                if rng.chance(80):
                    ops.append(('push', rng.rng(1, nsc)))
                ops.append(('pop',))
            elif k == 'pushtop':
                ops.append(('push', rng.rng(1, nsc)))
                ops.append(('top',))
            elif k == 'input':
                ops.append(('input', rng.rng(1, 3)))
                did_unput = True
            elif k == 'less':
                if uses_more or rng.chance(50) or budget < ml - 1:
                    k2 = rng.rng(1, budget)
                    ops.append(('less', 'minus', k2))
                    budget -= k2
                else:
                    ops.append(('less', 'const', rng.rng(1, 3)))
                    budget = 0
            elif k in ('unput', 'unput_nl'):
                cnt = rng.rng(1, min(3, budget))
                budget -= cnt
                pool = [97, 98, 10, 0, 65, 48, 200] if k == 'unput' else [10, 10, 97]
                ops.append(('unput', [rng.pick(pool) for _ in range(cnt)]))
                did_unput = True
            elif k == 'more':
                ops.append(('more',))
            elif k == 'setbol':
                ops.append(('setbol', rng.chance(50)))
            elif k == 'return':
                ops.append(('return', rng.rng(1, 9)))
                break
        if rng.chance(2) and 'post' not in focus:
            ops.append(('terminate',))
        if ops:
            acts[i + 1] = ops
    eofs = {}
    if 'eof' in focus:
        for sc in range(1, nsc + 1):
            if rng.chance(50):
                ops = []
                if rng.chance(30):
                    ops += [('push', rng.rng(1, nsc)), ('top',), ('pop',)]
                if rng.chance(30):
                    ops.append(('begin', rng.rng(1, nsc)))
                ops.append(('terminate',))
                eofs[sc] = ops
    eof_unq = None
    if 'eof' in focus and rng.chance(50):
        # an unqualified <<EOF>> rule: it applies to exactly the conditions that have no rule of their own
        rest = [sc for sc in range(1, nsc + 1) if sc not in eofs]
        if rest:
            ops = []
            if rng.chance(30):
                ops.append(('begin', rng.rng(1, nsc)))
            ops.append(('terminate',))
            for sc in rest:
                eofs[sc] = list(ops)
            eof_unq = rest
    if lineno is None:
        lineno = 'lineno' in focus or rng.chance(40)
    ns = nsources or (rng.weighted([(1, 5), (2, 3), (3, 2)]) if 'wrap' in focus or 'eof' in focus else 1)
    sources = []
    for _ in range(3):
        ins = rulesets.gen_inputs(prog, rng.fork("src%d" % len(sources)), count=ns, maxlen=rng.pick([20, 60, 150]))
        if 'eof' in focus and rng.chance(25):
            ins[rng.below(len(ins))] = []         # an empty source
        sources.append(ins)
    opts = list(flex_opts) if flex_opts is not None else []
    if not any(o in ("-7", "-8") for o in opts):
        opts.append("-8")
    runs = None
    if 'post' in focus:
        # after yylex returned 0 at the end of input the caller supplies a new source and calls yylex again
        runs = []
        for k in range(3):
            nsess = rng.rng(2, 3)
            sess = []
            for j in range(nsess):
                ins = rulesets.gen_inputs(prog, rng.fork("post%d_%d" % (k, j)), count=rng.weighted([(1, 4), (2, 2)]), maxlen=rng.pick([10, 40, 100]))
                if rng.chance(40) and ins[-1]:
                    # end inside a token that needs look-ahead: cut the last source in the middle of a rule's match
                    r = rng.pick(prog['rules'])
                    import scanner as _sc
                    m = _sc.sample(r['head'], rng, prog.get('caseins', False), False, 256)
                    ins[-1] = ins[-1] + m[:max(1, len(m) - 1)]
                sess.append(ins)
            runs.append({'sessions': sess, 'mode': rng.pick(['a', 'r'])})
    return {'id': cid, 'runs': runs, 'prog': prog, 'acts': acts, 'eofs': eofs, 'eof_unq': eof_unq, 'lineno': lineno, 'backend': backend, 'flex_opts': opts,
            'sources': sources, 'seed': rng.s, 'focus': sorted(focus), 'text': ''}
