"""Dispatcher: bin/check Cnn [quick|thorough] [--replay file]"""
import importlib
import os
import sys

sys.path.insert(0, os.path.dirname(os.path.abspath(__file__)))


def main():
    args = sys.argv[1:]
    if not args:
        print("usage: check Cnn [quick|thorough] [--replay file]")
        return 2
    prop = args[0].upper()
    tier = os.environ.get("VERIF_TIER", "quick")
    replay = None
    i = 1
    while i < len(args):
        if args[i] in ("quick", "thorough"):
            tier = args[i]
        elif args[i] == "--tier":
            i += 1
            tier = args[i]
        elif args[i] == "--replay":
            i += 1
            replay = args[i]
        i += 1
    mod = importlib.import_module("props." + prop.lower())
    if replay:
        return mod.replay(replay)
    return mod.main(tier)


if __name__ == "__main__":
    sys.exit(main())
