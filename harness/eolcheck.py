"""The emitted table yy_rule_can_match_eol against coq/EolTable.v (property C09): no scanner is compiled, the table of
every generated rule set is judged by the extracted, proved eol_ok (C09_eol_table_covers_every_newline)."""
import os

import backends
import engine
import rulesets
import scanner
import tables
from common import Rng


def eol_cases(rng, tier):
    n = 150 if tier == "quick" else 3000
    cases = []
    for i in range(n):
        r = rng.fork("eol%d" % i)
        prog = rulesets.gen_program(r, trailing=(i % 3 == 0), max_scs=2, csize=r.pick([256, 256, 128]))
        # shapes that reach a newline only indirectly: negated classes, (?s:.), classes minus something, trailing context
        extra = r.pick([None, ('cls', ('set', True, [('ch', 97)])), ('flags', False, False, True, False, ('any',), False),
                        ('cat', ('c', 120), ('opt', ('c', 10))), ('cls', ('diff', ('set', False, [('rg', 0, 40)]), ('set', False, [('ch', 9)])))])
        if extra is not None:
            prog['rules'].insert(r.below(len(prog['rules']) + 1), {'head': extra, 'bol': False, 'scs': None, 'trail': None})
        if r.chance(30):
            prog['rules'].append({'head': ('c', 121), 'bol': False, 'scs': None, 'trail': r.pick(['$', ('star', ('c', 10)), ('c', 10)])})
        be = r.weighted([('nr', 4), ('r', 2), ('c99', 2), ('cxx', 2)])
        opts = list(r.pick([[], ["-Ce"], ["-Cm"], ["-Cf"], ["-CF"], ["-C"]]))
        if be == 'cxx' and "-CF" in opts:
            opts = ["-Cf"]
        cases.append({'id': "z%d" % i, 'kind': 'eol', 'prog': prog, 'backend': be, 'flex_opts': opts + ["-8" if prog['csize'] == 256 else "-7"],
                      'seed': r.s, 'text': '', 'focus': ['eol-table'], 'extra_options': [], 'sources': []})
    return cases


def eol_worker(case):
    import tokcase
    wd = os.path.join(engine._ROOT, "c%s" % case['id'])
    os.makedirs(wd, exist_ok=True)
    res = {'problems': [], 'lockstep': [], 'streams': [], 'id': case['id'], 'eol_tables': 0}
    prog, be = case['prog'], case['backend']
    try:
        text = scanner.make_spec(prog, Rng(case['seed']).fork("print"),
                                 options=["yylineno"] + (["case-insensitive"] if prog.get('caseins') else []), backend=be)
        res['text'] = text
        with open(os.path.join(wd, "s.l"), "w") as f:
            f.write(text)
        cfile = "s." + backends.BACKENDS[be]['ext']
        rc, out, err = scanner.run_flex(engine._FLEX, "s.l", cfile, case['flex_opts'], wd)
        if rc != 0:
            exp = tokcase.expected_refusal(prog, case['flex_opts'], be, wd)
            if not (exp and any(m in err.decode(errors='replace') for m in exp)):
                res['problems'].append(('flex-error', err.decode(errors='replace')[:300]))
            return res
        with open(os.path.join(wd, cfile), errors="replace") as f:
            t = tables.parse_scanner(f.read())
        arr = t['arrays'].get('yy_rule_can_match_eol')
        if arr is None:
            res['problems'].append(('eol-table-missing', "%option yylineno scanner without yy_rule_can_match_eol"))
            return res
        data = arr['data']
        nr = len(prog['rules'])
        if len(data) < nr + 2:
            res['problems'].append(('eol-table-short', "yy_rule_can_match_eol has %d entries for %d rules and the default rule" % (len(data), nr)))
            return res
        q = "(eolcheck (%s))" % " ".join(str(int(x != 0)) for x in data[1:nr + 2])
        rc, out, err = scanner.run_driver("(case %s\n(queries (%s)))\n" % (scanner.sx_program(prog), q), wd, timeout=60)
        if rc != 0:
            res['problems'].append(('driver-error', "rc=%s %s" % (rc, err[:300])))
            return res
        line = next((l for l in out.splitlines() if l.startswith("eolcheck")), "eolcheck ?")
        res['eol_tables'] = 1
        if not line.startswith("eolcheck OK"):
            failing = find_failing_input(case, wd, line)
            res['problems'].append(('eol-table', "yy_rule_can_match_eol is not set for a rule that can match a newline (premise of "
                                    "C09_eol_table_covers_every_newline fails): %s; table=%s%s" % (
                                        line, data[:nr + 2], ("; FAILING INPUT " + failing) if failing else "")))
            res['failing_input'] = failing
    except Exception as ex:
        import traceback
        res['problems'].append(('harness-error', repr(ex) + traceback.format_exc()[-300:]))
    return res


def find_failing_input(case, wd, line):
    """The witnesses of the proved nl_word (a match of the rule that contains a newline) are scanned by the compiled scanner,
    every action printing the yylineno it sees: a wrong number makes the witness a failing input."""
    import re
    import tokcase
    from common import run
    m = re.search(r"witnesses=\[([^\]]*)\]", line)
    if not m or not m.group(1):
        return None
    prog, be = case['prog'], case['backend']
    nrules = len(prog['rules'])
    lnx = "yyget_lineno(yyscanner)" if be in ('c99', 'go') else "yylineno"
    actions = {i: "ln(); tok(%d);" % (i + 1) for i in range(nrules)}
    text = scanner.make_spec(prog, Rng(case['seed']).fork("print"),
                             options=["yylineno"] + (["case-insensitive"] if prog.get('caseins') else []), actions=actions,
                             extra_top='#define ln() printf("L%%d\\n", (int) (%s))\n' % lnx, backend=be)
    with open(os.path.join(wd, "w.l"), "w") as f:
        f.write(text)
    cfile = "w." + backends.BACKENDS[be]['ext']
    rc, out, err = scanner.run_flex(engine._FLEX, "w.l", cfile, case['flex_opts'], wd)
    if rc != 0:
        return None
    rc, out, err = scanner.compile_c(cfile, "w.exe", wd, extra=["-I" + os.path.dirname(engine._FLEX)], backend=be)
    if rc != 0:
        return None
    for item in m.group(1).split(","):
        rule, word = item.split("=")
        w = [int(x) for x in word.split(".") if x != ""]
        for pre in ([], [10]):          # also at the beginning of a line after a newline (rules anchored with ^)
            data = pre + w + [10]
            ip = os.path.join(wd, "w.bin")
            with open(ip, "wb") as f:
                f.write(bytes(data))
            rc, out, err = run([os.path.join(wd, "w.exe"), ip, "0"], timeout=20)
            if rc != 0:
                continue
            out2, lns = tokcase._split_lines(out)
            toks = scanner.parse_tokens(out2)
            pos = 0
            for t, l in zip(toks, lns):
                if not isinstance(t[0], int):
                    break
                pos += t[1]
                if l is not None and l != 1 + data[:pos].count(10):
                    return "%s (rule %s): the action of rule %d saw yylineno %d after %d newline(s)" % (bytes(data).hex(), rule, t[0], l, data[:pos].count(10))
    return None


def judge_eol(ck, cases, results, stats):
    stats['eol_tables_checked'] = sum(r.get('eol_tables', 0) for c, r in zip(cases, results) if c.get('kind') == 'eol')
    for c, r in zip(cases, results):
        if c.get('kind') != 'eol':
            continue
        c['text'] = r.get('text', '')
        for kind, msg in r['problems']:
            stats.setdefault('problem_kinds', {})
            stats['problem_kinds'][kind] = stats['problem_kinds'].get(kind, 0) + 1
        if not r['problems']:
            continue
        kind, msg = r['problems'][0]
        ck.violation("%s:%s" % (kind, engine.prog_key(c)), msg[:600],
                     {'spec': c['text'], 'flex_opts': c['flex_opts'], 'backend': c['backend'],
                      'theorem': 'C09_eol_table_covers_every_newline (premise eol_ok = true)' if kind == 'eol-table' else None,
                      'detail': [list(p) for p in r['problems'][:3]],
                      'failing_input': r.get('failing_input'),
                      'how': "flex <opts> -o s.c s.l (with %option yylineno); read yy_rule_can_match_eol from s.c; scan the failing input: "
                             "every action prints L<yylineno> before its event"},
                     no_input=(kind != 'eol-table' or not r.get('failing_input')))
