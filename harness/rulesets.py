"""Random rule sets (programs) and inputs for the tokenisation properties."""
import patgen
import scanner


def gen_program(rng, nrules=None, trailing=False, max_scs=2, csize=None, caseins=None, depth=None, bol_pct=20, bars=0):
    csize = csize or (256 if rng.chance(85) else 128)
    caseins = rng.chance(15) if caseins is None else caseins
    nsc_extra = rng.weighted([(0, 6), (1, 3), (2, 2)]) if max_scs else 0
    nsc_extra = min(nsc_extra, max_scs)
    scs = [("SC%d" % (i + 2), rng.chance(50)) for i in range(nsc_extra)]
    g = patgen.Gen(rng, csize=csize, max_depth=depth or rng.pick([2, 3, 3, 4]))
    n = nrules or rng.weighted([(1, 1), (2, 2), (3, 3), (4, 3), (6, 2), (9, 1)])
    rules = []
    for _ in range(n):
        head = g.pat()
        tries = 0
        while patgen.nullable(head) and tries < 5 and rng.chance(85):
            head = g.pat()
            tries += 1
        r = {'head': head, 'bol': rng.chance(bol_pct), 'scs': None, 'trail': None}
        if nsc_extra:
            x = rng.below(100)
            if x < 15:
                r['scs'] = '*'
            elif x < 60:
                k = rng.rng(1, nsc_extra + 1)
                r['scs'] = sorted(set(rng.rng(1, nsc_extra + 1) for _ in range(k)))
        if trailing and rng.chance(45):
            if rng.chance(25):
                r['trail'] = '$'
            else:
                t = g.pat(rng.pick([1, 2]))
                tries = 0
                while patgen.nullable(t) and tries < 8:
                    t = g.pat(rng.pick([1, 2]))
                    tries += 1
                if not patgen.nullable(t):
                    r['trail'] = t
            # an empty head with trailing context is a zero-length token (the scanner would not advance)
            tries = 0
            while r['trail'] is not None and patgen.nullable(r['head']) and tries < 20:
                r['head'] = g.pat()
                tries += 1
            if patgen.nullable(r['head']):
                r['trail'] = None
        rules.append(r)
    for i, r in enumerate(rules[:-1]):
        if bars and rng.chance(bars):
            r['bar'] = True
    return {'csize': csize, 'caseins': caseins, 'scs': scs, 'rules': rules}


def gen_inputs(prog, rng, count=6, maxlen=160):
    """Inputs made of random members of the rules' languages glued together with
    noise, so that accepting paths, back-ups and the default rule all occur."""
    csize = prog['csize']
    noise = [97, 98, 99, 65, 66, 48, 10, 32, 0, 120]
    if csize > 128:
        noise.append(200)
    outs = []
    for i in range(count):
        w = []
        target = rng.pick([3, 10, 40, maxlen])
        while len(w) < target:
            x = rng.below(100)
            if x < 70 and prog['rules']:
                r = rng.pick(prog['rules'])
                s = scanner.sample(r['head'], rng, prog.get('caseins', False), False, csize)
                if r.get('trail') == '$':
                    s = s + [10]
                elif r.get('trail') is not None and rng.chance(70):
                    s = s + scanner.sample(r['trail'], rng, prog.get('caseins', False), False, csize)
                if rng.chance(15) and s:
                    s = s[:rng.below(len(s)) + 1]          # truncated: forces back-up
                w += s
            else:
                w.append(rng.pick(noise))
        w = [b for b in w[:maxlen] if b < csize]
        outs.append(w)
    return outs


def describe(prog, rng_seed_note=""):
    return {'csize': prog['csize'], 'caseins': prog.get('caseins', False), 'scs': prog.get('scs', []),
            'rules': [{'scs': r.get('scs'), 'bol': r.get('bol'), 'head': patgen.sx_pat(r['head']),
                       'trail': (r['trail'] if r.get('trail') in (None, '$') else patgen.sx_pat(r['trail']))}
                      for r in prog['rules']]}
